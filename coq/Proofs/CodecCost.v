(* E1 codec, C02: a positive memory bound.  The allocation accounted by the model is at most
   (rate) * (bytes consumed) + (constant) on success and (rate) * (input length) + (constant) + (slack) on failure,
   where the rate grows by a fixed amount per nesting level (the element slots of slices and Variant arrays are
   amortised against the bytes their elements occupy; the reshaping of multi-dimensional arrays costs up to 7 * L bytes
   per byte for inputs of at most L bytes: known finding variant-dimension-count). *)
From Coq Require Import NArith ZArith List Bool Lia ZifyN ZifyNat ZifyBool.
From Coq.Strings Require Import Byte.
From Opcua Require Import Model.CodecTypes Model.Codec Model.CodecWf Proofs.CodecTotal.
Import ListNotations.
Open Scope N_scope.

Definition ln (bs : bytes) : N := N.of_nat (length bs).

Section Cost.
  Variable L : N.   (* bound on the input length *)

  Definition sb (s : bool) : nat := if s then 1%nat else 0%nat.

  (* s = true: a success consumes at least one byte *)
  Definition bnd_at {A} (a c e : N) (s : bool) (d : dec A) (bs : bytes) : Prop :=
    match d bs with
    | Ok _ rest al => (length rest + sb s <= length bs)%nat /\ al <= a * (ln bs - ln rest) + c
    | Err _ al => al <= a * ln bs + c + e
    | Panic al => al <= a * ln bs + c + e
    | OutOfFuel => True
    end.
  Definition bnd {A} (a c e : N) (s : bool) (d : dec A) : Prop := forall bs, ln bs <= L -> bnd_at a c e s d bs.

  Lemma bnd_ret : forall A a e (x : A), bnd a 0 e false (ret x).
  Proof. intros A a e x bs _. unfold bnd_at. cbn. split; [lia|]. apply N.le_0_l. Qed.
  Lemma bnd_fail : forall A a e s err, bnd a 0 e s (@fail A err).
  Proof. intros A a e s err bs _. unfold bnd_at. cbn. lia. Qed.
  Lemma bnd_panic : forall A a e s, bnd a 0 e s (@panic A).
  Proof. intros A a e s bs _. unfold bnd_at. cbn. lia. Qed.
  Lemma bnd_tick : forall a e k, bnd a k e false (tick k).
  Proof. intros a e k bs _. unfold bnd_at. cbn. split; [lia|]. lia. Qed.
  Lemma bnd_remaining : forall a e, bnd a 0 e false remaining.
  Proof. intros a e bs _. unfold bnd_at. cbn. split; [lia|]. apply N.le_0_l. Qed.

  Lemma bnd_mono : forall A a c e s a' c' e' s' (d : dec A), bnd a c e s d -> a <= a' -> c <= c' -> e <= e' ->
    (s' = true -> s = true) -> bnd a' c' e' s' d.
  Proof.
    intros A a c e s a' c' e' s' d H Ha Hc He Hs bs HL. specialize (H bs HL). unfold bnd_at in *. destruct (d bs) as [x rest al|err al|al|]; try exact I.
    - destruct H as [H1 H2]. split.
      + destruct s'; [rewrite (Hs eq_refl) in H1; exact H1|destruct s; cbn [sb] in *; lia].
      + pose proof (N.mul_le_mono_r a a' (ln bs - ln rest) Ha). lia.
    - pose proof (N.mul_le_mono_r a a' (ln bs) Ha). lia.
    - pose proof (N.mul_le_mono_r a a' (ln bs) Ha). lia.
  Qed.

  Lemma bnd_bind : forall A B a c1 c2 e s1 s2 (m : dec A) (f : A -> dec B),
    bnd a c1 e s1 m -> (forall x, bnd a c2 e s2 (f x)) -> bnd a (c1 + c2) e (s1 || s2) (bind m f).
  Proof.
    intros A B a c1 c2 e s1 s2 m f Hm Hf bs HL. unfold bnd_at. unfold bind. specialize (Hm bs HL). unfold bnd_at in Hm.
    destruct (m bs) as [x r1 al1|err al1|al1|]; try exact I; try lia.
    destruct Hm as [L1 B1]. assert (HL1 : ln r1 <= L) by (unfold ln in *; lia).
    specialize (Hf x r1 HL1). unfold bnd_at in Hf. destruct (f x r1) as [y r2 al2|err al2|al2|]; cbn [add_al]; try exact I.
    - destruct Hf as [L2 B2]. split; [destruct s1, s2; cbn [sb orb] in *; lia|].
      assert (L1' : (length r1 <= length bs)%nat) by lia. assert (L2' : (length r2 <= length r1)%nat) by lia.
      set (u := ln bs - ln r1) in *. set (v := ln r1 - ln r2) in *.
      assert (E : ln bs - ln r2 = u + v) by (unfold u, v, ln; lia). rewrite E. lia.
    - assert (L1' : (length r1 <= length bs)%nat) by lia.
      set (u := ln bs - ln r1) in *. assert (E : ln bs = u + ln r1) by (unfold u, ln; lia). rewrite E. lia.
    - assert (L1' : (length r1 <= length bs)%nat) by lia.
      set (u := ln bs - ln r1) in *. assert (E : ln bs = u + ln r1) by (unfold u, ln; lia). rewrite E. lia.
  Qed.

  Lemma bnd_if : forall A a c e s (b : bool) (x y : dec A), bnd a c e s x -> bnd a c e s y -> bnd a c e s (if b then x else y).
  Proof. intros A a c e s [|] x y Hx Hy; assumption. Qed.

  (* a decoder that consumes at least one byte when it succeeds: its constant can be charged to that byte *)
  Lemma bnd_absorb : forall A a c e (d : dec A), bnd a c e true d -> bnd (a + c) 0 (e + c) true d.
  Proof.
    intros A a c e d H bs HL. specialize (H bs HL). unfold bnd_at in *. destruct (d bs) as [x rest al|err al|al|] eqn:E; try exact I.
    - destruct H as [H1 H2]. split; [exact H1|]. cbn [sb] in H1.
      set (u := ln bs - ln rest) in *. assert (Hu : 1 <= u) by (unfold u, ln; lia).
      rewrite N.mul_add_distr_r. pose proof (N.mul_le_mono_l 1 u c Hu). lia.
    - rewrite N.mul_add_distr_r. lia.
    - rewrite N.mul_add_distr_r. lia.
  Qed.

  Lemma read_n_bnd : forall a e k, bnd a 0 e (1 <=? k)%Z (read_n k).
  Proof.
    intros a e k bs _. unfold bnd_at, read_n. destruct (k <? 0)%Z eqn:E0; [cbn; lia|]. destruct (blen bs <? k)%Z eqn:E1; [cbn; lia|].
    split; [|apply N.le_0_l]. rewrite skipn_length. unfold blen in E1. destruct (1 <=? k)%Z eqn:E2; cbn [sb]; lia.
  Qed.
  Lemma read_u_bnd : forall a e w, bnd a 0 e (Nat.leb 1 w) (read_u w).
  Proof.
    intros a e w. unfold read_u. eapply bnd_mono; [apply (bnd_bind _ _ a 0 0 e (1 <=? Z.of_nat w)%Z false); [apply read_n_bnd|intros d; apply bnd_ret]|lia|lia|lia|].
    rewrite orb_false_r. intros H. apply Nat.leb_le in H. apply Z.leb_le. lia.
  Qed.
  Lemma read_i_bnd : forall a e w, bnd a 0 e (Nat.leb 1 w) (read_i w).
  Proof.
    intros a e w. unfold read_i. eapply bnd_mono; [apply (bnd_bind _ _ a 0 0 e (1 <=? Z.of_nat w)%Z false); [apply read_n_bnd|intros d; apply bnd_ret]|lia|lia|lia|].
    rewrite orb_false_r. intros H. apply Nat.leb_le in H. apply Z.leb_le. lia.
  Qed.
  Lemma read_byte_bnd : forall a e, bnd a 0 e true read_byte.
  Proof. intros a e. apply (read_u_bnd a e 1). Qed.
  Lemma read_bytes_bnd : forall a e, bnd a 0 e true read_bytes.
  Proof.
    intros a e. unfold read_bytes. apply (bnd_bind _ _ a 0 0 e true false); [apply (read_u_bnd a e 4)|]. intros n.
    destruct ((n =? 0)%Z || (n =? null32)%Z); [apply bnd_ret|].
    eapply bnd_mono; [apply (bnd_bind _ _ a 0 0 e (1 <=? n)%Z false); [apply read_n_bnd|intros d; apply bnd_ret]|lia|lia|lia|discriminate].
  Qed.
  Lemma read_time_bnd : forall a e, bnd a 0 e true read_time.
  Proof.
    intros a e. unfold read_time. apply (bnd_bind _ _ a 0 0 e true false); [apply (read_n_bnd a e 8)|]. intros d. cbv zeta.
    destruct (unle d =? 0)%Z; [apply bnd_ret|]. destruct ((to_signed 8 (unle d) - time_offset) * 100 =? zero_time_ns)%Z; apply bnd_ret.
  Qed.

  (* string(ReadBytes()) copies what it read: one byte allocated per byte consumed *)
  Lemma read_string_bnd : forall a e, 1 <= a -> bnd a 0 e true read_string.
  Proof.
    intros a e Ha bs HL. unfold bnd_at, read_string, bind.
    pose proof (read_bytes_bnd 0 0 bs HL) as Hb. unfold bnd_at in Hb.
    destruct (read_bytes bs) as [o r1 al1|err al1|al1|] eqn:E; try lia.
    destruct Hb as [L1 B1]. assert (al1 = 0) by lia. subst al1.
    destruct o as [d|]; cbn; [|split; [exact L1|apply N.le_0_l]].
    split; [exact L1|]. cbn [sb] in L1.
    (* d is a prefix of what follows the length: its length is at most the bytes consumed *)
    assert (Hd : (length d + length r1 <= length bs)%nat).
    { unfold read_bytes, bind in E. destruct (read_u 4 bs) as [n r0 al0|? ?|?|] eqn:Eu; try discriminate.
      assert (L0 : (length r0 <= length bs)%nat).
      { pose proof (read_u_bnd 0 0 4 bs HL) as H0. unfold bnd_at in H0. rewrite Eu in H0. cbn [sb Nat.leb] in H0. lia. }
      destruct ((n =? 0)%Z || (n =? null32)%Z); [cbn in E; discriminate|].
      destruct (read_n n r0) as [d' r' al'|? ?|?|] eqn:En; cbn in E; try discriminate.
      inversion E; subst d' r'. unfold read_n in En. destruct (n <? 0)%Z; [discriminate|].
      destruct (blen r0 <? n)%Z eqn:El; [discriminate|]. inversion En; subst. rewrite firstn_length, skipn_length.
      apply Z.ltb_ge in El. unfold blen in El. lia. }
    set (u := ln bs - ln r1). assert (N.of_nat (length d) <= u) by (unfold u, ln; lia).
    pose proof (N.mul_le_mono_r 1 a u Ha). lia.
  Qed.

  Lemma dec_n_bnd : forall A a e s (d : dec A) n, bnd a 0 e s d -> bnd a 0 e false (dec_n d n).
  Proof.
    intros A a e s d n H. induction n as [|n IH]; cbn [dec_n]; [apply bnd_ret|].
    eapply bnd_mono; [apply (bnd_bind _ _ a 0 0 e s false); [exact H|]|lia|lia|lia|discriminate].
    intros x. apply (bnd_bind _ _ a 0 0 e false false); [exact IH|]. intros r. apply bnd_ret.
  Qed.

  Lemma dec_n_used : forall A a c e (d : dec A) n, bnd a c e true d ->
    forall bs l rest al, ln bs <= L -> dec_n d n bs = Ok l rest al -> (length rest + n <= length bs)%nat /\ length l = n.
  Proof.
    intros A a c e d n Hs. induction n as [|n IH]; intros bs l rest al HL E; cbn [dec_n] in E.
    - inversion E; subst. split; [lia|reflexivity].
    - unfold bind at 1 in E. specialize (Hs bs HL). unfold bnd_at in Hs. destruct (d bs) as [x r1 al1|? ?|?|] eqn:Ed; try discriminate.
      destruct Hs as [Hs _]. cbn [sb] in Hs.
      unfold bind at 1 in E. destruct (dec_n d n r1) as [l' r2 al2|? ?|?|] eqn:En; cbn in E; try discriminate.
      destruct (IH r1 l' r2 al2 ltac:(unfold ln in *; lia) En) as [H1 H2]. inversion E; subst. split; [lia|cbn [length]; lia].
  Qed.

  (* pointwise composition: the continuation may use what the first part returned on this very input *)
  Lemma bnd_at_bind : forall A B a c1 c2 e s1 s2 (m : dec A) (f : A -> dec B) bs,
    bnd_at a c1 e s1 m bs ->
    (forall x r al, m bs = Ok x r al -> (length r <= length bs)%nat -> bnd_at a c2 e s2 (f x) r) ->
    bnd_at a (c1 + c2) e (s1 || s2) (bind m f) bs.
  Proof.
    intros A B a c1 c2 e s1 s2 m f bs Hm Hf. unfold bnd_at in *. unfold bind.
    destruct (m bs) as [x r1 al1|err al1|al1|] eqn:Em; try exact I; try lia.
    destruct Hm as [L1 B1]. assert (L1' : (length r1 <= length bs)%nat) by lia.
    specialize (Hf x r1 al1 eq_refl L1'). destruct (f x r1) as [y r2 al2|err al2|al2|]; cbn [add_al]; try exact I.
    - destruct Hf as [L2 B2]. split; [destruct s1, s2; cbn [sb orb] in *; lia|].
      assert (L2' : (length r2 <= length r1)%nat) by lia.
      set (u := ln bs - ln r1) in *. set (v := ln r1 - ln r2) in *.
      assert (E : ln bs - ln r2 = u + v) by (unfold u, v, ln; lia). rewrite E. lia.
    - set (u := ln bs - ln r1) in *. assert (E : ln bs = u + ln r1) by (unfold u, ln; lia). rewrite E. lia.
    - set (u := ln bs - ln r1) in *. assert (E : ln bs = u + ln r1) by (unfold u, ln; lia). rewrite E. lia.
  Qed.

  (* the constant of the continuation may be proportional to what the first part consumed on this input *)
  Lemma bnd_at_bind_post : forall A B a q c1 c2 e s1 s2 (m : dec A) (f : A -> dec B) bs,
    bnd_at a c1 e s1 m bs ->
    (forall x r al, m bs = Ok x r al -> (length r <= length bs)%nat -> bnd_at a (q * (ln bs - ln r) + c2) e s2 (f x) r) ->
    bnd_at (a + q) (c1 + c2) e (s1 || s2) (bind m f) bs.
  Proof.
    intros A B a q c1 c2 e s1 s2 m f bs Hm Hf. unfold bnd_at in *. unfold bind.
    destruct (m bs) as [x r1 al1|err al1|al1|] eqn:Em; try exact I.
    2,3: (rewrite N.mul_add_distr_r; lia).
    destruct Hm as [L1 B1]. assert (L1' : (length r1 <= length bs)%nat) by lia.
    specialize (Hf x r1 al1 eq_refl L1'). destruct (f x r1) as [y r2 al2|err al2|al2|]; cbn [add_al]; try exact I.
    - destruct Hf as [L2 B2]. split; [destruct s1, s2; cbn [sb orb] in *; lia|].
      assert (L2' : (length r2 <= length r1)%nat) by lia.
      set (u := ln bs - ln r1) in *. set (v := ln r1 - ln r2) in *.
      assert (E : ln bs - ln r2 = u + v) by (unfold u, v, ln; lia). rewrite E.
      rewrite N.mul_add_distr_r, !N.mul_add_distr_l. lia.
    - set (u := ln bs - ln r1) in *. assert (E : ln bs = u + ln r1) by (unfold u, ln; lia). rewrite E.
      rewrite N.mul_add_distr_r, !N.mul_add_distr_l. lia.
    - set (u := ln bs - ln r1) in *. assert (E : ln bs = u + ln r1) by (unfold u, ln; lia). rewrite E.
      rewrite N.mul_add_distr_r, !N.mul_add_distr_l. lia.
  Qed.

  Lemma bnd_at_mono : forall A a c e s a' c' e' s' (d : dec A) bs, bnd_at a c e s d bs -> a <= a' -> c <= c' -> e <= e' ->
    (s' = true -> s = true) -> bnd_at a' c' e' s' d bs.
  Proof.
    intros A a c e s a' c' e' s' d bs H Ha Hc He Hs. unfold bnd_at in *. destruct (d bs) as [x rest al|err al|al|]; try exact I.
    - destruct H as [H1 H2]. split.
      + destruct s'; [rewrite (Hs eq_refl) in H1; exact H1|destruct s; cbn [sb] in *; lia].
      + pose proof (N.mul_le_mono_r a a' (ln bs - ln rest) Ha). lia.
    - pose proof (N.mul_le_mono_r a a' (ln bs) Ha). lia.
    - pose proof (N.mul_le_mono_r a a' (ln bs) Ha). lia.
  Qed.

  (* an allocation made before the elements are read: amortised against the bytes they occupy when the decoder succeeds
     (k <= q * consumed), bounded by q * (input length) + K otherwise *)
  Lemma bnd_upfront_at : forall A a e s q K k (d : dec A) bs,
    bnd_at a 0 e s d bs ->
    (forall x r al, d bs = Ok x r al -> k <= q * (ln bs - ln r)) ->
    k <= q * ln bs + K ->
    bnd_at (a + q) 0 (e + K) s (bind (tick k) (fun _ => d)) bs.
  Proof.
    intros A a e s q K k d bs H Hok Hk. unfold bnd_at in *. unfold bind, tick.
    destruct (d bs) as [x r al|err al|al|]; cbn [add_al]; try exact I.
    - destruct H as [H1 H2]. split; [exact H1|]. specialize (Hok x r al eq_refl). rewrite N.mul_add_distr_r. lia.
    - rewrite N.mul_add_distr_r. lia.
    - rewrite N.mul_add_distr_r. lia.
  Qed.

  Lemma dec_n_ret_used : forall A B a c e (d : dec A) n (g : list A -> B), bnd a c e true d ->
    forall bs x rest al, ln bs <= L -> bind (dec_n d n) (fun l => ret (g l)) bs = Ok x rest al ->
    (length rest + n <= length bs)%nat.
  Proof.
    intros A B a c e d n g Hd bs x rest al HL E. unfold bind in E.
    destruct (dec_n d n bs) as [l r2 al2|? ?|?|] eqn:En; cbn in E; try discriminate.
    destruct (dec_n_used A a c e d n Hd bs l r2 al2 HL En) as [H _]. inversion E; subst. exact H.
  Qed.

  (* decodeSlice: the element slots (n * elsize, n <= remaining bytes) are charged to the bytes of the elements *)
  Lemma dec_slice_bnd : forall a e elsize (d : dec val), bnd a 0 e true d -> bnd (a + elsize) 0 e true (dec_slice elsize d).
  Proof.
    intros a e elsize d Hd bs HL. unfold dec_slice.
    apply (bnd_at_bind _ _ (a + elsize) 0 0 e true false).
    { apply (bnd_at_mono _ 0 0 0 true); [apply (read_u_bnd 0 0 4 bs HL)|apply N.le_0_l|lia|apply N.le_0_l|auto]. }
    intros n r1 al1 E1 L1. assert (HL1 : ln r1 <= L) by (unfold ln in *; lia).
    destruct (n =? null32)%Z; [apply (bnd_ret _ _ _ _ r1 HL1)|].
    destruct (max_int32 <? n)%Z; [apply (bnd_fail _ _ _ false _ r1 HL1)|].
    apply (bnd_at_bind _ _ (a + elsize) 0 0 e false false); [apply (bnd_remaining _ _ r1 HL1)|].
    intros r r1' al2 E2 _. inversion E2; subst r r1' al2. clear E2.
    destruct (blen r1 <? n)%Z eqn:Er; [apply (bnd_fail _ _ _ false _ r1 HL1)|]. apply Z.ltb_ge in Er.
    assert (Hn : (0 <= n)%Z) by (eapply read_u_nonneg; exact E1).
    assert (Hdn : bnd a 0 e false (bind (dec_n d (Z.to_nat n)) (fun l => ret (VSlice (Some l))))).
    { apply (bnd_bind _ _ a 0 0 e false false); [apply (dec_n_bnd _ a e true); exact Hd|]. intros l. apply bnd_ret. }
    eapply bnd_at_mono; [apply (bnd_upfront_at _ a e false elsize 0 (Z.to_N n * elsize)); [apply (Hdn r1 HL1)| |]|lia|lia|lia|auto].
    - intros x r al E. pose proof (dec_n_ret_used _ _ a 0 e d (Z.to_nat n) _ Hd r1 x r al HL1 E) as Hu.
      rewrite (N.mul_comm (Z.to_N n)). apply N.mul_le_mono_l. unfold ln. lia.
    - rewrite (N.mul_comm (Z.to_N n)), N.add_0_r. apply N.mul_le_mono_l. unfold ln, blen in *. lia.
  Qed.

  Lemma dec_bytes_bnd : forall a e, bnd a 0 e true dec_bytes.
  Proof.
    intros a e bs HL. unfold dec_bytes.
    apply (bnd_at_bind _ _ a 0 0 e true false); [apply (read_u_bnd a e 4 bs HL)|].
    intros n r1 al1 E1 L1. assert (HL1 : ln r1 <= L) by (unfold ln in *; lia).
    destruct (n =? null32)%Z; [apply (bnd_ret _ _ _ _ r1 HL1)|].
    destruct (max_int32 <? n)%Z; [apply (bnd_fail _ _ _ false _ r1 HL1)|].
    apply (bnd_at_bind _ _ a 0 0 e false false); [apply (bnd_remaining _ _ r1 HL1)|].
    intros r r1' al2 E2 _. inversion E2; subst r r1' al2. clear E2.
    destruct (blen r1 <? n)%Z; [apply (bnd_fail _ _ _ false _ r1 HL1)|].
    eapply bnd_at_mono; [apply (bnd_at_bind _ _ a 0 0 e (1 <=? n)%Z false); [apply (read_n_bnd a e n r1 HL1)|]|lia|lia|lia|discriminate].
    intros d0 r2 al3 _ L2. apply bnd_ret. unfold ln in *. lia.
  Qed.
End Cost.
