(* ChunkToyProofs.v — the toy algorithms satisfy the hypotheses (`link`) of the chunk theorems: the
   hypotheses are satisfiable, and the harness' toy cipher is a legitimate instance. *)
From Coq Require Import ZArith List Bool Lia.
From Coq.Strings Require Import Byte.
From Opcua Require Import Model.Layout Model.ChunkBytes Model.ChunkModel Model.CryptoBlocks Model.ChunkToy
  Proofs.ChunkBytesProofs Proofs.ChunkProofs.
Import ListNotations.
Open Scope Z_scope.

Lemma zlen_toy_mac n key m : 0 <= n -> zlen (toy_mac n key m) = n.
Proof. intros H. unfold toy_mac. rewrite zlen_map. unfold zlen. rewrite seq_length. lia. Qed.

Lemma map_shift_inv k (p : bytes) : map (fun b => b8 (zb b - k)) (map (fun b => b8 (zb b + k)) p) = p.
Proof.
  rewrite map_map. rewrite <- (map_id p) at 2. apply map_ext. intros b. apply b8_shift_inv.
Qed.

Lemma toy_sym_link block sig ks kr :
  0 < block <= 256 -> 0 <= sig <= 256 ->
  link (toy_sym_algo block sig ks kr) (toy_sym_algo block sig kr ks).
Proof.
  intros Hb Hs. constructor; cbn [toy_sym_algo a_sign a_verify a_enc a_dec a_sig a_rsig a_plain a_block].
  - intros m. eexists. split; [reflexivity | apply zlen_toy_mac; lia].
  - intros m s H. injection H as <-. unfold toy_verify. apply bytes_eqb_refl.
  - intros p Hp Hrem. exists (map (fun b => b8 (zb b + ks)) p).
    unfold toy_sym_enc, toy_sym_dec. rewrite zlen_map, Hrem. cbn [Z.eqb negb orb].
    rewrite Z.rem_mod_nonneg in Hrem by lia.
    assert (Hge : block <= zlen p).
    { destruct (Z.lt_ge_cases (zlen p) block) as [Hlt|]; [|assumption]. rewrite Z.mod_small in Hrem by lia. lia. }
    replace (zlen p <? block) with false by (symmetry; apply Z.ltb_ge; exact Hge).
    rewrite map_shift_inv. repeat split.
    rewrite Z.quot_div_nonneg by lia.
    pose proof (Z.div_mod (zlen p) block ltac:(lia)) as D. rewrite Hrem in D. lia.
  - reflexivity.
  - reflexivity.
  - destruct (sig >? 256); lia.
Qed.

(* a concrete pair shaped like Basic256Sha256 (block 16, tag 32) *)
Example toy_sym_link_example : link (toy_sym_algo 16 32 7 9) (toy_sym_algo 16 32 9 7).
Proof. apply toy_sym_link; lia. Qed.

(* ---------------------------------------------------------------------------------------------- *)
(* the toy RSA block primitive round-trips every block it accepts *)
Ltac Zify.zify_post_hook ::= Z.div_mod_to_equations.

Lemma toy_rsa_block ks k blk :
  2 <= ks <= 65536 -> zlen blk <= ks - 2 ->
  exists c, toy_rsa_enc1 ks k blk = Some c /\ zlen c = ks /\ toy_rsa_dec1 ks k c = Some blk.
Proof.
  intros Hks Hb. pose proof (zlen_nonneg blk) as Hb0. unfold toy_rsa_enc1.
  replace (zlen blk >? ks - 2) with false by (symmetry; rewrite Z.gtb_ltb; apply Z.ltb_ge; lia).
  eexists. split; [reflexivity|].
  set (body := map (fun b => b8 (zb b + k)) blk).
  set (fill := repeat (b8 238) (Z.to_nat (ks - 2 - zlen blk))).
  assert (Hbody : zlen body = zlen blk) by (unfold body; apply zlen_map).
  assert (Hfill : zlen fill = ks - 2 - zlen blk) by (unfold fill; rewrite zlen_repeat; lia).
  assert (Hlen : zlen (body ++ fill ++ [b8 (zlen blk / 256); b8 (zlen blk)]) = ks).
  { rewrite !zlen_app, Hbody, Hfill. change (zlen [b8 (zlen blk / 256); b8 (zlen blk)]) with 2. lia. }
  split; [exact Hlen|].
  unfold toy_rsa_dec1. rewrite Hlen, Z.eqb_refl. cbn [negb orb].
  replace (ks <? 2) with false by (symmetry; apply Z.ltb_ge; lia).
  assert (E1 : znth (ks - 2) (body ++ fill ++ [b8 (zlen blk / 256); b8 (zlen blk)]) = b8 (zlen blk / 256)).
  { rewrite znth_app_r by lia. rewrite znth_app_r by lia. rewrite Hbody, Hfill.
    replace (ks - 2 - zlen blk - (ks - 2 - zlen blk)) with 0 by lia. reflexivity. }
  assert (E2 : znth (ks - 1) (body ++ fill ++ [b8 (zlen blk / 256); b8 (zlen blk)]) = b8 (zlen blk)).
  { rewrite znth_app_r by lia. rewrite znth_app_r by lia. rewrite Hbody, Hfill.
    replace (ks - 1 - zlen blk - (ks - 2 - zlen blk)) with 1 by lia. reflexivity. }
  rewrite E1, E2, !zb_b8.
  assert (Hn : 256 * (zlen blk / 256 mod 256) + zlen blk mod 256 = zlen blk).
  { lia. }
  rewrite Hn.
  replace (zlen blk >? ks - 2) with false by (symmetry; rewrite Z.gtb_ltb; apply Z.ltb_ge; lia).
  rewrite ztake_app_exact by exact Hbody. unfold body. rewrite map_shift_inv. reflexivity.
Qed.

From Opcua Require Import Proofs.CryptoBlocksProofs.

(* the asymmetric toy pair (Alice: local key la, remote key lb; Bob the other way round) is a `link` *)
Lemma toy_asym_link la lb minpad ks kr :
  0 <= la -> 2 <= minpad -> minpad < lb <= 65536 ->
  link (toy_asym_algo la lb minpad ks kr) (toy_asym_algo lb la minpad kr ks).
Proof.
  intros Hla Hmp Hlb. constructor; cbn [toy_asym_algo a_sign a_verify a_enc a_dec a_sig a_rsig a_plain a_block].
  - intros m. eexists. split; [reflexivity | apply zlen_toy_mac; lia].
  - intros m s H. injection H as <-. unfold toy_verify. apply bytes_eqb_refl.
  - intros p Hp Hrem. pose proof (zlen_nonneg p) as Hp0. unfold toy_asym_enc, toy_asym_dec, rsa_encrypt, rsa_decrypt.
    destruct (blockwise_roundtrip (toy_rsa_enc1 lb ks) (toy_rsa_dec1 lb ks) lb (lb - minpad) ltac:(lia) ltac:(lia)
                (fun blk Hb => toy_rsa_block lb ks blk ltac:(lia) ltac:(lia)) p) as (c & Hc & Hlen & Hdec).
    exists c. rewrite Hc, Hdec. cbn [res_opt]. repeat split.
    rewrite Hlen. rewrite Z.rem_mod_nonneg in Hrem by lia.
    rewrite (nblocks_aligned (lb - minpad) ltac:(lia) (zlen p) ltac:(lia) Hrem).
    rewrite Z.quot_div_nonneg by lia. reflexivity.
  - reflexivity.
  - reflexivity.
  - destruct (Z.gtb_spec lb 256); lia.
Qed.
