(* Proofs about Model/UacpHandshake.v (C06). *)
From Coq Require Import ZArith Bool List Lia.
From Coq Require Import ZifyBool.
From Opcua Require Import Model.UacpHandshake.
Import ListNotations.
Open Scope Z_scope.

Lemma valid_cfgb_spec l : valid_cfgb l = true <-> valid_cfg l.
Proof. unfold valid_cfgb, valid_cfg. lia. Qed.

(* the negotiation never fails inside the property's range, and this is its result *)
Lemma negotiate_valid cl sv :
  valid_cfg cl -> valid_cfg sv ->
  negotiate cl sv =
  Some (cl,
        mkLim (Z.min (l_recv sv) (l_send cl)) (Z.min (l_send sv) (l_recv cl)) (l_maxmsg sv) (l_maxchunks sv),
        mkSide (mkLim (l_recv cl)
                      (Z.min (l_send cl) (Z.min (l_recv sv) (l_send cl)))
                      (if l_maxmsg cl =? 0 then (if l_maxmsg sv =? 0 then default_maxmsg else l_maxmsg sv) else l_maxmsg cl)
                      (if l_maxchunks cl =? 0 then (if l_maxchunks sv =? 0 then default_maxchunks else l_maxchunks sv) else l_maxchunks cl))
               (l_maxmsg sv) (l_maxchunks sv),
        mkSide (mkLim (Z.min (l_recv sv) (l_send cl)) (Z.min (l_send sv) (l_recv cl)) (l_maxmsg sv) (l_maxchunks sv))
               (l_maxmsg cl) (l_maxchunks cl)).
Proof.
  intros (Hc1 & Hc2 & Hc3 & Hc4) (Hs1 & Hs2 & Hs3 & Hs4).
  unfold negotiate, client_hello, server_after_hello, min_buf.
  replace ((l_recv cl <? 8192) || (l_send cl <? 8192)) with false by lia.
  unfold client_after_ack, min_buf. cbn [l_recv l_send l_maxmsg l_maxchunks negb Z.eqb].
  replace ((Z.min (l_recv sv) (l_send cl) <? 8192) || (Z.min (l_send sv) (l_recv cl) <? 8192)) with false by lia.
  reflexivity.
Qed.

Section Negotiated.
  Variables (cl sv hel ack : limits) (cli srv : side).
  Hypothesis Hcl : valid_cfg cl.
  Hypothesis Hsv : valid_cfg sv.
  Hypothesis Hneg : negotiate cl sv = Some (hel, ack, cli, srv).

  Lemma neg_inv :
    hel = cl /\
    ack = mkLim (Z.min (l_recv sv) (l_send cl)) (Z.min (l_send sv) (l_recv cl)) (l_maxmsg sv) (l_maxchunks sv) /\
    s_lim srv = ack /\ s_peer_maxmsg srv = l_maxmsg hel /\ s_peer_maxchunks srv = l_maxchunks hel /\
    l_recv (s_lim cli) = l_recv hel /\ l_send (s_lim cli) = Z.min (l_send cl) (l_recv ack) /\
    s_peer_maxmsg cli = l_maxmsg ack /\ s_peer_maxchunks cli = l_maxchunks ack /\
    l_maxmsg (s_lim cli) = (if l_maxmsg cl =? 0 then (if l_maxmsg sv =? 0 then default_maxmsg else l_maxmsg sv) else l_maxmsg cl) /\
    l_maxchunks (s_lim cli) = (if l_maxchunks cl =? 0 then (if l_maxchunks sv =? 0 then default_maxchunks else l_maxchunks sv) else l_maxchunks cl).
  Proof.
    rewrite (negotiate_valid cl sv Hcl Hsv) in Hneg.
    injection Hneg as <- <- <- <-. cbn. repeat split; reflexivity.
  Qed.

  (* the chunk size of each side (its SendBufSize) is within the protocol range and does not exceed the receive
     buffer the other side announced *)
  Lemma neg_send_le_advertised :
    8192 <= l_send (s_lim cli) <= 1048576 /\ l_send (s_lim cli) <= l_recv ack /\
    8192 <= l_send (s_lim srv) <= 1048576 /\ l_send (s_lim srv) <= l_recv hel.
  Proof.
    destruct neg_inv as (-> & Ha & Hs & _ & _ & Hr & Hse & _).
    destruct Hcl as (Hc1 & Hc2 & _), Hsv as (Hs1 & Hs2 & _).
    rewrite Hse, Hs, Ha. cbn [l_recv l_send]. lia.
  Qed.

  (* each side's actual receive buffer is exactly what it announced, and is at least the other side's chunk size *)
  Lemma neg_recv_ge_peer_send :
    l_recv (s_lim srv) = l_recv ack /\ l_recv (s_lim cli) = l_recv hel /\
    l_send (s_lim cli) <= l_recv (s_lim srv) /\ l_send (s_lim srv) <= l_recv (s_lim cli).
  Proof.
    destruct neg_inv as (-> & Ha & Hs & _ & _ & Hr & Hse & _).
    rewrite Hse, Hs, Hr, Ha. cbn [l_recv l_send]. lia.
  Qed.

  (* each side knows the message limits the other side announced *)
  Lemma neg_peer_limits :
    s_peer_maxmsg cli = l_maxmsg ack /\ s_peer_maxchunks cli = l_maxchunks ack /\
    s_peer_maxmsg srv = l_maxmsg hel /\ s_peer_maxchunks srv = l_maxchunks hel.
  Proof. destruct neg_inv as (_ & _ & _ & A & B & _ & _ & C & D & _). auto. Qed.

  (* the server's own receive-side message limits are the ones it announced *)
  Lemma neg_server_limits : l_maxmsg (s_lim srv) = l_maxmsg ack /\ l_maxchunks (s_lim srv) = l_maxchunks ack.
  Proof. destruct neg_inv as (_ & _ & -> & _). auto. Qed.

  (* the client's own receive-side message limits are the ones it announced, unless it announced none *)
  Lemma neg_client_limits :
    (l_maxmsg hel <> 0 -> l_maxmsg (s_lim cli) = l_maxmsg hel) /\
    (l_maxchunks hel <> 0 -> l_maxchunks (s_lim cli) = l_maxchunks hel).
  Proof.
    destruct neg_inv as (-> & _ & _ & _ & _ & _ & _ & _ & _ & A & B). rewrite A, B.
    split; intros H; [destruct (Z.eqb_spec (l_maxmsg cl) 0)|destruct (Z.eqb_spec (l_maxchunks cl) 0)]; congruence.
  Qed.
End Negotiated.

(* ------------------------------------------------------------------------------------------------ *)
(* sending                                                                                           *)

Lemma send_over_limit sd mb L :
  (s_peer_maxmsg sd > 0 /\ L > s_peer_maxmsg sd) \/ (s_peer_maxchunks sd > 0 /\ nr_chunks L mb > s_peer_maxchunks sd) ->
  send sd mb L = None.
Proof.
  intros H. unfold send, send_refused.
  replace (((s_peer_maxchunks sd >? 0) && (nr_chunks L mb >? s_peer_maxchunks sd))
           || ((s_peer_maxmsg sd >? 0) && (L >? s_peer_maxmsg sd))) with true by lia.
  reflexivity.
Qed.

Lemma send_within_limit sd mb L bodies :
  send sd mb L = Some bodies ->
  bodies = chunk_bodies L mb /\
  (s_peer_maxmsg sd > 0 -> L <= s_peer_maxmsg sd) /\
  (s_peer_maxchunks sd > 0 -> nr_chunks L mb <= s_peer_maxchunks sd).
Proof.
  unfold send, send_refused.
  destruct (((s_peer_maxchunks sd >? 0) && (nr_chunks L mb >? s_peer_maxchunks sd))
            || ((s_peer_maxmsg sd >? 0) && (L >? s_peer_maxmsg sd))) eqn:E; [discriminate|].
  intros H; injection H as <-. split; [reflexivity|]. lia.
Qed.

Lemma nr_chunks_pos L mb : 0 <= L -> 0 < mb -> 1 <= nr_chunks L mb.
Proof. intros HL Hm. unfold nr_chunks. pose proof (Z.div_pos L mb HL Hm). lia. Qed.

Lemma length_chunk_bodies L mb : 0 <= L -> 0 < mb -> Z.of_nat (length (chunk_bodies L mb)) = nr_chunks L mb.
Proof.
  intros HL Hm. unfold chunk_bodies. rewrite app_length, repeat_length. cbn [length].
  pose proof (nr_chunks_pos L mb HL Hm). lia.
Qed.

(* every chunk body is between 0 and mb, and the bodies add up to L *)
Lemma chunk_bodies_bounds L mb : 0 <= L -> 0 < mb -> Forall (fun b => 0 <= b <= mb) (chunk_bodies L mb).
Proof.
  intros HL Hm. unfold chunk_bodies. apply Forall_app. split.
  - apply Forall_forall. intros x Hx. apply repeat_spec in Hx. lia.
  - constructor; [|constructor]. unfold nr_chunks.
    replace (L / mb + 1 - 1) with (L / mb) by lia.
    pose proof (Z.mul_div_le L mb Hm). pose proof (Z.mod_pos_bound L mb Hm).
    pose proof (Z.div_mod L mb ltac:(lia)). lia.
Qed.

(* ------------------------------------------------------------------------------------------------ *)
(* receiving                                                                                         *)

Lemma delivered_intro rv wires L :
  Forall (fun w => w <= l_recv (s_lim rv)) wires ->
  (l_maxchunks (s_lim rv) > 0 -> Z.of_nat (length wires) - 1 <= l_maxchunks (s_lim rv)) ->
  (l_maxmsg (s_lim rv) > 0 -> L <= l_maxmsg (s_lim rv)) ->
  delivered rv wires L = true.
Proof.
  intros Hw Hc Hm. unfold delivered. apply andb_true_iff. split.
  - apply forallb_forall. intros w Hin. unfold frame_accepted.
    rewrite Forall_forall in Hw. specialize (Hw w Hin). lia.
  - unfold recv_rejected. lia.
Qed.
