From Coq Require Import NArith List Bool Arith Lia.
From Opcua Require Import Model.RecvBase Model.RecvMerge Model.RecvHeap.
Import ListNotations.
Local Open Scope nat_scope.

Lemma upd_length l r v : length (upd l r v) = length l.
Proof. revert r. induction l as [|x t IH]; intros [|r]; cbn; auto. Qed.

Lemma nth_upd_other l r v r' : r' <> r -> nth r' (upd l r v) [] = nth r' l [].
Proof.
  revert r r'. induction l as [|x t IH]; intros [|r] [|r'] H; cbn; try reflexivity; try lia.
  apply IH. lia.
Qed.

Definition hsize (h : heap) : nat := length (cells h).

Lemma alloc_spec h b : let '(h', R) := alloc h b in
  R = hsize h /\ hsize h' = S (hsize h) /\ forall r, r < hsize h -> nth r (cells h') [] = nth r (cells h) [].
Proof.
  cbn. unfold hsize. cbn. rewrite app_length. cbn. repeat split; try lia. intros r Hr. now rewrite app_nth1.
Qed.

Lemma hwrite_spec h r off d : hsize (hwrite h r off d) = hsize h /\ forall r', r' <> r -> nth r' (cells (hwrite h r off d)) [] = nth r' (cells h) [].
Proof. unfold hwrite, hsize. cbn. rewrite upd_length. split; [reflexivity|]. intros r' Hne. now apply nth_upd_other. Qed.

(* a step only allocates, and writes only into what it has just allocated *)
Lemma hstep_frame s f : let '(s1, o) := hstep s f in
  hsize (hp s) <= hsize (hp s1) /\
  (forall r, r < hsize (hp s) -> nth r (cells (hp s1)) [] = nth r (cells (hp s)) []) /\
  (forall x, o = Some x -> fst (fst x) < hsize (hp s1)).
Proof.
  unfold hstep.
  pose proof (alloc_spec (hp s) (fr_bytes f ++ repeat 0%N (fr_cap f - length (fr_bytes f)))) as HA.
  destruct (alloc (hp s) _) as [h1 R]. destruct HA as (HR & Hs1 & Hp1).
  assert (H2 : exists h2 dref, (if fr_secured f
      then let '(h', R2) := alloc h1 (fr_bytes f) in
           (hwrite h' R2 (fr_hl f) (fr_plain f), (R2, fr_hl f + 8, length (fr_plain f) - 8 - fr_strip f))
      else (h1, (R, 24, length (fr_bytes f) - 24))) = (h2, dref)
      /\ hsize (hp s) < hsize h2 /\ (forall r, r < hsize (hp s) -> nth r (cells h2) [] = nth r (cells (hp s)) [])
      /\ fst (fst dref) < hsize h2).
  { destruct (fr_secured f).
    - pose proof (alloc_spec h1 (fr_bytes f)) as HB. destruct (alloc h1 (fr_bytes f)) as [h' R2]. destruct HB as (HR2 & Hs2 & Hp2).
      destruct (hwrite_spec h' R2 (fr_hl f) (fr_plain f)) as [Hw1 Hw2].
      eexists _, _. split; [reflexivity|]. repeat split; cbn [fst].
      + lia.
      + intros r Hr. rewrite Hw2 by lia. rewrite Hp2 by lia. now apply Hp1.
      + lia.
    - eexists _, _. split; [reflexivity|]. repeat split; cbn [fst]; try lia. exact Hp1. }
  destruct H2 as (h2 & dref & -> & Hlt & Hp2 & Hd).
  destruct (fr_type f =? CT_A)%N; [cbn [hp]; repeat split; try lia; [exact Hp2 | discriminate]|].
  destruct (fr_type f =? CT_C)%N; [cbn [hp]; repeat split; try lia; [exact Hp2 | discriminate]|].
  destruct (pget (pend s) (fr_req f) ++ [dref]) as [|x [|y l]] eqn:El.
  - destruct (pget (pend s) (fr_req f)); discriminate.
  - cbn [hp]. repeat split; try lia; [exact Hp2|]. intros x' [= <-].
    destruct (pget (pend s) (fr_req f)) as [|a [|b t]]; cbn in El; try discriminate.
    injection El as <-. exact Hd.
  - pose proof (alloc_spec h2 (concat (map (deref h2) (x :: y :: l)))) as HC.
    destruct (alloc h2 _) as [h3 R3]. destruct HC as (HR3 & Hs3 & Hp3). cbn [hp].
    repeat split; try lia.
    + intros r Hr. rewrite Hp3 by lia. now apply Hp2.
    + intros x' [= <-]. cbn [fst]. lia.
Qed.

Lemma hrun_frame fs : forall s, let '(ds, s2) := hrun s fs in
  hsize (hp s) <= hsize (hp s2) /\ forall r, r < hsize (hp s) -> nth r (cells (hp s2)) [] = nth r (cells (hp s)) [].
Proof.
  induction fs as [|f fs IH]; intros s; cbn [hrun]; [split; [lia|reflexivity]|].
  pose proof (hstep_frame s f) as HS. destruct (hstep s f) as [s1 o]. destruct HS as (H1 & H2 & _).
  specialize (IH s1). destruct (hrun s1 fs) as [ds s2]. destruct IH as [H3 H4].
  split; [lia|]. intros r Hr. rewrite H4 by lia. now apply H2.
Qed.

(* every delivered message, and every window of it (a decoded ByteString), still reads as it did when it was delivered *)
Theorem hrun_stable fs : forall s, let '(ds, s2) := hrun s fs in
  Forall (fun d => nth (fst (fst (fst d))) (cells (hp s2)) [] = snd d) ds.
Proof.
  induction fs as [|f fs IH]; intros s; cbn [hrun]; [constructor|].
  pose proof (hstep_frame s f) as HS. destruct (hstep s f) as [s1 o]. destruct HS as (_ & _ & H3).
  pose proof (hrun_frame fs s1) as HF. specialize (IH s1). destruct (hrun s1 fs) as [ds s2]. destruct HF as [_ HF].
  destruct o as [x|]; [|exact IH]. constructor; [|exact IH]. cbn [fst snd].
  specialize (H3 x eq_refl). now apply HF.
Qed.
