(* E1 codec, C01: round trip of the hand-written codecs without recursion: NodeID (six encodings), ExpandedNodeID. *)
From Coq Require Import NArith ZArith List Bool Lia.
From Coq.Strings Require Import Byte.
From Opcua Require Import Model.CodecTypes Model.Codec Model.CodecWf Model.CodecWfAll Proofs.CodecBase Proofs.CodecRoundtrip Proofs.CodecRT.
Import ListNotations.
Open Scope Z_scope.

Lemma eapp_EOk : forall a b, EOk (a ++ b) = eapp (EOk a) (EOk b).
Proof. reflexivity. Qed.

Lemma is_none_true : forall A (o : option A), is_none o = true -> o = None.
Proof. intros A [x|] H; [discriminate|reflexivity]. Qed.
Lemma is_nil_true : forall A (l : list A), is_nil l = true -> l = [].
Proof. intros A [|x l] H; [reflexivity|discriminate]. Qed.

Ltac split_and :=
  repeat match goal with
         | H : _ && _ = true |- _ => apply andb_true in H; destruct H
         end.
Ltac nones :=
  repeat match goal with
         | H : is_none _ = true |- _ => apply is_none_true in H; subst
         | H : is_nil _ = true |- _ => apply is_nil_true in H; subst
         | H : (_ =? _) = true |- _ => apply Z.eqb_eq in H; subst
         end.

(* build an RTb whose size bound is found by unification, then weaken it to the wanted bound *)
Ltac rt_weaken tac := eapply RTb_weaken; [tac|lia|apply le_n].

Lemma RTb_nodeid : forall k v, nodeid_ok v = true -> RTb 2 k (enc_nodeid v) dec_nodeid (norm_nodeid v).
Proof.
  intros k v H. destruct v; try discriminate. unfold nodeid_ok in H. apply andb_true in H. destruct H as [Hm H].
  cbv zeta in H. unfold enc_nodeid, dec_nodeid, norm_nodeid. apply RTb_tick.
  destruct (mask mod 16 =? 0) eqn:E0; [|destruct (mask mod 16 =? 1) eqn:E1; [|destruct (mask mod 16 =? 2) eqn:E2;
    [|destruct (mask mod 16 =? 4) eqn:E4; [|destruct ((mask mod 16 =? 3) || (mask mod 16 =? 5)) eqn:E35; [|discriminate]]]]];
    split_and; nones; cbn [norm_obytes].
  - rt_weaken ltac:(eapply RTb_bind; [apply RTb_byte; exact Hm|]; cbv beta zeta; rewrite E0;
                    apply (RTb_fmap _ _ _ _ _ _ (fun n => VNodeID mask 0 n None None)); apply RTb_byte; assumption).
  - rt_weaken ltac:(eapply RTb_bind; [apply RTb_byte; exact Hm|]; cbv beta zeta; rewrite E0, E1;
                    change (EOk (byte_of_Z ns :: le 2 nid)) with (eapp (EOk [byte_of_Z ns]) (EOk (le 2 nid)));
                    eapply RTb_bind; [apply RTb_byte; assumption|];
                    apply (RTb_fmap _ _ _ _ _ _ (fun n => VNodeID mask ns n None None)); apply RTb_uok; assumption).
  - rt_weaken ltac:(eapply RTb_bind; [apply RTb_byte; exact Hm|]; cbv beta zeta; rewrite E0, E1, E2;
                    rewrite eapp_EOk; eapply RTb_bind; [apply RTb_uok; assumption|];
                    apply (RTb_fmap _ _ _ _ _ _ (fun n => VNodeID mask ns n None None)); apply RTb_uok; assumption).
  - destruct gid as [g|]; [|discriminate].
    rt_weaken ltac:(eapply RTb_bind; [apply RTb_byte; exact Hm|]; cbv beta zeta; rewrite E0, E1, E2, E4;
                    eapply RTb_bind; [apply RTb_uok; assumption|];
                    apply (RTb_fmap _ _ _ _ _ _ (fun g => VNodeID mask ns 0 None (Some g))); apply RTb_guid; assumption).
  - rt_weaken ltac:(eapply RTb_bind; [apply RTb_byte; exact Hm|]; cbv beta zeta; rewrite E0, E1, E2, E4, E35;
                    eapply RTb_bind; [apply RTb_uok; assumption|];
                    apply (RTb_fmap _ _ _ _ _ _ (fun b => VNodeID mask ns 0 b None)); apply RTb_obytes; assumption).
Qed.

Lemma nodeid_mask_norm : forall n, nodeid_mask (norm_nodeid n) = nodeid_mask n.
Proof. intros n. destruct n; reflexivity. Qed.

Lemma RTb_expnodeid : forall k v, expnodeid_ok v = true -> RTb 2 k (enc_expnodeid v) dec_expnodeid (norm_expnodeid v).
Proof.
  intros k v H. destruct v; try discriminate. unfold enc_expnodeid, dec_expnodeid, norm_expnodeid. apply RTb_tick.
  destruct nid as [n|].
  - cbn [expnodeid_ok] in H. split_and.
    destruct (bit (nodeid_mask n) 7) eqn:B7; destruct (bit (nodeid_mask n) 6) eqn:B6; nones;
      rt_weaken ltac:(eapply RTb_bind; [apply RTb_nodeid; assumption|]; cbv beta zeta; rewrite nodeid_mask_norm, B7, B6;
                      eapply RTb_bind; [first [apply RTb_string; assumption|apply RTb_ret]|];
                      match goal with |- RTb _ _ _ _ (VExpNodeID ?a ?u ?s) =>
                        apply (RTb_fmap _ _ _ _ _ _ (fun x => VExpNodeID a u x)) end;
                      first [apply RTb_uok; assumption|apply RTb_ret]).
  - (* nil NodeID: the two-byte null id *)
    eapply RTb_prim; [reflexivity|cbn; lia|]. intros rest.
    eapply decodes_bind.
    + unfold dec_nodeid. eapply decodes_bind; [apply decodes_tick|].
      eapply decodes_bind; [apply (decodes_read_u 1 0 (x00 :: rest)); rewrite pow8_1; lia|].
      cbv beta zeta. change (0 mod 16 =? 0) with true. cbv iota.
      eapply decodes_bind; [apply (decodes_read_u 1 0 rest); rewrite pow8_1; lia|]. apply decodes_ret.
    + cbv beta zeta. cbn [nodeid_mask]. change (bit 0 7) with false. change (bit 0 6) with false. cbv iota.
      eapply decodes_bind; [apply decodes_ret|]. eapply decodes_bind; [apply decodes_ret|]. apply decodes_ret.
Qed.
