(* Lemmas about the attribute read / write path (C31). *)
From Coq Require Import NArith ZArith Bool List Lia.
From Opcua Require Import Model.ServerSpace.
Import ListNotations.
Open Scope N_scope.

Lemma alist_get_set_same : forall A k (v : A) l, alist_get k (alist_set k v l) = Some v.
Proof.
  induction l as [|[k' v'] t IH]; cbn [alist_set alist_get].
  - now rewrite N.eqb_refl.
  - destruct (k' =? k) eqn:E; cbn [alist_get].
    + now rewrite N.eqb_refl.
    + now rewrite E.
Qed.

Lemma alist_get_set_other : forall A k k' (v : A) l, k <> k' -> alist_get k (alist_set k' v l) = alist_get k l.
Proof.
  induction l as [|[k2 v2] t IH]; intros Hne; cbn [alist_set alist_get].
  - destruct (k' =? k) eqn:E; [apply N.eqb_eq in E; congruence | reflexivity].
  - destruct (k2 =? k') eqn:E; cbn [alist_get].
    + apply N.eqb_eq in E. subst k2. destruct (k' =? k) eqn:E2; [apply N.eqb_eq in E2; congruence | reflexivity].
    + destruct (k2 =? k); [reflexivity | now apply IH].
Qed.

Lemma get_set_node_same : forall sp k n, get_node (set_node sp k n) k = Some n.
Proof. intros. unfold get_node, set_node. cbn [sp_nodes]. apply alist_get_set_same. Qed.

Lemma get_set_node_other : forall sp k k' n, k <> k' -> get_node (set_node sp k' n) k = get_node sp k.
Proof. intros. unfold get_node, set_node. cbn [sp_nodes]. now apply alist_get_set_other. Qed.

Lemma set_node_ns : forall sp k n, sp_ns (set_node sp k n) = sp_ns sp.
Proof. reflexivity. Qed.

(* lacking a flag in either level makes Access false *)
Lemma lacks_no_access : forall n flag, lacks n flag = true -> access n flag = false.
Proof.
  intros n flag H. unfold lacks, level_denies in H. unfold access.
  apply orb_true_iff in H. destruct H as [H|H].
  - destruct (node_attr n AttrUserAccessLevel) as [d|]; [|discriminate].
    apply negb_true_iff in H. now rewrite H.
  - destruct (node_attr n AttrAccessLevel) as [d|]; [|discriminate].
    apply negb_true_iff in H. rewrite H. apply andb_false_r.
Qed.

(* and conversely: Access false means some present level denies the flag *)
Lemma no_access_lacks : forall n flag, access n flag = false -> lacks n flag = true.
Proof.
  intros n flag H. unfold access in H. unfold lacks, level_denies.
  apply andb_false_iff in H. destruct H as [H|H].
  - destruct (node_attr n AttrUserAccessLevel); [now rewrite H | discriminate].
  - destruct (node_attr n AttrAccessLevel); [rewrite H; apply orb_true_r | discriminate].
Qed.

Lemma read_denied : forall sp k n attr, get_node sp k = Some n -> lacks n FlagCurrentRead = true ->
  ns_attribute sp k attr = (sp, status_dv StBadUserAccessDenied).
Proof.
  intros sp k n attr Hg Hl. unfold ns_attribute. rewrite Hg.
  now rewrite (lacks_no_access _ _ Hl).
Qed.

Lemma write_denied : forall sp k n attr v, get_node sp k = Some n -> lacks n FlagCurrentWrite = true ->
  ns_set_attribute sp k attr v = (sp, StBadUserAccessDenied).
Proof.
  intros sp k n attr v Hg Hl. unfold ns_set_attribute. rewrite Hg.
  now rewrite (lacks_no_access _ _ Hl).
Qed.

(* a write that is not refused needs CurrentWrite in both present levels *)
Lemma write_ok_access : forall sp k attr v sp', ns_set_attribute sp k attr v = (sp', StOK) ->
  exists n, get_node sp k = Some n /\ lacks n FlagCurrentWrite = false.
Proof.
  intros sp k attr v sp' H. unfold ns_set_attribute in H.
  destruct (get_node sp k) as [n|]; [|inversion H].
  exists n. split; [reflexivity|].
  destruct (access n FlagCurrentWrite) eqn:E; cbn [negb] in H; [|inversion H].
  destruct (lacks n FlagCurrentWrite) eqn:L; [|reflexivity].
  apply lacks_no_access in L. congruence.
Qed.

(* ---- what stays fixed for a node: everything but the in-place int32 rewrite of NodeClass ---- *)
Definition same_but_class (n n' : node) : Prop :=
  n_val n' = n_val n /\ n_refs n' = n_refs n /\
  forall a, a <> AttrNodeClass -> alist_get a (n_attrs n') = alist_get a (n_attrs n).

Lemma same_but_class_refl : forall n, same_but_class n n.
Proof. intros n. repeat split. Qed.

Lemma same_but_class_attr : forall n n' a, same_but_class n n' -> a <> AttrNodeClass -> node_attr n' a = node_attr n a.
Proof.
  intros n n' a (Hv & _ & Ha) Hne. unfold node_attr. rewrite Hv.
  destruct (a =? AttrValue); [reflexivity | now apply Ha].
Qed.

Lemma same_but_class_lacks : forall n n' flag, same_but_class n n' -> lacks n' flag = lacks n flag.
Proof.
  intros n n' flag H. unfold lacks, level_denies.
  rewrite (same_but_class_attr _ _ AttrUserAccessLevel H) by (unfold AttrUserAccessLevel, AttrNodeClass; lia).
  rewrite (same_but_class_attr _ _ AttrAccessLevel H) by (unfold AttrAccessLevel, AttrNodeClass; lia).
  reflexivity.
Qed.

Lemma same_but_class_value : forall n n', same_but_class n n' -> node_value n' = node_value n.
Proof. intros n n' (Hv & _). unfold node_value. now rewrite Hv. Qed.

(* one read leaves every node the same up to the NodeClass rewrite *)
Lemma ns_attribute_frame : forall sp k attr sp' d k0 n0, ns_attribute sp k attr = (sp', d) ->
  get_node sp k0 = Some n0 -> exists n1, get_node sp' k0 = Some n1 /\ same_but_class n0 n1.
Proof.
  intros sp k attr sp' d k0 n0 H Hg. unfold ns_attribute in H.
  assert (Hsame : sp' = sp -> exists n1, get_node sp' k0 = Some n1 /\ same_but_class n0 n1).
  { intros ->. exists n0. split; [exact Hg | apply same_but_class_refl]. }
  destruct (get_node sp k) as [n|] eqn:Gk; [|inversion H; auto].
  destruct (negb (access n FlagCurrentRead)); [inversion H; auto|].
  destruct (attr =? AttrNodeID); [inversion H; auto|].
  destruct (attr =? AttrEventNotifier); [inversion H; auto|].
  destruct (attr =? AttrNodeClass) eqn:EC.
  - apply N.eqb_eq in EC. subst attr.
    destruct (node_attr n AttrNodeClass) as [d0|]; [|inversion H; auto].
    destruct (dv_v d0); try (inversion H; auto; fail).
    inversion H; subst sp' d; clear H.
    destruct (N.eq_dec k0 k) as [->|Hne].
    + rewrite get_set_node_same. rewrite Gk in Hg. inversion Hg; subst n0.
      eexists. split; [reflexivity|]. repeat split. cbn [n_attrs]. intros a Ha.
      now apply alist_get_set_other.
    + rewrite get_set_node_other by exact Hne. exists n0. split; [exact Hg | apply same_but_class_refl].
  - destruct (node_attr n attr); inversion H; auto.
Qed.

Lemma ns_attribute_ns : forall sp k attr sp' d, ns_attribute sp k attr = (sp', d) -> sp_ns sp' = sp_ns sp.
Proof.
  intros sp k attr sp' d H. unfold ns_attribute in H.
  destruct (get_node sp k) as [n|]; [|now inversion H].
  destruct (negb (access n FlagCurrentRead)); [now inversion H|].
  destruct (attr =? AttrNodeID); [now inversion H|].
  destruct (attr =? AttrEventNotifier); [now inversion H|].
  destruct (attr =? AttrNodeClass).
  - destruct (node_attr n attr) as [d0|]; [|now inversion H].
    destruct (dv_v d0); now inversion H.
  - destruct (node_attr n attr); now inversion H.
Qed.

Lemma read_one_frame : forall sp rv sp' d k0 n0, read_one sp rv = (sp', d) ->
  get_node sp k0 = Some n0 -> exists n1, get_node sp' k0 = Some n1 /\ same_but_class n0 n1.
Proof.
  intros sp [[ns k] attr] sp' d k0 n0 H Hg. unfold read_one in H.
  destruct (ns <? sp_ns sp).
  - eapply ns_attribute_frame; eassumption.
  - inversion H; subst. exists n0. split; [exact Hg | apply same_but_class_refl].
Qed.

Lemma same_but_class_trans : forall a b c, same_but_class a b -> same_but_class b c -> same_but_class a c.
Proof.
  intros a b c (V1 & R1 & A1) (V2 & R2 & A2). repeat split; try congruence.
  intros x Hx. rewrite A2 by exact Hx. now apply A1.
Qed.

Lemma read_all_frame : forall l sp sp' ds k0 n0, read_all sp l = (sp', ds) ->
  get_node sp k0 = Some n0 -> exists n1, get_node sp' k0 = Some n1 /\ same_but_class n0 n1.
Proof.
  induction l as [|rv t IH]; intros sp sp' ds k0 n0 H Hg; cbn [read_all] in H.
  - inversion H; subst. exists n0. split; [exact Hg | apply same_but_class_refl].
  - destruct (read_one sp rv) as [sp1 d] eqn:E1. destruct (read_all sp1 t) as [sp2 ds2] eqn:E2.
    inversion H; subst sp' ds; clear H.
    destruct (read_one_frame _ _ _ _ _ _ E1 Hg) as (n1 & G1 & S1).
    destruct (IH _ _ _ _ _ E2 G1) as (n2 & G2 & S2).
    exists n2. split; [exact G2 | eapply same_but_class_trans; eassumption].
Qed.

(* a write leaves a node that lacks CurrentWrite untouched (and any other node present) *)
Lemma write_one_frozen : forall sp wv sp' st k0 n0, write_one sp wv = (sp', st) ->
  get_node sp k0 = Some n0 -> lacks n0 FlagCurrentWrite = true -> get_node sp' k0 = Some n0.
Proof.
  intros sp [[[ns k] attr] v] sp' st k0 n0 H Hg Hl. unfold write_one in H.
  destruct (ns <? sp_ns sp); [|now inversion H; subst].
  unfold ns_set_attribute in H. destruct (get_node sp k) as [n|] eqn:Gk; [|now inversion H; subst].
  destruct (negb (access n FlagCurrentWrite)) eqn:EA; [now inversion H; subst|].
  inversion H; subst sp' st; clear H.
  destruct (N.eq_dec k0 k) as [->|Hne].
  - rewrite Gk in Hg. inversion Hg; subst n0. apply lacks_no_access in Hl. rewrite Hl in EA. discriminate.
  - now rewrite get_set_node_other.
Qed.

Lemma write_all_frozen : forall l sp sp' sts k0 n0, write_all sp l = (sp', sts) ->
  get_node sp k0 = Some n0 -> lacks n0 FlagCurrentWrite = true -> get_node sp' k0 = Some n0.
Proof.
  induction l as [|wv t IH]; intros sp sp' sts k0 n0 H Hg Hl; cbn [write_all] in H.
  - now inversion H; subst.
  - destruct (write_one sp wv) as [sp1 st] eqn:E1. destruct (write_all sp1 t) as [sp2 sts2] eqn:E2.
    inversion H; subst sp' sts; clear H.
    eapply IH; [exact E2 | eapply write_one_frozen; eassumption | exact Hl].
Qed.

(* every element of a write list aimed at such a node is refused *)
Lemma write_all_refused : forall l sp sp' sts k0 n0, write_all sp l = (sp', sts) ->
  get_node sp k0 = Some n0 -> lacks n0 FlagCurrentWrite = true ->
  forall i ns attr v, nth_error l i = Some ((ns, k0), attr, v) -> ns <? sp_ns sp = true ->
  nth_error sts i = Some StBadUserAccessDenied.
Proof.
  induction l as [|wv t IH]; intros sp sp' sts k0 n0 H Hg Hl i ns attr v Hi Hns; cbn [write_all] in H.
  - destruct i; discriminate.
  - destruct (write_one sp wv) as [sp1 st] eqn:E1. destruct (write_all sp1 t) as [sp2 sts2] eqn:E2.
    inversion H; subst sp' sts; clear H.
    assert (G1 : get_node sp1 k0 = Some n0) by (eapply write_one_frozen; eassumption).
    assert (N1 : sp_ns sp1 = sp_ns sp).
    { destruct wv as [[[ns' k'] attr'] v']. unfold write_one in E1. destruct (ns' <? sp_ns sp); [|now inversion E1].
      unfold ns_set_attribute in E1. destruct (get_node sp k'); [|now inversion E1].
      destruct (negb (access n FlagCurrentWrite)); now inversion E1. }
    destruct i as [|i]; cbn [nth_error] in *.
    + inversion Hi; subst wv. unfold write_one in E1. rewrite Hns in E1.
      rewrite (write_denied _ _ _ _ _ Hg Hl) in E1. now inversion E1.
    + eapply IH; try eassumption. now rewrite N1.
Qed.

(* every element of a read list aimed at a node lacking CurrentRead is answered BadUserAccessDenied without a value *)
Lemma read_all_denied : forall l sp sp' ds, read_all sp l = (sp', ds) ->
  forall i ns k attr n0, nth_error l i = Some ((ns, k), attr) -> ns <? sp_ns sp = true ->
  get_node sp k = Some n0 -> lacks n0 FlagCurrentRead = true ->
  nth_error ds i = Some (status_dv StBadUserAccessDenied).
Proof.
  induction l as [|rv t IH]; intros sp sp' ds H i ns k attr n0 Hi Hns Hg Hl; cbn [read_all] in H.
  - destruct i; discriminate.
  - destruct (read_one sp rv) as [sp1 d] eqn:E1. destruct (read_all sp1 t) as [sp2 ds2] eqn:E2.
    inversion H; subst sp' ds; clear H.
    destruct i as [|i]; cbn [nth_error] in *.
    + inversion Hi; subst rv. unfold read_one in E1. rewrite Hns in E1.
      rewrite (read_denied _ _ _ _ Hg Hl) in E1. now inversion E1.
    + destruct (read_one_frame _ _ _ _ _ _ E1 Hg) as (n1 & G1 & S1).
      assert (N1 : sp_ns sp1 = sp_ns sp).
      { destruct rv as [[ns' k'] attr']. unfold read_one in E1. destruct (ns' <? sp_ns sp); [|now inversion E1].
        eapply ns_attribute_ns; eassumption. }
      eapply IH; try eassumption; [now rewrite N1 | now rewrite (same_but_class_lacks _ _ _ S1)].
Qed.
