From Coq Require Import NArith List Bool Lia.
From Opcua Require Import Model.RecvBase Model.RecvMerge Proofs.RecvBaseProofs.
Import ListNotations.
Open Scope N_scope.

(* ---- getters with defaults ---- *)
Lemma cget_tset t k v k' : cget (tset t k v) k' = if k' =? k then v else cget t k'.
Proof. unfold cget. rewrite tfind_tset. destruct (k' =? k); reflexivity. Qed.
Lemma cget_tdel t k k' : cget (tdel t k) k' = if k' =? k then [] else cget t k'.
Proof. unfold cget. rewrite tfind_tdel. destruct (k' =? k); reflexivity. Qed.
Lemma aget_tset a k v k' : aget (tset a k v) k' = if k' =? k then v else aget a k'.
Proof. unfold aget. rewrite tfind_tset. destruct (k' =? k); reflexivity. Qed.
Lemma aget_tdel a k k' : aget (tdel a k) k' = if k' =? k then (0, []) else aget a k'.
Proof. unfold aget. rewrite tfind_tdel. destruct (k' =? k); reflexivity. Qed.

(* ---- mergeChunks on lists without adjacent equal numbers is concatenation ---- *)
Fixpoint adjd (s : N) (cs : list chunk) : Prop :=
  match cs with [] => True | c :: cs' => ck_seq c <> s /\ adjd (ck_seq c) cs' end.
Definition adj_list (cs : list chunk) : Prop :=
  match cs with [] => True | c :: cs' => adjd (ck_seq c) cs' end.

Definition datas (cs : list chunk) : bytes := concat (map ck_data cs).

Lemma merge_loop_adjd s acc cs : adjd s cs -> merge_loop false s acc cs = acc ++ datas cs.
Proof.
  revert s acc. induction cs as [|c cs IH]; intros s acc H; cbn [merge_loop datas map concat].
  - now rewrite app_nil_r.
  - destruct H as [H1 H2]. cbn [negb andb]. destruct (N.eqb_spec (ck_seq c) s); [contradiction|].
    rewrite IH by exact H2. unfold datas. now rewrite app_assoc.
Qed.

Lemma merge_loop_first s acc c cs : merge_loop true s acc (c :: cs) = merge_loop false (ck_seq c) (acc ++ ck_data c) cs.
Proof. reflexivity. Qed.

Lemma merge_adj cs : adj_list cs -> merge cs = datas cs.
Proof.
  destruct cs as [|c [|c' cs]]; intros H.
  - reflexivity.
  - cbn. now rewrite app_nil_r.
  - unfold merge. rewrite merge_loop_first. rewrite merge_loop_adjd by exact H. reflexivity.
Qed.

Definition last_seq (cs : list chunk) : option N :=
  match rev cs with [] => None | c :: _ => Some (ck_seq c) end.

Lemma adjd_app s cs c : adjd s cs -> (match last_seq cs with Some x => x | None => s end) <> ck_seq c -> adjd s (cs ++ [c]).
Proof.
  revert s. induction cs as [|c0 cs IH]; intros s H Hl; cbn [app adjd].
  - cbn in Hl. split; [congruence|exact I].
  - destruct H as [H1 H2]. split; [exact H1|]. apply IH; [exact H2|].
    unfold last_seq in *. cbn [rev] in Hl. destruct (rev cs) as [|x r] eqn:E; cbn in Hl |- *; exact Hl.
Qed.

Lemma adj_list_app cs c : adj_list cs -> (forall x, last_seq cs = Some x -> x <> ck_seq c) -> adj_list (cs ++ [c]).
Proof.
  destruct cs as [|c0 cs]; intros H Hl; cbn [app adj_list]; [exact I|].
  apply adjd_app; [exact H|].
  unfold last_seq in *. cbn [rev] in Hl. destruct (rev cs) as [|x r] eqn:E; cbn in Hl |- *; apply Hl; reflexivity.
Qed.

Lemma last_seq_app cs c : last_seq (cs ++ [c]) = Some (ck_seq c).
Proof. unfold last_seq. rewrite rev_app_distr. reflexivity. Qed.

Lemma datas_app cs c : datas (cs ++ [c]) = datas cs ++ ck_data c.
Proof. unfold datas. rewrite map_app, concat_app. cbn. now rewrite app_nil_r. Qed.

(* ---- the simulation ---- *)
Definition Inv (t : ctable) (a : atable) (l : ltable) : Prop :=
  forall r, aget a r = (nlen (cget t r), datas (cget t r)) /\ adj_list (cget t r)
            /\ (forall x, last_seq (cget t r) = Some x -> tfind l r = Some x).

Lemma Inv_empty : Inv [] [] [].
Proof. intro r. cbn. repeat split. intros x H. discriminate. Qed.

Lemma step_sim mc ms t a l c l' :
  Inv t a l -> fresh_step l c = Some l' ->
  exists t' a' o, recv_step mc ms t c = (t', o) /\ spec_step mc ms a c = (a', o) /\ Inv t' a' l'.
Proof.
  intros HI Hf. unfold recv_step, spec_step, fresh_step in *.
  set (req := ck_req c) in *.
  destruct (HI req) as (Ha & Hadj & Hlast).
  destruct (ck_type c =? CT_A) eqn:EA.
  - (* abort *)
    injection Hf as <-. do 3 eexists. split; [reflexivity|]. split; [reflexivity|].
    intro r. rewrite aget_tdel, cget_tdel, tfind_tdel. destruct (N.eqb_spec r req) as [->|].
    + cbn. repeat split. intros x H; discriminate.
    + apply HI.
  - assert (Hne : forall x, last_seq (cget t req) = Some x -> x <> ck_seq c).
    { intros x Hx. apply Hlast in Hx. rewrite Hx in Hf. destruct (N.eqb_spec x (ck_seq c)); [discriminate|assumption]. }
    assert (Hl' : l' = if ck_type c =? CT_C then tset l req (ck_seq c) else tdel l req).
    { destruct (tfind l req) as [s|]; [destruct (s =? ck_seq c); [discriminate|]|]; now injection Hf as <-. }
    clear Hf. rewrite Ha.
    pose proof (adj_list_app _ c Hadj Hne) as Hadj'.
    destruct (ck_type c =? CT_C) eqn:EC.
    + (* intermediate *)
      rewrite nlen_app. change (nlen [c]) with 1.
      destruct (over mc ((nlen (cget t req) + 1) mod 4294967296)) eqn:Elim.
      * do 3 eexists. split; [reflexivity|]. split; [reflexivity|]. subst l'.
        intro r. rewrite aget_tdel, cget_tdel, tfind_tset. destruct (N.eqb_spec r req) as [->|].
        -- cbn. repeat split. intros x H; discriminate.
        -- apply HI.
      * do 3 eexists. split; [reflexivity|]. split; [reflexivity|]. subst l'.
        intro r. rewrite aget_tset, cget_tset, tfind_tset. destruct (N.eqb_spec r req) as [->|].
        -- rewrite nlen_app, datas_app, last_seq_app. change (nlen [c]) with 1. repeat split; [exact Hadj'|].
           intros x [= <-]. reflexivity.
        -- apply HI.
    + (* final *)
      rewrite (merge_adj _ Hadj'), datas_app.
      destruct (over ms (blen (datas (cget t req) ++ ck_data c) mod 4294967296)) eqn:Elim;
        (do 3 eexists; split; [reflexivity|]; split; [reflexivity|]; subst l';
         intro r; rewrite aget_tdel, cget_tdel, tfind_tdel; destruct (N.eqb_spec r req) as [->|];
         [cbn; repeat split; intros x H; discriminate | apply HI]).
Qed.

Theorem recv_all_spec mc ms cs : forall t a l,
  Inv t a l -> fresh_from l cs = true ->
  snd (recv_all mc ms t cs) = snd (spec_all mc ms a cs).
Proof.
  induction cs as [|c cs IH]; intros t a l HI Hf; [reflexivity|].
  cbn [fresh_from] in Hf. destruct (fresh_step l c) as [l'|] eqn:E; [|discriminate].
  destruct (step_sim mc ms t a l c l' HI E) as (t' & a' & o & H1 & H2 & HI').
  cbn [recv_all spec_all]. rewrite H1, H2.
  specialize (IH t' a' l' HI' Hf).
  destruct (recv_all mc ms t' cs) as [t2 os]. destruct (spec_all mc ms a' cs) as [a2 os'].
  cbn [snd] in *. now rewrite IH.
Qed.

(* ---- the numbering rule gives distinct consecutive numbers ---- *)
Lemma seq_next_neq s s' : seq_next s s' -> s <> s'.
Proof. unfold seq_next. lia. Qed.

(* the pre-fix filter loses a first chunk numbered 0 *)
Lemma merge_prefix_drops_zero :
  merge_prefix [Build_chunk CT_C 0 1 [65;65;65]; Build_chunk CT_F 1 1 [66;66;66]] = [66;66;66].
Proof. reflexivity. Qed.

(* ---- sequential reference sender ---- *)

Lemma read_u32_enc n rest : n < 4294967296 -> read_u32 (enc_u32 n ++ rest) = Some (n, rest).
Proof.
  intro H. unfold enc_u32, read_u32. cbn [app]. f_equal. f_equal. unfold u32.
  pose proof (N.div_mod n 256 ltac:(lia)).
  pose proof (N.div_mod (n / 256) 256 ltac:(lia)).
  pose proof (N.div_mod (n / 256 / 256) 256 ltac:(lia)).
  replace (n / 65536) with (n / 256 / 256) by (rewrite N.div_div by lia; reflexivity).
  replace (n / 16777216) with (n / 256 / 256 / 256) by (rewrite !N.div_div by lia; reflexivity).
  assert (n / 256 / 256 / 256 < 256).
  { apply N.div_lt_upper_bound; [lia|]. apply N.div_lt_upper_bound; [lia|]. apply N.div_lt_upper_bound; lia. }
  rewrite (N.mod_small (n / 256 / 256 / 256) 256) by assumption.
  pose proof (N.div_mod (n / 256 / 256) 256 ltac:(lia)). lia.
Qed.

Lemma abort_decode_body code reason :
  code < 4294967296 -> blen reason < 4294967295 -> abort_decode (abort_body code reason) = Some code.
Proof.
  intros Hc Hr. unfold abort_decode, abort_body.
  rewrite read_u32_enc by exact Hc. rewrite read_u32_enc by lia.
  destruct (blen reason =? 0); [reflexivity|]. destruct (N.eqb_spec (blen reason) 4294967295); [lia|].
  cbn [orb]. rewrite N.leb_refl. reflexivity.
Qed.

(* ---- pairwise distinct numbers on the wire are fresh (covers interleaved senders) ---- *)
Lemma fresh_nodup cs : forall l,
  (forall r s, tfind l r = Some s -> ~ In s (map ck_seq cs)) -> NoDup (map ck_seq cs) -> fresh_from l cs = true.
Proof.
  induction cs as [|c cs IH]; intros l Hl Hnd; [reflexivity|].
  cbn [map] in *. inversion Hnd as [|x xs Hnotin Hnd']; subst.
  assert (Hold : forall r s, tfind l r = Some s -> ~ In s (map ck_seq cs)).
  { intros r s H Hin. apply (Hl r s H). right. exact Hin. }
  assert (Hset : forall r s, tfind (tset l (ck_req c) (ck_seq c)) r = Some s -> ~ In s (map ck_seq cs)).
  { intros r s. rewrite tfind_tset. destruct (r =? ck_req c); [intros [= <-]; exact Hnotin | apply Hold]. }
  assert (Hdel : forall r s, tfind (tdel l (ck_req c)) r = Some s -> ~ In s (map ck_seq cs)).
  { intros r s. rewrite tfind_tdel. destruct (r =? ck_req c); [discriminate | apply Hold]. }
  cbn [fresh_from]. unfold fresh_step.
  destruct (ck_type c =? CT_A); [apply IH; assumption|].
  destruct (tfind l (ck_req c)) as [s|] eqn:E.
  - destruct (N.eqb_spec s (ck_seq c)) as [->|].
    + exfalso. apply (Hl _ _ E). left. reflexivity.
    + destruct (ck_type c =? CT_C); apply IH; assumption.
  - destruct (ck_type c =? CT_C); apply IH; assumption.
Qed.

(* ---- what the specification receiver makes of a sender that does not interleave ---- *)
Definition sta (req n : N) (b : bytes) : atable := if n =? 0 then [] else [(req, (n, b))].

Lemma aget_sta req n b : (n = 0 -> b = []) -> aget (sta req n b) req = (n, b).
Proof.
  unfold sta, aget. destruct (N.eqb_spec n 0) as [->|]; intro H; cbn.
  - now rewrite H.
  - now rewrite N.eqb_refl.
Qed.

Lemma tdel_sta req n b : tdel (sta req n b) req = [].
Proof. unfold sta. destruct (n =? 0); cbn; [reflexivity|]. now rewrite N.eqb_refl. Qed.

Lemma tset_sta req n b v : tset (sta req n b) req v = [(req, v)].
Proof. unfold sta. destruct (n =? 0); cbn; [reflexivity|]. now rewrite N.eqb_refl. Qed.

Lemma spec_pieces mc ms req ps : forall n b rest,
  (n = 0 -> b = []) -> within mc (n + nlen ps) ->
  spec_all mc ms (sta req n b) (map (piece_chunk req) ps ++ rest)
  = spec_all mc ms (sta req (n + nlen ps) (b ++ concat (map snd ps))) rest.
Proof.
  induction ps as [|p ps IH]; intros n b rest Hnb [Hlt Hle].
  - cbn. now rewrite N.add_0_r, app_nil_r.
  - unfold nlen in Hle, Hlt. cbn [length] in Hle, Hlt. fold (nlen ps) in Hle, Hlt.
    cbn [map app spec_all]. unfold spec_step. cbn [piece_chunk ck_type ck_req ck_data].
    change (CT_C =? CT_A) with false. change (CT_C =? CT_C) with true. cbn iota.
    rewrite aget_sta by exact Hnb.
    rewrite N.mod_small by lia.
    replace (over mc (n + 1)) with false
      by (unfold over; destruct (N.ltb_spec 0 mc); destruct (N.ltb_spec mc (n + 1)); cbn; try reflexivity; lia).
    rewrite tset_sta.
    change [(req, (n + 1, b ++ snd p))] with (if false then [] else [(req, (n + 1, b ++ snd p))]).
    replace false with (n + 1 =? 0) by (apply N.eqb_neq; lia).
    change (if n + 1 =? 0 then [] else [(req, (n + 1, b ++ snd p))]) with (sta req (n + 1) (b ++ snd p)).
    specialize (IH (n + 1) (b ++ snd p) rest ltac:(lia) ltac:(unfold within, nlen in *; lia)).
    rewrite IH.
    replace (sta req (n + nlen (p :: ps)) (b ++ concat (snd p :: map snd ps)))
      with (sta req (n + 1 + nlen ps) ((b ++ snd p) ++ concat (map snd ps))).
    2:{ f_equal; [unfold nlen; cbn [length]; lia | cbn [map concat]; now rewrite app_assoc]. }
    destruct (spec_all mc ms (sta req (n + 1 + nlen ps) ((b ++ snd p) ++ concat (map snd ps))) rest). reflexivity.
Qed.

Lemma spec_msg mc ms m rest :
  smsg_ok mc ms m ->
  spec_all mc ms [] (smsg_chunks m ++ rest) =
  (fst (spec_all mc ms [] rest), smsg_out m :: snd (spec_all mc ms [] rest)).
Proof.
  intros Hok. destruct m as [req ps sl last | req ps sa code reason]; cbn [smsg_chunks smsg_ok smsg_out] in *.
  - destruct Hok as [H1 H2]. rewrite <- app_assoc.
    change ([] : atable) with (sta req 0 []) at 1. rewrite spec_pieces by (try exact H1; reflexivity).
    cbn [app spec_all]. unfold spec_step. cbn [ck_type ck_req ck_data].
    change (CT_F =? CT_A) with false. change (CT_F =? CT_C) with false. cbn iota.
    rewrite aget_sta by (unfold nlen; destruct ps; [reflexivity|cbn; lia]).
    rewrite tdel_sta. cbn [app]. destruct H2 as [H2a H2b]. rewrite N.mod_small by lia.
    replace (over ms (blen (concat (map snd ps) ++ last))) with false
      by (unfold over; destruct (N.ltb_spec 0 ms); destruct (N.ltb_spec ms (blen (concat (map snd ps) ++ last))); cbn; try reflexivity; lia).
    destruct (spec_all mc ms [] rest). reflexivity.
  - destruct Hok as (H1 & H2 & H3). rewrite <- app_assoc.
    change ([] : atable) with (sta req 0 []) at 1. rewrite spec_pieces by (try exact H1; reflexivity).
    cbn [app spec_all]. unfold spec_step. cbn [ck_type ck_req ck_data].
    change (CT_A =? CT_A) with true. cbn iota.
    rewrite tdel_sta, abort_decode_body by assumption.
    destruct (spec_all mc ms [] rest). reflexivity.
Qed.

Lemma spec_ref_stream mc ms msgs :
  Forall (smsg_ok mc ms) msgs ->
  snd (spec_all mc ms [] (ref_stream msgs)) = map smsg_out msgs.
Proof.
  induction 1 as [|m msgs Hm _ IH]; [reflexivity|].
  unfold ref_stream in *. cbn [map concat]. rewrite spec_msg by assumption. cbn [snd]. now rewrite IH.
Qed.

(* ---- a conforming numbering does not repeat a number within 2^32 - 2048 consecutive chunks ---- *)
Lemma chain_tail s r : chain (s :: r) -> chain r.
Proof. destruct r; cbn; [auto|]. intros [_ H]. exact H. Qed.

Lemma chain_notin rest : forall s0 d cur (wrapped : bool),
  chain (cur :: rest) ->
  (wrapped = false -> cur = s0 + d) ->
  (wrapped = true -> 4294966271 + cur <= d + 1022 + s0) ->
  d + nlen rest < 4294965249 ->
  (wrapped = false -> 0 < d \/ rest = rest) ->
  ~ In s0 rest \/ False.
Proof.
  induction rest as [|x rest IH]; intros s0 d cur wrapped Hc Hnw Hw Hlen _; [left; intros []|].
  left. intros Hin.
  assert (Hlen' : d + 1 + nlen rest < 4294965249) by (unfold nlen in *; cbn [length] in Hlen; lia).
  cbn [chain] in Hc. destruct Hc as [Hn Hc'].
  assert (Hstep : exists w', (w' = false -> x = s0 + (d + 1)) /\ (w' = true -> 4294966271 + x <= d + 1 + 1022 + s0)).
  { destruct Hn as [[-> Hlt] | [Hge Hlt]].
    - destruct wrapped.
      + exists true. split; [discriminate|]. intros _. specialize (Hw eq_refl). lia.
      + exists false. split; [|discriminate]. intros _. rewrite (Hnw eq_refl). lia.
    - exists true. split; [discriminate|]. intros _. destruct wrapped.
      + specialize (Hw eq_refl). lia.
      + rewrite (Hnw eq_refl) in Hge. lia. }
  destruct Hstep as (w' & Hnw' & Hw').
  destruct Hin as [-> | Hin].
  - destruct w'.
    + specialize (Hw' eq_refl). unfold nlen in *. lia.
    + specialize (Hnw' eq_refl). lia.
  - destruct (IH s0 (d + 1) x w' Hc' Hnw' Hw' Hlen' ltac:(intros _; right; reflexivity)) as [H|[]]. exact (H Hin).
Qed.

Lemma chain_nodup seqs : chain seqs -> nlen seqs <= 4294965249 -> NoDup seqs.
Proof.
  induction seqs as [|s rest IH]; intros Hc Hlen; [constructor|].
  constructor.
  - destruct (chain_notin rest s 0 s false Hc ltac:(intros _; lia) ltac:(discriminate)
                ltac:(unfold nlen in *; cbn [length] in Hlen; lia) ltac:(intros _; right; reflexivity)) as [H|[]]. exact H.
  - apply IH; [exact (chain_tail _ _ Hc)|]. unfold nlen in *. cbn [length] in Hlen. lia.
Qed.
