(* Lemmas about the server state machine (C29, C31, C32, C35). *)
From Coq Require Import NArith ZArith Bool List Lia.
From Opcua Require Import Model.ServerSpace Model.ServerBrowse Model.Server
  Proofs.ServerSpaceProofs Proofs.ServerBrowseProofs.
Import ListNotations.
Open Scope N_scope.

(* break every match of a hypothesis *)
Ltac break_in H :=
  repeat match type of H with
         | context [match ?x with _ => _ end] => let E := fresh "E" in destruct x eqn:E
         | context [if ?x then _ else _] => let E := fresh "E" in destruct x eqn:E
         end.

Ltac inv_pair H := inversion H; subst; clear H.

(* ---------------- space frame ---------------- *)

Lemma read_one_ns : forall sp rv sp' d, read_one sp rv = (sp', d) -> sp_ns sp' = sp_ns sp.
Proof.
  intros sp [[ns k] attr] sp' d H. unfold read_one in H. destruct (ns <? sp_ns sp); [|now inversion H].
  eapply ns_attribute_ns; eassumption.
Qed.

Lemma notify_frame : forall items sp n k0 n0, get_node sp k0 = Some n0 ->
  exists n1, get_node (notify items sp n) k0 = Some n1 /\ same_but_class n0 n1.
Proof.
  unfold notify. induction items as [|e t IH]; intros sp n k0 n0 Hg; cbn [fold_left].
  - exists n0. split; [exact Hg | apply same_but_class_refl].
  - destruct (snd (it_node (snd e)) =? snd n).
    + destruct (read_one sp (n, it_attr (snd e))) as [sp1 d] eqn:E. cbn [fst].
      destruct (read_one_frame _ _ _ _ _ _ E Hg) as (n1 & G1 & S1).
      destruct (IH sp1 n k0 n1 G1) as (n2 & G2 & S2).
      exists n2. split; [exact G2 | eapply same_but_class_trans; eassumption].
    + now apply IH.
Qed.

Lemma notify_ns : forall items sp n, sp_ns (notify items sp n) = sp_ns sp.
Proof.
  unfold notify. induction items as [|e t IH]; intros sp n; cbn [fold_left]; [reflexivity|].
  destruct (snd (it_node (snd e)) =? snd n); [|apply IH].
  destruct (read_one sp (n, it_attr (snd e))) as [sp1 d] eqn:E. cbn [fst]. rewrite IH.
  eapply read_one_ns; eassumption.
Qed.

Lemma write_one_ns : forall sp wv sp' st, write_one sp wv = (sp', st) -> sp_ns sp' = sp_ns sp.
Proof.
  intros sp [[[ns k] attr] v] sp' st H. unfold write_one in H. destruct (ns <? sp_ns sp); [|now inversion H].
  unfold ns_set_attribute in H. destruct (get_node sp k); [|now inversion H].
  destruct (negb (access n FlagCurrentWrite)); now inversion H.
Qed.

(* invariant of the write loop for a node that lacks CurrentWrite *)
Definition frozen_as (sp : space) (k0 : key) (n0 : node) : Prop :=
  exists n1, get_node sp k0 = Some n1 /\ same_but_class n0 n1.

Lemma write_step_frozen : forall items sp wv sp1 st k0 n0, write_one sp wv = (sp1, st) ->
  lacks n0 FlagCurrentWrite = true -> frozen_as sp k0 n0 ->
  frozen_as (if st =? StOK then notify items sp1 (fst (fst wv)) else sp1) k0 n0.
Proof.
  intros items sp wv sp1 st k0 n0 E Hl (n1 & G & S).
  assert (L1 : lacks n1 FlagCurrentWrite = true) by now rewrite (same_but_class_lacks _ _ _ S).
  pose proof (write_one_frozen _ _ _ _ _ _ E G L1) as G1.
  destruct (st =? StOK).
  - destruct (notify_frame items sp1 (fst (fst wv)) k0 n1 G1) as (n2 & G2 & S2).
    exists n2. split; [exact G2 | eapply same_but_class_trans; eassumption].
  - exists n1. now split.
Qed.

Lemma srv_write_all_frozen : forall l items sp sp' sts k0 n0, srv_write_all items sp l = (sp', sts) ->
  lacks n0 FlagCurrentWrite = true -> frozen_as sp k0 n0 -> frozen_as sp' k0 n0.
Proof.
  induction l as [|wv t IH]; intros items sp sp' sts k0 n0 H Hl Hf; cbn [srv_write_all] in H.
  - now inv_pair H.
  - destruct (write_one sp wv) as [sp1 st] eqn:E1.
    destruct (srv_write_all items (if st =? StOK then notify items sp1 (fst (fst wv)) else sp1) t) as [sp2 sts2] eqn:E2.
    inv_pair H. eapply IH; [exact E2 | exact Hl |]. eapply write_step_frozen; eassumption.
Qed.

Lemma srv_write_all_refused : forall l items sp sp' sts k0 n0, srv_write_all items sp l = (sp', sts) ->
  lacks n0 FlagCurrentWrite = true -> frozen_as sp k0 n0 ->
  forall i ns attr v, nth_error l i = Some ((ns, k0), attr, v) -> ns <? sp_ns sp = true ->
  nth_error sts i = Some StBadUserAccessDenied.
Proof.
  induction l as [|wv t IH]; intros items sp sp' sts k0 n0 H Hl Hf i ns attr v Hi Hns; cbn [srv_write_all] in H.
  - destruct i; discriminate.
  - destruct (write_one sp wv) as [sp1 st] eqn:E1.
    destruct (srv_write_all items (if st =? StOK then notify items sp1 (fst (fst wv)) else sp1) t) as [sp2 sts2] eqn:E2.
    inv_pair H.
    destruct i as [|i]; cbn [nth_error] in *.
    + inv_pair Hi. destruct Hf as (n1 & G & S).
      assert (L1 : lacks n1 FlagCurrentWrite = true) by now rewrite (same_but_class_lacks _ _ _ S).
      unfold write_one in E1. rewrite Hns in E1. rewrite (write_denied _ _ _ _ _ G L1) in E1. now inv_pair E1.
    + eapply IH; [exact E2 | exact Hl | eapply write_step_frozen; eassumption | exact Hi |].
      destruct (st =? StOK); [rewrite notify_ns|]; now rewrite (write_one_ns _ _ _ _ E1).
Qed.

Lemma read_all_frozen : forall l sp sp' ds k0 n0, read_all sp l = (sp', ds) -> frozen_as sp k0 n0 -> frozen_as sp' k0 n0.
Proof.
  intros l sp sp' ds k0 n0 H (n1 & G & S). destruct (read_all_frame _ _ _ _ _ _ H G) as (n2 & G2 & S2).
  exists n2. split; [exact G2 | eapply same_but_class_trans; eassumption].
Qed.

(* what an event can do to the address space *)
Lemma handle_space : forall fuel s e s' o, handle fuel s e = (s', o) ->
  sv_space s' = sv_space s \/
  (exists chan tok l ds, e = EReq chan tok (RRead l) /\ o = ORead ds /\ read_all (sv_space s) l = (sv_space s', ds)) \/
  (exists chan tok l sts, e = EReq chan tok (RWrite l) /\ o = OWrite sts /\
                          srv_write_all (sv_items s) (sv_space s) l = (sv_space s', sts)).
Proof.
  intros fuel s e s' o H. destruct e as [chan tok r|id|id]; cbn [handle] in H.
  - destruct (negb (has_handler r)); [inv_pair H; now left|].
    destruct (check_session s (svc_of r) tok); [inv_pair H; now left|].
    destruct r; cbn [dispatch] in H.
    + destruct (read_all (sv_space s) l) as [sp ds] eqn:E. inv_pair H. right. left. exists chan, tok, l, ds. now repeat split.
    + destruct (srv_write_all (sv_items s) (sv_space s) l) as [sp sts] eqn:E. inv_pair H. right. right. exists chan, tok, l, sts. now repeat split.
    + break_in H; inv_pair H; now left.
    + break_in H; inv_pair H; now left.
    + break_in H; inv_pair H; now left.
    + break_in H; inv_pair H; now left.
    + break_in H; inv_pair H; now left.
    + break_in H; inv_pair H; now left.
    + break_in H; inv_pair H; now left.
    + break_in H; inv_pair H; now left.
    + break_in H; inv_pair H; now left.
    + break_in H; inv_pair H; now left.
    + break_in H; inv_pair H; now left.
  - inv_pair H. now left.
  - inv_pair H. now left.
Qed.

Lemma handle_frozen : forall fuel s e s' o k0 n0, handle fuel s e = (s', o) ->
  lacks n0 FlagCurrentWrite = true -> frozen_as (sv_space s) k0 n0 -> frozen_as (sv_space s') k0 n0.
Proof.
  intros fuel s e s' o k0 n0 H Hl Hf.
  destruct (handle_space _ _ _ _ _ H) as [E|[(chan & tok & l & ds & _ & _ & E)|(chan & tok & l & sts & _ & _ & E)]].
  - now rewrite E.
  - eapply read_all_frozen; eassumption.
  - eapply srv_write_all_frozen; eassumption.
Qed.

Lemma run_frozen : forall fuel h s k0 n0, lacks n0 FlagCurrentWrite = true ->
  frozen_as (sv_space s) k0 n0 -> frozen_as (sv_space (run fuel s h)) k0 n0.
Proof.
  unfold run. induction h as [|e t IH]; intros s k0 n0 Hl Hf; cbn [fold_left]; [exact Hf|].
  apply IH; [exact Hl|]. unfold step. destruct (handle fuel s e) as [s' o] eqn:E. cbn [fst].
  eapply handle_frozen; eassumption.
Qed.

(* a request that reaches a handler was let through by the gate *)
Lemma handle_read_inv : forall fuel s chan tok l s' ds, handle fuel s (EReq chan tok (RRead l)) = (s', ORead ds) ->
  read_all (sv_space s) l = (sv_space s', ds).
Proof.
  intros fuel s chan tok l s' ds H.
  destruct (handle_space _ _ _ _ _ H) as [E|[(c & t & l' & ds' & E1 & E2 & E3)|(c & t & l' & sts & E1 & E2 & _)]].
  - cbn [handle has_handler negb svc_of] in H. destruct (check_session s SvcRead tok); [discriminate|].
    cbn [dispatch] in H. destruct (read_all (sv_space s) l) as [sp ds0]. inv_pair H. reflexivity.
  - inversion E1; subst. inversion E2; subst. exact E3.
  - discriminate.
Qed.

Lemma handle_write_inv : forall fuel s chan tok l s' sts, handle fuel s (EReq chan tok (RWrite l)) = (s', OWrite sts) ->
  srv_write_all (sv_items s) (sv_space s) l = (sv_space s', sts).
Proof.
  intros fuel s chan tok l s' sts H.
  cbn [handle has_handler negb svc_of] in H. destruct (check_session s SvcWrite tok); [discriminate|].
  cbn [dispatch] in H. destruct (srv_write_all (sv_items s) (sv_space s) l) as [sp sts0]. inv_pair H. reflexivity.
Qed.
