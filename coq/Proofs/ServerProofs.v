(* Lemmas about the server state machine (C29, C31, C32, C35). *)
From Coq Require Import NArith ZArith Bool List Lia.
From Opcua Require Import Model.ServerSpace Model.ServerBrowse Model.Server
  Proofs.ServerSpaceProofs Proofs.ServerBrowseProofs.
Import ListNotations.
Open Scope N_scope.

(* break every match of a hypothesis *)
Ltac break_in H :=
  repeat match type of H with
         | context [match ?x with _ => _ end] => let E := fresh "E" in destruct x eqn:E
         | context [if ?x then _ else _] => let E := fresh "E" in destruct x eqn:E
         end.

Ltac inv_pair H := inversion H; subst; clear H.

(* ---------------- space frame ---------------- *)

Lemma read_one_ns : forall sp rv sp' d, read_one sp rv = (sp', d) -> sp_ns sp' = sp_ns sp.
Proof.
  intros sp [[ns k] attr] sp' d H. unfold read_one in H. destruct (ns <? sp_ns sp); [|now inversion H].
  eapply ns_attribute_ns; eassumption.
Qed.

Lemma notify_frame : forall items sp n k0 n0, get_node sp k0 = Some n0 ->
  exists n1, get_node (notify items sp n) k0 = Some n1 /\ same_but_class n0 n1.
Proof.
  unfold notify. induction items as [|e t IH]; intros sp n k0 n0 Hg; cbn [fold_left].
  - exists n0. split; [exact Hg | apply same_but_class_refl].
  - destruct (snd (it_node (snd e)) =? snd n).
    + destruct (read_one sp (n, it_attr (snd e))) as [sp1 d] eqn:E. cbn [fst].
      destruct (read_one_frame _ _ _ _ _ _ E Hg) as (n1 & G1 & S1).
      destruct (IH sp1 n k0 n1 G1) as (n2 & G2 & S2).
      exists n2. split; [exact G2 | eapply same_but_class_trans; eassumption].
    + now apply IH.
Qed.

Lemma notify_ns : forall items sp n, sp_ns (notify items sp n) = sp_ns sp.
Proof.
  unfold notify. induction items as [|e t IH]; intros sp n; cbn [fold_left]; [reflexivity|].
  destruct (snd (it_node (snd e)) =? snd n); [|apply IH].
  destruct (read_one sp (n, it_attr (snd e))) as [sp1 d] eqn:E. cbn [fst]. rewrite IH.
  eapply read_one_ns; eassumption.
Qed.

Lemma write_one_ns : forall sp wv sp' st, write_one sp wv = (sp', st) -> sp_ns sp' = sp_ns sp.
Proof.
  intros sp [[[ns k] attr] v] sp' st H. unfold write_one in H. destruct (ns <? sp_ns sp); [|now inversion H].
  unfold ns_set_attribute in H. destruct (get_node sp k); [|now inversion H].
  destruct (negb (access n FlagCurrentWrite)); now inversion H.
Qed.

(* invariant of the write loop for a node that lacks CurrentWrite *)
Definition frozen_as (sp : space) (k0 : key) (n0 : node) : Prop :=
  exists n1, get_node sp k0 = Some n1 /\ same_but_class n0 n1.

Lemma write_step_frozen : forall items sp wv sp1 st k0 n0, write_one sp wv = (sp1, st) ->
  lacks n0 FlagCurrentWrite = true -> frozen_as sp k0 n0 ->
  frozen_as (if st =? StOK then notify items sp1 (fst (fst wv)) else sp1) k0 n0.
Proof.
  intros items sp wv sp1 st k0 n0 E Hl (n1 & G & S).
  assert (L1 : lacks n1 FlagCurrentWrite = true) by now rewrite (same_but_class_lacks _ _ _ S).
  pose proof (write_one_frozen _ _ _ _ _ _ E G L1) as G1.
  destruct (st =? StOK).
  - destruct (notify_frame items sp1 (fst (fst wv)) k0 n1 G1) as (n2 & G2 & S2).
    exists n2. split; [exact G2 | eapply same_but_class_trans; eassumption].
  - exists n1. now split.
Qed.

Lemma srv_write_all_frozen : forall l items sp sp' sts k0 n0, srv_write_all items sp l = (sp', sts) ->
  lacks n0 FlagCurrentWrite = true -> frozen_as sp k0 n0 -> frozen_as sp' k0 n0.
Proof.
  induction l as [|wv t IH]; intros items sp sp' sts k0 n0 H Hl Hf; cbn [srv_write_all] in H.
  - now inv_pair H.
  - destruct (write_one sp wv) as [sp1 st] eqn:E1.
    destruct (srv_write_all items (if st =? StOK then notify items sp1 (fst (fst wv)) else sp1) t) as [sp2 sts2] eqn:E2.
    inv_pair H. eapply IH; [exact E2 | exact Hl |]. eapply write_step_frozen; eassumption.
Qed.

Lemma srv_write_all_refused : forall l items sp sp' sts k0 n0, srv_write_all items sp l = (sp', sts) ->
  lacks n0 FlagCurrentWrite = true -> frozen_as sp k0 n0 ->
  forall i ns attr v, nth_error l i = Some ((ns, k0), attr, v) -> ns <? sp_ns sp = true ->
  nth_error sts i = Some StBadUserAccessDenied.
Proof.
  induction l as [|wv t IH]; intros items sp sp' sts k0 n0 H Hl Hf i ns attr v Hi Hns; cbn [srv_write_all] in H.
  - destruct i; discriminate.
  - destruct (write_one sp wv) as [sp1 st] eqn:E1.
    destruct (srv_write_all items (if st =? StOK then notify items sp1 (fst (fst wv)) else sp1) t) as [sp2 sts2] eqn:E2.
    inv_pair H.
    destruct i as [|i]; cbn [nth_error] in *.
    + inv_pair Hi. destruct Hf as (n1 & G & S).
      assert (L1 : lacks n1 FlagCurrentWrite = true) by now rewrite (same_but_class_lacks _ _ _ S).
      unfold write_one in E1. rewrite Hns in E1. rewrite (write_denied _ _ _ _ _ G L1) in E1. now inv_pair E1.
    + eapply IH; [exact E2 | exact Hl | eapply write_step_frozen; eassumption | exact Hi |].
      destruct (st =? StOK); [rewrite notify_ns|]; now rewrite (write_one_ns _ _ _ _ E1).
Qed.

Lemma read_all_frozen : forall l sp sp' ds k0 n0, read_all sp l = (sp', ds) -> frozen_as sp k0 n0 -> frozen_as sp' k0 n0.
Proof.
  intros l sp sp' ds k0 n0 H (n1 & G & S). destruct (read_all_frame _ _ _ _ _ _ H G) as (n2 & G2 & S2).
  exists n2. split; [exact G2 | eapply same_but_class_trans; eassumption].
Qed.

(* what an event can do to the address space *)
Lemma handle_space : forall fuel s e s' o, handle fuel s e = (s', o) ->
  sv_space s' = sv_space s \/
  (exists chan tok l ds, e = EReq chan tok (RRead l) /\ o = ORead ds /\ read_all (sv_space s) l = (sv_space s', ds)) \/
  (exists chan tok l sts, e = EReq chan tok (RWrite l) /\ o = OWrite sts /\
                          srv_write_all (sv_items s) (sv_space s) l = (sv_space s', sts)) \/
  (exists items l, sv_space s' = notify_all items (sv_space s) l).
Proof.
  intros fuel s e s' o H. destruct e as [chan tok r|id|id]; cbn [handle] in H.
  - destruct (negb (has_handler r)); [inv_pair H; now left|].
    destruct (check_session s (svc_of r) tok); [inv_pair H; now left|].
    destruct r; cbn [dispatch] in H.
    + destruct (read_all (sv_space s) l) as [sp ds] eqn:E. inv_pair H. right. left. exists chan, tok, l, ds. now repeat split.
    + destruct (srv_write_all (sv_items s) (sv_space s) l) as [sp sts] eqn:E. inv_pair H. right. right. left. exists chan, tok, l, sts. now repeat split.
    + break_in H; inv_pair H; now left.
    + break_in H; inv_pair H; now left.
    + break_in H; inv_pair H; now left.
    + break_in H; inv_pair H; now left.
    + break_in H; inv_pair H; now left.
    + break_in H; inv_pair H; now left.
    + break_in H; inv_pair H; try (now left). right. right. right. eexists _, _. reflexivity.
    + break_in H; inv_pair H; now left.
    + break_in H; inv_pair H; now left.
    + break_in H; inv_pair H; now left.
    + break_in H; inv_pair H; now left.
  - inv_pair H. now left.
  - inv_pair H. now left.
Qed.

Lemma handle_frozen : forall fuel s e s' o k0 n0, handle fuel s e = (s', o) ->
  lacks n0 FlagCurrentWrite = true -> frozen_as (sv_space s) k0 n0 -> frozen_as (sv_space s') k0 n0.
Proof.
  intros fuel s e s' o k0 n0 H Hl Hf.
  destruct (handle_space _ _ _ _ _ H) as [E|[(chan & tok & l & ds & _ & _ & E)|[(chan & tok & l & sts & _ & _ & E)|(items & l & E)]]].
  - now rewrite E.
  - eapply read_all_frozen; eassumption.
  - eapply srv_write_all_frozen; eassumption.
  - rewrite E. clear E. unfold notify_all. revert Hf. generalize (sv_space s). induction l as [|na t IH]; intros sp Hf; cbn [fold_left]; [exact Hf|].
    apply IH. destruct Hf as (n1 & G & S). destruct (notify_frame items sp (fst na) k0 n1 G) as (n2 & G2 & S2).
    exists n2. split; [exact G2 | eapply same_but_class_trans; eassumption].
Qed.

Lemma run_frozen : forall fuel h s k0 n0, lacks n0 FlagCurrentWrite = true ->
  frozen_as (sv_space s) k0 n0 -> frozen_as (sv_space (run fuel s h)) k0 n0.
Proof.
  unfold run. induction h as [|e t IH]; intros s k0 n0 Hl Hf; cbn [fold_left]; [exact Hf|].
  apply IH; [exact Hl|]. unfold step. destruct (handle fuel s e) as [s' o] eqn:E. cbn [fst].
  eapply handle_frozen; eassumption.
Qed.

(* a request that reaches a handler was let through by the gate *)
Lemma handle_read_inv : forall fuel s chan tok l s' ds, handle fuel s (EReq chan tok (RRead l)) = (s', ORead ds) ->
  read_all (sv_space s) l = (sv_space s', ds).
Proof.
  intros fuel s chan tok l s' ds H.
  cbn [handle has_handler negb svc_of] in H. destruct (check_session s SvcRead tok); [discriminate|].
  cbn [dispatch] in H. destruct (read_all (sv_space s) l) as [sp ds0]. inv_pair H. reflexivity.
Qed.

Lemma handle_write_inv : forall fuel s chan tok l s' sts, handle fuel s (EReq chan tok (RWrite l)) = (s', OWrite sts) ->
  srv_write_all (sv_items s) (sv_space s) l = (sv_space s', sts).
Proof.
  intros fuel s chan tok l s' sts H.
  cbn [handle has_handler negb svc_of] in H. destruct (check_session s SvcWrite tok); [discriminate|].
  cbn [dispatch] in H. destruct (srv_write_all (sv_items s) (sv_space s) l) as [sp sts0]. inv_pair H. reflexivity.
Qed.

(* ---------------- association lists ---------------- *)

Lemma alist_get_in' : forall A k (v : A) l, alist_get k l = Some v -> In (k, v) l.
Proof.
  induction l as [|[k' v'] t IH]; cbn [alist_get]; [discriminate|].
  destruct (k' =? k) eqn:E; intros H.
  - inversion H; subst. apply N.eqb_eq in E. subst. now left.
  - right. now apply IH.
Qed.

Lemma alist_get_del_same : forall A k (l : list (N * A)), alist_get k (alist_del k l) = None.
Proof.
  induction l as [|[k' v'] t IH]; cbn [alist_del alist_get]; [reflexivity|].
  destruct (k' =? k) eqn:E; [exact IH|]. cbn [alist_get]. now rewrite E.
Qed.

Lemma alist_get_del_other : forall A k k' (l : list (N * A)), k <> k' -> alist_get k (alist_del k' l) = alist_get k l.
Proof.
  induction l as [|[k2 v2] t IH]; intros Hne; cbn [alist_del alist_get]; [reflexivity|].
  destruct (k2 =? k') eqn:E.
  - apply N.eqb_eq in E. subst k2. destruct (k' =? k) eqn:E2; [apply N.eqb_eq in E2; congruence | now apply IH].
  - cbn [alist_get]. destruct (k2 =? k); [reflexivity | now apply IH].
Qed.

Lemma in_alist_set : forall A k (v : A) l e, In e (alist_set k v l) -> e = (k, v) \/ In e l.
Proof.
  induction l as [|[k' v'] t IH]; intros e H; cbn [alist_set] in H.
  - destruct H as [H|[]]. now left.
  - destruct (k' =? k).
    + destruct H as [H|H]; [now left | right; now right].
    + destruct H as [H|H]; [right; now left|]. destruct (IH _ H) as [H'|H']; [now left | right; now right].
Qed.

Lemma in_alist_del : forall A k (l : list (N * A)) e, In e (alist_del k l) -> In e l.
Proof.
  induction l as [|[k' v'] t IH]; intros e H; cbn [alist_del] in H; [exact H|].
  destruct (k' =? k); [right; now apply IH|]. destruct H as [H|H]; [now left | right; now apply IH].
Qed.

Lemma alist_get_none_above : forall A (l : list (N * A)) bound k,
  (forall e, In e l -> fst e <= bound) -> bound < k -> alist_get k l = None.
Proof.
  induction l as [|[k' v'] t IH]; intros bound k Hb Hk; cbn [alist_get]; [reflexivity|].
  destruct (k' =? k) eqn:E.
  - apply N.eqb_eq in E. subst k'. specialize (Hb (k, v') (or_introl eq_refl)). cbn [fst] in Hb. lia.
  - eapply IH; [|exact Hk]. intros e He. apply Hb. now right.
Qed.

Lemma keys_alist_set : forall A k (v : A) l, alist_get k l = None -> map fst (alist_set k v l) = map fst l ++ [k].
Proof.
  induction l as [|[k' v'] t IH]; cbn [alist_get alist_set map app]; [reflexivity|].
  destruct (k' =? k) eqn:E; [discriminate|]. intros H. cbn [map fst]. now rewrite IH.
Qed.

Lemma alist_get_none_notin : forall A k (l : list (N * A)), alist_get k l = None -> ~ In k (map fst l).
Proof.
  induction l as [|[k' v'] t IH]; cbn [alist_get map fst]; [intros _ []|].
  destruct (k' =? k) eqn:E; [discriminate|]. intros H [C|C]; [apply N.eqb_neq in E; congruence | now apply IH].
Qed.

Lemma nodup_keys_set_fresh : forall A k (v : A) l, alist_get k l = None -> NoDup (map fst l) -> NoDup (map fst (alist_set k v l)).
Proof.
  intros A k v l Hn Hd. rewrite keys_alist_set by exact Hn.
  apply NoDup_rev in Hd. rewrite <- (rev_involutive (map fst l ++ [k])). apply NoDup_rev.
  rewrite rev_app_distr. cbn [rev app]. constructor; [|exact Hd].
  rewrite <- in_rev. now apply alist_get_none_notin.
Qed.

Lemma keys_alist_set_present : forall A k (v v0 : A) l, alist_get k l = Some v0 -> map fst (alist_set k v l) = map fst l.
Proof.
  induction l as [|[k' v'] t IH]; cbn [alist_get alist_set map]; [discriminate|].
  destruct (k' =? k) eqn:E; intros H; cbn [map fst].
  - apply N.eqb_eq in E. now subst.
  - now rewrite IH.
Qed.

Lemma nodup_keys_del : forall A k (l : list (N * A)), NoDup (map fst l) -> NoDup (map fst (alist_del k l)).
Proof.
  induction l as [|[k' v'] t IH]; intros H; cbn [alist_del map]; [constructor|].
  cbn [map fst] in H. inversion H as [|x xs Hx Hd]; subst.
  destruct (k' =? k); [now apply IH|]. cbn [map fst]. constructor; [|now apply IH].
  intros C. apply Hx. apply in_map_iff in C. destruct C as (e & He & Hin). apply in_map_iff. exists e. split; [exact He|].
  eapply in_alist_del; eassumption.
Qed.

Lemma nodup_keys_filter : forall A (p : N * A -> bool) l, NoDup (map fst l) -> NoDup (map fst (filter p l)).
Proof.
  induction l as [|e t IH]; intros H; cbn [filter map]; [constructor|].
  cbn [map] in H. inversion H as [|x xs Hx Hd]; subst.
  destruct (p e); [|now apply IH]. cbn [map]. constructor; [|now apply IH].
  intros C. apply Hx. apply in_map_iff in C. destruct C as (e' & He & Hin). apply in_map_iff. exists e'. split; [exact He|].
  apply filter_In in Hin. tauto.
Qed.

(* ---------------- C35: the session gate ---------------- *)

Lemma gate_blocks : forall fuel s chan tok r, has_handler r = true -> session_required (svc_of r) = true ->
  alist_get tok (sv_sessions s) <> Some true ->
  exists st, handle fuel s (EReq chan tok r) = (s, OFault st) /\ (st = StBadSessionIDInvalid \/ st = StBadSessionNotActivated).
Proof.
  intros fuel s chan tok r Hh Hr Hn. cbn [handle]. rewrite Hh. cbn [negb]. unfold check_session. rewrite Hr.
  destruct (alist_get tok (sv_sessions s)) as [[|]|]; [congruence | |]; eexists; (split; [reflexivity|]); tauto.
Qed.

Lemma no_handler_fault : forall fuel s chan tok r, has_handler r = false ->
  handle fuel s (EReq chan tok r) = (s, OFault StBadServiceUnsupported).
Proof. intros. cbn [handle]. now rewrite H. Qed.

(* the session table is driven by the session services alone *)
Definition sess_step (ss : list (token * bool)) (e : event) : list (token * bool) :=
  match e with
  | EReq _ _ (RCreateSession fresh _) => alist_set fresh false ss
  | EReq _ tok (RActivate true) => match alist_get tok ss with Some _ => alist_set tok true ss | None => ss end
  | EReq _ tok RCloseSession => alist_del tok ss
  | _ => ss
  end.

Lemma alist_del_absent : forall A k (l : list (N * A)), alist_get k l = None -> alist_del k l = l.
Proof.
  induction l as [|[k' v'] t IH]; cbn [alist_get alist_del]; [reflexivity|].
  destruct (k' =? k); [discriminate|]. intros H. now rewrite IH.
Qed.

Lemma handle_sessions : forall fuel s e s' o, handle fuel s e = (s', o) -> sv_sessions s' = sess_step (sv_sessions s) e.
Proof.
  intros fuel s e s' o H. destruct e as [chan tok r|id|id]; cbn [handle] in H; [|now inv_pair H|now inv_pair H].
  destruct (negb (has_handler r)) eqn:EH.
  { inv_pair H. destruct r; try reflexivity; discriminate. }
  destruct (check_session s (svc_of r) tok) eqn:EC.
  { inv_pair H. destruct r; try reflexivity; cbn [svc_of] in EC; unfold check_session in EC; cbn in EC; discriminate. }
  destruct r; cbn [dispatch] in H; cbn [sess_step];
    try (break_in H; inv_pair H; reflexivity).
  - (* activate *) destruct (alist_get tok (sv_sessions s)) eqn:G; [|inv_pair H; destruct sig_ok; reflexivity].
    destruct sig_ok; inv_pair H; reflexivity.
  - (* close *) destruct (alist_get tok (sv_sessions s)) eqn:G; inv_pair H; [reflexivity|].
    now rewrite alist_del_absent.
Qed.

Lemma run_sessions : forall fuel h s, sv_sessions (run fuel s h) = fold_left sess_step h (sv_sessions s).
Proof.
  unfold run. induction h as [|e t IH]; intros s; cbn [fold_left]; [reflexivity|].
  rewrite IH. unfold step. destruct (handle fuel s e) as [s' o] eqn:E. cbn [fst].
  now rewrite (handle_sessions _ _ _ _ _ E).
Qed.

(* an entry of the table comes from a CreateSession that handed the token out; an activated one from a later
   successful ActivateSession with that token *)
Lemma sess_created : forall h ss0 tok b, alist_get tok (fold_left sess_step h ss0) = Some b ->
  alist_get tok ss0 <> None \/ exists c t ok, In (EReq c t (RCreateSession tok ok)) h.
Proof.
  induction h as [|e h IH] using rev_ind; intros ss0 tok b H; cbn [fold_left] in H.
  - left. congruence.
  - rewrite fold_left_app in H. cbn [fold_left] in H.
    assert (Hkeep : forall b', alist_get tok (fold_left sess_step h ss0) = Some b' ->
             alist_get tok ss0 <> None \/ exists c t ok, In (EReq c t (RCreateSession tok ok)) (h ++ [e])).
    { intros b' Hb. destruct (IH _ _ _ Hb) as [L|(c & t & ok & Hin)]; [now left|]. right. exists c, t, ok. apply in_or_app. now left. }
    set (ss := fold_left sess_step h ss0) in *.
    destruct e as [c t r| |]; cbn [sess_step] in H; try (eapply Hkeep; eassumption).
    destruct r; try (eapply Hkeep; eassumption).
    + destruct (N.eq_dec tok fresh) as [->|Hne].
      * right. exists c, t, crypto_ok. apply in_or_app. right. now left.
      * rewrite alist_get_set_other in H by exact Hne. eapply Hkeep; eassumption.
    + destruct sig_ok; [|eapply Hkeep; eassumption].
      destruct (alist_get t ss) eqn:G; [|eapply Hkeep; eassumption].
      destruct (N.eq_dec tok t) as [->|Hne]; [eapply Hkeep; eassumption|].
      rewrite alist_get_set_other in H by exact Hne. eapply Hkeep; eassumption.
    + destruct (N.eq_dec tok t) as [->|Hne]; [rewrite alist_get_del_same in H; discriminate|].
      rewrite alist_get_del_other in H by exact Hne. eapply Hkeep; eassumption.
Qed.

Lemma sess_activated : forall h ss0 tok, alist_get tok (fold_left sess_step h ss0) = Some true ->
  alist_get tok ss0 = Some true \/ exists c, In (EReq c tok (RActivate true)) h.
Proof.
  induction h as [|e h IH] using rev_ind; intros ss0 tok H; cbn [fold_left] in H.
  - now left.
  - rewrite fold_left_app in H. cbn [fold_left] in H.
    assert (Hkeep : alist_get tok (fold_left sess_step h ss0) = Some true ->
             alist_get tok ss0 = Some true \/ exists c, In (EReq c tok (RActivate true)) (h ++ [e])).
    { intros Hb. destruct (IH _ _ Hb) as [L|(c & Hin)]; [now left|]. right. exists c. apply in_or_app. now left. }
    set (ss := fold_left sess_step h ss0) in *.
    destruct e as [c t r| |]; cbn [sess_step] in H; try (apply Hkeep; exact H).
    destruct r; try (apply Hkeep; exact H).
    + destruct (N.eq_dec tok fresh) as [->|Hne]; [rewrite alist_get_set_same in H; discriminate|].
      rewrite alist_get_set_other in H by exact Hne. apply Hkeep; exact H.
    + destruct sig_ok; [|apply Hkeep; exact H].
      destruct (alist_get t ss) eqn:G; [|apply Hkeep; exact H].
      destruct (N.eq_dec tok t) as [->|Hne].
      * right. exists c. apply in_or_app. right. now left.
      * rewrite alist_get_set_other in H by exact Hne. apply Hkeep; exact H.
    + destruct (N.eq_dec tok t) as [->|Hne]; [rewrite alist_get_del_same in H; discriminate|].
      rewrite alist_get_del_other in H by exact Hne. apply Hkeep; exact H.
Qed.

(* closing ends it: right after CloseSession with the token, the token names no session *)
Lemma sess_closed : forall ss c tok, alist_get tok (sess_step ss (EReq c tok RCloseSession)) = None.
Proof. intros. cbn [sess_step]. apply alist_get_del_same. Qed.

(* ---------------- C32: ids ---------------- *)
From Coq Require Import ZifyN ZifyNat ZifyBool.

Definition ids_below {A} (l : list (N * A)) (bound : N) : Prop := forall e, In e l -> 0 < fst e /\ fst e <= bound.

(* invariant: live ids are distinct, non-zero and not above the counters *)
Definition ids_inv (s : srv) : Prop :=
  NoDup (map fst (sv_subs s)) /\ ids_below (sv_subs s) (sv_last_sub s) /\
  NoDup (map fst (sv_items s)) /\ ids_below (sv_items s) (sv_item_ctr s).

Lemma next_id_small : forall last, last < 4294967295 -> next_id last = last + 1.
Proof.
  intros last H. unfold next_id, wrap32. rewrite N.mod_small by lia.
  destruct (last + 1 =? 0) eqn:E; [apply N.eqb_eq in E; lia | reflexivity].
Qed.

Lemma ids_below_set : forall A (l : list (N * A)) bound k v, ids_below l bound -> bound < k ->
  ids_below (alist_set k v l) k.
Proof.
  intros A l bound k v Hb Hk e He. destruct (in_alist_set _ _ _ _ _ He) as [->|Hin].
  - cbn [fst]. lia.
  - destruct (Hb _ Hin). lia.
Qed.

Lemma ids_below_sub : forall A (l l' : list (N * A)) bound, (forall e, In e l' -> In e l) -> ids_below l bound -> ids_below l' bound.
Proof. intros A l l' bound Hs Hb e He. apply Hb. now apply Hs. Qed.

Lemma fresh_above : forall A (l : list (N * A)) bound k, ids_below l bound -> bound < k -> alist_get k l = None.
Proof.
  intros A l bound k Hb Hk. eapply alist_get_none_above; [|exact Hk]. intros e He. now destruct (Hb _ He).
Qed.

(* creating monitored items: the ids are consecutive, fresh, and every other entry is left alone *)
Lemma create_items_spec : forall l items ctr sub owner items' ctr' ids,
  create_items items ctr sub owner l = (items', ctr', ids) ->
  ctr + N.of_nat (length l) < 4294967295 -> NoDup (map fst items) -> ids_below items ctr ->
  NoDup (map fst items') /\ ids_below items' ctr' /\ ctr' = ctr + N.of_nat (length l) /\
  NoDup ids /\ (forall id, In id ids -> ctr < id /\ alist_get id items = None) /\
  (forall id, ~ In id ids -> alist_get id items' = alist_get id items).
Proof.
  induction l as [|[n a] t IH]; intros items ctr sub owner items' ctr' ids H Hw Hd Hb; cbn [create_items] in H.
  - inv_pair H. cbn [length N.of_nat]. rewrite N.add_0_r.
    split; [exact Hd|]. split; [exact Hb|]. split; [reflexivity|]. split; [constructor|]. split; [intros id []|reflexivity].
  - destruct (create_items (alist_set (next_id ctr) (Item sub owner n a 0) items) (next_id ctr) sub owner t) as [[it2 c2] ids2] eqn:E.
    inv_pair H. cbn [length] in Hw. rewrite Nat2N.inj_succ in Hw.
    assert (Hn : next_id ctr = ctr + 1) by (apply next_id_small; lia).
    assert (Hf : alist_get (ctr + 1) items = None) by (eapply fresh_above; [exact Hb | lia]).
    rewrite Hn in E.
    destruct (IH _ _ _ _ _ _ _ E) as (D2 & B2 & C2 & DI & FI & OI).
    + lia.
    + now apply nodup_keys_set_fresh.
    + eapply ids_below_set; [exact Hb | lia].
    + rewrite Hn. split; [exact D2|]. split; [exact B2|]. split; [cbn [length]; rewrite Nat2N.inj_succ; lia|].
      split; [|split].
      * constructor; [|exact DI]. intros C. destruct (FI _ C). lia.
      * intros id [<-|Hin]; [split; [lia | exact Hf]|]. destruct (FI _ Hin) as [Hlt Hg]. split; [lia|].
        rewrite alist_get_set_other in Hg by lia. exact Hg.
      * intros id Hni. rewrite OI by (intros C; apply Hni; now right).
        apply alist_get_set_other. intros ->. apply Hni. now left.
Qed.

Lemma set_mode_all_spec : forall ids items tok mode items' sts, set_mode_all items tok mode ids = (items', sts) ->
  map fst items' = map fst items /\
  (forall id it, alist_get id items = Some it -> owner_is (it_owner it) tok = false -> alist_get id items' = Some it) /\
  (forall e, In e items' -> exists e0, In e0 items /\ fst e0 = fst e).
Proof.
  induction ids as [|id t IH]; intros items tok mode items' sts H; cbn [set_mode_all] in H.
  - inv_pair H. repeat split; eauto.
  - destruct (alist_get id items) as [it|] eqn:G.
    + destruct (owner_is (it_owner it) tok) eqn:O.
      * destruct (set_mode_all (alist_set id (Item (it_sub it) (it_owner it) (it_node it) (it_attr it) mode) items) tok mode t) as [it2 sts2] eqn:E.
        inv_pair H. destruct (IH _ _ _ _ _ E) as (K & F & S). split; [|split].
        -- rewrite K. eapply keys_alist_set_present; eassumption.
        -- intros id0 it0 G0 O0. apply F; [|exact O0]. destruct (N.eq_dec id0 id) as [->|Hne]; [congruence|].
           now rewrite alist_get_set_other.
        -- intros e He. destruct (S _ He) as (e0 & Hin & Hf). destruct (in_alist_set _ _ _ _ _ Hin) as [->|Hin'].
           ++ exists (id, it). split; [now apply alist_get_in' | exact Hf].
           ++ exists e0. now split.
      * destruct (set_mode_all items tok mode t) as [it2 sts2] eqn:E. inv_pair H. eapply IH; eassumption.
    + destruct (set_mode_all items tok mode t) as [it2 sts2] eqn:E. inv_pair H. eapply IH; eassumption.
Qed.

(* every event keeps the invariant as long as the counters do not wrap *)
Definition weight (e : event) : N :=
  match e with
  | EReq _ _ (RCreateSub _) => 1
  | EReq _ _ (RCreateItems _ l) => N.of_nat (length l)
  | _ => 0
  end.

Lemma handle_ids : forall fuel s e s' o, handle fuel s e = (s', o) -> ids_inv s ->
  sv_last_sub s + weight e < 4294967295 -> sv_item_ctr s + weight e < 4294967295 ->
  ids_inv s' /\ sv_last_sub s' <= sv_last_sub s + weight e /\ sv_item_ctr s' <= sv_item_ctr s + weight e /\
  sv_last_sub s <= sv_last_sub s' /\ sv_item_ctr s <= sv_item_ctr s'.
Proof.
  intros fuel s e s' o H (D1 & B1 & D2 & B2) W1 W2.
  assert (Same : sv_subs s' = sv_subs s -> sv_last_sub s' = sv_last_sub s -> sv_items s' = sv_items s -> sv_item_ctr s' = sv_item_ctr s ->
          ids_inv s' /\ sv_last_sub s' <= sv_last_sub s + weight e /\ sv_item_ctr s' <= sv_item_ctr s + weight e /\
          sv_last_sub s <= sv_last_sub s' /\ sv_item_ctr s <= sv_item_ctr s').
  { intros E1 E2 E3 E4. unfold ids_inv. rewrite E1, E2, E3, E4. split; [exact (conj D1 (conj B1 (conj D2 B2)))|]. repeat split; lia. }
  destruct e as [chan tok r|id|id]; cbn [handle] in H.
  - destruct (negb (has_handler r)); [inv_pair H; now apply Same|].
    destruct (check_session s (svc_of r) tok); [inv_pair H; now apply Same|].
    destruct r; cbn [dispatch] in H; try (break_in H; inv_pair H; now apply Same).
    + (* create subscription *)
      destruct (alist_get tok (sv_sessions s)); [|inv_pair H; now apply Same].
      cbn [weight] in *. assert (Hn : next_id (sv_last_sub s) = sv_last_sub s + 1) by (apply next_id_small; lia).
      assert (Hf : alist_get (sv_last_sub s + 1) (sv_subs s) = None) by (eapply fresh_above; [exact B1 | lia]).
      rewrite Hn in H.
      assert (I' : ids_inv (set_subs s (alist_set (sv_last_sub s + 1) (SSub (Some tok) chan (revise iv)) (sv_subs s)) (sv_last_sub s + 1))).
      { unfold ids_inv. cbn [set_subs sv_subs sv_last_sub sv_items sv_item_ctr].
        split; [now apply nodup_keys_set_fresh|]. split; [eapply ids_below_set; [exact B1 | lia]|]. split; assumption. }
      break_in H; inv_pair H; (split; [exact I'|]); cbn [set_subs sv_last_sub sv_item_ctr]; lia.
    + (* create items *)
      destruct (alist_get sub (sv_subs s)) as [sb|]; [|inv_pair H; now apply Same].
      destruct (alist_get tok (sv_sessions s)); [|inv_pair H; now apply Same].
      destruct (owner_is (sub_owner sb) tok); [|inv_pair H; now apply Same].
      destruct (create_items (sv_items s) (sv_item_ctr s) sub (sub_owner sb) l) as [[items ctr] ids] eqn:E. inv_pair H.
      cbn [weight] in *. destruct (create_items_spec _ _ _ _ _ _ _ _ E W2 D2 B2) as (D' & B' & C' & _).
      unfold ids_inv. cbn [set_space set_items sv_subs sv_last_sub sv_items sv_item_ctr].
      split; [exact (conj D1 (conj B1 (conj D' B')))|]. repeat split; lia.
    + (* set mode *)
      destruct (alist_get tok (sv_sessions s)); [|inv_pair H; now apply Same].
      destruct (set_mode_all (sv_items s) tok mode ids) as [items sts] eqn:E. inv_pair H.
      destruct (set_mode_all_spec _ _ _ _ _ _ E) as (K & _ & S).
      unfold ids_inv. cbn [set_items sv_subs sv_last_sub sv_items sv_item_ctr weight].
      split; [|repeat split; lia]. split; [exact D1|]. split; [exact B1|]. split; [now rewrite K|].
      intros e He. destruct (S _ He) as (e0 & Hin & Hf). rewrite <- Hf. exact (B2 _ Hin).
  - inv_pair H. unfold ids_inv. cbn [sv_subs sv_last_sub sv_items sv_item_ctr weight].
    split; [|repeat split; lia]. split; [now apply nodup_keys_del|].
    split; [intros e He; apply B1; eapply in_alist_del; eassumption|].
    split; [now apply nodup_keys_filter|]. intros e He. apply B2. apply filter_In in He. tauto.
  - inv_pair H. unfold ids_inv. cbn [set_items sv_subs sv_last_sub sv_items sv_item_ctr weight].
    split; [|repeat split; lia]. split; [exact D1|]. split; [exact B1|]. split; [now apply nodup_keys_del|].
    intros e He. apply B2. eapply in_alist_del; eassumption.
Qed.

Definition total_weight (h : list event) : N := fold_right (fun e acc => weight e + acc) 0 h.

Lemma run_ids : forall fuel h s, ids_inv s ->
  sv_last_sub s + total_weight h < 4294967295 -> sv_item_ctr s + total_weight h < 4294967295 ->
  ids_inv (run fuel s h) /\ sv_last_sub (run fuel s h) <= sv_last_sub s + total_weight h /\
  sv_item_ctr (run fuel s h) <= sv_item_ctr s + total_weight h.
Proof.
  unfold run. induction h as [|e t IH]; intros s I W1 W2; cbn [fold_left total_weight fold_right] in *.
  - split; [exact I|]. split; lia.
  - unfold step at 2 4 6. destruct (handle fuel s e) as [s' o] eqn:E. cbn [fst].
    destruct (handle_ids _ _ _ _ _ E I) as (I' & L1 & L2 & _ & _); [fold (total_weight t) in *; lia | fold (total_weight t) in *; lia|].
    fold (total_weight t) in *.
    destruct (IH s' I') as (I2 & M1 & M2); [lia | lia|]. split; [exact I2|]. split; lia.
Qed.

(* a request of one session leaves the subscriptions and items of the others alone *)
Lemma handle_scoped : forall fuel s chan tok r s' o, handle fuel s (EReq chan tok r) = (s', o) -> ids_inv s ->
  sv_last_sub s + weight (EReq chan tok r) < 4294967295 -> sv_item_ctr s + weight (EReq chan tok r) < 4294967295 ->
  (forall id sub, alist_get id (sv_subs s) = Some sub -> alist_get id (sv_subs s') = Some sub) /\
  (forall id it, alist_get id (sv_items s) = Some it -> owner_is (it_owner it) tok = false -> alist_get id (sv_items s') = Some it).
Proof.
  intros fuel s chan tok r s' o H (D1 & B1 & D2 & B2) W1 W2.
  assert (Same : sv_subs s' = sv_subs s -> sv_items s' = sv_items s ->
          (forall id sub, alist_get id (sv_subs s) = Some sub -> alist_get id (sv_subs s') = Some sub) /\
          (forall id it, alist_get id (sv_items s) = Some it -> owner_is (it_owner it) tok = false -> alist_get id (sv_items s') = Some it)).
  { intros E1 E2. rewrite E1, E2. split; auto. }
  cbn [handle] in H.
  destruct (negb (has_handler r)); [inv_pair H; now apply Same|].
  destruct (check_session s (svc_of r) tok); [inv_pair H; now apply Same|].
  destruct r; cbn [dispatch] in H; try (break_in H; inv_pair H; now apply Same).
  - destruct (alist_get tok (sv_sessions s)); [|inv_pair H; now apply Same].
    cbn [weight] in *. assert (Hn : next_id (sv_last_sub s) = sv_last_sub s + 1) by (apply next_id_small; lia).
    assert (Hf : alist_get (sv_last_sub s + 1) (sv_subs s) = None) by (eapply fresh_above; [exact B1 | lia]).
    rewrite Hn in H.
    assert (G : forall id sub, alist_get id (sv_subs s) = Some sub ->
                alist_get id (alist_set (sv_last_sub s + 1) (SSub (Some tok) chan (revise iv)) (sv_subs s)) = Some sub).
    { intros id sub Hg. rewrite alist_get_set_other; [exact Hg | intros ->; congruence]. }
    break_in H; inv_pair H; cbn [set_subs sv_subs sv_items]; (split; [exact G | auto]).
  - destruct (alist_get sub (sv_subs s)) as [sb|]; [|inv_pair H; now apply Same].
    destruct (alist_get tok (sv_sessions s)); [|inv_pair H; now apply Same].
    destruct (owner_is (sub_owner sb) tok); [|inv_pair H; now apply Same].
    destruct (create_items (sv_items s) (sv_item_ctr s) sub (sub_owner sb) l) as [[items ctr] ids] eqn:E. inv_pair H.
    cbn [weight] in *. destruct (create_items_spec _ _ _ _ _ _ _ _ E W2 D2 B2) as (_ & _ & _ & _ & FI & OI).
    cbn [set_space set_items sv_subs sv_items]. split; [auto|]. intros id it Hg _. rewrite OI; [exact Hg|].
    intros C. destruct (FI _ C) as [_ Hn]. congruence.
  - destruct (alist_get tok (sv_sessions s)); [|inv_pair H; now apply Same].
    destruct (set_mode_all (sv_items s) tok mode ids) as [items sts] eqn:E. inv_pair H.
    destruct (set_mode_all_spec _ _ _ _ _ _ E) as (_ & F & _).
    cbn [set_items sv_subs sv_items]. split; [auto | exact F].
Qed.

(* a delete is only started (status Good, goroutine spawned) for what the requesting session owns *)
Lemma del_sub_status_ok : forall s tok id, del_sub_status s tok id = StOK ->
  exists sub, alist_get id (sv_subs s) = Some sub /\ sub_owner sub = Some tok.
Proof.
  intros s tok id H. unfold del_sub_status in H. destruct (alist_get id (sv_subs s)) as [sub|]; [|discriminate].
  exists sub. split; [reflexivity|]. unfold owner_is in H. destruct (sub_owner sub) as [t|]; [|discriminate].
  destruct (t =? tok) eqn:E; [apply N.eqb_eq in E; now subst | discriminate].
Qed.

Lemma del_item_status_ok : forall s tok id, del_item_status s tok id = StOK ->
  exists it, alist_get id (sv_items s) = Some it /\ it_owner it = Some tok.
Proof.
  intros s tok id H. unfold del_item_status in H. destruct (alist_get id (sv_items s)) as [it|]; [|discriminate].
  exists it. split; [reflexivity|]. unfold owner_is in H. destruct (it_owner it) as [t|]; [|discriminate].
  destruct (t =? tok) eqn:E; [apply N.eqb_eq in E; now subst | discriminate].
Qed.

Lemma handle_create_sub_fresh : forall fuel s chan tok iv s' id rv, handle fuel s (EReq chan tok (RCreateSub iv)) = (s', OCreateSub id rv) ->
  ids_inv s -> sv_last_sub s + 1 < 4294967295 ->
  alist_get id (sv_subs s) = None /\ id <> 0 /\ id = sv_last_sub s + 1 /\
  alist_get id (sv_subs s') = Some (SSub (Some tok) chan rv) /\ rv = revise iv.
Proof.
  intros fuel s chan tok iv s' id rv H (D1 & B1 & _) W. cbn [handle has_handler negb svc_of] in H.
  destruct (check_session s SvcCreateSubscription tok); [discriminate|]. cbn [dispatch] in H.
  destruct (alist_get tok (sv_sessions s)); [|discriminate].
  assert (Hn : next_id (sv_last_sub s) = sv_last_sub s + 1) by (apply next_id_small; lia). rewrite Hn in H.
  destruct (worker_start _ _); [discriminate|]. inv_pair H.
  split; [eapply fresh_above; [exact B1 | lia]|]. split; [lia|]. split; [reflexivity|]. split; [|reflexivity].
  cbn [set_subs sv_subs]. apply alist_get_set_same.
Qed.

Lemma handle_create_items_fresh : forall fuel s chan tok sub l s' ids, handle fuel s (EReq chan tok (RCreateItems sub l)) = (s', OCreateItems ids) ->
  ids_inv s -> sv_item_ctr s + N.of_nat (length l) < 4294967295 ->
  NoDup ids /\ forall id, In id ids -> alist_get id (sv_items s) = None /\ id <> 0.
Proof.
  intros fuel s chan tok sub l s' ids H (_ & _ & D2 & B2) W. cbn [handle has_handler negb svc_of] in H.
  destruct (check_session s SvcCreateMonitoredItems tok); [discriminate|]. cbn [dispatch] in H.
  destruct (alist_get sub (sv_subs s)) as [sb|]; [|discriminate].
  destruct (alist_get tok (sv_sessions s)); [|discriminate].
  destruct (owner_is (sub_owner sb) tok); [|discriminate].
  destruct (create_items (sv_items s) (sv_item_ctr s) sub (sub_owner sb) l) as [[items ctr] ids0] eqn:E. inv_pair H.
  destruct (create_items_spec _ _ _ _ _ _ _ _ E W D2 B2) as (_ & _ & _ & DI & FI & _).
  split; [exact DI|]. intros id Hin. destruct (FI _ Hin). split; [assumption | lia].
Qed.

Lemma init_ids_inv : forall sp eps, ids_inv (init sp eps).
Proof. intros. unfold ids_inv, init. cbn [sv_subs sv_items sv_last_sub sv_item_ctr map]. split; [constructor|]. split; [intros e []|]. split; [constructor | intros e []]. Qed.

(* ---------------- C29: no handler panics ---------------- *)

Lemma set_node_same_refs : forall sp k n n', get_node sp k = Some n -> n_refs n' = n_refs n -> same_refs sp (set_node sp k n').
Proof.
  intros sp k n n' Hg Hr. split; [reflexivity|]. intros k0. destruct (N.eq_dec k0 k) as [->|Hne].
  - rewrite get_set_node_same, Hg. cbn [option_map]. now rewrite Hr.
  - now rewrite get_set_node_other.
Qed.

Lemma ns_attribute_same_refs : forall sp k attr sp' d, ns_attribute sp k attr = (sp', d) -> same_refs sp sp'.
Proof.
  intros sp k attr sp' d H. unfold ns_attribute in H.
  destruct (get_node sp k) as [n|] eqn:G; [|inv_pair H; apply same_refs_refl].
  destruct (negb (access n FlagCurrentRead)); [inv_pair H; apply same_refs_refl|].
  destruct (attr =? AttrNodeID); [inv_pair H; apply same_refs_refl|].
  destruct (attr =? AttrEventNotifier); [inv_pair H; apply same_refs_refl|].
  destruct (attr =? AttrNodeClass).
  - destruct (node_attr n attr) as [d0|]; [|inv_pair H; apply same_refs_refl].
    destruct (dv_v d0); try (inv_pair H; apply same_refs_refl).
    inv_pair H. eapply set_node_same_refs; [exact G | reflexivity].
  - destruct (node_attr n attr); inv_pair H; apply same_refs_refl.
Qed.

Lemma read_one_same_refs : forall sp rv sp' d, read_one sp rv = (sp', d) -> same_refs sp sp'.
Proof.
  intros sp [[ns k] attr] sp' d H. unfold read_one in H. destruct (ns <? sp_ns sp); [|inv_pair H; apply same_refs_refl].
  eapply ns_attribute_same_refs; eassumption.
Qed.

Lemma read_all_same_refs : forall l sp sp' ds, read_all sp l = (sp', ds) -> same_refs sp sp'.
Proof.
  induction l as [|rv t IH]; intros sp sp' ds H; cbn [read_all] in H; [inv_pair H; apply same_refs_refl|].
  destruct (read_one sp rv) as [sp1 d] eqn:E1. destruct (read_all sp1 t) as [sp2 ds2] eqn:E2. inv_pair H.
  eapply same_refs_trans; [eapply read_one_same_refs; eassumption | eapply IH; eassumption].
Qed.

Lemma notify_same_refs : forall items sp n, same_refs sp (notify items sp n).
Proof.
  unfold notify. induction items as [|e t IH]; intros sp n; cbn [fold_left]; [apply same_refs_refl|].
  destruct (snd (it_node (snd e)) =? snd n); [|apply IH].
  destruct (read_one sp (n, it_attr (snd e))) as [sp1 d] eqn:E. cbn [fst].
  eapply same_refs_trans; [eapply read_one_same_refs; eassumption | apply IH].
Qed.

Lemma write_one_same_refs : forall sp wv sp' st, write_one sp wv = (sp', st) -> same_refs sp sp'.
Proof.
  intros sp [[[ns k] attr] v] sp' st H. unfold write_one in H. destruct (ns <? sp_ns sp); [|inv_pair H; apply same_refs_refl].
  unfold ns_set_attribute in H. destruct (get_node sp k) as [n|] eqn:G; [|inv_pair H; apply same_refs_refl].
  destruct (negb (access n FlagCurrentWrite)); inv_pair H; [apply same_refs_refl|].
  eapply set_node_same_refs; [exact G|]. unfold node_set_attr. destruct (attr =? AttrValue); reflexivity.
Qed.

Lemma srv_write_all_same_refs : forall l items sp sp' sts, srv_write_all items sp l = (sp', sts) -> same_refs sp sp'.
Proof.
  induction l as [|wv t IH]; intros items sp sp' sts H; cbn [srv_write_all] in H; [inv_pair H; apply same_refs_refl|].
  destruct (write_one sp wv) as [sp1 st] eqn:E1.
  destruct (srv_write_all items (if st =? StOK then notify items sp1 (fst (fst wv)) else sp1) t) as [sp2 sts2] eqn:E2. inv_pair H.
  eapply same_refs_trans; [eapply write_one_same_refs; eassumption|].
  eapply same_refs_trans; [|eapply IH; eassumption]. destruct (st =? StOK); [apply notify_same_refs | apply same_refs_refl].
Qed.

(* the address space is fit for Browse: references carry a type, the HasSubtype recursion ends within `fuel` *)
Definition space_ok (fuel : nat) (sp : space) : Prop := refs_typed sp /\ forall n, sub_refs fuel sp n <> None.

Lemma space_ok_same : forall fuel sp sp', same_refs sp sp' -> space_ok fuel sp -> space_ok fuel sp'.
Proof.
  intros fuel sp sp' S [T F]. split; [eapply refs_typed_same; eassumption|].
  intros n. rewrite (sub_refs_same fuel sp sp' n S). apply F.
Qed.

Lemma revise_ticker_positive : forall iv, (0 < ticker_ns (revise iv))%Z.
Proof.
  intros iv. assert (H : (1000 <= revise iv)%Z).
  { unfold revise, IntervalMin, IntervalMax. destruct iv; try lia.
    destruct (u <? 1000)%Z eqn:E1; [lia|]. destruct (86400000000 <? u)%Z eqn:E2; lia. }
  unfold ticker_ns. assert (1 <= Z.quot (revise iv) 1000)%Z; [|lia].
  rewrite Z.quot_div_nonneg by lia. apply Z.div_le_lower_bound; lia.
Qed.

Lemma handle_no_panic : forall fuel s e s' o, handle fuel s e = (s', o) -> space_ok fuel (sv_space s) ->
  (forall w, o <> OPanic w) /\ o <> OOutOfFuel /\ space_ok fuel (sv_space s').
Proof.
  intros fuel s e s' o H OK.
  assert (Sp : space_ok fuel (sv_space s')).
  { destruct (handle_space _ _ _ _ _ H) as [E|[(c & t & l & ds & _ & _ & E)|[(c & t & l & sts & _ & _ & E)|(items & l & E)]]].
    - now rewrite E.
    - eapply space_ok_same; [eapply read_all_same_refs; exact E | exact OK].
    - eapply space_ok_same; [eapply srv_write_all_same_refs; exact E | exact OK].
    - rewrite E. clear E. eapply space_ok_same; [|exact OK]. unfold notify_all. generalize (sv_space s).
      induction l as [|na t IH]; intros sp; cbn [fold_left]; [apply same_refs_refl|].
      eapply same_refs_trans; [apply notify_same_refs | apply IH]. }
  split; [|split; [|exact Sp]].
  - intros w. destruct e as [chan tok r|id|id]; cbn [handle] in H; [|inv_pair H; discriminate|inv_pair H; discriminate].
    destruct (negb (has_handler r)); [inv_pair H; discriminate|].
    destruct (check_session s (svc_of r) tok); [inv_pair H; discriminate|].
    destruct r; cbn [dispatch] in H; try (break_in H; inv_pair H; discriminate).
    + destruct OK as [T F]. destruct (browse_all_ok fuel (sv_space s) l T F) as [x Hx]. rewrite Hx in H. inv_pair H. discriminate.
    + destruct (alist_get tok (sv_sessions s)); [|inv_pair H; discriminate].
      cbn [worker_start sub_owner sub_interval] in H.
      pose proof (revise_ticker_positive iv) as P. destruct (ticker_ns (revise iv) <=? 0)%Z eqn:E; [lia|]. inv_pair H. discriminate.
  - destruct e as [chan tok r|id|id]; cbn [handle] in H; [|inv_pair H; discriminate|inv_pair H; discriminate].
    destruct (negb (has_handler r)); [inv_pair H; discriminate|].
    destruct (check_session s (svc_of r) tok); [inv_pair H; discriminate|].
    destruct r; cbn [dispatch] in H; try (break_in H; inv_pair H; discriminate).
    destruct OK as [T F]. destruct (browse_all_ok fuel (sv_space s) l T F) as [x Hx]. rewrite Hx in H. inv_pair H. discriminate.
Qed.

Lemma run_no_panic : forall fuel h s, space_ok fuel (sv_space s) ->
  Forall (fun o => (forall w, o <> OPanic w) /\ o <> OOutOfFuel) (outcomes fuel s h) /\ space_ok fuel (sv_space (run fuel s h)).
Proof.
  unfold run. induction h as [|e t IH]; intros s OK; cbn [outcomes fold_left]; [split; [constructor | exact OK]|].
  unfold step at 2. destruct (handle fuel s e) as [s' o] eqn:E. cbn [fst].
  destruct (handle_no_panic _ _ _ _ _ E OK) as (P1 & P2 & OK'). destruct (IH s' OK') as [F R].
  split; [constructor; [split; assumption | exact F] | exact R].
Qed.

(* ---------------- C29: bounded waiting ---------------- *)

Lemma filter_partition_length : forall A (p : A -> bool) l,
  (length (filter p l) + length (filter (fun x => negb (p x)) l) = length l)%nat.
Proof. induction l as [|x l IH]; cbn [filter]; [reflexivity|]. destruct (p x); cbn [negb length]; lia. Qed.

Definition htime_sum (htime : event -> N) (h : list event) : N := fold_right (fun e acc => htime e + acc) 0 h.

(* one iteration: its duration plus what the remaining stalled channels can still cost = handler time plus what the stalled
   channels could cost before *)
Lemma serve_t_time : forall fuel D htime t e t' o dt, serve_t fuel D htime t e = (t', o, dt) ->
  dt + D * N.of_nat (length (ts_stalled t')) = htime e + D * N.of_nat (length (ts_stalled t)).
Proof.
  intros fuel D htime t e t' o dt H. unfold serve_t in H. destruct (handle fuel (ts_srv t) e) as [s' o0].
  cbv zeta in H. inversion H; subst; clear H. cbn [ts_stalled].
  pose proof (filter_partition_length N (fun c => mem c (touched (ts_srv t) e o0)) (ts_stalled t)) as P.
  assert (Q : N.of_nat (length (ts_stalled t)) =
              N.of_nat (length (filter (fun c => mem c (touched (ts_srv t) e o0)) (ts_stalled t))) +
              N.of_nat (length (filter (fun c => negb (mem c (touched (ts_srv t) e o0))) (ts_stalled t)))) by lia.
  rewrite Q, N.mul_add_distr_l. lia.
Qed.

(* every event of a history is dealt with by (handler times so far) + D * (stalled channels at the start) *)
Lemma run_t_bound : forall fuel D htime h t now,
  Forall (fun ot => snd ot <= now + htime_sum htime h + D * N.of_nat (length (ts_stalled t))) (run_t fuel D htime t now h).
Proof.
  intros fuel D htime. induction h as [|e r IH]; intros t now; cbn [run_t]; [constructor|].
  destruct (serve_t fuel D htime t e) as [[t' o] dt] eqn:E. pose proof (serve_t_time _ _ _ _ _ _ _ _ E) as T.
  cbn [htime_sum fold_right]. fold (htime_sum htime r).
  constructor.
  - cbn [snd]. lia.
  - eapply Forall_impl; [|apply IH]. intros [o' tm] H. cbn [snd] in *. lia.
Qed.

Lemma handle_never_hangs : forall fuel s e s' o, handle fuel s e = (s', o) -> o <> OHang /\ o <> OWriteTimeout.
Proof.
  intros fuel s e s' o H.
  destruct e as [chan tok r|id|id]; cbn [handle] in H; [|inv_pair H; split; discriminate|inv_pair H; split; discriminate].
  destruct (negb (has_handler r)); [inv_pair H; split; discriminate|].
  destruct (check_session s (svc_of r) tok); [inv_pair H; split; discriminate|].
  destruct r; cbn [dispatch] in H; break_in H; inv_pair H; split; discriminate.
Qed.

(* ---------------- C31: data change notifications go through the read check ---------------- *)

Lemma notify_vals_space : forall items sp n, fst (notify_vals items sp n) = notify items sp n.
Proof.
  unfold notify. induction items as [|e t IH]; intros sp n; cbn [notify_vals fold_left]; [reflexivity|].
  destruct (snd (it_node (snd e)) =? snd n); [|apply IH].
  destruct (read_one sp (n, it_attr (snd e))) as [sp1 d] eqn:E. cbn [fst].
  specialize (IH sp1 n). destruct (notify_vals t sp1 n) as [sp2 l]. cbn [fst] in *. exact IH.
Qed.

Lemma notify_vals_denied : forall items sp ns k n0, ns <? sp_ns sp = true -> frozen_as sp k n0 ->
  lacks n0 FlagCurrentRead = true ->
  forall e, In e (snd (notify_vals items sp (ns, k))) -> snd e = status_dv StBadUserAccessDenied.
Proof.
  induction items as [|it t IH]; intros sp ns k n0 Hns Hf Hl e He; cbn [notify_vals] in He; [destruct He|].
  cbn [snd] in He. destruct (snd (it_node (snd it)) =? k).
  - revert He.
    match goal with |- context [read_one ?a ?b] => destruct (read_one a b) as [sp1 d] eqn:E end.
    match goal with |- context [notify_vals ?a ?b ?c] => destruct (notify_vals a b c) as [sp2 l] eqn:E2 end.
    cbn [snd]. intros He.
    destruct Hf as (n1 & G & S).
    assert (L1 : lacks n1 FlagCurrentRead = true) by now rewrite (same_but_class_lacks _ _ _ S).
    assert (Hd : d = status_dv StBadUserAccessDenied /\ sp1 = sp).
    { unfold read_one in E. rewrite Hns in E. rewrite (read_denied _ _ _ _ G L1) in E. inversion E. now split. }
    destruct Hd as [-> ->]. cbn [In] in He. destruct He as [He|He]; [subst e; reflexivity|].
    apply (IH sp ns k n0 Hns (ex_intro _ n1 (conj G S)) Hl e). now rewrite E2.
  - now apply (IH sp ns k n0 Hns Hf Hl e).
Qed.
