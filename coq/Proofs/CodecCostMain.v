(* E1 codec, C02: the allocation accounted by the model, for every descriptor, registry and nesting budget f:
     alloc <= (1 + srate t + (f+1) * DA) * len + scst t + sslk t + (f+1) * DE     (f = nesting levels, ua.MaxNestingLevel),
   DA = RM + 2 CM + 1101 and DE = SM + 2 CM + 145, where srate / scst / sslk are static measures of the
   descriptor (element slots per consumed byte, pointer targets, slack) and RM, CM, SM bound them over the descriptors
   that can be entered one nesting level further down (Variant element types, extension object bodies). *)
From Coq Require Import NArith ZArith List Bool Lia ZifyN ZifyNat ZifyBool.
From Coq.Strings Require Import Byte.
From Opcua Require Import Model.CodecTypes Model.Codec Model.CodecEq Model.CodecWf Proofs.CodecTotal Proofs.CodecCost Proofs.CodecCostCustoms.
Import ListNotations.
Open Scope N_scope.

Definition elsz (e : ty) : N := match e with TPtr x => 8 + tsize x | TCustom _ => 8 | _ => tsize e end.
(* allocated whatever the input holds: the targets of pointers *)
Fixpoint scst (t : ty) : N :=
  match t with
  | TPtr e => tsize e + scst e
  | TStruct fs => fold_right (fun f a => scst f + a) 0 fs
  | _ => 0
  end.
(* bytes allocated per byte consumed, within one nesting level (beyond the copy of strings) *)
Fixpoint srate (t : ty) : N :=
  match t with
  | TSlice e => srate e + scst e + elsz e
  | TPtr e => srate e
  | TStruct fs => fold_right (fun f a => N.max (srate f) a) 0 fs
  | _ => 0
  end.
(* additional slack when decoding fails *)
Fixpoint sslk (t : ty) : N :=
  match t with
  | TSlice e => sslk e + scst e
  | TPtr e => sslk e
  | TStruct fs => fold_right (fun f a => N.max (sslk f) a) 0 fs
  | _ => 0
  end.

Definition flag (t : ty) : bool := Nat.leb 1 (minsize t).
Definition tyok (t : ty) : bool := ptr_ok t && slices_ok t.

Section Main.
  Variable L : N.
  Variable reg : list (Z * Z * ty).
  Variables RM CM SM : N.
  Definition entry_ok (t : ty) : bool := tyok t && (srate t <=? RM) && (scst t <=? CM) && (sslk t <=? SM).
  Hypothesis Hreg : forallb (fun r => entry_ok (TPtr (snd r))) reg = true.
  Hypothesis Hvar : forall tid, entry_ok (variant_ty tid) = true.
  Hypothesis Hxml : entry_ok xml_body_ty = true.

  Definition DA : N := RM + 2 * CM + 1101.
  Definition DE : N := SM + 2 * CM + 145.

  Definition Inv (f : nat) : Prop :=
    forall t, tyok t = true ->
      bnd L (1 + srate t + N.of_nat (S f) * DA) (scst t) (sslk t + N.of_nat (S f) * DE) (flag t) (decode reg f t).

  Lemma leb_add : forall m1 m2, Nat.leb 1 (m1 + m2) = Nat.leb 1 m1 || Nat.leb 1 m2.
  Proof. intros [|m1] [|m2]; reflexivity. Qed.

  Lemma fields_bnd : forall XA XE (D : ty -> dec val) fs,
    Forall (fun t => bnd L (1 + srate t + XA) (scst t) (sslk t + XE) (flag t) (D t)) fs ->
    bnd L (1 + srate (TStruct fs) + XA) (scst (TStruct fs)) (sslk (TStruct fs) + XE) (flag (TStruct fs)) (dec_fields (map D fs)).
  Proof.
    intros XA XE D fs H. induction H as [|t fs' Ht _ IH]; cbn [map dec_fields].
    - eapply bnd_mono; [apply bnd_ret|apply N.le_refl|apply N.le_refl|apply N.le_refl|auto].
    - change (srate (TStruct (t :: fs'))) with (N.max (srate t) (srate (TStruct fs'))).
      change (scst (TStruct (t :: fs'))) with (scst t + scst (TStruct fs')).
      change (sslk (TStruct (t :: fs'))) with (N.max (sslk t) (sslk (TStruct fs'))).
      unfold flag. change (minsize (TStruct (t :: fs'))) with (minsize t + minsize (TStruct fs'))%nat. rewrite leb_add.
      set (a := 1 + N.max (srate t) (srate (TStruct fs')) + XA). set (e := N.max (sslk t) (sslk (TStruct fs')) + XE).
      eapply bnd_mono with (a := a) (e := e) (c := scst t + (scst (TStruct fs') + 0));
        [|apply N.le_refl|lia|apply N.le_refl|intros Hs; exact Hs].
      apply (bnd_bind L _ _ a _ _ e (Nat.leb 1 (minsize t)) (Nat.leb 1 (minsize (TStruct fs')))).
      + eapply bnd_mono; [exact Ht|unfold a; lia|apply N.le_refl|unfold e; lia|auto].
      + intros x. eapply bnd_mono with (s := Nat.leb 1 (minsize (TStruct fs')) || false);
          [|apply N.le_refl|apply N.le_refl|apply N.le_refl|rewrite orb_false_r; auto].
        apply (bnd_bind L _ _ a _ 0 e).
        * eapply bnd_mono; [exact IH|unfold a; lia|apply N.le_refl|unfold e; lia|auto].
        * intros xs. apply bnd_ret.
  Qed.

  Lemma entry_facts : forall t, entry_ok t = true -> tyok t = true /\ srate t <= RM /\ scst t <= CM /\ sslk t <= SM.
  Proof.
    intros t H. unfold entry_ok in H. apply andb_true_iff in H. destruct H as [H H3]. apply andb_true_iff in H. destruct H as [H H2].
    apply andb_true_iff in H. destruct H as [H0 H1]. apply N.leb_le in H1, H2, H3. auto.
  Qed.

  Lemma lookup_entry : forall tid t, lookup_expnodeid reg tid = Some t -> entry_ok (TPtr t) = true.
  Proof.
    intros tid t H. unfold lookup_expnodeid, lookup_nodeid, lookup in H.
    assert (Hf : forall p r, find p reg = Some r -> entry_ok (TPtr (snd r)) = true).
    { intros p r Hfind. apply find_some in Hfind. destruct Hfind as [Hin _]. rewrite forallb_forall in Hreg. exact (Hreg r Hin). }
    destruct tid; try discriminate. destruct nid as [nv|]; try discriminate. destruct nv; try discriminate.
    repeat match type of H with
           | (if ?c then _ else _) = _ => destruct c
           | match find ?p reg with _ => _ end = _ => destruct (find p reg) eqn:Ef; [apply Hf in Ef|]
           end; try discriminate; inversion H; subst; assumption.
  Qed.

  Lemma entry_custom : forall c, entry_ok (TCustom c) = true.
  Proof.
    intros c. unfold entry_ok. cbn [tyok ptr_ok slices_ok srate scst sslk andb].
    replace (0 <=? RM) with true by (symmetry; apply N.leb_le; apply N.le_0_l).
    replace (0 <=? CM) with true by (symmetry; apply N.leb_le; apply N.le_0_l).
    replace (0 <=? SM) with true by (symmetry; apply N.leb_le; apply N.le_0_l). reflexivity.
  Qed.

  Lemma tyok_elem_slice : forall e, tyok (TSlice e) = true -> tyok e = true /\ flag e = true.
  Proof.
    intros e H. unfold tyok in *. cbn [ptr_ok slices_ok] in H. apply andb_true_iff in H. destruct H as [H1 H2].
    apply andb_true_iff in H2. destruct H2 as [H2 H3]. rewrite H1, H3. split; [reflexivity|exact H2].
  Qed.

  Definition level_custom (rec : ty -> dec val) (allow : bool) (c : custom) : dec val :=
    if nested c && negb allow then bind (tick (csize c)) (fun _ => fail EOther) else dec_custom reg rec c.

  (* one nesting level, given the bound of the hand-written decoders of that level *)
  Lemma level_inv : forall rec allow XA XE,
    (forall c, bnd L (1 + XA) 0 XE true (level_custom rec allow c)) ->
    forall t, tyok t = true ->
      bnd L (1 + srate t + XA) (scst t) (sslk t + XE) (flag t) (dec_level reg rec allow t).
  Proof.
    intros rec allow XA XE Hcust t. induction t using ty_ind'; intros Ht; cbn [dec_level].
    - (* bool *)
      eapply bnd_mono with (s := true || false); [apply (bnd_bind L _ _ _ 0 0); [apply read_byte_bnd|intros b; apply bnd_ret]|apply N.le_refl|apply N.le_refl|apply N.le_refl|auto].
    - eapply bnd_mono with (s := Nat.leb 1 w || false); [apply (bnd_bind L _ _ _ 0 0); [destruct s; [apply read_i_bnd|apply read_u_bnd]|intros b; apply bnd_ret]|apply N.le_refl|apply N.le_refl|apply N.le_refl|].
      unfold flag. cbn [minsize]. rewrite orb_false_r. auto.
    - eapply bnd_mono with (s := Nat.leb 1 w || false); [apply (bnd_bind L _ _ _ 0 0); [apply read_u_bnd|intros b; apply bnd_ret]|apply N.le_refl|apply N.le_refl|apply N.le_refl|].
      unfold flag. cbn [minsize]. rewrite orb_false_r. auto.
    - eapply bnd_mono with (s := true || false); [apply (bnd_bind L _ _ (1 + srate TString + XA) 0 0); [apply read_string_bnd; lia|intros b; apply bnd_ret]|apply N.le_refl|apply N.le_refl|apply N.le_refl|auto].
    - eapply bnd_mono with (s := true || false); [apply (bnd_bind L _ _ _ 0 0); [apply read_time_bnd|intros b; apply bnd_ret]|apply N.le_refl|apply N.le_refl|apply N.le_refl|auto].
    - apply dec_bytes_bnd.
    - (* slice *)
      destruct (tyok_elem_slice t Ht) as [Hte Hfe]. specialize (IHt Hte). rewrite Hfe in IHt.
      pose proof (bnd_absorb L _ _ _ _ _ IHt) as Ha.
      change (match t with TPtr x => (8 + tsize x)%N | TCustom _ => 8%N | _ => tsize t end) with (elsz t).
      eapply bnd_mono; [apply (dec_slice_bnd L _ _ (elsz t) _ Ha)|cbn [srate]; lia|apply N.le_refl|cbn [sslk]; lia|auto].
    - (* pointer *)
      assert (Hte : tyok t = true).
      { unfold tyok in *. cbn [ptr_ok slices_ok] in Ht. apply andb_true_iff in Ht. destruct Ht as [H1 H2].
        rewrite H2, andb_true_r. destruct t; try discriminate; try reflexivity; exact H1. }
      specialize (IHt Hte). unfold dec_ptr.
      assert (Hgo : bnd L (1 + srate (TPtr t) + XA) (scst (TPtr t)) (sslk (TPtr t) + XE) (flag (TPtr t))
                      (bind (tick (tsize t)) (fun _ => bind (dec_level reg rec allow t) (fun v => ret (VPtr (Some v)))))).
      { cbn [srate scst sslk]. unfold flag. cbn [minsize]. fold (flag t).
        eapply bnd_mono with (c := tsize t + (scst t + 0)) (s := false || (flag t || false));
          [|apply N.le_refl|lia|apply N.le_refl|rewrite orb_false_r; auto].
        apply (bnd_bind L); [apply bnd_tick|]. intros _. apply (bnd_bind L); [exact IHt|]. intros v. apply bnd_ret. }
      destruct t; try exact Hgo; (eapply bnd_mono; [apply bnd_panic|apply N.le_refl|apply N.le_0_l|apply N.le_refl|auto]).
    - (* struct *)
      assert (Hfs : Forall (fun t => bnd L (1 + srate t + XA) (scst t) (sslk t + XE) (flag t) (dec_level reg rec allow t)) fs).
      { apply Forall_forall. intros t Hin. rewrite Forall_forall in H. apply H; [exact Hin|].
        unfold tyok in *. cbn [ptr_ok slices_ok] in Ht. apply andb_true_iff in Ht. destruct Ht as [H1 H2].
        rewrite forallb_forall in H1, H2. rewrite (H1 t Hin), (H2 t Hin). reflexivity. }
      pose proof (fields_bnd XA XE (dec_level reg rec allow) fs Hfs) as Hb.
      change ((fix dec_ty (t : ty) : dec val := _) ) with (dec_level reg rec allow) || idtac.
      eapply bnd_mono with (c := scst (TStruct fs) + 0) (s := flag (TStruct fs) || false);
        [|apply N.le_refl|lia|apply N.le_refl|rewrite orb_false_r; auto].
      apply (bnd_bind L); [exact Hb|]. intros vs. apply bnd_ret.
    - (* hand-written codecs *)
      eapply bnd_mono; [exact (Hcust c)|cbn [srate]; lia|apply N.le_refl|cbn [sslk]; lia|auto].
    Unshelve. all: try exact false. all: try exact 0. all: try exact 0%Z.
  Qed.

  (* the hand-written decoders of one level over a decoder rec for what is nested further down *)
  Lemma customs_inv : forall rec ar er, 1 <= ar ->
    (forall t', entry_ok t' = true -> bnd L ar CM er (Nat.leb 1 (minsize t')) (rec t')) ->
    forall c, bnd L (ar + 2 * CM + 1101) 0 (er + 2 * CM + 145) true (dec_custom reg rec c).
  Proof.
    intros rec ar er Har Hrec c.
    assert (Hc : bnd L (ar + CM + 956) (145 + CM) (er + CM) true (dec_custom reg rec c)).
    { destruct c; cbn [dec_custom].
      - eapply bnd_mono; [apply (dec_variant_bnd L rec ar CM er (fun t' => entry_ok t' = true) Hrec Har Hvar)|apply N.le_refl|lia|apply N.le_refl|auto].
      - eapply bnd_mono; [apply (dec_datavalue_bnd L rec ar CM er (fun t' => entry_ok t' = true) Hrec Har); apply entry_custom|lia|lia|lia|auto].
      - eapply bnd_mono; [apply (dec_diag_bnd L rec ar CM er (fun t' => entry_ok t' = true) Hrec Har); apply entry_custom|lia|lia|lia|auto].
      - eapply bnd_mono; [apply (dec_loctext_bnd L ar er Har)|lia|lia|lia|auto].
      - eapply bnd_mono; [apply (dec_nodeid_bnd L ar er)|lia|lia|lia|auto].
      - eapply bnd_mono; [apply (dec_expnodeid_bnd L ar er Har)|lia|lia|lia|auto].
      - eapply bnd_mono; [apply (dec_extobj_bnd L reg rec ar CM er (fun t0 => entry_ok t0 = true) Hrec Har Hvar Hxml lookup_entry)|lia|lia|lia|auto].
      - eapply bnd_mono; [apply (dec_guid_bnd L ar er)|lia|lia|lia|auto]. }
    pose proof (bnd_absorb L _ _ _ _ _ Hc) as Ha.
    eapply bnd_mono; [exact Ha|lia|apply N.le_refl|lia|auto].
  Qed.

  Theorem inv_all : forall f, Inv f.
  Proof.
    assert (HDA : DA = RM + 2 * CM + 1101) by reflexivity.
    assert (HDE : DE = SM + 2 * CM + 145) by reflexivity.
    induction f as [|f IHf]; intros t Ht; cbn [decode].
    - apply level_inv; [|exact Ht]. intros c. unfold level_custom. destruct (nested c) eqn:En; cbn [andb negb].
      + intros bs _. unfold bnd_at, bind, tick, fail. cbn [add_al].
        assert (csize c <= 80) by (destruct c; cbn; lia). lia.
      + eapply bnd_mono; [apply (customs_inv (fun _ => fail EOther) 1 0 (N.le_refl _))|lia|apply N.le_refl|lia|auto].
        intros t' _ bs _. unfold bnd_at, fail. apply N.le_0_l.
    - apply level_inv; [|exact Ht]. intros c. unfold level_custom. rewrite andb_false_r.
      eapply bnd_mono; [apply (customs_inv (decode reg f) (1 + RM + N.of_nat (S f) * DA) (SM + N.of_nat (S f) * DE)); [lia|]|lia|apply N.le_refl|lia|auto].
      intros t' Hok. destruct (entry_facts t' Hok) as [H0 [H1 [H2 H3]]].
      eapply bnd_mono; [apply (IHf t' H0)|lia|exact H2|lia|auto].
  Qed.

  (* the bound, as a number *)
  Theorem alloc_bound : forall f t bs, tyok t = true -> ln bs <= L ->
    res_alloc (decode reg f t bs) <= (1 + srate t + N.of_nat (S f) * DA) * ln bs + scst t + sslk t + N.of_nat (S f) * DE.
  Proof.
    intros f t bs Ht HL. pose proof (inv_all f t Ht bs HL) as H. unfold bnd_at in H.
    destruct (decode reg f t bs) as [v rest al|err al|al|]; cbn [res_alloc]; [|lia|lia|lia].
    destruct H as [H1 H2].
    pose proof (N.mul_le_mono_l (ln bs - ln rest) (ln bs) (1 + srate t + N.of_nat (S f) * DA) ltac:(lia)). lia.
  Qed.
End Main.

(* the element types of Variants can be entered whenever CM covers the QualifiedName struct *)
Lemma variant_entry : forall RM CM SM, scst (TPtr qualified_name_ty) <= CM -> forall tid, entry_ok RM CM SM (variant_ty tid) = true.
Proof.
  intros RM CM SM H tid.
  assert (Hz : forall t, tyok t = true -> srate t = 0 -> sslk t = 0 -> scst t <= CM -> entry_ok RM CM SM t = true).
  { intros t H0 H1 H2 H3. unfold entry_ok. rewrite H0, H1, H2. cbn [andb].
    replace (0 <=? RM) with true by (symmetry; apply N.leb_le; apply N.le_0_l).
    replace (0 <=? SM) with true by (symmetry; apply N.leb_le; apply N.le_0_l).
    replace (scst t <=? CM) with true by (symmetry; apply N.leb_le; exact H3). reflexivity. }
  destruct tid as [|p|p]; try (apply Hz; [reflexivity|reflexivity|reflexivity|apply N.le_0_l]).
  do 5 (destruct p as [p|p|]; try (apply Hz; [reflexivity|reflexivity|reflexivity|first [apply N.le_0_l|exact H]])).
Qed.
