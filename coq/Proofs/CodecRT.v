(* E1 codec: a small calculus of "encoder / decoder pairs that round-trip" used by the proofs about the hand-written
   codecs.  RTb m k e d x: the encoder outcome e is EOk bs with at least m bytes, and if bs is shorter than the nesting
   budget k then the decoder d, run on bs followed by ANY rest, returns x and leaves exactly that rest. *)
From Coq Require Import NArith ZArith List Bool Lia.
From Coq.Strings Require Import Byte.
From Opcua Require Import Model.CodecTypes Model.Codec Model.CodecWf Model.CodecWfAll Proofs.CodecBase Proofs.CodecRoundtrip.
Import ListNotations.
Open Scope Z_scope.

Definition RTb {A} (m k : nat) (e : eres) (d : dec A) (x : A) : Prop :=
  exists bs, e = EOk bs /\ (m <= length bs)%nat /\
             ((length bs < k)%nat -> forall rest, decodes d (bs ++ rest) x rest).

Lemma RTb_prim : forall A m k e (d : dec A) x bs, e = EOk bs -> (m <= length bs)%nat ->
  (forall rest, decodes d (bs ++ rest) x rest) -> RTb m k e d x.
Proof. intros A m k e d x bs E L D. exists bs. split; [exact E|]. split; [exact L|]. intros _. exact D. Qed.

Lemma RTb_ret : forall A k (x : A), RTb 0 k (EOk []) (ret x) x.
Proof. intros A k x. eapply RTb_prim; [reflexivity|cbn; lia|]. intros rest. apply decodes_ret. Qed.

Lemma RTb_weaken : forall A m k m' k' e (d : dec A) x, RTb m k e d x -> (m' <= m)%nat -> (k' <= k)%nat -> RTb m' k' e d x.
Proof.
  intros A m k m' k' e d x [bs [E [L D]]] Hm Hk. exists bs. split; [exact E|]. split; [lia|]. intros Hl. apply D. lia.
Qed.

Lemma RTb_bind : forall A B m1 m2 k e1 e2 (d1 : dec A) (f : A -> dec B) x y,
  RTb m1 k e1 d1 x -> RTb m2 k e2 (f x) y -> RTb (m1 + m2) k (eapp e1 e2) (bind d1 f) y.
Proof.
  intros A B m1 m2 k e1 e2 d1 f x y [b1 [E1 [L1 D1]]] [b2 [E2 [L2 D2]]].
  exists (b1 ++ b2). subst e1 e2. split; [reflexivity|]. rewrite app_length. split; [lia|].
  intros Hl rest. rewrite <- app_assoc. eapply decodes_bind; [apply D1; lia|apply D2; lia].
Qed.

(* after a first part of at least one byte, the second part only needs a budget one smaller *)
Lemma RTb_bind_strict : forall A B m1 m2 k e1 e2 (d1 : dec A) (f : A -> dec B) x y,
  (1 <= m1)%nat -> RTb m1 (S k) e1 d1 x -> RTb m2 k e2 (f x) y -> RTb (m1 + m2) (S k) (eapp e1 e2) (bind d1 f) y.
Proof.
  intros A B m1 m2 k e1 e2 d1 f x y H1 [b1 [E1 [L1 D1]]] [b2 [E2 [L2 D2]]].
  exists (b1 ++ b2). subst e1 e2. split; [reflexivity|]. rewrite app_length. split; [lia|].
  intros Hl rest. rewrite <- app_assoc. eapply decodes_bind; [apply D1; lia|apply D2; lia].
Qed.

Lemma RTb_tick : forall A m k e n (d : dec A) x, RTb m k e d x -> RTb m k e (bind (tick n) (fun _ => d)) x.
Proof.
  intros A m k e n d x [bs [E [L D]]]. exists bs. split; [exact E|]. split; [exact L|].
  intros Hl rest. eapply decodes_bind; [apply decodes_tick|apply D; exact Hl].
Qed.

Lemma RTb_fmap : forall A B m k e (d : dec A) (g : A -> B) x,
  RTb m k e d x -> RTb m k e (bind d (fun v => ret (g v))) (g x).
Proof.
  intros A B m k e d g x [bs [E [L D]]]. exists bs. split; [exact E|]. split; [exact L|].
  intros Hl rest. eapply decodes_bind; [apply D; exact Hl|apply decodes_ret].
Qed.

(* a guard "at least n bytes remain" passes when the encoding that follows has at least n bytes *)
Lemma RTb_guard_remaining : forall A m k e (d : dec A) x n, RTb m k e d x -> n <= Z.of_nat m ->
  RTb m k e (bind remaining (fun r => if r <? n then fail EEOF else d)) x.
Proof.
  intros A m k e d x n [bs [E [L D]]] Hn. exists bs. split; [exact E|]. split; [exact L|].
  intros Hl rest. eapply decodes_bind; [apply decodes_remaining|].
  replace (blen (bs ++ rest) <? n) with false; [apply D; exact Hl|].
  symmetry. apply Z.ltb_ge. unfold blen. rewrite app_length. lia.
Qed.

(* a field governed by a mask bit *)
Lemma RTb_opt : forall A m k (b : bool) e (d : dec A) x dflt,
  (b = true -> RTb m k e d x) ->
  RTb 0 k (if b then e else EOk []) (if b then d else ret dflt) (if b then x else dflt).
Proof.
  intros A m k b e d x dflt H. destruct b; [|apply RTb_ret].
  eapply RTb_weaken; [apply H; reflexivity|lia|lia].
Qed.

Lemma RTb_eq : forall A m k e e' (d d' : dec A) x x', RTb m k e d x -> e = e' -> d = d' -> x = x' -> RTb m k e' d' x'.
Proof. intros. subst. assumption. Qed.

(* ------------------------------------------------------------------ primitives *)
Lemma RTb_u : forall w k z, 0 <= z < pow8 w -> RTb w k (EOk (le w z)) (read_u w) z.
Proof.
  intros w k z Hz. eapply RTb_prim; [reflexivity|rewrite le_length; lia|]. intros rest. apply decodes_read_u. exact Hz.
Qed.
Lemma RTb_i : forall w k z, (1 <= w)%nat -> - (pow8 w / 2) <= z < pow8 w / 2 -> RTb w k (EOk (le w z)) (read_i w) z.
Proof.
  intros w k z Hw Hz. eapply RTb_prim; [reflexivity|rewrite le_length; lia|]. intros rest. apply decodes_read_i; assumption.
Qed.

Lemma byte_ok_range : forall z, byte_ok z = true -> 0 <= z < 256.
Proof. intros z H. unfold byte_ok in H. bool_hyps. lia. Qed.

Lemma RTb_byte : forall k z, byte_ok z = true -> RTb 1 k (EOk [byte_of_Z z]) read_byte z.
Proof.
  intros k z Hz. apply byte_ok_range in Hz. change [byte_of_Z z] with (le 1 z). apply RTb_u. rewrite pow8_1. exact Hz.
Qed.

Lemma u_ok_range : forall w z, u_ok w z = true -> 0 <= z < pow8 w.
Proof. intros w z H. unfold u_ok, int_ok in H. bool_hyps. lia. Qed.
Lemma i_ok_range : forall w z, i_ok w z = true -> - (pow8 w / 2) <= z < pow8 w / 2.
Proof. intros w z H. unfold i_ok, int_ok in H. bool_hyps. lia. Qed.

Lemma RTb_uok : forall w k z, u_ok w z = true -> RTb w k (EOk (le w z)) (read_u w) z.
Proof. intros w k z H. apply RTb_u. apply u_ok_range. exact H. Qed.
Lemma RTb_iok : forall w k z, (1 <= w)%nat -> i_ok w z = true -> RTb w k (EOk (le w z)) (read_i w) z.
Proof. intros w k z Hw H. apply RTb_i; [exact Hw|]. apply i_ok_range. exact H. Qed.

Lemma RTb_string : forall k s, str_ok s = true -> RTb 4 k (enc_string s) read_string s.
Proof.
  intros k s Hs. destruct (rt_string s [] Hs) as [bs [E [L _]]]. eapply RTb_prim; [exact E|exact L|].
  intros rest. destruct (rt_string s rest Hs) as [bs' [E' [_ D]]]. rewrite E in E'. inversion E'; subst bs'. exact D.
Qed.

Lemma RTb_time : forall k t, time_ok t = true -> RTb 8 k (enc_time t) read_time (norm_time t).
Proof.
  intros k t Ht. destruct (rt_time t [] Ht) as [bs [E [L _]]]. eapply RTb_prim; [exact E|lia|].
  intros rest. destruct (rt_time t rest Ht) as [bs' [E' [_ D]]]. rewrite E in E'. inversion E'; subst bs'. exact D.
Qed.

(* Buffer.WriteByteString / Buffer.ReadBytes: empty and nil both come back as nil *)
Lemma RTb_obytes : forall k b, obytes_ok b = true -> RTb 4 k (enc_bytestring b) read_bytes (norm_obytes b).
Proof.
  intros k b Hb. unfold enc_bytestring. destruct b as [d|].
  - cbn [obytes_ok] in Hb. unfold str_ok in Hb. apply Z.leb_le in Hb.
    destruct (max_int32 <? blen d) eqn:E; [apply Z.ltb_lt in E; lia|].
    eapply RTb_prim; [reflexivity|rewrite app_length, le_length; lia|]. intros rest. rewrite <- app_assoc.
    assert (Hd : 0 <= blen d) by (unfold blen; lia).
    unfold read_bytes. eapply decodes_bind; [apply decodes_read_u; rewrite pow8_4; unfold max_int32 in *; lia|].
    destruct d as [|c d'].
    + cbn [blen length Z.of_nat Z.eqb orb app norm_obytes]. apply decodes_ret.
    + set (dd := c :: d') in *. assert (Hl : 1 <= blen dd) by (unfold blen, dd; cbn [length]; lia).
      replace ((blen dd =? 0) || (blen dd =? null32)) with false.
      2:{ symmetry. apply orb_false_iff. split; apply Z.eqb_neq; unfold null32, max_int32 in *; lia. }
      eapply decodes_bind; [apply decodes_read_n|]. unfold dd. cbn [norm_obytes]. apply decodes_ret.
  - eapply RTb_prim; [reflexivity|rewrite le_length; lia|]. intros rest.
    unfold read_bytes. eapply decodes_bind; [apply decodes_read_u; rewrite pow8_4; unfold null32; lia|].
    replace ((null32 =? 0) || (null32 =? null32)) with true by reflexivity. cbn [norm_obytes]. apply decodes_ret.
Qed.

Lemma RTb_guid : forall k g, gwf (TCustom CGUID) g = true -> RTb 16 k (enc_guid g) dec_guid g.
Proof.
  intros k g Hg. destruct g; try discriminate.
  destruct (roundtrip_generic [] 0 (TCustom CGUID) eq_refl _ Hg) as [bs [E [L D]]].
  eapply RTb_prim; [exact E|exact L|]. intros rest. exact (D rest).
Qed.

Lemma RTb_loctext : forall k v, gwf (TCustom CLocText) v = true -> RTb 1 k (enc_loctext v) dec_loctext v.
Proof.
  intros k v Hv. destruct v; try discriminate.
  destruct (roundtrip_generic [] 0 (TCustom CLocText) eq_refl _ Hv) as [bs [E [L D]]].
  eapply RTb_prim; [exact E|exact L|]. intros rest. exact (D rest).
Qed.

(* ------------------------------------------------------------------ lists (elements decoded by the same decoder) *)
Lemma RTb_list : forall k (d : dec val) (enc : val -> eres) (nmf : val -> val) m l,
  Forall (fun x => RTb m k (enc x) d (nmf x)) l ->
  RTb (m * length l) k (enc_list enc l) (dec_n d (length l)) (map nmf l).
Proof.
  intros k d enc nmf m l H. induction H as [|x r Hx _ IH].
  - cbn [enc_list length dec_n map]. eapply RTb_weaken; [apply RTb_ret|lia|apply le_n].
  - cbn [enc_list length dec_n map]. fold (enc_list enc).
    eapply RTb_weaken; [|instantiate (1 := (m + m * length r)%nat); lia|apply le_n].
    eapply RTb_bind; [exact Hx|]. apply (RTb_fmap _ _ _ _ _ _ (cons (nmf x))). exact IH.
Qed.
