(* SendCorrProofs.v — invariants of Model/SendCorr.v over every run (any number of callers, any peer). *)
From Coq Require Import ZArith List Bool Lia.
From Opcua Require Import Gen.ArithFromGo Gen.SendSide Model.SendCorr.
Import ListNotations.
Open Scope Z_scope.

Definition regd (c : cpc) : bool :=
  match c with CRegd _ _ _ | CWait _ _ _ | CDone _ _ _ _ => true | _ => false end.

Definition disp_ch (x : dpc) : option tid :=
  match x with DHave _ _ ch | DLocked _ _ ch => Some ch | _ => None end.
Definition disp_msg (x : dpc) : option (nat * msg) :=
  match x with DGot u m | DHave u m _ | DLocked u m _ => Some (u, m) | _ => None end.

Record inv (s : st) : Prop := {
  H1 : forall k t, handlers s k = Some t -> id_of (cs s t) = Some k;
  H2 : forall k t, handlers s k = Some t -> regd (cs s t) = true;
  H3 : forall k t, handlers s k = Some t -> slot s t = None;
  H4 : forall k t, handlers s k = Some t -> disp_ch (d s) <> Some t;
  S1 : forall t u m, slot s t = Some (u, m) -> id_of (cs s t) = Some (m_id m);
  S2 : forall t u m, slot s t = Some (u, m) -> regd (cs s t) = true;
  S3 : forall t u m, slot s t = Some (u, m) -> g_loc s u = LSlot t;
  D1 : forall u m, disp_msg (d s) = Some (u, m) -> g_loc s u = LDisp;
  D2 : forall ch u m, disp_ch (d s) = Some ch -> disp_msg (d s) = Some (u, m) -> id_of (cs s ch) = Some (m_id m);
  D3 : forall ch, disp_ch (d s) = Some ch -> regd (cs s ch) = true;
  D4 : forall ch, disp_ch (d s) = Some ch -> slot s ch = None;
  R1 : forall t k w id r u m, cs s t = CDone k w id r -> res_msg r = Some (u, m) -> g_loc s u = LTaken t;
  R2 : forall t k w id r u m, cs s t = CDone k w id r -> res_msg r = Some (u, m) -> m_id m = id;
  R3 : forall t k w id u m, cs s t = CDone k w id (ROk u m) -> m_err m = false /\ m_ty m = Some w;
  N1 : forall u, (net_n s <= u)%nat -> g_loc s u = LNet;
  O1 : overflow s = false
}.

Lemma inv_init : forall seed, inv (init seed).
Proof. intro seed. constructor; cbn; intros; try discriminate; try congruence; auto. Qed.

Ltac learn H := let T := type of H in lazymatch goal with | _ : T |- _ => fail | _ => pose proof H end.

Ltac split_eqb :=
  repeat match goal with
  | H : context [Nat.eqb ?a ?b] |- _ => destruct (Nat.eqb_spec a b); subst
  | |- context [Nat.eqb ?a ?b] => destruct (Nat.eqb_spec a b); subst
  | H : context [Z.eqb ?a ?b] |- _ => destruct (Z.eqb_spec a b); subst
  | |- context [Z.eqb ?a ?b] => destruct (Z.eqb_spec a b); subst
  end.

(* add every consequence of the invariant of state s that the context triggers *)
Ltac sat I :=
  repeat match goal with
  | H : handlers _ ?k = Some ?t |- _ => first [ learn (H1 _ I k t H) | learn (H2 _ I k t H) | learn (H3 _ I k t H) | learn (H4 _ I k t H) ]
  | H : slot _ ?t = Some (?u, ?m) |- _ => first [ learn (S1 _ I t u m H) | learn (S2 _ I t u m H) | learn (S3 _ I t u m H) ]
  | H : cs _ ?t = CDone ?k ?w ?id ?r, H' : res_msg ?r = Some (?u, ?m) |- _ => first [ learn (R1 _ I t k w id r u m H H') | learn (R2 _ I t k w id r u m H H') ]
  | H : cs _ ?t = CDone ?k ?w ?id (ROk ?u ?m) |- _ => learn (R3 _ I t k w id u m H)
  | H : disp_msg (d _) = Some (?u, ?m) |- _ => learn (D1 _ I u m H)
  | H : (net_n _ <= ?u)%nat |- _ => learn (N1 _ I u H)
  | H : disp_ch (d _) = Some ?ch |- _ => first [ learn (D3 _ I ch H) | learn (D4 _ I ch H) ]
  | H : disp_ch (d _) = Some ?ch, H' : disp_msg (d _) = Some (?u, ?m) |- _ => learn (D2 _ I ch u m H H')
  end.

Ltac rw_cs :=
  repeat match goal with
  | H : cs _ _ = _ |- _ => progress (rewrite H in * )
  | H : d _ = _ |- _ => progress (rewrite H in * )
  | H : slot _ _ = _ |- _ => progress (rewrite H in * )
  end.

Ltac inj :=
  repeat match goal with
  | H : Some _ = Some _ |- _ => inversion H; subst; clear H
  | H : (_, _) = (_, _) |- _ => inversion H; subst; clear H
  | H : CDone _ _ _ _ = CDone _ _ _ _ |- _ => inversion H; subst; clear H
  | H : ROk _ _ = ROk _ _ |- _ => inversion H; subst; clear H
  end.

Ltac go I :=
  intros; cbn in *; unfold updN, updZ in *; split_eqb; cbn in *; try congruence; inj;
  sat I; rw_cs; cbn in *; inj; try congruence; try discriminate; try tauto; eauto;
  try solve [apply (N1 _ I); lia]; try exact (O1 _ I); try solve [exfalso; lia];
  try solve [match type of I with inv ?s => pose proof (N1 s I (net_n s) (le_n _)); congruence end];
  try solve [match goal with |- slot ?s ?t = None => destruct (slot s t) as [[? ?]|] eqn:?; [sat I; rw_cs; cbn in *; discriminate | reflexivity] end];
  try solve [match goal with |- _ <> _ => intro; inj; sat I; rw_cs; cbn in *; inj; try congruence; discriminate end].

Ltac dfacts I Dd :=
  match type of Dd with
  | d ?s = DGot ?u ?m => pose proof (D1 s I u m ltac:(rewrite Dd; reflexivity))
  | d ?s = DHave ?u ?m ?ch =>
      pose proof (D1 s I u m ltac:(rewrite Dd; reflexivity));
      pose proof (D2 s I ch u m ltac:(rewrite Dd; reflexivity) ltac:(rewrite Dd; reflexivity));
      pose proof (D3 s I ch ltac:(rewrite Dd; reflexivity));
      pose proof (D4 s I ch ltac:(rewrite Dd; reflexivity))
  | d ?s = DLocked ?u ?m ?ch =>
      pose proof (D1 s I u m ltac:(rewrite Dd; reflexivity));
      pose proof (D2 s I ch u m ltac:(rewrite Dd; reflexivity) ltac:(rewrite Dd; reflexivity));
      pose proof (D3 s I ch ltac:(rewrite Dd; reflexivity));
      pose proof (D4 s I ch ltac:(rewrite Dd; reflexivity))
  | _ => idtac
  end.

Lemma handler_ok_ty : forall w m, handler_ok w m = true -> m_ty m = Some w.
Proof. unfold handler_ok. intros w m H. destruct (m_ty m); try discriminate. apply Z.eqb_eq in H. congruence. Qed.

Lemma step_inv : forall leaky s e s', inv s -> step leaky s e = Some s' -> inv s'.
Proof.
  intros leaky s e s' I St.
  destruct e; cbn in St.
  - (* EAlloc *)
    destruct (cs s t) eqn:C; try discriminate. destruct (open_blocked s k); try discriminate. inversion St; subst; clear St.
    destruct k; constructor; go I.
  - (* ERegister *)
    destruct (cs s t) eqn:C; try discriminate.
    destruct (handlers s id) eqn:Hh; inversion St; subst; clear St.
    + unfold finish. destruct k; constructor; go I.
    + constructor; go I.
  - (* EWrite *)
    destruct (cs s t) eqn:C; try discriminate.
    destruct ok; [|destruct (is_leaky leaky)]; inversion St; subst; clear St.
    + constructor; go I.
    + unfold finish. destruct k; constructor; go I.
    + unfold finish. destruct k; constructor; go I.
  - (* ETake *)
    destruct (cs s t) eqn:C; try discriminate.
    destruct (slot s t) as [[u m]|] eqn:Sl; try discriminate.
    inversion St; subst; clear St.
    unfold finish.
    destruct (m_err m) eqn:E1; [|destruct (handler_ok w m) eqn:E2; [apply handler_ok_ty in E2|]];
      destruct k; constructor; go I.
  - (* ETimer *)
    unfold give_up in St. destruct (cs s t) eqn:C; try discriminate. inversion St; subst; clear St.
    unfold finish. destruct k; constructor; go I.
  - (* ECtx *)
    unfold give_up in St. destruct (cs s t) eqn:C; try discriminate. inversion St; subst; clear St.
    unfold finish. destruct k; constructor; go I.
  - (* EDisc *)
    destruct (disconnected s); try discriminate.
    unfold give_up in St. destruct (cs s t) eqn:C; try discriminate. inversion St; subst; clear St.
    unfold finish. destruct k; constructor; go I.
  - (* ENet *)
    destruct (d s) eqn:Dd; try discriminate. inversion St; subst; clear St.
    constructor; go I.
  - (* EEOF *)
    destruct (d s) eqn:Dd; try discriminate. inversion St; subst; clear St.
    constructor; go I.
  - (* EPop *)
    destruct (d s) eqn:Dd; try discriminate.
    dfacts I Dd.
    destruct (handlers s (m_id m)) eqn:Hh; inversion St; subst; clear St.
    + constructor; go I.
    + constructor; go I.
  - (* ELock *)
    destruct (d s) eqn:Dd; try discriminate. dfacts I Dd. inversion St; subst; clear St.
    constructor; go I.
  - (* EDeliver *)
    destruct (d s) eqn:Dd; try discriminate.
    dfacts I Dd.
    destruct (slot s ch) eqn:Sl; inversion St; subst; clear St.
    + constructor; go I.
    + constructor; go I.
  - (* EResume *)
    destruct (d s) eqn:Dd; try discriminate.
    destruct (rcv_locked s); inversion St; subst; clear St.
    constructor; go I.
  - (* EChunkC *) destruct (d s); try discriminate. inversion St; subst. exact I.
Qed.

Lemma runP_inv : forall P leaky evs s s', inv s -> runP P leaky evs s = Some s' -> inv s'.
Proof.
  induction evs as [|e r IH]; cbn; intros s s' I R.
  - inversion R; subst; exact I.
  - destruct (P s e); try discriminate. destruct (step leaky s e) eqn:E; try discriminate.
    eapply IH; [eapply step_inv; eassumption | exact R].
Qed.

Lemma reachableP_inv : forall P leaky seed s, reachableP P leaky seed s -> inv s.
Proof. intros P leaky seed s [evs R]. eapply runP_inv; [apply inv_init | exact R]. Qed.

(* restricted runs are runs *)
Lemma runP_run : forall P leaky evs s s', runP P leaky evs s = Some s' -> run leaky evs s = Some s'.
Proof.
  induction evs as [|e r IH]; cbn; intros s s' R; [exact R|].
  destruct (P s e); try discriminate. destruct (step leaky s e); try discriminate. apply IH; exact R.
Qed.

Lemma reachableP_reachable : forall P leaky seed s, reachableP P leaky seed s -> reachable leaky seed s.
Proof. intros P leaky seed s [evs R]. exists evs. eapply runP_run; exact R. Qed.

(* ------------------------------------------------------------------ C18 *)

(* a caller that returns success holds a response whose request id is its own, which carries no error, and whose
   type is the one its handler accepts *)
Lemma own_response : forall leaky seed s t k w id u m,
  reachable leaky seed s -> cs s t = CDone k w id (ROk u m) ->
  m_id m = id /\ m_err m = false /\ m_ty m = Some w.
Proof.
  intros leaky seed s t k w id u m R C. pose proof (reachableP_inv _ _ _ _ R) as I.
  split; [eapply (R2 _ I); [exact C|reflexivity] | eapply (R3 _ I); exact C].
Qed.

(* whatever a caller returns with (success, status error, handler error), the consumed message carries its own id *)
Lemma consumed_is_own : forall leaky seed s t k w id r u m,
  reachable leaky seed s -> cs s t = CDone k w id r -> res_msg r = Some (u, m) -> m_id m = id.
Proof. intros. eapply (R2 _ (reachableP_inv _ _ _ _ H)); eassumption. Qed.

(* no received message (identified by its arrival index) is consumed by two callers *)
Lemma consumed_once : forall leaky seed s t1 t2 k1 w1 id1 r1 k2 w2 id2 r2 u m1 m2,
  reachable leaky seed s ->
  cs s t1 = CDone k1 w1 id1 r1 -> res_msg r1 = Some (u, m1) ->
  cs s t2 = CDone k2 w2 id2 r2 -> res_msg r2 = Some (u, m2) -> t1 = t2.
Proof.
  intros leaky seed s t1 t2 k1 w1 id1 r1 k2 w2 id2 r2 u m1 m2 R C1 E1 C2 E2.
  pose proof (reachableP_inv _ _ _ _ R) as I.
  pose proof (R1 _ I _ _ _ _ _ _ _ C1 E1) as L1. pose proof (R1 _ I _ _ _ _ _ _ _ C2 E2) as L2. congruence.
Qed.

(* a consumed message is nowhere else: not in another caller's channel and not held by the dispatcher *)
Lemma consumed_not_pending : forall leaky seed s t k w id r u m t' m',
  reachable leaky seed s -> cs s t = CDone k w id r -> res_msg r = Some (u, m) ->
  slot s t' <> Some (u, m') /\ disp_msg (d s) <> Some (u, m').
Proof.
  intros leaky seed s t k w id r u m t' m' R C E. pose proof (reachableP_inv _ _ _ _ R) as I.
  pose proof (R1 _ I _ _ _ _ _ _ _ C E) as L. split; intro X.
  - pose proof (S3 _ I _ _ _ X). congruence.
  - pose proof (D1 _ I _ _ X). congruence.
Qed.

(* the channel of capacity one never overflows: the dispatcher's `default:` branch is dead code *)
Lemma never_overflows : forall leaky seed s, reachable leaky seed s -> overflow s = false.
Proof. intros. exact (O1 _ (reachableP_inv _ _ _ _ H)). Qed.

(* a response of another type is reported as an error, not as success (step-level fact) *)
Lemma wrong_type_is_error : forall leaky s t k w id u m s',
  cs s t = CWait k w id -> slot s t = Some (u, m) -> m_ty m <> Some w ->
  step leaky s (ETake t) = Some s' ->
  exists r, cs s' t = CDone k w id r /\ (r = RErrStatus u m \/ r = RErrHandler u m).
Proof.
  intros leaky s t k w id u m s' C Sl Ty St. cbn in St. rewrite C, Sl in St. inversion St; subst; clear St.
  assert (Hk : handler_ok w m = false).
  { destruct (handler_ok w m) eqn:E; [apply handler_ok_ty in E; contradiction|reflexivity]. }
  rewrite Hk. unfold finish.
  destruct (m_err m); destruct k; cbn; unfold updN; rewrite Nat.eqb_refl; eexists; split; try reflexivity; auto.
Qed.

(* ------------------------------------------------------------------ C19: the handler slot is released *)

Definition live (c : cpc) : bool := match c with CRegd _ _ _ | CWait _ _ _ => true | _ => false end.

Definition inv_nl (s : st) : Prop := forall k t, handlers s k = Some t -> live (cs s t) = true.

Ltac go2 I NL :=
  intros; cbn in *; unfold updN, updZ in *; split_eqb; cbn in *; try congruence; inj;
  repeat match goal with H : handlers _ ?k = Some ?t |- _ => learn (NL k t H) end;
  sat I; rw_cs; cbn in *; inj; try congruence; try discriminate; try tauto; eauto.

Lemma step_inv_nl : forall s e s', inv s -> inv_nl s -> step VNow s e = Some s' -> inv_nl s'.
Proof.
  intros s e s' I NL St. unfold inv_nl in *.
  destruct e; cbn in St.
  - destruct (cs s t) eqn:C; try discriminate. destruct (open_blocked s k); try discriminate. inversion St; subst; clear St. destruct k; go2 I NL.
  - destruct (cs s t) eqn:C; try discriminate.
    destruct (handlers s id) eqn:Hh; inversion St; subst; clear St.
    + unfold finish. destruct k; go2 I NL.
    + go2 I NL.
  - destruct (cs s t) eqn:C; try discriminate.
    destruct ok; inversion St; subst; clear St.
    + go2 I NL.
    + unfold finish. destruct k; go2 I NL.
  - destruct (cs s t) eqn:C; try discriminate.
    destruct (slot s t) as [[u m]|] eqn:Sl; try discriminate.
    inversion St; subst; clear St. unfold finish. destruct k; go2 I NL.
  - unfold give_up in St. destruct (cs s t) eqn:C; try discriminate. inversion St; subst; clear St.
    unfold finish. destruct k; go2 I NL.
  - unfold give_up in St. destruct (cs s t) eqn:C; try discriminate. inversion St; subst; clear St.
    unfold finish. destruct k; go2 I NL.
  - destruct (disconnected s); try discriminate.
    unfold give_up in St. destruct (cs s t) eqn:C; try discriminate. inversion St; subst; clear St.
    unfold finish. destruct k; go2 I NL.
  - destruct (d s) eqn:Dd; try discriminate. inversion St; subst; clear St. go2 I NL.
  - destruct (d s) eqn:Dd; try discriminate. inversion St; subst; clear St. go2 I NL.
  - destruct (d s) eqn:Dd; try discriminate.
    destruct (handlers s (m_id m)) eqn:Hh; inversion St; subst; clear St; go2 I NL.
  - destruct (d s) eqn:Dd; try discriminate. inversion St; subst; clear St. go2 I NL.
  - destruct (d s) eqn:Dd; try discriminate.
    destruct (slot s ch) eqn:Sl; inversion St; subst; clear St; go2 I NL.
  - destruct (d s) eqn:Dd; try discriminate.
    destruct (rcv_locked s); inversion St; subst; clear St. go2 I NL.
  - destruct (d s); try discriminate. inversion St; subst. exact NL.
Qed.

Lemma runP_inv_nl : forall P evs s s', inv s -> inv_nl s -> runP P VNow evs s = Some s' -> inv_nl s'.
Proof.
  induction evs as [|e r IH]; cbn; intros s s' I NL R.
  - inversion R; subst; exact NL.
  - destruct (P s e); try discriminate. destruct (step VNow s e) eqn:E; try discriminate.
    eapply IH; [eapply step_inv; eassumption | eapply step_inv_nl; eassumption | exact R].
Qed.

Lemma reachableP_inv_nl : forall P seed s, reachableP P VNow seed s -> inv_nl s.
Proof.
  intros P seed s [evs R]. eapply runP_inv_nl; [apply inv_init | | exact R].
  intros k t H. cbn in H. discriminate.
Qed.

(* after a call has returned, whatever the way, no handler of it is left in the table *)
Lemma slot_released : forall seed s t k w id r,
  reachable VNow seed s -> cs s t = CDone k w id r -> forall i, handlers s i <> Some t.
Proof.
  intros seed s t k w id r R C i X. pose proof (reachableP_inv_nl _ _ _ R i t X) as L. rewrite C in L. discriminate.
Qed.

(* the select can always be left through the timer (or ctx) branch, without anybody's cooperation *)
Lemma timer_enabled : forall leaky s t k w id,
  cs s t = CWait k w id ->
  exists s', step leaky s (ETimer t) = Some s' /\ cs s' t = CDone k w id RTimeout /\ handlers s' id = None.
Proof.
  intros leaky s t k w id C. cbn. unfold give_up. rewrite C. eexists. split; [reflexivity|].
  unfold finish. destruct k; cbn; unfold updN, updZ; rewrite Nat.eqb_refl, Z.eqb_refl; split; reflexivity.
Qed.

Lemma ctx_enabled : forall leaky s t k w id,
  cs s t = CWait k w id ->
  exists s', step leaky s (ECtx t) = Some s' /\ cs s' t = CDone k w id RCtx /\ handlers s' id = None.
Proof.
  intros leaky s t k w id C. cbn. unfold give_up. rewrite C. eexists. split; [reflexivity|].
  unfold finish. destruct k; cbn; unfold updN, updZ; rewrite Nat.eqb_refl, Z.eqb_refl; split; reflexivity.
Qed.

(* a timed-out call does not disturb later ones: from any reachable state with an idle dispatcher, a response for a
   registered waiting caller is delivered to exactly that caller *)
Lemma delivery_from_idle : forall leaky seed s t w id m,
  reachable leaky seed s -> d s = DIdle -> cs s t = CWait KReq w id -> handlers s id = Some t -> m_id m = id ->
  exists s', run leaky [ENet m; EPop; ELock; EDeliver; ETake t] s = Some s' /\
             exists r, cs s' t = CDone KReq w id r /\ res_msg r = Some (net_n s, m).
Proof.
  intros leaky seed s t w id m R Dd C Hh Mid. pose proof (reachableP_inv _ _ _ _ R) as I.
  pose proof (H3 _ I _ _ Hh) as Sl.
  unfold run. cbn. rewrite Dd. cbn. rewrite Mid, Hh. cbn. rewrite Sl. cbn.
  rewrite C. unfold updN at 1. rewrite Nat.eqb_refl.
  eexists. split; [reflexivity|]. unfold finish. cbn. unfold updN at 1. rewrite Nat.eqb_refl.
  destruct (m_err m); [|destruct (handler_ok w m)]; eexists; split; reflexivity.
Qed.

(* the dispatcher can always take its next step, except at the receive gate while it is locked *)
Lemma dispatcher_progress : forall leaky s,
  d s <> DExited -> (d s = DWaitRcv /\ rcv_locked s = true) \/
  exists e s', step leaky s e = Some s' /\ match e with ENet _ | EEOF | EPop | ELock | EDeliver | EResume => True | _ => False end.
Proof.
  intros leaky s NE. destruct (d s) eqn:Dd; try congruence.
  - right. exists EEOF. cbn. rewrite Dd. eauto.
  - right. exists EPop. cbn. rewrite Dd. destruct (handlers s (m_id m)); eauto.
  - right. exists ELock. cbn. rewrite Dd. eauto.
  - right. exists EDeliver. cbn. rewrite Dd. destruct (slot s ch); eauto.
  - destruct (rcv_locked s) eqn:L; [left; auto|]. right. exists EResume. cbn. rewrite Dd, L. eauto.
Qed.

(* ------------------------------------------------------------------ C19: the receive gate (code as it is now) *)

Record inv_gate (s : st) : Prop := {
  B1 : forall t, open_by s = Some t -> active_opener (cs s t) = true;
  B2 : forall t, active_opener (cs s t) = true -> open_by s = Some t;
  B3 : open_by s = None -> opening s = None;
  B4 : rcv_locked s = true -> open_by s <> None }.

Lemma inv_gate_init : forall seed, inv_gate (init seed).
Proof. intro. constructor; cbn; intros; try discriminate; reflexivity. Qed.

Ltac go4 G :=
  intros; cbn in *; unfold updN, updZ in *; split_eqb; cbn in *; try congruence; inj;
  repeat match goal with
  | H : open_by _ = Some ?t |- _ => learn (B1 _ G t H)
  | H : active_opener (cs _ ?t) = true |- _ => learn (B2 _ G t H)
  end;
  rw_cs; cbn in *; inj; try congruence; try discriminate; try tauto; eauto.

(* a caller of kind KReq changing its pc, or any dispatcher step that does not lock: nothing changes for the gate *)
Ltac opener_fact G C :=
  try (match type of C with cs ?s ?t = _ =>
         let Y := fresh "Y" in
         assert (Y : active_opener (cs s t) = true) by (rewrite C; reflexivity); pose proof (B2 _ G _ Y) end).

Lemma step_inv_gate : forall s e s', inv_gate s -> step VNow s e = Some s' -> inv_gate s'.
Proof.
  intros s e s' G St.
  destruct e; cbn in St.
  - (* EAlloc *)
    destruct (cs s t) eqn:C; try discriminate. destruct (open_blocked s k) eqn:OB; try discriminate.
    inversion St; subst; clear St. destruct k; cbn in OB.
    + constructor; try solve [go4 G]. exact (B3 _ G). exact (B4 _ G).
    + destruct (open_by s) eqn:OBy; try discriminate.
      constructor; cbn; unfold updN.
      * intros tq H. inversion H; subst. rewrite Nat.eqb_refl. reflexivity.
      * intros tq H. destruct (Nat.eqb_spec tq t); [subst; reflexivity|]. pose proof (B2 _ G _ H). congruence.
      * discriminate.
      * intros _. discriminate.
  - (* ERegister *)
    destruct (cs s t) eqn:C; try discriminate.
    destruct (handlers s id) eqn:Hh; inversion St; subst; clear St.
    + unfold finish. destruct k; constructor; try solve [go4 G]; cbn; try discriminate; try reflexivity.
      * exact (B3 _ G).
      * exact (B4 _ G).
      * unfold updN. intros tq H. destruct (Nat.eqb_spec tq t); [discriminate|].
        pose proof (B2 _ G _ H) as X. assert (Y : active_opener (cs s t) = true) by (rewrite C; reflexivity).
        pose proof (B2 _ G _ Y). congruence.
    + destruct k; opener_fact G C; constructor; try solve [go4 G]; try exact (B3 _ G); try exact (B4 _ G).
  - (* EWrite *)
    destruct (cs s t) eqn:C; try discriminate.
    destruct ok; cbn in St; inversion St; subst; clear St.
    + destruct k; opener_fact G C; constructor; try solve [go4 G]; try exact (B3 _ G); try exact (B4 _ G).
    + unfold finish. destruct k; constructor; try solve [go4 G]; cbn; try discriminate; try reflexivity.
      * exact (B3 _ G).
      * exact (B4 _ G).
      * unfold updN. intros tq H. destruct (Nat.eqb_spec tq t); [discriminate|].
        pose proof (B2 _ G _ H) as X. assert (Y : active_opener (cs s t) = true) by (rewrite C; reflexivity).
        pose proof (B2 _ G _ Y). congruence.
  - (* ETake *)
    destruct (cs s t) eqn:C; try discriminate.
    destruct (slot s t) as [[u m]|] eqn:Sl; try discriminate.
    inversion St; subst; clear St. unfold finish.
    destruct k; constructor; try solve [go4 G]; cbn; try discriminate; try reflexivity.
    + exact (B3 _ G).
    + exact (B4 _ G).
    + unfold updN. intros tq H. destruct (Nat.eqb_spec tq t); [discriminate|].
      pose proof (B2 _ G _ H) as X. assert (Y : active_opener (cs s t) = true) by (rewrite C; reflexivity).
      pose proof (B2 _ G _ Y). congruence.
  - unfold give_up in St. destruct (cs s t) eqn:C; try discriminate. inversion St; subst; clear St.
    unfold finish. destruct k; constructor; try solve [go4 G]; cbn; try discriminate; try reflexivity.
    + exact (B3 _ G).
    + exact (B4 _ G).
    + unfold updN. intros tq H. destruct (Nat.eqb_spec tq t); [discriminate|].
      pose proof (B2 _ G _ H) as X. assert (Y : active_opener (cs s t) = true) by (rewrite C; reflexivity).
      pose proof (B2 _ G _ Y). congruence.
  - unfold give_up in St. destruct (cs s t) eqn:C; try discriminate. inversion St; subst; clear St.
    unfold finish. destruct k; constructor; try solve [go4 G]; cbn; try discriminate; try reflexivity.
    + exact (B3 _ G).
    + exact (B4 _ G).
    + unfold updN. intros tq H. destruct (Nat.eqb_spec tq t); [discriminate|].
      pose proof (B2 _ G _ H) as X. assert (Y : active_opener (cs s t) = true) by (rewrite C; reflexivity).
      pose proof (B2 _ G _ Y). congruence.
  - destruct (disconnected s); try discriminate.
    unfold give_up in St. destruct (cs s t) eqn:C; try discriminate. inversion St; subst; clear St.
    unfold finish. destruct k; constructor; try solve [go4 G]; cbn; try discriminate; try reflexivity.
    + exact (B3 _ G).
    + exact (B4 _ G).
    + unfold updN. intros tq H. destruct (Nat.eqb_spec tq t); [discriminate|].
      pose proof (B2 _ G _ H) as X. assert (Y : active_opener (cs s t) = true) by (rewrite C; reflexivity).
      pose proof (B2 _ G _ Y). congruence.
  - destruct (d s) eqn:Dd; try discriminate. inversion St; subst; clear St.
    constructor; cbn; [exact (B1 _ G)|exact (B2 _ G)|exact (B3 _ G)|exact (B4 _ G)].
  - destruct (d s) eqn:Dd; try discriminate. inversion St; subst; clear St.
    constructor; cbn; [exact (B1 _ G)|exact (B2 _ G)|exact (B3 _ G)|exact (B4 _ G)].
  - destruct (d s) eqn:Dd; try discriminate.
    destruct (handlers s (m_id m)); inversion St; subst; clear St;
      (constructor; cbn; [exact (B1 _ G)|exact (B2 _ G)|exact (B3 _ G)|exact (B4 _ G)]).
  - (* ELock: the only step that locks, and only for the id open() has published *)
    destruct (d s) eqn:Dd; try discriminate. inversion St; subst; clear St.
    constructor; cbn; [exact (B1 _ G)|exact (B2 _ G)|exact (B3 _ G)|].
    intro L. apply orb_true_iff in L. destruct L as [L|L]; [exact (B4 _ G L)|].
    apply andb_true_iff in L. destruct L as [_ L]. cbn in L.
    destruct (opening s) eqn:Op; [|discriminate]. intro X. rewrite (B3 _ G X) in Op. discriminate.
  - destruct (d s) eqn:Dd; try discriminate.
    destruct (slot s ch); inversion St; subst; clear St;
      (constructor; cbn; [exact (B1 _ G)|exact (B2 _ G)|exact (B3 _ G)|exact (B4 _ G)]).
  - destruct (d s) eqn:Dd; try discriminate.
    destruct (rcv_locked s) eqn:L; inversion St; subst; clear St.
    constructor; cbn; [exact (B1 _ G)|exact (B2 _ G)|exact (B3 _ G)|]. rewrite L. discriminate.
  - destruct (d s); try discriminate. inversion St; subst. exact G.
Qed.

Lemma reachable_inv_gate : forall P seed s, reachableP P VNow seed s -> inv_gate s.
Proof.
  intros P seed s [evs R]. revert R. generalize (inv_gate_init seed). generalize (init seed).
  induction evs as [|e r IH]; cbn; intros s0 G R.
  - inversion R; subst; exact G.
  - destruct (P s0 e); try discriminate. destruct (step VNow s0 e) eqn:E; try discriminate.
    eapply IH; [eapply step_inv_gate; eassumption|exact R].
Qed.

(* FULL: in every reachable state (every interleaving, every peer) the receive gate is only locked while an open()
   call is in progress; that call unlocks it when it returns, and it can always return (timer_enabled) *)
Lemma gate_locked_only_while_opening : forall seed s,
  reachable VNow seed s -> rcv_locked s = true -> exists t, open_by s = Some t /\ active_opener (cs s t) = true.
Proof.
  intros seed s R L. pose proof (reachable_inv_gate _ _ _ R) as G.
  destruct (open_by s) as [t|] eqn:O; [|exfalso; exact (B4 _ G L O)].
  exists t. split; [reflexivity|exact (B1 _ G _ O)].
Qed.

(* hence: with no open() in flight the dispatcher is never stopped at the gate *)
Lemma gate_open_when_not_opening : forall seed s,
  reachable VNow seed s -> (forall t, active_opener (cs s t) = false) -> rcv_locked s = false.
Proof.
  intros seed s R N. destruct (rcv_locked s) eqn:L; [|reflexivity].
  destruct (gate_locked_only_while_opening _ _ R L) as (t & _ & A). rewrite N in A. discriminate.
Qed.

(* ------------------------------------------------------------------ request ids: closed form, distinctness *)

Definition M32 : Z := 4294967295.

Definition idseq (seed : Z) (n : nat) : Z := Nat.iter n go_nextRequestID seed.

Lemma next_id_range : forall x, 0 <= x <= M32 -> 1 <= go_nextRequestID x <= M32.
Proof.
  intros x Hx. unfold go_nextRequestID, M32 in *.
  destruct (Z.eqb_spec ((x + 1) mod 4294967296) 0) as [E|E]; cbn zeta; [lia|].
  pose proof (Z.mod_pos_bound (x + 1) 4294967296 ltac:(lia)). split; [lia|].
  destruct (Z.eq_dec x 4294967295) as [->|NE]; [exfalso; apply E; reflexivity|].
  rewrite Z.mod_small by lia. lia.
Qed.

Lemma next_id_closed : forall x, 0 <= x <= M32 -> go_nextRequestID x = x mod M32 + 1.
Proof.
  intros x Hx. unfold go_nextRequestID, M32 in *.
  destruct (Z.eq_dec x 4294967295) as [->|NE]; [reflexivity|].
  rewrite (Z.mod_small (x + 1)) by lia. rewrite (Z.mod_small x) by lia.
  destruct (Z.eqb_spec (x + 1) 0); cbn zeta; lia.
Qed.

Lemma idseq_closed : forall seed n, 0 <= seed <= M32 -> (1 <= n)%nat ->
  idseq seed n = (seed + Z.of_nat n - 1) mod M32 + 1.
Proof.
  intros seed n Hs Hn. induction n as [|n IH]; [lia|].
  destruct n as [|n].
  - cbn. rewrite next_id_closed by exact Hs. f_equal. f_equal. lia.
  - assert (E : idseq seed (S (S n)) = go_nextRequestID (idseq seed (S n))) by reflexivity.
    rewrite E, IH by lia. clear E IH.
    assert (B : 0 <= (seed + Z.of_nat (S n) - 1) mod M32 < M32) by (apply Z.mod_pos_bound; unfold M32; lia).
    rewrite next_id_closed by lia.
    f_equal. unfold M32 in *.
    replace (seed + Z.of_nat (S (S n)) - 1) with ((seed + Z.of_nat (S n) - 1) + 1) by lia.
    set (a := seed + Z.of_nat (S n) - 1) in *.
    rewrite <- (Z.add_mod_idemp_l a 1) by lia. reflexivity.
Qed.

Lemma idseq_distinct : forall seed n1 n2, 0 <= seed <= M32 ->
  (1 <= n1)%nat -> (n1 < n2)%nat -> Z.of_nat n2 - Z.of_nat n1 < M32 -> idseq seed n1 <> idseq seed n2.
Proof.
  intros seed n1 n2 Hs H1 H2 H3 E.
  rewrite !idseq_closed in E by (try exact Hs; lia).
  unfold M32 in *.
  set (a := seed + Z.of_nat n1 - 1) in *. set (b := seed + Z.of_nat n2 - 1) in *.
  assert (Hab : 0 < b - a < 4294967295) by (unfold a, b; lia).
  pose proof (Z.div_mod a 4294967295 ltac:(lia)). pose proof (Z.div_mod b 4294967295 ltac:(lia)).
  assert (Em : a mod 4294967295 = b mod 4294967295) by lia.
  assert (b - a = 4294967295 * (b / 4294967295 - a / 4294967295)) by lia.
  lia.
Qed.

(* ------------------------------------------------------------------ allocation bookkeeping (ghost) *)

Lemma step_frame : forall leaky s e s', step leaky s e = Some s' ->
  match e with
  | EAlloc _ _ _ => True
  | _ => (forall t, id_of (cs s' t) = id_of (cs s t)) /\ g_serial s' = g_serial s /\ g_nalloc s' = g_nalloc s /\ next_req s' = next_req s
  end.
Proof.
  intros leaky s e s' St. destruct e; cbn in St; auto.
  - destruct (cs s t) eqn:C; try discriminate. destruct (handlers s id); inversion St; subst; clear St;
      unfold finish; try destruct k; cbn; repeat split; intros; unfold updN; split_eqb; try rewrite C; reflexivity.
  - destruct (cs s t) eqn:C; try discriminate. destruct ok; [|destruct (is_leaky leaky)]; inversion St; subst; clear St;
      unfold finish; try destruct k; cbn; repeat split; intros; unfold updN; split_eqb; try rewrite C; reflexivity.
  - destruct (cs s t) eqn:C; try discriminate. destruct (slot s t) as [[u m]|]; try discriminate.
    inversion St; subst; clear St.
    unfold finish; destruct k; cbn; repeat split; intros; unfold updN; split_eqb; try rewrite C; reflexivity.
  - unfold give_up in St. destruct (cs s t) eqn:C; try discriminate. inversion St; subst; clear St.
    unfold finish; destruct k; cbn; repeat split; intros; unfold updN; split_eqb; try rewrite C; reflexivity.
  - unfold give_up in St. destruct (cs s t) eqn:C; try discriminate. inversion St; subst; clear St.
    unfold finish; destruct k; cbn; repeat split; intros; unfold updN; split_eqb; try rewrite C; reflexivity.
  - destruct (disconnected s); try discriminate.
    unfold give_up in St. destruct (cs s t) eqn:C; try discriminate. inversion St; subst; clear St.
    unfold finish; destruct k; cbn; repeat split; intros; unfold updN; split_eqb; try rewrite C; reflexivity.
  - destruct (d s); try discriminate. inversion St; subst; cbn; auto.
  - destruct (d s); try discriminate. inversion St; subst; cbn; auto.
  - destruct (d s); try discriminate. destruct (handlers s (m_id m)); inversion St; subst; cbn; auto.
  - destruct (d s); try discriminate. inversion St; subst; cbn; auto.
  - destruct (d s); try discriminate. destruct (slot s ch); inversion St; subst; cbn; auto.
  - destruct (d s); try discriminate. destruct (rcv_locked s); inversion St; subst; cbn; auto.
  - destruct (d s); try discriminate. inversion St; subst; auto.
Qed.

Lemma step_id_stable : forall leaky s e s' t i, step leaky s e = Some s' -> id_of (cs s t) = Some i -> id_of (cs s' t) = Some i.
Proof.
  intros leaky s e s' t i St H. pose proof (step_frame _ _ _ _ St) as F. destruct e;
    try (destruct F as (F & _); rewrite F; exact H).
  cbn in St. destruct (cs s t0) eqn:C; try discriminate. destruct (open_blocked s k); try discriminate. inversion St; subst; clear St. destruct k; cbn; unfold updN;
  (destruct (Nat.eqb_spec t t0); [subst; rewrite C in H; discriminate|exact H]).
Qed.

Record inv_ids (seed : Z) (s : st) : Prop := {
  G1 : forall t i, id_of (cs s t) = Some i -> i = idseq seed (g_serial s t);
  G2 : forall t i, id_of (cs s t) = Some i -> (1 <= g_serial s t <= g_nalloc s)%nat;
  G3 : next_req s = idseq seed (g_nalloc s);
  G4 : forall t1 t2 i1 i2, id_of (cs s t1) = Some i1 -> id_of (cs s t2) = Some i2 -> g_serial s t1 = g_serial s t2 -> t1 = t2 }.

Lemma inv_ids_init : forall seed, inv_ids seed (init seed).
Proof. intro. constructor; cbn; intros; try discriminate; reflexivity. Qed.

Lemma frame_inv_ids : forall seed s s',
  (forall t, id_of (cs s' t) = id_of (cs s t)) -> g_serial s' = g_serial s -> g_nalloc s' = g_nalloc s ->
  next_req s' = next_req s -> inv_ids seed s -> inv_ids seed s'.
Proof.
  intros seed s s' F1 F2 F3 F4 G. constructor.
  - intros t i H. rewrite F1 in H. rewrite F2. eapply (G1 _ _ G); eassumption.
  - intros t i H. rewrite F1 in H. rewrite F2, F3. eapply (G2 _ _ G); eassumption.
  - rewrite F3, F4. exact (G3 _ _ G).
  - intros t1 t2 i1 i2 A B C. rewrite F1 in A, B. rewrite F2 in C. eapply (G4 _ _ G); eassumption.
Qed.

Lemma step_inv_ids : forall seed leaky s e s', inv_ids seed s -> step leaky s e = Some s' -> inv_ids seed s'.
Proof.
  intros seed leaky s e s' G St. pose proof (step_frame _ _ _ _ St) as F.
  destruct e; try (destruct F as (F1 & F2 & F3 & F4); eapply frame_inv_ids; eassumption).
  cbn in St. destruct (cs s t) eqn:C; try discriminate. destruct (open_blocked s k); try discriminate. inversion St; subst; clear St.
  destruct k; (constructor; cbn; unfold updN;
    [ intros t0 i H; destruct (Nat.eqb_spec t0 t); [subst; cbn in H; inversion H; subst; cbn; rewrite (G3 _ _ G); reflexivity | eapply (G1 _ _ G); eassumption]
    | intros t0 i H; destruct (Nat.eqb_spec t0 t); [lia | pose proof (G2 _ _ G _ _ H); lia]
    | cbn; rewrite (G3 _ _ G); reflexivity
    | intros t1 t2 i1 i2 H H0 H1; destruct (Nat.eqb_spec t1 t), (Nat.eqb_spec t2 t); subst; try reflexivity;
      [ pose proof (G2 _ _ G _ _ H0); lia | pose proof (G2 _ _ G _ _ H); lia | eapply (G4 _ _ G); eassumption ] ]).
Qed.

Lemma reachableP_inv_ids : forall P leaky seed s, reachableP P leaky seed s -> inv_ids seed s.
Proof.
  intros P leaky seed s [evs R]. revert R. generalize (inv_ids_init seed). generalize (init seed).
  induction evs as [|e r IH]; cbn; intros s0 G R.
  - inversion R; subst; exact G.
  - destruct (P s0 e); try discriminate. destruct (step leaky s0 e) eqn:E; try discriminate.
    eapply IH; [eapply step_inv_ids; eassumption | exact R].
Qed.

(* as long as fewer than 2^32 - 1 request ids have been handed out, no two calls share a request id *)
Lemma ids_distinct : forall leaky seed s t1 t2 i,
  reachable leaky seed s -> 0 <= seed <= M32 -> Z.of_nat (g_nalloc s) <= M32 ->
  id_of (cs s t1) = Some i -> id_of (cs s t2) = Some i -> t1 = t2.
Proof.
  intros leaky seed s t1 t2 i R Hs Hn A B. pose proof (reachableP_inv_ids _ _ _ _ R) as G.
  pose proof (G1 _ _ G _ _ A) as E1. pose proof (G1 _ _ G _ _ B) as E2.
  pose proof (G2 _ _ G _ _ A) as R1. pose proof (G2 _ _ G _ _ B) as R2.
  destruct (Nat.lt_trichotomy (g_serial s t1) (g_serial s t2)) as [L|[L|L]].
  - exfalso. eapply (idseq_distinct seed (g_serial s t1) (g_serial s t2)); try eassumption; try lia; try congruence.
  - eapply (G4 _ _ G); eassumption.
  - exfalso. eapply (idseq_distinct seed (g_serial s t2) (g_serial s t1)); try eassumption; try lia; try congruence.
Qed.

(* ------------------------------------------------------------------ an honest peer: responses answer the request they name *)

(* the peer only claims to answer (m_for = Some t) a request that exists and uses that request's id *)
Definition honest (s : st) (e : ev) : bool :=
  match e with
  | ENet m => match m_for m with
              | Some t => match id_of (cs s t) with Some i => m_id m =? i | None => false end
              | None => true
              end
  | _ => true
  end.

Definition holds (s : st) (m : msg) : Prop :=
  (exists u, disp_msg (d s) = Some (u, m)) \/ (exists t u, slot s t = Some (u, m)) \/
  (exists t k w id r u, cs s t = CDone k w id r /\ res_msg r = Some (u, m)).

Lemma step_holds : forall leaky s e s' m, step leaky s e = Some s' -> holds s' m -> holds s m \/ e = ENet m.
Proof.
  intros leaky s e s' m St Hm. unfold holds in *.
  destruct e; cbn in St.
  - destruct (cs s t) eqn:C; try discriminate. destruct (open_blocked s k); try discriminate. inversion St; subst; clear St. left.
    destruct k; cbn in *;
    (destruct Hm as [X|[X|(tt&kk&ww&ii&rr&uu&X&Y)]]; auto;
     unfold updN in X; destruct (Nat.eqb_spec tt t); [discriminate|]; right; right; eauto 10).
  - destruct (cs s t) eqn:C; try discriminate.
    destruct (handlers s id); inversion St; subst; clear St; unfold finish in *; try destruct k; cbn in *; left;
      (destruct Hm as [X|[X|(tt&kk&ww&ii&rr&uu&X&Y)]]; auto;
       unfold updN in X; destruct (Nat.eqb_spec tt t); [inversion X; subst; discriminate|]; right; right; eauto 10).
  - destruct (cs s t) eqn:C; try discriminate.
    destruct ok; [|destruct (is_leaky leaky)]; inversion St; subst; clear St; unfold finish in *; try destruct k; cbn in *; left;
      (destruct Hm as [X|[X|(tt&kk&ww&ii&rr&uu&X&Y)]]; auto;
       unfold updN in X; destruct (Nat.eqb_spec tt t); [inversion X; subst; discriminate|]; right; right; eauto 10).
  - destruct (cs s t) as [| | |k w id|] eqn:C; try discriminate. destruct (slot s t) as [[u mm]|] eqn:Sl; try discriminate.
    inversion St; subst; clear St. left.
    unfold finish in *; destruct k; cbn in *;
      (destruct Hm as [X|[(tt&uu&X)|(tt&kk&ww&ii&rr&uu&X&Y)]]; auto;
       [unfold updN in X; destruct (Nat.eqb_spec tt t); [discriminate|]; right; left; eauto
       |unfold updN in X; destruct (Nat.eqb_spec tt t);
          [inversion X; subst; right; left; exists t, u;
           destruct (m_err mm); [|destruct (handler_ok ww mm)]; cbn in Y; inversion Y; subst; exact Sl
          |right; right; eauto 10]]).
  - unfold give_up in St. destruct (cs s t) eqn:C; try discriminate. inversion St; subst; clear St. left.
    unfold finish in *; destruct k; cbn in *;
      (destruct Hm as [X|[X|(tt&kk&ww&ii&rr&uu&X&Y)]]; auto;
       unfold updN in X; destruct (Nat.eqb_spec tt t); [inversion X; subst; discriminate|]; right; right; eauto 10).
  - unfold give_up in St. destruct (cs s t) eqn:C; try discriminate. inversion St; subst; clear St. left.
    unfold finish in *; destruct k; cbn in *;
      (destruct Hm as [X|[X|(tt&kk&ww&ii&rr&uu&X&Y)]]; auto;
       unfold updN in X; destruct (Nat.eqb_spec tt t); [inversion X; subst; discriminate|]; right; right; eauto 10).
  - destruct (disconnected s); try discriminate.
    unfold give_up in St. destruct (cs s t) eqn:C; try discriminate. inversion St; subst; clear St. left.
    unfold finish in *; destruct k; cbn in *;
      (destruct Hm as [X|[X|(tt&kk&ww&ii&rr&uu&X&Y)]]; auto;
       unfold updN in X; destruct (Nat.eqb_spec tt t); [inversion X; subst; discriminate|]; right; right; eauto 10).
  - destruct (d s) eqn:Dd; try discriminate. inversion St; subst; clear St. cbn in *.
    destruct Hm as [(u&X)|[X|X]]; [inversion X; subst; right; reflexivity | left; auto | left; auto].
  - destruct (d s) eqn:Dd; try discriminate. inversion St; subst; clear St. cbn in *. left.
    destruct Hm as [(u&X)|[X|X]]; [discriminate | auto | auto].
  - destruct (d s) eqn:Dd; try discriminate. left.
    destruct (handlers s (m_id m0)); inversion St; subst; clear St; cbn in *; rewrite ?Dd; cbn;
      (destruct Hm as [(uu&X)|[X|X]]; [try discriminate; inversion X; subst; left; eauto | auto | auto]).
  - destruct (d s) eqn:Dd; try discriminate. inversion St; subst; clear St. cbn in *. left. rewrite ?Dd; cbn.
    destruct Hm as [(uu&X)|[X|X]]; [inversion X; subst; left; eauto | auto | auto].
  - destruct (d s) eqn:Dd; try discriminate. left.
    destruct (slot s ch) eqn:Sl; inversion St; subst; clear St; cbn in *; rewrite ?Dd; cbn.
    + destruct Hm as [(uu&X)|[X|X]]; [discriminate | auto | auto].
    + destruct Hm as [(uu&X)|[(tt&uu&X)|X]]; [discriminate | | auto].
      unfold updN in X. destruct (Nat.eqb_spec tt ch); [inversion X; subst; left; eauto | right; left; eauto].
  - destruct (d s) eqn:Dd; try discriminate. destruct (rcv_locked s); inversion St; subst; clear St. cbn in *. left.
    destruct Hm as [(uu&X)|[X|X]]; [discriminate | auto | auto].
  - destruct (d s) eqn:Dd; try discriminate. inversion St; subst. left. rewrite Dd in Hm. exact Hm.
Qed.

Definition inv_honest (s : st) : Prop :=
  forall m t, holds s m -> m_for m = Some t -> id_of (cs s t) = Some (m_id m).

Lemma reachableP_inv_honest : forall leaky seed s, reachableP honest leaky seed s -> inv_honest s.
Proof.
  intros leaky seed s [evs R]. revert R.
  assert (I0 : inv_honest (init seed)).
  { intros m t [(u&X)|[(t0&u&X)|(t0&k&w&id&r&u&X&_)]]; cbn in X; discriminate. }
  revert I0. generalize (init seed).
  induction evs as [|e r IH]; cbn; intros s0 I0 R.
  - inversion R; subst; exact I0.
  - destruct (honest s0 e) eqn:Ho; try discriminate. destruct (step leaky s0 e) eqn:E; try discriminate.
    eapply IH; [|exact R].
    intros m t Hm Hf. destruct (step_holds _ _ _ _ _ E Hm) as [Old| ->].
    + eapply step_id_stable; [exact E|]. apply I0; assumption.
    + cbn in Ho. rewrite Hf in Ho. destruct (id_of (cs s0 t)) eqn:Id; try discriminate.
      apply Z.eqb_eq in Ho. eapply step_id_stable; [exact E|]. congruence.
Qed.

(* with an honest peer and before the request id counter has gone round, a successful call holds the response
   that answers ITS request *)
Lemma own_answer : forall leaky seed s t k w id u m t',
  reachableP honest leaky seed s -> 0 <= seed <= M32 -> Z.of_nat (g_nalloc s) <= M32 ->
  cs s t = CDone k w id (ROk u m) -> m_for m = Some t' -> t' = t.
Proof.
  intros leaky seed s t k w id u m t' R Hs Hn C Hf.
  pose proof (reachableP_reachable _ _ _ _ R) as R'.
  pose proof (reachableP_inv_honest _ _ _ R) as Hon.
  assert (Hm : holds s m) by (right; right; exists t, k, w, id, (ROk u m), u; split; [exact C|reflexivity]).
  pose proof (Hon _ _ Hm Hf) as Id'.
  destruct (own_response _ _ _ _ _ _ _ _ _ R' C) as (Mid & _).
  eapply ids_distinct; try eassumption. rewrite C. cbn. congruence.
Qed.

(* the request id counter only ever advances: no step hands an id back *)
Lemma step_next_req : forall leaky s e s', step leaky s e = Some s' ->
  next_req s' = next_req s \/ next_req s' = go_nextRequestID (next_req s).
Proof.
  intros leaky s e s' St. pose proof (step_frame _ _ _ _ St) as F.
  destruct e; try (destruct F as (_ & _ & _ & F); left; exact F).
  cbn in St. destruct (cs s t); try discriminate. destruct (open_blocked s k); try discriminate.
  inversion St; subst. right. destruct k; reflexivity.
Qed.

(* runs compose *)
Lemma run_app : forall leaky a b s s1 s2, run leaky a s = Some s1 -> run leaky b s1 = Some s2 -> run leaky (a ++ b) s = Some s2.
Proof.
  unfold run. induction a as [|e a IH]; cbn; intros b s s1 s2 A B.
  - inversion A; subst; exact B.
  - destruct (step leaky s e) eqn:E; try discriminate. eapply IH; eassumption.
Qed.

Lemma reachable_run : forall leaky seed s evs s', reachable leaky seed s -> run leaky evs s = Some s' -> reachable leaky seed s'.
Proof. intros leaky seed s evs s' [e0 R0] R. exists (e0 ++ evs). eapply (run_app leaky); eassumption. Qed.

(* a late response to an abandoned request (nobody registered under its id any more) that arrives in several chunks
   is read and dropped without holding the dispatcher up: the response to a waiting caller sent after it is delivered *)
Lemma delivery_after_late_multichunk : forall leaky seed s t w id m late,
  reachable leaky seed s -> d s = DIdle -> cs s t = CWait KReq w id -> handlers s id = Some t -> m_id m = id ->
  handlers s (m_id late) = None ->
  exists s', run leaky ([EChunkC (m_id late); EChunkC (m_id late); ENet late; EPop] ++ [ENet m; EPop; ELock; EDeliver; ETake t]) s = Some s' /\
             exists r, cs s' t = CDone KReq w id r /\ res_msg r = Some (S (net_n s), m).
Proof.
  intros leaky seed s t w id m late R Dd C Hh Mid Hl.
  assert (P : exists s1, run leaky [EChunkC (m_id late); EChunkC (m_id late); ENet late; EPop] s = Some s1 /\
              d s1 = DIdle /\ cs s1 = cs s /\ handlers s1 = handlers s /\ net_n s1 = S (net_n s)).
  { unfold run. cbn. repeat (rewrite Dd; cbn). rewrite Hl. cbn. eexists. split; [reflexivity|]. cbn. auto. }
  destruct P as (s1 & R1 & D1 & C1 & H1' & N1).
  assert (Rs1 : reachable leaky seed s1) by (eapply reachable_run; eassumption).
  destruct (delivery_from_idle leaky seed s1 t w id m Rs1 D1 ltac:(rewrite C1; exact C) ltac:(rewrite H1'; exact Hh) Mid) as (s' & R2 & r & Cr & Er).
  exists s'. split; [eapply (run_app leaky); eassumption|]. exists r. split; [exact Cr|]. rewrite Er, N1. reflexivity.
Qed.
