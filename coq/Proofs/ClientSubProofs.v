(* Engine E7, C27: with non-blocking signals no thread of the subscription machinery can block forever:
   in every reachable state every unfinished API/monitor call can step, or waits for subMux whose holder can step;
   the publish loop is never stuck on the lock or on its own pause signal. Any program, any script, any schedule. *)
From Coq Require Import List Bool Arith Lia.
From Opcua Require Import Model.ClientSub.
Import ListNotations.

Definition nonblocking (P : params) : bool :=
  negb (pause_blocks P) && negb (resume_blocks P) && negb (subscribe_blocks P).

Lemma nth_error_upd_same {A} (l : list A) i x y : nth_error l i = Some y -> nth_error (upd l i x) i = Some x.
Proof. revert i. induction l as [|h t IH]; intros [|i] H; cbn in *; try discriminate; auto. Qed.

Lemma nth_error_upd_other {A} (l : list A) i j x : i <> j -> nth_error (upd l i x) j = nth_error l j.
Proof.
  revert i j. induction l as [|h t IH]; intros [|i] [|j] H; cbn; auto; try congruence.
Qed.

Lemma length_upd {A} (l : list A) i x : List.length (upd l i x) = List.length l.
Proof. revert i. induction l as [|h t IH]; intros [|i]; cbn; auto. Qed.

(* subMux is write-held only by a thread that is inside one of the critical sections *)
Definition inv (s : state) : Prop :=
  forall j, mux s = Some j -> exists p, nth_error (threads s) j = Some p /\ holds_lock p = true.

Lemma inv_init scr prog : inv (init scr prog).
Proof. intros j H. cbn in H. discriminate. Qed.

Lemma signal_nonblocking cap n : signal false cap n <> None.
Proof. unfold signal. destruct (n <? cap); discriminate. Qed.

Ltac inv_some := match goal with H : Some _ = Some _ |- _ => injection H as H; subst end.

Lemma inv_step_api P s i s' : inv s -> step_api P s i = Some s' -> inv s'.
Proof.
  intros Hinv Hs. unfold step_api in Hs.
  destruct (nth_error (threads s) i) as [p|] eqn:Hi; [|discriminate].
  (* helper facts *)
  assert (Hheld : forall j, mux s = Some j -> j = i -> holds_lock p = true).
  { intros j Hj ->. destruct (Hinv _ Hj) as [q [Hq Hh]]. rewrite Hi in Hq. injection Hq as <-. exact Hh. }
  assert (Hother : forall j q', mux s = Some j -> j <> i ->
            exists q, nth_error (upd (threads s) i q') j = Some q /\ holds_lock q = true).
  { intros j q' Hj Hne. destruct (Hinv _ Hj) as [q [Hq Hh]]. exists q. split; [|exact Hh].
    rewrite nth_error_upd_other by congruence. exact Hq. }
  destruct p; cbn [holds_lock] in Hheld.
  - (* SubSignal *) destruct (signal _ _ _); [|discriminate]. inv_some. intros j Hj. cbn in Hj |- *.
    destruct (Nat.eq_dec j i) as [E|E]; [specialize (Hheld _ Hj E); discriminate | apply Hother; assumption].
  - (* SubLock *) destruct (mux s) eqn:Hm; [discriminate|]. inv_some. intros j Hj. cbn in Hj. discriminate.
  - (* ForgetLock *) destruct (mux s) eqn:Hm; [discriminate|]. inv_some. intros j Hj. cbn in Hj |- *. injection Hj as <-.
    eexists. split; [eapply nth_error_upd_same; exact Hi|]. destruct (remove_id _ _); reflexivity.
  - (* ForgetPause *) destruct (signal _ _ _); [|discriminate]. inv_some. intros j Hj. cbn in Hj |- *.
    destruct (Nat.eq_dec j i) as [E|E]; [subst; eexists; split; [eapply nth_error_upd_same; exact Hi | reflexivity]
                                        | apply Hother; assumption].
  - (* ForgetUnlock *) inv_some. intros j Hj. cbn in Hj. discriminate.
  - (* RecreateLock *) destruct (mux s) eqn:Hm; [discriminate|]. destruct (mem_id _ _).
    + inv_some. intros j Hj. cbn in Hj |- *. injection Hj as <-.
      eexists. split; [eapply nth_error_upd_same; exact Hi|]. destruct (remove_id _ _); reflexivity.
    + inv_some. intros j Hj. cbn in Hj. rewrite Hm in Hj. discriminate.
  - (* RecreatePause *) destruct (signal _ _ _); [|discriminate]. inv_some. intros j Hj. cbn in Hj |- *.
    destruct (Nat.eq_dec j i) as [E|E]; [subst; eexists; split; [eapply nth_error_upd_same; exact Hi | reflexivity]
                                        | apply Hother; assumption].
  - (* RecreateRegister *) inv_some. intros j Hj. cbn in Hj. discriminate.
  - (* MonPause *) destruct (signal _ _ _); [|discriminate]. inv_some. intros j Hj. cbn in Hj |- *.
    destruct (Nat.eq_dec j i) as [E|E]; [specialize (Hheld _ Hj E); discriminate | apply Hother; assumption].
  - (* MonResume *) destruct (signal _ _ _); [|discriminate]. inv_some. intros j Hj. cbn in Hj |- *.
    destruct (Nat.eq_dec j i) as [E|E]; [specialize (Hheld _ Hj E); discriminate | apply Hother; assumption].
  - discriminate.
Qed.

Lemma step_loop_keeps P s a s' : step_loop P s a = Some s' -> mux s' = mux s /\ threads s' = threads s.
Proof.
  unfold step_loop, set_loop. intros H.
  destruct (loop s), a; try discriminate;
    repeat match type of H with
           | context [match ?x with _ => _ end] => destruct x; try discriminate
           end; inv_some; split; reflexivity.
Qed.

Lemma inv_step P s a s' : inv s -> step P s a = Some s' -> inv s'.
Proof.
  intros Hinv Hs. destruct a as [i|la]; cbn in Hs.
  - eapply inv_step_api; eassumption.
  - destruct (step_loop_keeps _ _ _ _ Hs) as [Hm Ht]. intros j Hj. rewrite Hm in Hj. rewrite Ht. apply Hinv. exact Hj.
Qed.

Lemma inv_reachable P s0 s : inv s0 -> reachable P s0 s -> inv s.
Proof. intros H0 Hr. induction Hr; [exact H0 | eapply inv_step; eassumption]. Qed.

(* a lock holder can always take its next step when signals do not block *)
Lemma holder_can_step P s j p :
  nonblocking P = true -> nth_error (threads s) j = Some p -> holds_lock p = true -> can_step_api P s j = true.
Proof.
  intros Hnb Hj Hh. unfold nonblocking in Hnb. apply andb_true_iff in Hnb. destruct Hnb as [Hnb _].
  apply andb_true_iff in Hnb. destruct Hnb as [Hp _]. apply negb_true_iff in Hp.
  unfold can_step_api, step_api. rewrite Hj. destruct p; cbn in Hh; try discriminate; try reflexivity;
    rewrite Hp; (destruct (signal false (cap_pause P) (pausech s)) eqn:E; [reflexivity | exfalso; eapply signal_nonblocking; exact E]).
Qed.

(* every unfinished call can step, or waits for subMux and the holder can step *)
Theorem no_call_blocks P s :
  nonblocking P = true -> inv s ->
  forall i p, nth_error (threads s) i = Some p -> p <> Done ->
    can_step_api P s i = true \/ exists j, mux s = Some j /\ j <> i /\ can_step_api P s j = true.
Proof.
  intros Hnb Hinv i p Hi Hp.
  pose proof Hnb as Hnb'. unfold nonblocking in Hnb'. apply andb_true_iff in Hnb'. destruct Hnb' as [Hnb' Hsb].
  apply andb_true_iff in Hnb'. destruct Hnb' as [Hpb Hrb]. apply negb_true_iff in Hpb, Hrb, Hsb.
  assert (Hwait : forall s1 : state, (mux s = None -> step_api P s i = Some s1) ->
           can_step_api P s i = true \/ exists j, mux s = Some j /\ j <> i /\ can_step_api P s j = true).
  { intros s1 H1. destruct (mux s) as [j|] eqn:Hm.
    - destruct (Hinv _ Hm) as [q [Hq Hh]]. destruct (Nat.eq_dec j i) as [E|E].
      + subst. left. eapply holder_can_step; eassumption.
      + right. exists j. repeat split; try assumption. eapply holder_can_step; eassumption.
    - left. unfold can_step_api. rewrite (H1 eq_refl). reflexivity. }
  destruct p; try congruence.
  - left. unfold can_step_api, step_api. rewrite Hi, Hsb.
    destruct (signal false _ _) eqn:E; [reflexivity | exfalso; eapply signal_nonblocking; exact E].
  - eapply Hwait. intros Hm. unfold step_api. rewrite Hi, Hm. reflexivity.
  - eapply Hwait. intros Hm. unfold step_api. rewrite Hi, Hm. reflexivity.
  - left. eapply holder_can_step; [exact Hnb | exact Hi | reflexivity].
  - left. eapply holder_can_step; [exact Hnb | exact Hi | reflexivity].
  - destruct (mem_id id (subs s)) eqn:Em.
    + eapply Hwait. intros Hm. unfold step_api. rewrite Hi, Hm, Em. reflexivity.
    + eapply Hwait. intros Hm. unfold step_api. rewrite Hi, Hm, Em. reflexivity.
  - left. eapply holder_can_step; [exact Hnb | exact Hi | reflexivity].
  - left. eapply holder_can_step; [exact Hnb | exact Hi | reflexivity].
  - left. unfold can_step_api, step_api. rewrite Hi, Hpb.
    destruct (signal false _ _) eqn:E; [reflexivity | exfalso; eapply signal_nonblocking; exact E].
  - left. unfold can_step_api, step_api. rewrite Hi, Hrb.
    destruct (signal false _ _) eqn:E; [reflexivity | exfalso; eapply signal_nonblocking; exact E].
Qed.

(* the publish loop: its own pause signal never blocks; when it wants subMux, the lock is free or its holder can step *)
Theorem loop_not_stuck P s :
  nonblocking P = true -> inv s ->
  (loop s = LWantPause -> step_loop P s SelfPause <> None) /\
  (loop s = LWantLock -> step_loop P s Handle <> None \/ exists j, mux s = Some j /\ can_step_api P s j = true).
Proof.
  intros Hnb Hinv. split; intros Hl.
  - unfold step_loop. rewrite Hl. unfold nonblocking in Hnb. apply andb_true_iff in Hnb. destruct Hnb as [Hnb _].
    apply andb_true_iff in Hnb. destruct Hnb as [Hp _]. apply negb_true_iff in Hp. rewrite Hp.
    destruct (signal false _ _) eqn:E; [discriminate | exfalso; eapply signal_nonblocking; exact E].
  - unfold step_loop. rewrite Hl. destruct (mux s) as [j|] eqn:Hm.
    + right. exists j. split; [reflexivity|]. destruct (Hinv _ Hm) as [q [Hq Hh]]. eapply holder_can_step; eassumption.
    + left. discriminate.
Qed.

Lemma can_step_enabled P s i : can_step_api P s i = true -> In (AApi i) (enabled P s).
Proof.
  intros H. unfold enabled. apply filter_In. split.
  - unfold all_actions. apply in_or_app. left. apply in_map. apply in_seq. split; [lia|]. cbn.
    unfold can_step_api, step_api in H. destruct (nth_error (threads s) i) eqn:E; [|discriminate].
    apply nth_error_Some. congruence.
  - cbn. unfold can_step_api in H. destruct (step_api P s i); [reflexivity | discriminate].
Qed.

Theorem not_deadlocked P s : nonblocking P = true -> inv s -> deadlocked P s = false.
Proof.
  intros Hnb Hinv. unfold deadlocked. destruct (api_finished s) eqn:Ef; [reflexivity|]. cbn.
  unfold api_finished in Ef.
  assert (Hex : exists i p, nth_error (threads s) i = Some p /\ p <> Done).
  { clear -Ef. induction (threads s) as [|h t IH]; [discriminate|]. cbn in Ef. destruct h;
      try (exists 0; eexists; split; [reflexivity | discriminate]).
    cbn in Ef. destruct (IH Ef) as [i [p [H1 H2]]]. exists (S i), p. split; assumption. }
  destruct Hex as [i [p [Hi Hp]]].
  destruct (no_call_blocks P s Hnb Hinv i p Hi Hp) as [H|[j [_ [_ H]]]];
    apply can_step_enabled in H; destruct (enabled P s); [inversion H | reflexivity | inversion H | reflexivity].
Qed.
