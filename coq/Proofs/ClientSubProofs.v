(* Engine E7, C27: with non-blocking signals no thread of the subscription machinery can block forever:
   in every reachable state every unfinished API/monitor call can step, or waits for subMux whose holder can step;
   the publish loop is never stuck on the lock or on its own pause signal. Any program, any script, any schedule. *)
From Coq Require Import List Bool Arith Lia.
From Opcua Require Import Model.ClientSub.
Import ListNotations.

Definition nonblocking (P : params) : bool :=
  negb (pause_blocks P) && negb (resume_blocks P) && negb (subscribe_blocks P).

Lemma nth_error_upd_same {A} (l : list A) i x y : nth_error l i = Some y -> nth_error (upd l i x) i = Some x.
Proof. revert i. induction l as [|h t IH]; intros [|i] H; cbn in *; try discriminate; auto. Qed.

Lemma nth_error_upd_other {A} (l : list A) i j x : i <> j -> nth_error (upd l i x) j = nth_error l j.
Proof.
  revert i j. induction l as [|h t IH]; intros [|i] [|j] H; cbn; auto; try congruence.
Qed.

Lemma length_upd {A} (l : list A) i x : List.length (upd l i x) = List.length l.
Proof. revert i. induction l as [|h t IH]; intros [|i]; cbn; auto. Qed.

(* subMux is write-held only by a thread that is inside one of the critical sections *)
Definition inv (s : state) : Prop :=
  forall j, mux s = Some j -> exists p, nth_error (threads s) j = Some p /\ holds_lock p = true.

Lemma inv_init P scr prog : inv (init P scr prog).
Proof. intros j H. cbn in H. discriminate. Qed.

Lemma signal_nonblocking cap n : signal false cap n <> None.
Proof. unfold signal. destruct (n <? cap); discriminate. Qed.

Ltac inv_some := match goal with H : Some _ = Some _ |- _ => injection H as H; subst end.

Lemma inv_step_api P s i s' : inv s -> step_api P s i = Some s' -> inv s'.
Proof.
  intros Hinv Hs. unfold step_api in Hs.
  destruct (nth_error (threads s) i) as [p|] eqn:Hi; [|discriminate].
  (* helper facts *)
  assert (Hheld : forall j, mux s = Some j -> j = i -> holds_lock p = true).
  { intros j Hj ->. destruct (Hinv _ Hj) as [q [Hq Hh]]. rewrite Hi in Hq. injection Hq as <-. exact Hh. }
  assert (Hother : forall j q', mux s = Some j -> j <> i ->
            exists q, nth_error (upd (threads s) i q') j = Some q /\ holds_lock q = true).
  { intros j q' Hj Hne. destruct (Hinv _ Hj) as [q [Hq Hh]]. exists q. split; [|exact Hh].
    rewrite nth_error_upd_other by congruence. exact Hq. }
  destruct p; cbn [holds_lock] in Hheld.
  - (* SubSignal *) destruct (signal _ _ _); [|discriminate]. inv_some. intros j Hj. cbn in Hj |- *.
    destruct (Nat.eq_dec j i) as [E|E]; [specialize (Hheld _ Hj E); discriminate | apply Hother; assumption].
  - (* SubLock *) destruct (mux s) eqn:Hm; [discriminate|].
    destruct (negb ((id =? 0) || mem_id id (subs s)) && subscribe_signals_after P); inv_some; intros j Hj; cbn in Hj |- *.
    + injection Hj as <-. eexists. split; [eapply nth_error_upd_same; exact Hi | reflexivity].
    + discriminate.
  - (* SubSignalHeld *) destruct (signal _ _ _); [|discriminate]. inv_some. intros j Hj. cbn in Hj. discriminate.
  - (* ForgetLock *) destruct (mux s) eqn:Hm; [discriminate|]. inv_some. intros j Hj. cbn in Hj |- *. injection Hj as <-.
    eexists. split; [eapply nth_error_upd_same; exact Hi|]. destruct (remove_id _ _); reflexivity.
  - (* ForgetPause *) destruct (signal _ _ _); [|discriminate]. inv_some. intros j Hj. cbn in Hj |- *.
    destruct (Nat.eq_dec j i) as [E|E]; [subst; eexists; split; [eapply nth_error_upd_same; exact Hi | reflexivity]
                                        | apply Hother; assumption].
  - (* ForgetUnlock *) inv_some. intros j Hj. cbn in Hj. discriminate.
  - (* RecreateLock *) destruct (mux s) eqn:Hm; [discriminate|]. destruct (mem_id _ _).
    + inv_some. intros j Hj. cbn in Hj |- *. injection Hj as <-.
      eexists. split; [eapply nth_error_upd_same; exact Hi|]. destruct (remove_id _ _); reflexivity.
    + inv_some. intros j Hj. cbn in Hj. rewrite Hm in Hj. discriminate.
  - (* RecreatePause *) destruct (signal _ _ _); [|discriminate]. inv_some. intros j Hj. cbn in Hj |- *.
    destruct (Nat.eq_dec j i) as [E|E]; [subst; eexists; split; [eapply nth_error_upd_same; exact Hi | reflexivity]
                                        | apply Hother; assumption].
  - (* RecreateRegister *) inv_some. intros j Hj. cbn in Hj. discriminate.
  - (* MonPause *) destruct (signal _ _ _); [|discriminate]. inv_some. intros j Hj. cbn in Hj |- *.
    destruct (Nat.eq_dec j i) as [E|E]; [specialize (Hheld _ Hj E); discriminate | apply Hother; assumption].
  - (* MonResume *) destruct (signal _ _ _); [|discriminate]. inv_some. intros j Hj. cbn in Hj |- *.
    destruct (Nat.eq_dec j i) as [E|E]; [specialize (Hheld _ Hj E); discriminate | apply Hother; assumption].
  - (* ConsumeLock *) destruct (mux s) eqn:Hm; [discriminate|]. inv_some. intros j Hj. cbn in Hj. rewrite Hm in Hj. discriminate.
  - (* ConsumeRecv *) destruct (loop s); try discriminate. inv_some. intros j Hj. cbn in Hj |- *.
    destruct (Nat.eq_dec j i) as [E|E]; [specialize (Hheld _ Hj E); discriminate | apply Hother; assumption].
  - discriminate.
Qed.

Lemma step_loop_keeps P s a s' : step_loop P s a = Some s' -> mux s' = mux s /\ threads s' = threads s.
Proof.
  unfold step_loop, set_resumed, set_loop. intros H.
  destruct (loop s), a; try discriminate;
    repeat match type of H with
           | context [match ?x with _ => _ end] => destruct x; try discriminate
           end; inv_some; split; reflexivity.
Qed.

Lemma inv_step P s a s' : inv s -> step P s a = Some s' -> inv s'.
Proof.
  intros Hinv Hs. destruct a as [i|la]; cbn in Hs.
  - eapply inv_step_api; eassumption.
  - destruct (step_loop_keeps _ _ _ _ Hs) as [Hm Ht]. intros j Hj. rewrite Hm in Hj. rewrite Ht. apply Hinv. exact Hj.
Qed.

Lemma inv_reachable P s0 s : inv s0 -> reachable P s0 s -> inv s.
Proof. intros H0 Hr. induction Hr; [exact H0 | eapply inv_step; eassumption]. Qed.

(* a lock holder can always take its next step when signals do not block *)
Lemma holder_can_step P s j p :
  nonblocking P = true -> nth_error (threads s) j = Some p -> holds_lock p = true -> can_step_api P s j = true.
Proof.
  intros Hnb Hj Hh. unfold nonblocking in Hnb. apply andb_true_iff in Hnb. destruct Hnb as [Hnb Hsb].
  apply andb_true_iff in Hnb. destruct Hnb as [Hp _]. apply negb_true_iff in Hp, Hsb.
  unfold can_step_api, step_api. rewrite Hj. destruct p; cbn in Hh; try discriminate; try reflexivity;
    try (rewrite Hp; (destruct (signal false (cap_pause P) (pausech s)) eqn:E; [reflexivity | exfalso; eapply signal_nonblocking; exact E])).
  rewrite Hsb. destruct (signal false (cap_resume P) (resumech s)) eqn:E; [reflexivity | exfalso; eapply signal_nonblocking; exact E].
Qed.

(* every unfinished call can step, or waits for subMux and the holder can step *)
Theorem no_call_blocks P s :
  nonblocking P = true -> inv s ->
  forall i p, nth_error (threads s) i = Some p -> p <> Done -> p <> ConsumeRecv ->
    can_step_api P s i = true \/ exists j, mux s = Some j /\ j <> i /\ can_step_api P s j = true.
Proof.
  intros Hnb Hinv i p Hi Hp Hp2.
  pose proof Hnb as Hnb'. unfold nonblocking in Hnb'. apply andb_true_iff in Hnb'. destruct Hnb' as [Hnb' Hsb].
  apply andb_true_iff in Hnb'. destruct Hnb' as [Hpb Hrb]. apply negb_true_iff in Hpb, Hrb, Hsb.
  assert (Hwait : forall s1 : state, (mux s = None -> step_api P s i = Some s1) ->
           can_step_api P s i = true \/ exists j, mux s = Some j /\ j <> i /\ can_step_api P s j = true).
  { intros s1 H1. destruct (mux s) as [j|] eqn:Hm.
    - destruct (Hinv _ Hm) as [q [Hq Hh]]. destruct (Nat.eq_dec j i) as [E|E].
      + subst. left. eapply holder_can_step; eassumption.
      + right. exists j. repeat split; try assumption. eapply holder_can_step; eassumption.
    - left. unfold can_step_api. rewrite (H1 eq_refl). reflexivity. }
  destruct p; try congruence.
  - (* SubSignal *) left. unfold can_step_api, step_api. rewrite Hi, Hsb.
    destruct (signal false _ _) eqn:E; [reflexivity | exfalso; eapply signal_nonblocking; exact E].
  - (* SubLock *)
    destruct (negb ((id =? 0) || mem_id id (subs s)) && subscribe_signals_after P) eqn:Eb;
      eapply Hwait; intros Hm; unfold step_api; rewrite Hi, Hm, Eb; reflexivity.
  - (* SubSignalHeld *) left. eapply holder_can_step; [exact Hnb | exact Hi | reflexivity].
  - eapply Hwait. intros Hm. unfold step_api. rewrite Hi, Hm. reflexivity.
  - left. eapply holder_can_step; [exact Hnb | exact Hi | reflexivity].
  - left. eapply holder_can_step; [exact Hnb | exact Hi | reflexivity].
  - destruct (mem_id id (subs s)) eqn:Em.
    + eapply Hwait. intros Hm. unfold step_api. rewrite Hi, Hm, Em. reflexivity.
    + eapply Hwait. intros Hm. unfold step_api. rewrite Hi, Hm, Em. reflexivity.
  - left. eapply holder_can_step; [exact Hnb | exact Hi | reflexivity].
  - left. eapply holder_can_step; [exact Hnb | exact Hi | reflexivity].
  - left. unfold can_step_api, step_api. rewrite Hi, Hpb.
    destruct (signal false _ _) eqn:E; [reflexivity | exfalso; eapply signal_nonblocking; exact E].
  - left. unfold can_step_api, step_api. rewrite Hi, Hrb.
    destruct (signal false _ _) eqn:E; [reflexivity | exfalso; eapply signal_nonblocking; exact E].
  - (* ConsumeLock *) eapply Hwait. intros Hm. unfold step_api. rewrite Hi, Hm. reflexivity.
Qed.

(* the publish loop: its own pause signal never blocks; when it wants subMux, the lock is free or its holder can step *)
Theorem loop_not_stuck P s :
  nonblocking P = true -> inv s ->
  (loop s = LWantPause -> step_loop P s SelfPause <> None) /\
  (loop s = LWantLock \/ (exists id, loop s = LWantLockData id) ->
     step_loop P s Handle <> None \/ exists j, mux s = Some j /\ can_step_api P s j = true).
Proof.
  intros Hnb Hinv. split; intros Hl.
  - unfold step_loop. rewrite Hl. unfold nonblocking in Hnb. apply andb_true_iff in Hnb. destruct Hnb as [Hnb _].
    apply andb_true_iff in Hnb. destruct Hnb as [Hp _]. apply negb_true_iff in Hp. rewrite Hp.
    destruct (signal false _ _) eqn:E; [discriminate | exfalso; eapply signal_nonblocking; exact E].
  - unfold step_loop. destruct (mux s) as [j|] eqn:Hm.
    + right. exists j. split; [reflexivity|]. destruct (Hinv _ Hm) as [q [Hq Hh]]. eapply holder_can_step; eassumption.
    + left. destruct Hl as [-> | [id ->]]; discriminate.
Qed.

Lemma can_step_enabled P s i : can_step_api P s i = true -> In (AApi i) (enabled P s).
Proof.
  intros H. unfold enabled. apply filter_In. split.
  - unfold all_actions. apply in_or_app. left. apply in_map. apply in_seq. split; [lia|]. cbn.
    unfold can_step_api, step_api in H. destruct (nth_error (threads s) i) eqn:E; [|discriminate].
    apply nth_error_Some. congruence.
  - cbn. unfold can_step_api in H. destruct (step_api P s i); [reflexivity | discriminate].
Qed.

Theorem not_deadlocked P s : nonblocking P = true -> inv s -> deadlocked P s = false.
Proof.
  intros Hnb Hinv. unfold deadlocked. destruct (api_finished s) eqn:Ef; [reflexivity|]. cbn.
  unfold api_finished in Ef.
  assert (Hex : exists i p, nth_error (threads s) i = Some p /\ p <> Done /\ p <> ConsumeRecv).
  { clear -Ef. induction (threads s) as [|h t IH]; [discriminate|]. cbn in Ef. destruct h;
      try (exists 0; eexists; split; [reflexivity | split; discriminate]);
      cbn in Ef; destruct (IH Ef) as [i [p [H1 H2]]]; exists (S i), p; split; assumption. }
  destruct Hex as [i [p [Hi [Hp Hp2]]]].
  destruct (no_call_blocks P s Hnb Hinv i p Hi Hp Hp2) as [H|[j [_ [_ H]]]];
    apply can_step_enabled in H; destruct (enabled P s); [inversion H | reflexivity | inversion H | reflexivity].
Qed.

(* ---------------------------------------------------------------------------------------------------------------
   No lost resume.  With (1) the resume signal of Subscribe sent after the registration, under subMux, and (2) a loop
   that lets a consumed resume signal win over pause signals until it has published, the publish loop is never parked
   while the client holds a subscription and every Subscribe / ForgetSubscription call has returned - for any number
   of such calls, any schedule, any publish script without publish errors (an error pauses the loop on purpose until
   the reconnect monitor resumes it). *)

Definition api_pc (p : pc) : bool :=
  match p with SubLock _ | SubSignalHeld | ForgetLock _ | ForgetPause | ForgetUnlock | Done => true | _ => false end.

Definition api_op (o : op) : bool := match o with OpSubscribe _ | OpForget _ => true | _ => false end.

(* scripts of keep-alive answers and time-outs (a data notification hands control to the application's consumer) *)
Definition error_free (scr : list pub_outcome) : bool :=
  forallb (fun o => match o with PErr | PData _ => false | _ => true end) scr.

Definition loop_ok (l : loop_pc) : bool :=
  match l with LWantPause | LWantLockData _ | LNotifying => false | _ => true end.

Definition fixed_protocol (P : params) : bool :=
  nonblocking P && subscribe_signals_after P && resume_wins P && (1 <=? cap_resume P).

Lemma fixed_protocol_spec P : fixed_protocol P = true ->
  nonblocking P = true /\ subscribe_signals_after P = true /\ resume_wins P = true /\ 1 <= cap_resume P /\
  pause_blocks P = false /\ subscribe_blocks P = false.
Proof.
  unfold fixed_protocol. intros H.
  apply andb_true_iff in H. destruct H as [H Hcap]. apply andb_true_iff in H. destruct H as [H Hrw].
  apply andb_true_iff in H. destruct H as [Hnb Hsa]. apply Nat.leb_le in Hcap.
  pose proof Hnb as Hnb'. unfold nonblocking in Hnb'.
  apply andb_true_iff in Hnb'. destruct Hnb' as [H1 Hsb]. apply andb_true_iff in H1. destruct H1 as [Hpb _].
  apply negb_true_iff in Hsb, Hpb. repeat split; assumption.
Qed.

Record J (s : state) : Prop := {
  J_api : forall i p, nth_error (threads s) i = Some p -> api_pc p = true;
  J_scr : error_free (script s) = true;
  J_nowp : loop_ok (loop s) = true;
  J_holder : forall j p, nth_error (threads s) j = Some p -> holds_lock p = true -> mux s = Some j;
  J_paused : loop s = LPaused -> resumed s = false;
  J_fp : forall i, nth_error (threads s) i = Some ForgetPause -> subs s = [];
  J_live : subs s <> [] -> (forall i, nth_error (threads s) i <> Some SubSignalHeld) ->
           0 < resumech s \/ resumed s = true \/ (pausech s = 0 /\ loop s <> LPaused)
}.

Lemma nth_upd_cases {A} (l : list A) i x j q p :
  nth_error l i = Some p -> nth_error (upd l i x) j = Some q ->
  (j = i /\ q = x) \/ (j <> i /\ nth_error l j = Some q).
Proof.
  intros Hi Hj. destruct (Nat.eq_dec j i) as [->|Hne].
  - left. rewrite (nth_error_upd_same l i x p Hi) in Hj. injection Hj as <-. split; reflexivity.
  - right. rewrite nth_error_upd_other in Hj by congruence. split; assumption.
Qed.

Lemma J_init P scr prog :
  fixed_protocol P = true -> forallb api_op prog = true -> error_free scr = true -> J (init P scr prog).
Proof.
  intros HP Hprog Hscr. destruct (fixed_protocol_spec P HP) as [_ [H1 _]].
  assert (Hth : forall i p, nth_error (map (start P) prog) i = Some p -> exists id, p = SubLock id \/ p = ForgetLock id).
  { intros i p Hi. apply nth_error_In in Hi. apply in_map_iff in Hi. destruct Hi as [o [Ho Hin]].
    rewrite forallb_forall in Hprog. specialize (Hprog _ Hin). destruct o; try discriminate; cbn in Ho.
    - rewrite H1 in Ho. eexists. left. symmetry. exact Ho.
    - eexists. right. symmetry. exact Ho. }
  constructor; cbn.
  - intros i p Hi. destruct (Hth _ _ Hi) as [id [-> | ->]]; reflexivity.
  - exact Hscr.
  - reflexivity.
  - intros j p Hj Hh. destruct (Hth _ _ Hj) as [id [-> | ->]]; discriminate.
  - discriminate.
  - intros i Hi. destruct (Hth _ _ Hi) as [id [E | E]]; discriminate.
  - intros Hne. congruence.
Qed.

Lemma remove_id_nil id l : l = [] -> remove_id id l = [].
Proof. intros ->. reflexivity. Qed.

Lemma signal_pos cap n r : 1 <= cap -> signal false cap n = Some r -> 0 < r.
Proof.
  unfold signal. intros Hc. destruct (n <? cap) eqn:E; intros H; injection H as <-; [lia|].
  apply Nat.ltb_ge in E. lia.
Qed.

Lemma J_step_api P s i s' : fixed_protocol P = true -> J s -> step_api P s i = Some s' -> J s'.
Proof.
  intros HP HJ Hs. destruct (fixed_protocol_spec P HP) as [Hnb [Hsa [Hrw [Hcap [Hpb Hsb]]]]].
  destruct HJ as [Ha Hscr Hnwp Hh Hpa Hfp Hlv].
  unfold step_api in Hs. destruct (nth_error (threads s) i) as [p|] eqn:Hi; [|discriminate].
  pose proof (Ha _ _ Hi) as Hapi.
  (* no thread is inside Subscribe's signalling section unless it holds the lock *)
  assert (Hnossh_free : mux s = None -> forall j, nth_error (threads s) j <> Some SubSignalHeld).
  { intros Hm j Hj. specialize (Hh _ _ Hj eq_refl). congruence. }
  assert (Hnossh_held : mux s = Some i -> p <> SubSignalHeld -> forall j, nth_error (threads s) j <> Some SubSignalHeld).
  { intros Hm Hp j Hj. pose proof (Hh _ _ Hj eq_refl) as Hm'. rewrite Hm in Hm'. injection Hm' as <-. congruence. }
  destruct p; cbn in Hapi; try discriminate.
  - (* SubLock *)
    destruct (mux s) eqn:Hm; [discriminate|].
    destruct (negb ((id =? 0) || mem_id id (subs s))) eqn:Eacc; rewrite Hsa in Hs; cbn [andb] in Hs; inv_some.
    + (* accepted: registered, now holds the lock and signals *)
      constructor; cbn.
      * intros j q Hj. destruct (nth_upd_cases _ _ _ _ _ _ Hi Hj) as [[-> ->]|[_ Hq]]; [reflexivity | eapply Ha; exact Hq].
      * exact Hscr.
      * exact Hnwp.
      * intros j q Hj Hq. destruct (nth_upd_cases _ _ _ _ _ _ Hi Hj) as [[-> ->]|[_ Hq']]; [reflexivity|].
        specialize (Hh _ _ Hq' Hq). congruence.
      * exact Hpa.
      * intros j Hj. destruct (nth_upd_cases _ _ _ _ _ _ Hi Hj) as [[_ E]|[_ Hq']]; [discriminate|].
        specialize (Hh _ _ Hq' eq_refl). congruence.
      * intros _ Hno. exfalso. apply (Hno i). eapply nth_error_upd_same. exact Hi.
    + (* rejected *)
      constructor; cbn.
      * intros j q Hj. destruct (nth_upd_cases _ _ _ _ _ _ Hi Hj) as [[-> ->]|[_ Hq]]; [reflexivity | eapply Ha; exact Hq].
      * exact Hscr.
      * exact Hnwp.
      * intros j q Hj Hq. destruct (nth_upd_cases _ _ _ _ _ _ Hi Hj) as [[-> ->]|[_ Hq']]; [discriminate|].
        specialize (Hh _ _ Hq' Hq). congruence.
      * exact Hpa.
      * intros j Hj. destruct (nth_upd_cases _ _ _ _ _ _ Hi Hj) as [[_ E]|[_ Hq']]; [discriminate|].
        specialize (Hh _ _ Hq' eq_refl). congruence.
      * intros Hne _. apply Hlv; [exact Hne | apply Hnossh_free; reflexivity].
  - (* SubSignalHeld *)
    rewrite Hsb in Hs. destruct (signal false (cap_resume P) (resumech s)) as [r|] eqn:Esig; [|discriminate]. inv_some.
    pose proof (Hh _ _ Hi eq_refl) as Hm.
    constructor; cbn.
    + intros j q Hj. destruct (nth_upd_cases _ _ _ _ _ _ Hi Hj) as [[-> ->]|[_ Hq]]; [reflexivity | eapply Ha; exact Hq].
    + exact Hscr.
    + exact Hnwp.
    + intros j q Hj Hq. destruct (nth_upd_cases _ _ _ _ _ _ Hi Hj) as [[-> ->]|[Hne Hq']]; [discriminate|].
      specialize (Hh _ _ Hq' Hq). congruence.
    + exact Hpa.
    + intros j Hj. destruct (nth_upd_cases _ _ _ _ _ _ Hi Hj) as [[_ E]|[Hne Hq']]; [discriminate|].
      specialize (Hh _ _ Hq' eq_refl). congruence.
    + intros _ _. left. eapply signal_pos; eassumption.
  - (* ForgetLock *)
    destruct (mux s) eqn:Hm; [discriminate|]. inv_some.
    constructor; cbn.
    + intros j q Hj. destruct (nth_upd_cases _ _ _ _ _ _ Hi Hj) as [[-> ->]|[_ Hq]]; [destruct (remove_id id (subs s)); reflexivity | eapply Ha; exact Hq].
    + exact Hscr.
    + exact Hnwp.
    + intros j q Hj Hq. destruct (nth_upd_cases _ _ _ _ _ _ Hi Hj) as [[-> ->]|[_ Hq']]; [reflexivity|].
      specialize (Hh _ _ Hq' Hq). congruence.
    + exact Hpa.
    + intros j Hj. destruct (nth_upd_cases _ _ _ _ _ _ Hi Hj) as [[_ E]|[_ Hq']].
      * destruct (remove_id id (subs s)); [reflexivity | discriminate].
      * specialize (Hh _ _ Hq' eq_refl). congruence.
    + intros Hne Hno. apply Hlv; [|apply Hnossh_free; reflexivity].
      intros E. apply Hne. apply remove_id_nil. exact E.
  - (* ForgetPause *)
    rewrite Hpb in Hs. destruct (signal false (cap_pause P) (pausech s)) as [n|] eqn:Esig; [|discriminate]. inv_some.
    pose proof (Hh _ _ Hi eq_refl) as Hm. pose proof (Hfp _ Hi) as Hsubs.
    constructor; cbn.
    + intros j q Hj. destruct (nth_upd_cases _ _ _ _ _ _ Hi Hj) as [[-> ->]|[_ Hq]]; [reflexivity | eapply Ha; exact Hq].
    + exact Hscr.
    + exact Hnwp.
    + intros j q Hj Hq. destruct (nth_upd_cases _ _ _ _ _ _ Hi Hj) as [[-> ->]|[Hne Hq']]; [exact Hm|].
      specialize (Hh _ _ Hq' Hq). congruence.
    + exact Hpa.
    + intros j Hj. exact Hsubs.
    + intros Hne. congruence.
  - (* ForgetUnlock *)
    inv_some. pose proof (Hh _ _ Hi eq_refl) as Hm.
    constructor; cbn.
    + intros j q Hj. destruct (nth_upd_cases _ _ _ _ _ _ Hi Hj) as [[-> ->]|[_ Hq]]; [reflexivity | eapply Ha; exact Hq].
    + exact Hscr.
    + exact Hnwp.
    + intros j q Hj Hq. destruct (nth_upd_cases _ _ _ _ _ _ Hi Hj) as [[-> ->]|[Hne Hq']]; [discriminate|].
      specialize (Hh _ _ Hq' Hq). congruence.
    + exact Hpa.
    + intros j Hj. destruct (nth_upd_cases _ _ _ _ _ _ Hi Hj) as [[_ E]|[Hne Hq']]; [discriminate|].
      specialize (Hh _ _ Hq' eq_refl). congruence.
    + intros Hne _. apply Hlv; [exact Hne | apply Hnossh_held; [exact Hm | discriminate]].
Qed.

Lemma error_free_tail o scr : error_free (o :: scr) = true -> o <> PErr /\ (forall id, o <> PData id) /\ error_free scr = true.
Proof. cbn. intros H. apply andb_true_iff in H. destruct H as [H1 H2]. repeat split; [destruct o; congruence | destruct o; congruence | exact H2]. Qed.

Lemma J_step_loop P s a s' : fixed_protocol P = true -> J s -> step_loop P s a = Some s' -> J s'.
Proof.
  intros HP HJ Hs. destruct (fixed_protocol_spec P HP) as [Hnb [Hsa [Hrw [Hcap [Hpb Hsb]]]]].
  destruct HJ as [Ha Hscr Hnwp Hh Hpa Hfp Hlv].
  unfold step_loop in Hs.
  destruct (loop s) eqn:El, a; try discriminate; try (cbn in Hnwp; discriminate Hnwp).
  - (* LTop, TakeResume *)
    destruct (resumech s) as [|r] eqn:Er; [discriminate|]. inv_some. rewrite Hrw.
    constructor; cbn; try assumption; try reflexivity; try discriminate. intros _ _. right. left. reflexivity.
  - (* LTop, TakePause *)
    destruct (pausech s) as [|pp] eqn:Ep; [discriminate|]. inv_some.
    constructor; cbn; try assumption.
    + destruct (resumed s); reflexivity.
    + destruct (resumed s) eqn:Ers; [discriminate | intros _; reflexivity].
    + intros Hne Hno. destruct (Hlv Hne Hno) as [H1|[H1|[H1 _]]].
      * left. exact H1.
      * right. left. exact H1.
      * try rewrite Ep in H1; discriminate.
  - (* LTop, Default *)
    destruct (pausech s) eqn:Ep; [|discriminate]. destruct (resumech s) eqn:Er; [|discriminate].
    destruct (mux s) eqn:Em; [discriminate|]. inv_some.
    constructor; cbn; try rewrite Em; try assumption; try reflexivity; try discriminate. intros _ _. right. right. split; [reflexivity | discriminate].
  - (* LPaused, TakeResume *)
    destruct (resumech s) as [|r] eqn:Er; [discriminate|]. inv_some. rewrite Hrw.
    constructor; cbn; try assumption; try reflexivity; try discriminate. intros _ _. right. left. reflexivity.
  - (* LPaused, TakePause *)
    destruct (pausech s) as [|pp] eqn:Ep; [discriminate|]. inv_some.
    constructor; cbn; try assumption; try reflexivity; try discriminate.
    intros Hne Hno. destruct (Hlv Hne Hno) as [H1|[H1|[_ H1]]].
    + left. exact H1.
    + right. left. exact H1.
    + congruence.
  - (* LInPublish, Answer *)
    destruct (script s) as [|o rest] eqn:Escr; [discriminate|].
    destruct (error_free_tail _ _ Hscr) as [Ho [Ho2 Hrest]].
    destruct o; try congruence; inv_some; constructor; cbn; try assumption; try reflexivity; try discriminate;
      (intros Hne Hno; destruct (Hlv Hne Hno) as [H1|[H1|[H1 _]]];
       [left; exact H1 | right; left; exact H1 | right; right; split; [exact H1 | discriminate]]).
  - (* LWantLock, Handle *)
    destruct (mux s) eqn:Em; [discriminate|]. inv_some.
    constructor; cbn; try rewrite Em; try assumption; try reflexivity; try discriminate.
    intros Hne Hno. destruct (Hlv Hne Hno) as [H1|[H1|[H1 _]]];
      [left; exact H1 | right; left; exact H1 | right; right; split; [exact H1 | discriminate]].
Qed.

Lemma J_reachable P s0 s : fixed_protocol P = true -> J s0 -> reachable P s0 s -> J s.
Proof.
  intros HP H0 Hr. induction Hr as [|s a s' Hr IH Hstep]; [exact H0|].
  destruct a as [i|la]; cbn in Hstep; [eapply J_step_api | eapply J_step_loop]; eassumption.
Qed.

Lemma api_finished_no_ssh s : api_finished s = true -> forall i, nth_error (threads s) i <> Some SubSignalHeld.
Proof.
  unfold api_finished. intros H i Hi. rewrite forallb_forall in H. specialize (H _ (nth_error_In _ _ Hi)). discriminate.
Qed.

Theorem no_lost_resume P scr prog s :
  fixed_protocol P = true -> forallb api_op prog = true -> error_free scr = true ->
  reachable P (init P scr prog) s -> loop_starved P s = false.
Proof.
  intros HP Hprog Hscr Hr.
  pose proof (J_reachable P _ s HP (J_init P scr prog HP Hprog Hscr) Hr) as [Ha Hs Hnwp Hh Hpa Hfp Hlv].
  unfold loop_starved.
  destruct (api_finished s) eqn:Ef; [|reflexivity].
  destruct (enabled P s) as [|a0 rest] eqn:Een; [|reflexivity].
  destruct (subs s) as [|x t] eqn:Esub; [reflexivity|].
  destruct (loop s) eqn:El; try reflexivity. exfalso.
  assert (Hne : x :: t <> []) by discriminate.
  destruct (Hlv Hne (api_finished_no_ssh s Ef)) as [H1|[H1|[_ H1]]].
  - (* a resume signal is pending: the paused loop can take it *)
    assert (Hin : In (ALoop TakeResume) (enabled P s)).
    { unfold enabled. apply filter_In. split.
      - unfold all_actions. apply in_or_app. right. cbn. left. reflexivity.
      - cbn. unfold step_loop. rewrite El. destruct (resumech s); [lia | reflexivity]. }
    rewrite Een in Hin. inversion Hin.
  - rewrite (Hpa eq_refl) in H1. discriminate.
  - congruence.
Qed.
