From Coq Require Import ZArith Bool Lia List.
From Opcua Require Import Model.Layout.
Open Scope Z_scope.

(* Hypotheses on a parameter set, as a boolean so that generated tables are checked by computation. *)
Definition params_ok (block plain sig rsig : Z) : bool :=
  (0 <? plain) && (plain <=? block) && (0 <=? sig) && (0 <=? rsig) &&
  (sig + 10 <=? plain * ((8192 - 16) / block)).

Lemma params_ok_spec block plain sig rsig :
  params_ok block plain sig rsig = true ->
  0 < plain /\ plain <= block /\ 0 <= sig /\ 0 <= rsig /\ sig + 10 <= plain * ((8192 - 16) / block).
Proof.
  unfold params_ok. rewrite !andb_true_iff.
  intros [[[[H1 H2] H3] H4] H5].
  apply Z.ltb_lt in H1. apply Z.leb_le in H2, H3, H4, H5. repeat split; assumption.
Qed.

Lemma pad_bytes_range rsig : 1 <= pad_bytes rsig <= 2.
Proof. unfold pad_bytes. destruct (rsig >? 256); lia. Qed.

(* The maximum body size as a closed formula (what go_SetMaximumBodySize computes when nothing wraps). *)
Definition max_body (cs block plain sig rsig : Z) : Z :=
  plain * ((cs - 16) / block) - 8 - sig - pad_bytes rsig.

Lemma blocks_mono cs block : 0 < block -> 8192 <= cs -> (8192 - 16) / block <= (cs - 16) / block.
Proof. intros Hb Hc. apply Z.div_le_mono; lia. Qed.

Lemma max_body_nonneg cs block plain sig rsig :
  params_ok block plain sig rsig = true -> 8192 <= cs ->
  0 <= max_body cs block plain sig rsig.
Proof.
  intros Hp Hc. apply params_ok_spec in Hp. destruct Hp as (Hpl & Hpb & Hs & Hr & Hk).
  unfold max_body. pose proof (pad_bytes_range rsig).
  assert (plain * ((8192 - 16) / block) <= plain * ((cs - 16) / block)).
  { apply Z.mul_le_mono_nonneg_l; [lia|]. apply blocks_mono; lia. }
  lia.
Qed.

Lemma max_body_lt_cs cs block plain sig rsig :
  params_ok block plain sig rsig = true -> 8192 <= cs ->
  max_body cs block plain sig rsig < cs.
Proof.
  intros Hp Hc. apply params_ok_spec in Hp. destruct Hp as (Hpl & Hpb & Hs & Hr & Hk).
  unfold max_body. pose proof (pad_bytes_range rsig).
  assert (0 <= (cs - 16) / block) by (apply Z.div_pos; lia).
  assert (block * ((cs - 16) / block) <= cs - 16) by (apply Z.mul_div_le; lia).
  assert (plain * ((cs - 16) / block) <= block * ((cs - 16) / block)) by (apply Z.mul_le_mono_nonneg_r; lia).
  lia.
Qed.

(* plaintext of a maximal body is exactly k blocks *)
Lemma plaintext_max cs block plain sig rsig :
  params_ok block plain sig rsig = true -> 8192 <= cs ->
  plaintext_len plain sig rsig (8 + max_body cs block plain sig rsig) = plain * ((cs - 16) / block)
  /\ padding_len plain sig rsig (8 + max_body cs block plain sig rsig) = 0.
Proof.
  intros Hp Hc. pose proof (params_ok_spec _ _ _ _ Hp) as (Hpl & Hpb & Hs & Hr & Hk).
  unfold plaintext_len, padding_len, max_body.
  set (k := (cs - 16) / block).
  replace (8 + (plain * k - 8 - sig - pad_bytes rsig) + sig + pad_bytes rsig) with (k * plain) by lia.
  rewrite Z.rem_mul by lia. cbn [Z.eqb]. lia.
Qed.

Lemma padded_is_multiple plain sig rsig n :
  0 < plain -> 0 <= n -> 0 <= sig ->
  Z.rem (plaintext_len plain sig rsig n) plain = 0.
Proof.
  intros Hp Hn Hs. pose proof (pad_bytes_range rsig) as Hpb.
  unfold plaintext_len, padding_len.
  set (t := n + sig + pad_bytes rsig).
  assert (Ht : 0 <= t) by (unfold t; lia).
  rewrite (Z.rem_mod_nonneg t plain) by lia.
  destruct (Z.eqb_spec (t mod plain) 0) as [E|E].
  - replace (n + 0 + pad_bytes rsig + sig) with t by (unfold t; lia).
    rewrite Z.rem_mod_nonneg by lia. exact E.
  - replace (n + (plain - t mod plain) + pad_bytes rsig + sig) with (t + (plain - t mod plain)) by (unfold t; lia).
    pose proof (Z.mod_pos_bound t plain Hp).
    rewrite Z.rem_mod_nonneg by lia.
    rewrite (Z.div_mod t plain) at 1 by lia.
    replace (plain * (t / plain) + t mod plain + (plain - t mod plain)) with ((t / plain + 1) * plain) by lia.
    apply Z.mod_mul. lia.
Qed.

(* the padded plaintext is the least multiple of plain that is >= n + sig + pad_bytes *)
Lemma plaintext_bounds plain sig rsig n :
  0 < plain -> 0 <= n -> 0 <= sig ->
  n + sig + pad_bytes rsig <= plaintext_len plain sig rsig n < n + sig + pad_bytes rsig + plain.
Proof.
  intros Hp Hn Hs. pose proof (pad_bytes_range rsig) as Hpb.
  unfold plaintext_len, padding_len.
  set (t := n + sig + pad_bytes rsig).
  assert (Ht : 0 <= t) by (unfold t; lia).
  rewrite (Z.rem_mod_nonneg t plain) by lia.
  pose proof (Z.mod_pos_bound t plain Hp).
  destruct (Z.eqb_spec (t mod plain) 0); unfold t in *; lia.
Qed.

Lemma secured_fits_max cs block plain sig rsig m :
  params_ok block plain sig rsig = true -> 8192 <= cs ->
  secured_len m block plain sig rsig 16 (8 + max_body cs block plain sig rsig) <= cs.
Proof.
  intros Hp Hc. pose proof (params_ok_spec _ _ _ _ Hp) as (Hpl & Hpb & Hs & Hr & Hk).
  pose proof (pad_bytes_range rsig) as Hpad.
  assert (Hk0 : 0 <= (cs - 16) / block) by (apply Z.div_pos; lia).
  assert (Hbk : block * ((cs - 16) / block) <= cs - 16) by (apply Z.mul_div_le; lia).
  assert (Hpk : plain * ((cs - 16) / block) <= block * ((cs - 16) / block)) by (apply Z.mul_le_mono_nonneg_r; lia).
  destruct m; cbn [secured_len].
  - unfold max_body. lia.
  - unfold max_body. lia.
  - destruct (plaintext_max cs block plain sig rsig Hp Hc) as [E _]. rewrite E.
    rewrite (Z.mul_comm plain), Z.quot_mul by lia. lia.
Qed.

(* monotonicity: a smaller body never yields a longer chunk *)
Lemma plaintext_mono plain sig rsig n1 n2 :
  0 < plain -> 0 <= sig -> 0 <= n1 <= n2 ->
  Z.quot (plaintext_len plain sig rsig n1) plain <= Z.quot (plaintext_len plain sig rsig n2) plain.
Proof.
  intros Hp Hs Hn.
  pose proof (padded_is_multiple plain sig rsig n1 Hp ltac:(lia) Hs) as M1.
  pose proof (padded_is_multiple plain sig rsig n2 Hp ltac:(lia) Hs) as M2.
  pose proof (plaintext_bounds plain sig rsig n1 Hp ltac:(lia) Hs) as B1.
  pose proof (plaintext_bounds plain sig rsig n2 Hp ltac:(lia) Hs) as B2.
  pose proof (pad_bytes_range rsig) as Hpad.
  set (p1 := plaintext_len plain sig rsig n1) in *.
  set (p2 := plaintext_len plain sig rsig n2) in *.
  rewrite Z.rem_mod_nonneg in M1, M2 by lia.
  rewrite !Z.quot_div_nonneg by lia.
  (* p1 = plain * q1, p2 = plain * q2, p1 < n1 + .. + plain <= n2 + .. + plain <= p2 + plain *)
  pose proof (Z.div_mod p1 plain ltac:(lia)) as D1. pose proof (Z.div_mod p2 plain ltac:(lia)) as D2.
  rewrite M1 in D1. rewrite M2 in D2.
  assert (p1 < p2 + plain) by lia.
  nia.
Qed.

Lemma secured_mono m block plain sig rsig n1 n2 :
  0 < plain -> 0 < block -> 0 <= sig -> 0 <= n1 <= n2 ->
  secured_len m block plain sig rsig 16 n1 <= secured_len m block plain sig rsig 16 n2.
Proof.
  intros Hp Hb Hs Hn. destruct m; cbn [secured_len]; try lia.
  pose proof (plaintext_mono plain sig rsig n1 n2 Hp Hs Hn). nia.
Qed.

Lemma secured_fits_all cs block plain sig rsig m body :
  params_ok block plain sig rsig = true -> 8192 <= cs ->
  0 <= body <= max_body cs block plain sig rsig ->
  secured_len m block plain sig rsig 16 (8 + body) <= cs.
Proof.
  intros Hp Hc Hb. pose proof (params_ok_spec _ _ _ _ Hp) as (Hpl & Hpb & Hs & Hr & Hk).
  eapply Z.le_trans; [|apply (secured_fits_max cs block plain sig rsig m Hp Hc)].
  apply secured_mono; lia.
Qed.

Lemma one_more_does_not_fit cs block plain sig rsig :
  params_ok block plain sig rsig = true -> 8192 <= cs ->
  secured_len ModeSignEnc block plain sig rsig 16 (8 + max_body cs block plain sig rsig + 1) > cs.
Proof.
  intros Hp Hc. pose proof (params_ok_spec _ _ _ _ Hp) as (Hpl & Hpb & Hs & Hr & Hk).
  pose proof (pad_bytes_range rsig) as Hpad.
  pose proof (max_body_nonneg cs block plain sig rsig Hp Hc) as Hmb.
  cbn [secured_len].
  set (n := 8 + max_body cs block plain sig rsig + 1).
  pose proof (padded_is_multiple plain sig rsig n Hpl ltac:(unfold n; lia) Hs) as M.
  pose proof (plaintext_bounds plain sig rsig n Hpl ltac:(unfold n; lia) Hs) as B.
  set (p := plaintext_len plain sig rsig n) in *.
  set (k := (cs - 16) / block).
  assert (Hn : n + sig + pad_bytes rsig = plain * k + 1) by (unfold n, max_body, k; lia).
  rewrite Z.rem_mod_nonneg in M by lia.
  rewrite Z.quot_div_nonneg by lia.
  pose proof (Z.div_mod p plain ltac:(lia)) as D. rewrite M in D.
  assert (Hq : k + 1 <= p / plain) by nia.
  assert (Hlt : cs - 16 < block * (k + 1)).
  { unfold k. pose proof (Z.mod_pos_bound (cs - 16) block ltac:(lia)).
    pose proof (Z.div_mod (cs - 16) block ltac:(lia)). lia. }
  assert (0 < block) by lia.
  nia.
Qed.

(* The translated Go function equals the closed formula whenever nothing wraps. *)
From Opcua Require Import Gen.ArithFromGo.

Lemma go_max_body_eq cs block plain sig rsig :
  params_ok block plain sig rsig = true -> 8192 <= cs -> cs < 4294967296 ->
  go_SetMaximumBodySize cs block plain sig rsig = max_body cs block plain sig rsig.
Proof.
  intros Hp Hc Hlt. pose proof (params_ok_spec _ _ _ _ Hp) as (Hpl & Hpb & Hs & Hr & Hk).
  pose proof (max_body_nonneg cs block plain sig rsig Hp Hc) as H0.
  pose proof (max_body_lt_cs cs block plain sig rsig Hp Hc) as H1.
  unfold go_SetMaximumBodySize.
  cbv zeta.
  rewrite Z.quot_div_nonneg by lia.
  replace (cs - 12 - 4) with (cs - 16) by lia.
  unfold max_body, pad_bytes in *.
  destruct (rsig >? 256); rewrite Z.mod_small; lia.
Qed.
