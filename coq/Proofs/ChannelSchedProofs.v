(* ChannelSchedProofs.v — invariant of Model/ChannelSched.v over EVERY run: any number of sender threads, any
   number of renewals (succeeding or failing), every interleaving. *)
From Coq Require Import ZArith List Bool Lia PeanoNat.
From Opcua Require Import Gen.ArithFromGo Model.ChannelSched.
Import ListNotations.
Open Scope Z_scope.

(* ---------------------------------------------------------------- lists *)

Lemma nth_upd_same : forall A (l : list A) t x y, nth_error l t = Some x -> nth_error (upd_nth l t y) t = Some y.
Proof. induction l as [|h l IH]; intros [|t] x y H; cbn in *; try discriminate; eauto. Qed.

Lemma nth_upd_other : forall A (l : list A) t t' y, t' <> t -> nth_error (upd_nth l t y) t' = nth_error l t'.
Proof.
  induction l as [|h l IH]; intros [|t] [|t'] y H; cbn in *; try reflexivity; try congruence.
  apply IH. congruence.
Qed.

Fixpoint count (f : spc -> bool) (l : list spc) : nat :=
  match l with [] => 0 | x :: r => (if f x then 1 else 0) + count f r end.

Lemma count_app : forall f l1 l2, count f (l1 ++ l2) = (count f l1 + count f l2)%nat.
Proof. induction l1; cbn; intros; [reflexivity|rewrite IHl1; lia]. Qed.

Lemma count_upd : forall f l t x y, nth_error l t = Some x ->
  (count f (upd_nth l t y) + (if f x then 1 else 0) = count f l + (if f y then 1 else 0))%nat.
Proof.
  induction l as [|h l IH]; intros [|t] x y H; cbn in *; try discriminate.
  - inversion H; subst. lia.
  - specialize (IH _ _ y H). lia.
Qed.

Lemma count_zero : forall f l t x, count f l = 0%nat -> nth_error l t = Some x -> f x = false.
Proof.
  induction l as [|h l IH]; intros [|t] x C H; cbn in *; try discriminate.
  - inversion H; subst. destruct (f x); [discriminate|reflexivity].
  - eapply IH; [|exact H]. destruct (f h); [discriminate|exact C].
Qed.

Lemma existsb_false_nth : forall (f : spc -> bool) l t x, existsb f l = false -> nth_error l t = Some x -> f x = false.
Proof.
  induction l as [|h l IH]; intros [|t] x E H; cbn in *; try discriminate; apply orb_false_iff in E; destruct E as [E1 E2].
  - inversion H; subst; exact E1.
  - eapply IH; eassumption.
Qed.

Lemma nth_app_cases : forall A (l : list A) y t x, nth_error (l ++ [y]) t = Some x -> nth_error l t = Some x \/ x = y.
Proof.
  intros A l y t x H. destruct (Nat.lt_ge_cases t (length l)) as [L|L].
  - left. rewrite nth_error_app1 in H by exact L. exact H.
  - right. rewrite nth_error_app2 in H by exact L. destruct (t - length l)%nat as [|[|k]]; cbn in H; congruence.
Qed.

(* ---------------------------------------------------------------- the invariant *)

Definition mid (x : rpc) : bool :=
  match x with RDrained _ | ROldLocked _ | RCopied _ _ _ | ROpnSent _ _ | RInstalled _ _ | RFailed _ _ => true | _ => false end.

Definition gated (x : rpc) : bool := match x with RIdle | RHas _ => false | _ => true end.

(* the one instance whose counter is in use *)
Definition live (s : st) : iid := match r s with RCopied _ j _ | ROpnSent _ j => j | _ => active s end.

Definition inst_of (pc : spc) : option iid :=
  match pc with SHasInst _ i | SCounted _ i _ | SWriting _ i _ _ | SWritten i => Some i | _ => None end.
Definition in_flight (pc : spc) : bool :=
  match pc with SPassed _ | SHasInst _ _ | SCounted _ _ _ | SWriting _ _ _ _ | SWritten _ | SUnlocked => true | _ => false end.
Definition quiet (pc : spc) : bool := match pc with SStart _ | SDone => true | _ => false end.
Definition holds (pc : spc) : option iid := match pc with SWriting _ i _ _ | SWritten i => Some i | _ => None end.

Definition ren_old (x : rpc) : option iid :=
  match x with RHas i | RGate i | RDrained i | ROldLocked i | RCopied i _ _ | ROpnSent i _ => Some i | _ => None end.

Record inv (s : st) : Prop := {
  J1 : forall t pc i, nth_error (ss s) t = Some pc -> inst_of pc = Some i -> i = active s;
  J2 : mid (r s) = true -> forall t pc, nth_error (ss s) t = Some pc -> quiet pc = true;
  J2g : gated (r s) = true -> gate s = true;
  J3 : pending s = count in_flight (ss s);
  J4 : forall t pc i, nth_error (ss s) t = Some pc -> holds pc = Some i -> ilock s i = Some (OwnS t);
  J5 : forall i, ren_old (r s) = Some i -> i = active s;
  J5a : (active s < ninst s)%nat;
  J5b : forall i j id, r s = RCopied i j id \/ r s = ROpnSent i j -> (active s < j)%nat /\ (j < ninst s)%nat;
  J5c : forall i j, r s = RInstalled i j -> active s = j;
  J6 : consecutive_rev (wire_rev s) = true;
  J6h : forall c rest, wire_rev s = c :: rest -> c_seq c = iseq s (live s)
}.

Lemma nth_nil : forall A t (x : A), nth_error (@nil A) t = Some x -> False.
Proof. intros A [|t] x H; discriminate. Qed.

Lemma inv_init : forall a b, inv (init a b).
Proof.
  intros a b. constructor; cbn.
  - intros t pc i H. exfalso; eapply nth_nil; exact H.
  - discriminate.
  - discriminate.
  - reflexivity.
  - intros t pc i H. exfalso; eapply nth_nil; exact H.
  - discriminate.
  - lia.
  - intros i j id [H|H]; discriminate.
  - discriminate.
  - reflexivity.
  - discriminate.
Qed.

Lemma quiet_facts : forall pc, quiet pc = true -> inst_of pc = None /\ holds pc = None /\ in_flight pc = false.
Proof. destruct pc; cbn; intros; try discriminate; auto. Qed.

Lemma partition_pc : forall pc, in_flight pc = false -> quiet pc = true.
Proof. destruct pc; cbn; intros; try discriminate; auto. Qed.

(* a sender step that leaves every shared field except ss (and possibly pending / next_req / ilock / wire) alone:
   the clauses about other threads are inherited *)
Ltac nth_cases H t' t :=
  destruct (Nat.eq_dec t' t) as [->|?NE];
  [ erewrite nth_upd_same in H by eassumption; inversion H; subst; clear H
  | rewrite nth_upd_other in H by assumption ].

Lemma not_mid_if_not_quiet : forall s t pc, inv s -> nth_error (ss s) t = Some pc -> quiet pc = false -> mid (r s) = false.
Proof.
  intros s t pc I H Q. destruct (mid (r s)) eqn:M; [|reflexivity].
  rewrite (J2 _ I M _ _ H) in Q. discriminate.
Qed.

Lemma live_active : forall s, mid (r s) = false -> live s = active s.
Proof. intros s M. unfold live. destruct (r s); cbn in M; try discriminate; reflexivity. Qed.

Lemma consec_cons : forall c p rest,
  consecutive_rev (c :: p :: rest) = (c_seq c =? go_nextSequenceNumber (c_seq p)) && consecutive_rev (p :: rest).
Proof. reflexivity. Qed.

Ltac fin5b := solve [intros ? ? ? [?H|?H]; inversion H; subst; try lia; try discriminate].
Ltac finJ5 := solve [intros ? ?H; inversion H; reflexivity].

Lemma step_inv : forall s e s', inv s -> step s e = Some s' -> inv s'.
Proof.
  intros s e s' I St.
  destruct e; cbn in St.
  - (* ESpawn *)
    inversion St; subst; clear St.
    constructor; cbn.
    + intros t pc i H Hi. apply nth_app_cases in H. destruct H as [H| ->]; [eapply (J1 _ I); eassumption|discriminate].
    + intros M t pc H. apply nth_app_cases in H. destruct H as [H| ->]; [eapply (J2 _ I); eassumption|reflexivity].
    + exact (J2g _ I).
    + rewrite count_app. cbn. rewrite (J3 _ I). lia.
    + intros t pc i H Hi. apply nth_app_cases in H. destruct H as [H| ->]; [eapply (J4 _ I); eassumption|discriminate].
    + exact (J5 _ I).
    + exact (J5a _ I).
    + exact (J5b _ I).
    + exact (J5c _ I).
    + exact (J6 _ I).
    + exact (J6h _ I).
  - (* EGate *)
    unfold sstep in St. destruct (nth_error (ss s) t) as [pc|] eqn:Ht; try discriminate.
    destruct pc; try discriminate. destruct (gate s) eqn:G; try discriminate. inversion St; subst; clear St.
    assert (NG : gated (r s) = false) by (destruct (gated (r s)) eqn:X; [rewrite (J2g _ I X) in G; discriminate|reflexivity]).
    assert (NM : mid (r s) = false) by (destruct (r s); cbn in *; congruence).
    constructor; cbn.
    + intros t' pc i H Hi. nth_cases H t' t; [discriminate|eapply (J1 _ I); eassumption].
    + intro M. congruence.
    + exact (J2g _ I).
    + pose proof (count_upd in_flight _ _ _ (SPassed n) Ht) as C. cbn in C. rewrite (J3 _ I). lia.
    + intros t' pc i H Hi. nth_cases H t' t; [discriminate|eapply (J4 _ I); eassumption].
    + exact (J5 _ I).
    + exact (J5a _ I).
    + exact (J5b _ I).
    + exact (J5c _ I).
    + exact (J6 _ I).
    + exact (J6h _ I).
  - (* EActive *)
    unfold sstep in St. destruct (nth_error (ss s) t) as [pc|] eqn:Ht; try discriminate.
    destruct pc; try discriminate. inversion St; subst; clear St.
    assert (NM : mid (r s) = false) by (eapply not_mid_if_not_quiet; [exact I|exact Ht|reflexivity]).
    constructor; cbn.
    + intros t' pc i H Hi. nth_cases H t' t; [cbn in Hi; congruence|eapply (J1 _ I); eassumption].
    + intro M. congruence.
    + exact (J2g _ I).
    + pose proof (count_upd in_flight _ _ _ (SHasInst n (active s)) Ht) as C. cbn in C. rewrite (J3 _ I). lia.
    + intros t' pc i H Hi. nth_cases H t' t; [discriminate|eapply (J4 _ I); eassumption].
    + exact (J5 _ I).
    + exact (J5a _ I).
    + exact (J5b _ I).
    + exact (J5c _ I).
    + exact (J6 _ I).
    + exact (J6h _ I).
  - (* EId *)
    unfold sstep in St. destruct (nth_error (ss s) t) as [pc|] eqn:Ht; try discriminate.
    destruct pc; try discriminate. inversion St; subst; clear St.
    assert (NM : mid (r s) = false) by (eapply not_mid_if_not_quiet; [exact I|exact Ht|reflexivity]).
    constructor; cbn.
    + intros t' pc i0 H Hi. nth_cases H t' t; [cbn in Hi; inversion Hi; subst; eapply (J1 _ I); [exact Ht|reflexivity]|eapply (J1 _ I); eassumption].
    + intro M. congruence.
    + exact (J2g _ I).
    + pose proof (count_upd in_flight _ _ _ (SCounted n i (go_nextRequestID (next_req s))) Ht) as C. cbn in C. rewrite (J3 _ I). lia.
    + intros t' pc i0 H Hi. nth_cases H t' t; [discriminate|eapply (J4 _ I); eassumption].
    + exact (J5 _ I).
    + exact (J5a _ I).
    + exact (J5b _ I).
    + exact (J5c _ I).
    + exact (J6 _ I).
    + exact (J6h _ I).
  - (* ELockI *)
    unfold sstep in St. destruct (nth_error (ss s) t) as [pc|] eqn:Ht; try discriminate.
    destruct pc; try discriminate. destruct (ilock s i) eqn:L; try discriminate. inversion St; subst; clear St.
    assert (NM : mid (r s) = false) by (eapply not_mid_if_not_quiet; [exact I|exact Ht|reflexivity]).
    constructor; cbn.
    + intros t' pc i0 H Hi. nth_cases H t' t; [cbn in Hi; inversion Hi; subst; eapply (J1 _ I); [exact Ht|reflexivity]|eapply (J1 _ I); eassumption].
    + intro M. congruence.
    + exact (J2g _ I).
    + pose proof (count_upd in_flight _ _ _ (SWriting n i id 0) Ht) as C. cbn in C. rewrite (J3 _ I). lia.
    + intros t' pc i0 H Hi. unfold updI. nth_cases H t' t.
      * cbn in Hi. inversion Hi; subst. rewrite Nat.eqb_refl. reflexivity.
      * pose proof (J4 _ I _ _ _ H Hi) as X. destruct (Nat.eqb_spec i0 i); [subst; congruence|exact X].
    + exact (J5 _ I).
    + exact (J5a _ I).
    + exact (J5b _ I).
    + exact (J5c _ I).
    + exact (J6 _ I).
    + exact (J6h _ I).
  - (* EChunk *)
    unfold sstep in St. destruct (nth_error (ss s) t) as [pc|] eqn:Ht; try discriminate.
    destruct pc; try discriminate. inversion St; subst; clear St.
    assert (NM : mid (r s) = false) by (eapply not_mid_if_not_quiet; [exact I|exact Ht|reflexivity]).
    assert (Ei : i = active s) by (eapply (J1 _ I); [exact Ht|reflexivity]). subst i.
    pose proof (live_active _ NM) as LA.
    pose proof (J4 _ I _ _ _ Ht eq_refl) as Lk.
    set (pc' := if Nat.eqb k n then SWritten (active s) else SWriting n (active s) id (S k)).
    assert (Hpc' : inst_of pc' = Some (active s) /\ holds pc' = Some (active s) /\ in_flight pc' = true /\ quiet pc' = false)
      by (unfold pc'; destruct (Nat.eqb k n); cbn; auto).
    destruct Hpc' as (P1 & P2 & P3 & P4).
    constructor; cbn -[consecutive_rev contiguous_rev].
    + intros t' pc i0 H Hi. nth_cases H t' t; [congruence|eapply (J1 _ I); eassumption].
    + intro M. congruence.
    + exact (J2g _ I).
    + pose proof (count_upd in_flight _ _ _ pc' Ht) as C. cbn in C. rewrite P3 in C. rewrite (J3 _ I). lia.
    + intros t' pc i0 H Hi. nth_cases H t' t; [rewrite P2 in Hi; inversion Hi; subst; exact Lk|eapply (J4 _ I); eassumption].
    + exact (J5 _ I).
    + exact (J5a _ I).
    + exact (J5b _ I).
    + exact (J5c _ I).
    + destruct (wire_rev s) as [|p rest] eqn:W; [reflexivity|].
      rewrite consec_cons. cbn [c_seq]. rewrite (J6h _ I _ _ W), LA, Z.eqb_refl. pose proof (J6 _ I) as X. rewrite W in X. exact X.
    + intros c rest Hw. inversion Hw; subst; clear Hw. cbn.
      unfold live. cbn. fold (live s). rewrite LA. unfold updI. rewrite Nat.eqb_refl. reflexivity.
  - (* EFail *)
    unfold sstep in St. destruct (nth_error (ss s) t) as [pc|] eqn:Ht; try discriminate.
    destruct pc; try discriminate. inversion St; subst; clear St.
    assert (NM : mid (r s) = false) by (eapply not_mid_if_not_quiet; [exact I|exact Ht|reflexivity]).
    assert (Ei : i = active s) by (eapply (J1 _ I); [exact Ht|reflexivity]). subst i.
    pose proof (J4 _ I _ _ _ Ht eq_refl) as Lk.
    constructor; cbn.
    + intros t' pc i0 H Hi. nth_cases H t' t; [cbn in Hi; congruence|eapply (J1 _ I); eassumption].
    + intro M. congruence.
    + exact (J2g _ I).
    + pose proof (count_upd in_flight _ _ _ (SWritten (active s)) Ht) as C. cbn in C. rewrite (J3 _ I). lia.
    + intros t' pc i0 H Hi. nth_cases H t' t; [cbn in Hi; inversion Hi; subst; exact Lk|eapply (J4 _ I); eassumption].
    + exact (J5 _ I).
    + exact (J5a _ I).
    + exact (J5b _ I).
    + exact (J5c _ I).
    + exact (J6 _ I).
    + exact (J6h _ I).
  - (* EUnlockI *)
    unfold sstep in St. destruct (nth_error (ss s) t) as [pc|] eqn:Ht; try discriminate.
    destruct pc; try discriminate. inversion St; subst; clear St.
    assert (NM : mid (r s) = false) by (eapply not_mid_if_not_quiet; [exact I|exact Ht|reflexivity]).
    pose proof (J4 _ I _ _ _ Ht eq_refl) as Lk.
    constructor; cbn.
    + intros t' pc i0 H Hi. nth_cases H t' t; [discriminate|eapply (J1 _ I); eassumption].
    + intro M. congruence.
    + exact (J2g _ I).
    + pose proof (count_upd in_flight _ _ _ SUnlocked Ht) as C. cbn in C. rewrite (J3 _ I). lia.
    + intros t' pc i0 H Hi. unfold updI. nth_cases H t' t; [discriminate|].
      pose proof (J4 _ I _ _ _ H Hi) as X. destruct (Nat.eqb_spec i0 i); [subst; rewrite Lk in X; inversion X; congruence|exact X].
    + exact (J5 _ I).
    + exact (J5a _ I).
    + exact (J5b _ I).
    + exact (J5c _ I).
    + exact (J6 _ I).
    + exact (J6h _ I).
  - (* EDone *)
    unfold sstep in St. destruct (nth_error (ss s) t) as [pc|] eqn:Ht; try discriminate.
    destruct pc; try discriminate. inversion St; subst; clear St.
    assert (NM : mid (r s) = false) by (eapply not_mid_if_not_quiet; [exact I|exact Ht|reflexivity]).
    constructor; cbn.
    + intros t' pc i0 H Hi. nth_cases H t' t; [discriminate|eapply (J1 _ I); eassumption].
    + intro M. congruence.
    + exact (J2g _ I).
    + pose proof (count_upd in_flight _ _ _ SDone Ht) as C. cbn in C. rewrite (J3 _ I). lia.
    + intros t' pc i0 H Hi. nth_cases H t' t; [discriminate|eapply (J4 _ I); eassumption].
    + exact (J5 _ I).
    + exact (J5a _ I).
    + exact (J5b _ I).
    + exact (J5c _ I).
    + exact (J6 _ I).
    + exact (J6h _ I).
  - (* ERenStart *)
    destruct (r s) eqn:R; try discriminate. inversion St; subst; clear St.
    pose proof I as [A1 A2 A2g A3 A4 A5 A5a A5b A5c A6 A6h]. unfold live in A6h. rewrite R in *. cbn in *.
    constructor; cbn; auto; try discriminate; try congruence.
    all: try fin5b. all: try finJ5.
  - (* ERenGate *)
    destruct (r s) eqn:R; try discriminate. inversion St; subst; clear St.
    pose proof I as [A1 A2 A2g A3 A4 A5 A5a A5b A5c A6 A6h]. unfold live in A6h. rewrite R in *. cbn in *.
    constructor; cbn; auto; try discriminate; try congruence.
    all: try fin5b. all: try finJ5.
  - (* ERenDrain *)
    destruct (r s) eqn:R; try discriminate. destruct (Nat.eqb_spec (pending s) 0) as [P0|]; try discriminate.
    inversion St; subst; clear St.
    pose proof I as [A1 A2 A2g A3 A4 A5 A5a A5b A5c A6 A6h]. unfold live in A6h. rewrite R in *. cbn in *.
    constructor; cbn; auto; try discriminate; try congruence.
    all: try fin5b. all: try finJ5.
    + intros _ t pc H. apply partition_pc. eapply count_zero; [|exact H]. congruence.
  - (* ERenLock *)
    destruct (r s) eqn:R; try discriminate. destruct (ilock s i) eqn:L; try discriminate.
    inversion St; subst; clear St.
    pose proof I as [A1 A2 A2g A3 A4 A5 A5a A5b A5c A6 A6h]. unfold live in A6h. rewrite R in *. cbn in *.
    constructor; cbn; auto; try discriminate; try congruence.
    all: try fin5b. all: try finJ5.
    + intros t pc i0 H Hi. pose proof (A2 eq_refl _ _ H) as Q. apply quiet_facts in Q. destruct Q as (_ & Q & _). congruence.
  - (* ERenCopy *)
    destruct (r s) eqn:R; try discriminate. inversion St; subst; clear St.
    pose proof I as [A1 A2 A2g A3 A4 A5 A5a A5b A5c A6 A6h]. unfold live in A6h. rewrite R in *. cbn in *.
    pose proof (A5 _ eq_refl) as Ei. subst i.
    constructor; cbn; auto; try discriminate; try congruence.
    all: try fin5b. all: try finJ5.
    + intros c rest Hw. unfold updI. rewrite Nat.eqb_refl. exact (A6h _ _ Hw).
  - (* ERenOpn *)
    destruct (r s) eqn:R; try discriminate. inversion St; subst; clear St.
    pose proof I as [A1 A2 A2g A3 A4 A5 A5a A5b A5c A6 A6h]. unfold live in A6h. rewrite R in *. cbn in *.
    pose proof (A5 _ eq_refl) as Ei. subst i.
    constructor; cbn -[consecutive_rev contiguous_rev]; auto; try discriminate; try congruence.
    all: try fin5b. all: try finJ5.
    + intros i0 j0 id0 [H|H]; inversion H; subst. eapply (A5b (active s) j0 id). left; reflexivity.
    + destruct (wire_rev s) as [|p rest] eqn:W; [reflexivity|].
      rewrite consec_cons. cbn [c_seq]. rewrite (A6h _ _ eq_refl), Z.eqb_refl. exact A6.
    + intros c rest Hw. inversion Hw; subst; clear Hw. cbn. unfold updI. rewrite Nat.eqb_refl. reflexivity.
  - (* ERenInstall *)
    destruct (r s) eqn:R; try discriminate. inversion St; subst; clear St.
    pose proof I as [A1 A2 A2g A3 A4 A5 A5a A5b A5c A6 A6h]. unfold live in A6h. rewrite R in *. cbn in *.
    destruct (A5b i j 0 (or_intror eq_refl)) as [B1 B2].
    constructor; cbn; auto; try discriminate; try congruence.
    all: try fin5b. all: try finJ5.
    + intros t pc i0 H Hi. pose proof (A2 eq_refl _ _ H) as Q. apply quiet_facts in Q. destruct Q as (Q & _). congruence.
  - (* ERenFail *)
    destruct (r s) eqn:R; try discriminate. inversion St; subst; clear St.
    pose proof I as [A1 A2 A2g A3 A4 A5 A5a A5b A5c A6 A6h]. unfold live in A6h. rewrite R in *. cbn in *.
    pose proof (A5 _ eq_refl) as Ei. subst i.
    constructor; cbn; auto; try discriminate; try congruence.
    all: try fin5b. all: try finJ5.
    + intros c rest Hw. unfold updI. rewrite Nat.eqb_refl. exact (A6h _ _ Hw).
  - (* ERenUnlock *)
    pose proof I as [A1 A2 A2g A3 A4 A5 A5a A5b A5c A6 A6h].
    destruct (r s) eqn:R; try discriminate; inversion St; subst; clear St.
    + unfold live in A6h. rewrite R in *. cbn in *. pose proof (A5c _ _ eq_refl) as Ej.
      constructor; cbn; auto; try discriminate; try congruence.
      all: try fin5b. all: try finJ5.
      intros t pc i0 H Hi. unfold updI. destruct (Nat.eqb_spec i0 i); [|eapply A4; eassumption].
      pose proof (A2 eq_refl _ _ H) as Q. apply quiet_facts in Q. destruct Q as (_ & Q & _). congruence.
    + unfold live in A6h. rewrite R in *. cbn in *.
      constructor; cbn; auto; try discriminate; try congruence.
      all: try fin5b. all: try finJ5.
      intros t pc i0 H Hi. unfold updI. destruct (Nat.eqb_spec i0 i); [|eapply A4; eassumption].
      pose proof (A2 eq_refl _ _ H) as Q. apply quiet_facts in Q. destruct Q as (_ & Q & _). congruence.
Qed.

Ltac sender_case St :=
  unfold sstep in St;
  match type of St with context [nth_error ?l ?t] =>
    let pc := fresh "pc" in
    destruct (nth_error l t) as [pc|] eqn:Ht; [|discriminate]; destruct pc; try discriminate
  end.

Lemma runP_inv : forall P evs s s', inv s -> runP P evs s = Some s' -> inv s'.
Proof.
  induction evs as [|e rest IH]; cbn; intros s s' I R.
  - inversion R; subst; exact I.
  - destruct (P s e); try discriminate. destruct (step s e) eqn:E; try discriminate.
    eapply IH; [eapply step_inv; eassumption|exact R].
Qed.

Lemma reachableP_inv : forall P a b s, reachableP P a b s -> inv s.
Proof. intros P a b s [evs R]. eapply runP_inv; [apply inv_init|exact R]. Qed.

(* EVERY run: every chunk on the wire carries the successor of the number of the chunk before it *)
Lemma wire_consecutive_full : forall a b s, reachable a b s -> consecutive_rev (wire_rev s) = true.
Proof. intros a b s R. exact (J6 _ (reachableP_inv _ _ _ _ R)). Qed.

(* ---------------------------------------------------------------- messages are never interleaved (every run) *)

Definition wrote (pc : spc) : bool :=
  match pc with SWriting _ _ _ (S _) | SWritten _ | SUnlocked | SDone => true | _ => false end.

Record inv3 (s : st) : Prop := {
  K1 : contiguous_rev (wire_rev s) = true;
  K2 : forall c t, In c (wire_rev s) -> c_owner c = OwnS t ->
       exists pc, nth_error (ss s) t = Some pc /\ wrote pc = true;
  K3 : forall t n i id k, nth_error (ss s) t = Some (SWriting n i id (S k)) ->
       exists c rest, wire_rev s = c :: rest /\ c_owner c = OwnS t;
  K4 : forall c n, In c (wire_rev s) -> c_owner c = OwnR n -> (n < ropn s)%nat }.

Lemma owner_eqb_eq : forall x y, owner_eqb x y = true <-> x = y.
Proof.
  intros [x|x] [y|y]; cbn; split; intro H; try discriminate; try (apply Nat.eqb_eq in H; congruence);
    inversion H; subst; apply Nat.eqb_refl.
Qed.

Lemma fresh_owner : forall o w, (forall q, In q w -> c_owner q <> o) ->
  existsb (fun q => owner_eqb (c_owner q) o) w = false.
Proof.
  intros o w H. destruct (existsb _ w) eqn:E; [|reflexivity].
  apply existsb_exists in E. destruct E as (q & Hq & Eq). apply owner_eqb_eq in Eq. exfalso. eapply H; eassumption.
Qed.

Definition contig_head (c : chunk) (l : list chunk) : bool :=
  match l with
  | [] => true
  | p :: _ => owner_eqb (c_owner c) (c_owner p) || negb (existsb (fun q => owner_eqb (c_owner q) (c_owner c)) l)
  end.

Lemma contig_unfold : forall c l, contiguous_rev (c :: l) = contig_head c l && contiguous_rev l.
Proof. intros c [|p l]; reflexivity. Qed.

Lemma inv3_init : forall a b, inv3 (init a b).
Proof.
  intros a b. constructor; cbn.
  - reflexivity.
  - intros c t [].
  - intros t n i id k H. exfalso. eapply nth_nil; exact H.
  - intros c n [].
Qed.

(* a sender step that writes nothing *)
Lemma inv3_sender_frame : forall s s' t pc pc',
  inv3 s -> nth_error (ss s) t = Some pc -> ss s' = upd_nth (ss s) t pc' -> wire_rev s' = wire_rev s -> ropn s' = ropn s ->
  (wrote pc = true -> wrote pc' = true) -> (forall n i id k, pc' <> SWriting n i id (S k)) -> inv3 s'.
Proof.
  intros s s' t pc pc' K Ht Hs Hw Hr Wr Nw. constructor; rewrite ?Hw, ?Hs, ?Hr.
  - exact (K1 _ K).
  - intros c t0 Hc Ho. destruct (K2 _ K c t0 Hc Ho) as (pc0 & H0 & W0).
    destruct (Nat.eq_dec t0 t) as [->|NE].
    + exists pc'. split; [eapply nth_upd_same; exact Ht|]. apply Wr. congruence.
    + exists pc0. split; [rewrite nth_upd_other by exact NE; exact H0|exact W0].
  - intros t0 n i id k H. destruct (Nat.eq_dec t0 t) as [->|NE].
    + erewrite nth_upd_same in H by exact Ht. inversion H. exfalso. eapply Nw. eassumption.
    + rewrite nth_upd_other in H by exact NE. exact (K3 _ K _ _ _ _ _ H).
  - exact (K4 _ K).
Qed.

(* sender t, holding the lock of the active instance with k chunks written, writes one more *)
Lemma inv3_emit : forall s t n id k final pc',
  inv s -> inv3 s -> nth_error (ss s) t = Some (SWriting n (active s) id k) ->
  (final = false -> pc' = SWriting n (active s) id (S k)) -> wrote pc' = true ->
  (forall n' i' id' k', pc' = SWriting n' i' id' (S k') -> final = false) ->
  inv3 (set_ss (emit s (active s) id final false (OwnS t)) (upd_nth (ss s) t pc')).
Proof.
  intros s t n id k final pc' I K Ht Hn Wp Hf.
  pose proof (J4 _ I _ _ _ Ht eq_refl) as Lk.
  constructor; cbn -[contiguous_rev].
  - rewrite contig_unfold. rewrite (K1 _ K), andb_true_r. unfold contig_head.
    destruct (wire_rev s) as [|p rest] eqn:W; [reflexivity|]. cbn [c_owner].
    destruct k as [|k'].
    + (* nothing written by t so far: the owner is fresh *)
      rewrite fresh_owner; [apply orb_true_r|].
      intros q Hq Eq. rewrite <- W in Hq.
      destruct (K2 _ K q t Hq Eq) as (pc0 & H0 & W0). rewrite Ht in H0. inversion H0; subst. discriminate.
    + (* t continues its own message *)
      destruct (K3 _ K _ _ _ _ _ Ht) as (c0 & r0 & E0 & O0). rewrite W in E0. inversion E0; subst.
      rewrite O0. cbn. rewrite Nat.eqb_refl. reflexivity.
  - intros c t0 [Hc|Hc] Hown.
    + subst c. cbn in Hown. inversion Hown; subst t0.
      exists pc'. split; [eapply nth_upd_same; exact Ht|exact Wp].
    + destruct (K2 _ K c t0 Hc Hown) as (pc0 & H0 & W0). destruct (Nat.eq_dec t0 t) as [->|NE].
      * exists pc'. split; [eapply nth_upd_same; exact Ht|exact Wp].
      * exists pc0. split; [rewrite nth_upd_other by exact NE; exact H0|exact W0].
  - intros t0 n0 i0 id0 k0 H. destruct (Nat.eq_dec t0 t) as [->|NE].
    + erewrite nth_upd_same in H by exact Ht. eexists. eexists. split; reflexivity.
    + rewrite nth_upd_other in H by exact NE. exfalso.
      assert (Ei : i0 = active s) by (eapply (J1 _ I); [exact H|reflexivity]). subst i0.
      pose proof (J4 _ I _ _ _ H eq_refl) as Lk0. rewrite Lk in Lk0. inversion Lk0. congruence.
  - intros c n0 [Hc|Hc] Hown.
    + subst c. cbn in Hown. discriminate.
    + exact (K4 _ K c n0 Hc Hown).
Qed.

Lemma step_inv3 : forall s e s', inv s -> inv3 s -> step s e = Some s' -> inv3 s'.
Proof.
  intros s e s' I K St.
  destruct e; cbn in St.
  - (* ESpawn *)
    inversion St; subst; clear St. constructor; cbn.
    + exact (K1 _ K).
    + intros c t Hc Ho. destruct (K2 _ K c t Hc Ho) as (pc & H & W). exists pc. split; [|exact W].
      rewrite nth_error_app1; [exact H|]. apply nth_error_Some. congruence.
    + intros t n0 i id k H. apply nth_app_cases in H. destruct H as [H|H]; [exact (K3 _ K _ _ _ _ _ H)|discriminate].
    + exact (K4 _ K).
  - sender_case St. destruct (gate s); try discriminate. inversion St; subst; clear St.
    eapply (inv3_sender_frame s); try eassumption; try reflexivity; try (intros; discriminate).
  - sender_case St. inversion St; subst; clear St.
    eapply (inv3_sender_frame s); try eassumption; try reflexivity; try (intros; discriminate).
  - sender_case St. inversion St; subst; clear St.
    eapply (inv3_sender_frame s); try eassumption; try reflexivity; try (intros; discriminate).
  - sender_case St. destruct (ilock s i); try discriminate. inversion St; subst; clear St.
    eapply (inv3_sender_frame s); try eassumption; try reflexivity; try (intros; discriminate).
  - (* EChunk *)
    sender_case St. inversion St; subst; clear St.
    assert (Ei : i = active s) by (eapply (J1 _ I); [exact Ht|reflexivity]). subst i.
    eapply inv3_emit; try eassumption.
    + intro E; rewrite E; reflexivity.
    + destruct (Nat.eqb k n); reflexivity.
    + intros n' i' id' k' E. destruct (Nat.eqb k n); [discriminate|reflexivity].
  - (* EFail *)
    sender_case St. inversion St; subst; clear St.
    eapply (inv3_sender_frame s); try eassumption; try reflexivity; try (intros _; reflexivity); try (intros; discriminate).
  - sender_case St. inversion St; subst; clear St.
    eapply (inv3_sender_frame s); try eassumption; try reflexivity; try (intros _; reflexivity); try (intros; discriminate).
  - sender_case St. inversion St; subst; clear St.
    eapply (inv3_sender_frame s); try eassumption; try reflexivity; try (intros _; reflexivity); try (intros; discriminate).
  - destruct (r s); try discriminate. inversion St; subst. destruct K; constructor; assumption.
  - destruct (r s); try discriminate. inversion St; subst. destruct K; constructor; assumption.
  - destruct (r s); try discriminate. destruct (Nat.eqb (pending s) 0); try discriminate. inversion St; subst. destruct K; constructor; assumption.
  - destruct (r s); try discriminate. destruct (ilock s i); try discriminate. inversion St; subst. destruct K; constructor; assumption.
  - destruct (r s); try discriminate. inversion St; subst. destruct K; constructor; assumption.
  - (* ERenOpn *)
    destruct (r s) eqn:R; try discriminate. inversion St; subst; clear St.
    assert (M : mid (r s) = true) by (rewrite R; reflexivity).
    constructor; cbn -[contiguous_rev].
    + rewrite contig_unfold. rewrite (K1 _ K), andb_true_r. unfold contig_head.
      destruct (wire_rev s) as [|p rest] eqn:W; [reflexivity|]. cbn [c_owner].
      rewrite fresh_owner; [apply orb_true_r|]. intros q Hq Eq. rewrite <- W in Hq.
      pose proof (K4 _ K q _ Hq Eq). lia.
    + intros c t [Hc|Hc] Ho; [subst c; cbn in Ho; discriminate|exact (K2 _ K c t Hc Ho)].
    + intros t n i0 id0 k H. pose proof (J2 _ I M _ _ H). discriminate.
    + intros c n [Hc|Hc] Ho; [subst c; cbn in Ho; inversion Ho; lia|pose proof (K4 _ K c n Hc Ho); lia].
  - destruct (r s); try discriminate. inversion St; subst. destruct K; constructor; assumption.
  - destruct (r s); try discriminate. inversion St; subst. destruct K; constructor; assumption.
  - destruct (r s); try discriminate; inversion St; subst; destruct K; constructor; assumption.
Qed.

Lemma reachable_inv3 : forall P a b s, reachableP P a b s -> inv3 s.
Proof.
  intros P a b s [evs R].
  assert (G : forall evs s0 s1, inv s0 -> inv3 s0 -> runP P evs s0 = Some s1 -> inv3 s1).
  { induction evs0 as [|e rest IH]; cbn; intros s0 s1 I K R0.
    - inversion R0; subst; exact K.
    - destruct (P s0 e); try discriminate. destruct (step s0 e) eqn:E; try discriminate.
      eapply IH; [eapply step_inv; eassumption|eapply step_inv3; eassumption|exact R0]. }
  exact (G evs _ _ (inv_init a b) (inv3_init a b) R).
Qed.

Lemma wire_contiguous_full : forall a b s, reachable a b s -> contiguous_rev (wire_rev s) = true.
Proof. intros a b s R. exact (K1 _ (reachable_inv3 _ _ _ _ R)). Qed.

(* the sequence counter step: +1, wrapping to 1 above 2^32 - 1024 (Part 6, 6.7.2.4).
   (x = 2^32 - 1 itself is not a value the counter can take: every step yields at most 2^32 - 1024.) *)
Lemma next_seq_formula : forall x, 0 <= x < 4294967295 ->
  go_nextSequenceNumber x = (if x <? 4294966272 then x + 1 else 1) /\ 1 <= go_nextSequenceNumber x <= 4294966272.
Proof.
  intros x Hx. unfold go_nextSequenceNumber. cbv zeta.
  rewrite Z.mod_small by lia.
  destruct (Z.ltb_spec x 4294966272) as [L|L]; destruct (Z.gtb_spec (x + 1) (4294967295 - 1023)); lia.
Qed.

(* ---------------------------------------------------------------- C16: no chunk under a superseded token *)

(* every chunk of every run is secured by the instance that was installed when it was written, or a newer one *)
Lemma step_not_superseded : forall s e s', inv s -> forallb not_superseded (wire_rev s) = true ->
  step s e = Some s' -> forallb not_superseded (wire_rev s') = true.
Proof.
  intros s e s' I F St.
  destruct e; cbn in St.
  - inversion St; subst. exact F.
  - sender_case St. destruct (gate s); try discriminate. inversion St; subst. exact F.
  - sender_case St. inversion St; subst. exact F.
  - sender_case St. inversion St; subst. exact F.
  - sender_case St. destruct (ilock s i); try discriminate. inversion St; subst. exact F.
  - sender_case St. inversion St; subst; clear St.
    assert (Ei : i = active s) by (eapply (J1 _ I); [exact Ht|reflexivity]). subst i.
    cbn. rewrite F. unfold not_superseded. cbn. rewrite Nat.leb_refl. reflexivity.
  - sender_case St. inversion St; subst. exact F.
  - sender_case St. inversion St; subst. exact F.
  - sender_case St. inversion St; subst. exact F.
  - destruct (r s); try discriminate. inversion St; subst. exact F.
  - destruct (r s); try discriminate. inversion St; subst. exact F.
  - destruct (r s); try discriminate. destruct (Nat.eqb (pending s) 0); try discriminate. inversion St; subst. exact F.
  - destruct (r s); try discriminate. destruct (ilock s i); try discriminate. inversion St; subst. exact F.
  - destruct (r s); try discriminate. inversion St; subst. exact F.
  - destruct (r s) eqn:R; try discriminate. inversion St; subst; clear St.
    destruct (J5b _ I i j id (or_introl R)) as [B1 B2].
    cbn. rewrite F. unfold not_superseded. cbn. rewrite andb_true_r. apply Nat.leb_le. lia.
  - destruct (r s); try discriminate. inversion St; subst. exact F.
  - destruct (r s); try discriminate. inversion St; subst. exact F.
  - destruct (r s); try discriminate; inversion St; subst; exact F.
Qed.

Lemma not_superseded_full : forall a b s, reachable a b s -> forallb not_superseded (wire_rev s) = true.
Proof.
  intros a b s [evs R].
  assert (G : forall evs s0 s1, inv s0 -> forallb not_superseded (wire_rev s0) = true -> run evs s0 = Some s1 ->
              forallb not_superseded (wire_rev s1) = true).
  { unfold run. induction evs0 as [|e rest IH]; cbn; intros s0 s1 I F R0.
    - inversion R0; subst; exact F.
    - destruct (step s0 e) eqn:E; try discriminate.
      eapply IH; [eapply step_inv; eassumption|eapply step_not_superseded; eassumption|exact R0]. }
  exact (G evs _ _ (inv_init a b) eq_refl R).
Qed.

(* when no renewal fails the instances along the wire never go back *)
Definition no_fail (_ : st) (e : ev) : bool := match e with ERenFail => false | _ => true end.

Definition inv2 (s : st) : Prop :=
  tokens_monotone_rev (wire_rev s) = true /\ forall c rest, wire_rev s = c :: rest -> (c_inst c <= live s)%nat.

Lemma mono_cons : forall c p rest,
  tokens_monotone_rev (c :: p :: rest) = (c_inst p <=? c_inst c)%nat && tokens_monotone_rev (p :: rest).
Proof. reflexivity. Qed.

Lemma inv2_frame : forall s s', wire_rev s' = wire_rev s -> live s' = live s -> inv2 s -> inv2 s'.
Proof. intros s s' W L [A B]. split; rewrite W; [exact A|]. intros c rest H. rewrite L. eapply B; exact H. Qed.

Lemma step_inv2 : forall s e s', inv s -> inv2 s -> no_fail s e = true -> step s e = Some s' -> inv2 s'.
Proof.
  intros s e s' I I2 Ok St.
  destruct e; cbn in St.
  - inversion St; subst. apply (inv2_frame s); [reflexivity|reflexivity|exact I2].
  - sender_case St. destruct (gate s); try discriminate. inversion St; subst. apply (inv2_frame s); [reflexivity|reflexivity|exact I2].
  - sender_case St. inversion St; subst. apply (inv2_frame s); [reflexivity|reflexivity|exact I2].
  - sender_case St. inversion St; subst. apply (inv2_frame s); [reflexivity|reflexivity|exact I2].
  - sender_case St. destruct (ilock s i); try discriminate. inversion St; subst. apply (inv2_frame s); [reflexivity|reflexivity|exact I2].
  - (* EChunk *)
    sender_case St. inversion St; subst; clear St.
    assert (NM : mid (r s) = false) by (eapply not_mid_if_not_quiet; [exact I|exact Ht|reflexivity]).
    assert (Ei : i = active s) by (eapply (J1 _ I); [exact Ht|reflexivity]). subst i.
    pose proof (live_active _ NM) as LA. destruct I2 as [A B].
    assert (L' : forall pc', live (set_ss (emit s (active s) id (Nat.eqb k n) false (OwnS t)) pc') = active s)
      by (intro; unfold live; cbn; fold (live s); exact LA).
    split.
    + cbn -[tokens_monotone_rev]. destruct (wire_rev s) as [|p rest] eqn:W; [reflexivity|].
      rewrite mono_cons. cbn [c_inst]. rewrite A, andb_true_r. apply Nat.leb_le. rewrite <- LA. eapply B; reflexivity.
    + intros c rest H. cbn in H. inversion H; subst. cbn [c_inst]. rewrite L'. apply Nat.le_refl.
  - sender_case St. inversion St; subst. apply (inv2_frame s); [reflexivity|reflexivity|exact I2].
  - sender_case St. inversion St; subst. apply (inv2_frame s); [reflexivity|reflexivity|exact I2].
  - sender_case St. inversion St; subst. apply (inv2_frame s); [reflexivity|reflexivity|exact I2].
  - destruct (r s) eqn:R; try discriminate. inversion St; subst. apply (inv2_frame s); [reflexivity|unfold live; cbn; rewrite R; reflexivity|exact I2].
  - destruct (r s) eqn:R; try discriminate. inversion St; subst. apply (inv2_frame s); [reflexivity|unfold live; cbn; rewrite R; reflexivity|exact I2].
  - destruct (r s) eqn:R; try discriminate. destruct (Nat.eqb (pending s) 0); try discriminate. inversion St; subst.
    apply (inv2_frame s); [reflexivity|unfold live; cbn; rewrite R; reflexivity|exact I2].
  - destruct (r s) eqn:R; try discriminate. destruct (ilock s i); try discriminate. inversion St; subst.
    apply (inv2_frame s); [reflexivity|unfold live; cbn; rewrite R; reflexivity|exact I2].
  - (* ERenCopy *)
    destruct (r s) eqn:R; try discriminate. inversion St; subst; clear St. destruct I2 as [A B].
    split; [exact A|]. intros c rest H. cbn in H. unfold live. cbn.
    pose proof (B _ _ H) as X. unfold live in X. rewrite R in X. pose proof (J5a _ I). lia.
  - (* ERenOpn *)
    destruct (r s) eqn:R; try discriminate. inversion St; subst; clear St. destruct I2 as [A B].
    assert (Lv : live s = j) by (unfold live; rewrite R; reflexivity).
    split.
    + cbn -[tokens_monotone_rev]. destruct (wire_rev s) as [|p rest] eqn:W; [reflexivity|].
      rewrite mono_cons. cbn [c_inst]. rewrite A, andb_true_r. apply Nat.leb_le. rewrite <- Lv. eapply B; reflexivity.
    + intros c rest H. cbn in H. inversion H; subst. unfold live. cbn. apply Nat.le_refl.
  - (* ERenInstall *)
    destruct (r s) eqn:R; try discriminate. inversion St; subst; clear St.
    apply (inv2_frame s); [reflexivity| |exact I2]. unfold live. cbn. rewrite R. reflexivity.
  - cbn in Ok. discriminate.
  - (* ERenUnlock *)
    destruct (r s) eqn:R; try discriminate; inversion St; subst; clear St;
      (apply (inv2_frame s); [reflexivity| |exact I2]; unfold live; cbn; rewrite R; reflexivity).
Qed.

Lemma tokens_monotone_no_fail : forall a b s, reachableP no_fail a b s -> tokens_monotone_rev (wire_rev s) = true.
Proof.
  intros a b s [evs R].
  assert (G : forall evs s0 s1, inv s0 -> inv2 s0 -> runP no_fail evs s0 = Some s1 -> inv2 s1).
  { induction evs0 as [|e rest IH]; cbn; intros s0 s1 I I2 R0.
    - inversion R0; subst; exact I2.
    - destruct (no_fail s0 e) eqn:Ok; try discriminate. destruct (step s0 e) eqn:E; try discriminate.
      eapply IH; [eapply step_inv; eassumption|eapply step_inv2; eassumption|exact R0]. }
  refine (proj1 (G evs _ _ (inv_init a b) _ R)). split; [reflexivity|]. intros c rest H. cbn in H. discriminate.
Qed.

(* ---------------------------------------------------------------- C16: the renewal instant *)

From Opcua Require Import Gen.SendSide.

(* the renewal delay is at least half and less than the whole lifetime, for every lifetime of at least 8 ns
   (lifetimes are whole milliseconds on the wire) *)
Lemma renewal_delay_bounds : forall L, 8 <= L -> L <= 2 * go_renewalDelay L /\ go_renewalDelay L < L.
Proof.
  intros L HL. unfold go_renewalDelay. rewrite Z.quot_div_nonneg by lia.
  pose proof (Z.div_mod L 4 ltac:(lia)). pose proof (Z.mod_pos_bound L 4 ltac:(lia)). split; lia.
Qed.

(* lifetimes are whole milliseconds on the wire: exactly 75 % *)
Lemma renewal_delay_ms : forall ms, 0 <= ms -> go_renewalDelay (ms * 1000000) = ms * 750000.
Proof.
  intros ms H. unfold go_renewalDelay. replace (ms * 1000000) with ((ms * 250000) * 4) by lia.
  rewrite Z.quot_mul by lia. lia.
Qed.
