(* E1 codec, C01: round trip of DataValue (all mask combinations) and DiagnosticInfo (recursive), relative to the
   decoder one nesting level down. *)
From Coq Require Import NArith ZArith List Bool Lia.
From Coq.Strings Require Import Byte.
From Opcua Require Import Model.CodecTypes Model.Codec Model.CodecWf Model.CodecWfAll Proofs.CodecBase Proofs.CodecRoundtrip
  Proofs.CodecRT Proofs.CodecCustomsA.
Import ListNotations.
Open Scope Z_scope.

(* unfolding equations (all by computation) *)
Lemma encode_datavalue : forall reg mask value status st sp svt svp,
  encode reg (TCustom CDataValue) (VDataValue mask value status st sp svt svp) =
  eapp (EOk [byte_of_Z mask])
 (eapp (if bit mask 0 then match value with None => EPanic | Some x => encode reg (TCustom CVariant) x end else EOk [])
 (eapp (eopt (bit mask 1) (EOk (le 4 status)))
 (eapp (eopt (bit mask 2) (enc_time st))
 (eapp (eopt (bit mask 4) (EOk (le 2 sp)))
 (eapp (eopt (bit mask 3) (enc_time svt))
       (eopt (bit mask 5) (EOk (le 2 svp)))))))).
Proof. reflexivity. Qed.

Lemma encode_diag : forall reg mask sym ns locale loctext info status inner,
  encode reg (TCustom CDiagInfo) (VDiag mask sym ns locale loctext info status inner) =
  eapp (EOk [byte_of_Z mask])
 (eapp (eopt (bit mask 0) (EOk (le 4 sym)))
 (eapp (eopt (bit mask 1) (EOk (le 4 ns)))
 (eapp (eopt (bit mask 3) (EOk (le 4 locale)))
 (eapp (eopt (bit mask 2) (EOk (le 4 loctext)))
 (eapp (eopt (bit mask 4) (enc_string info))
 (eapp (eopt (bit mask 5) (EOk (le 4 status)))
       (if bit mask 6 then match inner with None => EPanic | Some i => encode reg (TCustom CDiagInfo) i end
        else EOk []))))))).
Proof. reflexivity. Qed.

Lemma rwf_datavalue : forall reg m value status st sp svt svp,
  rwf reg (TCustom CDataValue) (VDataValue m value status st sp svt svp) =
  byte_ok m &&
  imp (bit m 0) (match value with Some x => rwf reg (TCustom CVariant) x | None => false end) &&
  imp (bit m 1) (u_ok 4 status) && imp (bit m 2) (time_ok st) && imp (bit m 4) (u_ok 2 sp) &&
  imp (bit m 3) (time_ok svt) && imp (bit m 5) (u_ok 2 svp).
Proof. reflexivity. Qed.

Lemma rnorm_datavalue : forall reg m value status st sp svt svp,
  rnorm reg (TCustom CDataValue) (VDataValue m value status st sp svt svp) =
  VDataValue m
    (if bit m 0 then match value with Some x => Some (rnorm reg (TCustom CVariant) x) | None => None end
     else Some zero_variant)
    (if bit m 1 then status else 0) (if bit m 2 then norm_time st else None) (if bit m 4 then sp else 0)
    (if bit m 3 then norm_time svt else None) (if bit m 5 then svp else 0).
Proof. reflexivity. Qed.

Lemma rwf_diag : forall reg m sym ns locale loctext info status inner,
  rwf reg (TCustom CDiagInfo) (VDiag m sym ns locale loctext info status inner) =
  byte_ok m && imp (bit m 0) (i_ok 4 sym) && imp (bit m 1) (i_ok 4 ns) && imp (bit m 3) (i_ok 4 locale) &&
  imp (bit m 2) (i_ok 4 loctext) && imp (bit m 4) (str_ok info) && imp (bit m 5) (u_ok 4 status) &&
  imp (bit m 6) (match inner with Some i => rwf reg (TCustom CDiagInfo) i | None => false end).
Proof. reflexivity. Qed.

Lemma rnorm_diag : forall reg m sym ns locale loctext info status inner,
  rnorm reg (TCustom CDiagInfo) (VDiag m sym ns locale loctext info status inner) =
  VDiag m (if bit m 0 then sym else 0) (if bit m 1 then ns else 0) (if bit m 3 then locale else 0)
        (if bit m 2 then loctext else 0) (if bit m 4 then info else []) (if bit m 5 then status else 0)
        (if bit m 6 then match inner with Some i => Some (rnorm reg (TCustom CDiagInfo) i) | None => None end else None).
Proof. reflexivity. Qed.

Ltac use_imp Hb :=
  repeat match goal with H : imp ?b _ = true |- _ => rewrite Hb in H; cbn [imp] in H end.

(* one mask-governed field: RTb_opt, the hypothesis about the field is found among the imp hypotheses *)
Ltac opt_field lem :=
  unfold eopt; eapply RTb_opt; let Hb := fresh "Hb" in intros Hb; use_imp Hb; apply lem; (assumption || lia).

Section Customs.
  Variable reg : list (Z * Z * ty).
  Variable rec : ty -> dec val.
  Variable k : nat.

  Lemma RTb_datavalue : forall m value status st sp svt svp,
    rwf reg (TCustom CDataValue) (VDataValue m value status st sp svt svp) = true ->
    (forall x, value = Some x -> bit m 0 = true -> rwf reg (TCustom CVariant) x = true ->
       RTb 1 k (encode reg (TCustom CVariant) x) (rec (TCustom CVariant)) (rnorm reg (TCustom CVariant) x)) ->
    RTb 1 (S k) (encode reg (TCustom CDataValue) (VDataValue m value status st sp svt svp)) (dec_datavalue rec)
        (rnorm reg (TCustom CDataValue) (VDataValue m value status st sp svt svp)).
  Proof.
    intros m value status st sp svt svp H Hrec. rewrite rwf_datavalue in H. split_and.
    rewrite encode_datavalue, rnorm_datavalue. unfold dec_datavalue. apply RTb_tick.
    assert (HV : exists xv, (if bit m 0 then match value with Some x => Some (rnorm reg (TCustom CVariant) x) | None => None end
                             else Some zero_variant) = Some xv /\
               RTb 0 k (if bit m 0 then match value with None => EPanic | Some x => encode reg (TCustom CVariant) x end else EOk [])
                     (if bit m 0 then rec (TCustom CVariant) else bind (tick (csize CVariant)) (fun _ => ret zero_variant)) xv).
    { destruct (bit m 0) eqn:B0.
      - use_imp B0. destruct value as [x|]; [|discriminate]. eexists. split; [reflexivity|].
        eapply RTb_weaken; [apply Hrec; [reflexivity|reflexivity|assumption]|lia|apply le_n].
      - eexists. split; [reflexivity|]. apply RTb_tick. apply RTb_ret. }
    destruct HV as [xv [Exv HV]]. rewrite Exv.
    rt_weaken ltac:(eapply RTb_bind_strict; [apply le_n|apply RTb_byte; assumption|]; cbv beta;
                    eapply RTb_bind; [exact HV|];
                    eapply RTb_bind; [opt_field RTb_uok|];
                    eapply RTb_bind; [opt_field RTb_time|];
                    eapply RTb_bind; [opt_field RTb_uok|];
                    eapply RTb_bind; [opt_field RTb_time|];
                    match goal with |- RTb _ _ _ _ (VDataValue ?a ?b ?c ?d ?e ?f _) =>
                      apply (RTb_fmap _ _ _ _ _ _ (fun x => VDataValue a b c d e f x)) end;
                    opt_field RTb_uok).
  Qed.

  Lemma RTb_diag : forall m sym ns locale loctext info status inner,
    rwf reg (TCustom CDiagInfo) (VDiag m sym ns locale loctext info status inner) = true ->
    (forall x, inner = Some x -> bit m 6 = true -> rwf reg (TCustom CDiagInfo) x = true ->
       RTb 1 k (encode reg (TCustom CDiagInfo) x) (rec (TCustom CDiagInfo)) (rnorm reg (TCustom CDiagInfo) x)) ->
    RTb 1 (S k) (encode reg (TCustom CDiagInfo) (VDiag m sym ns locale loctext info status inner)) (dec_diag rec)
        (rnorm reg (TCustom CDiagInfo) (VDiag m sym ns locale loctext info status inner)).
  Proof.
    intros m sym ns locale loctext info status inner H Hrec. rewrite rwf_diag in H. split_and.
    rewrite encode_diag, rnorm_diag. unfold dec_diag. apply RTb_tick.
    assert (HI : RTb 0 k (if bit m 6 then match inner with None => EPanic | Some i => encode reg (TCustom CDiagInfo) i end else EOk [])
                     (if bit m 6 then bind (rec (TCustom CDiagInfo)) (fun i => ret (Some i)) else ret None)
                     (if bit m 6 then match inner with Some i => Some (rnorm reg (TCustom CDiagInfo) i) | None => None end
                      else None)).
    { destruct (bit m 6) eqn:B6; [|apply RTb_ret].
      use_imp B6. destruct inner as [x|]; [|discriminate].
      apply (RTb_fmap _ _ _ _ _ _ (@Some val)).
      eapply RTb_weaken; [apply Hrec; [reflexivity|reflexivity|assumption]|lia|apply le_n]. }
    rt_weaken ltac:(eapply RTb_bind_strict; [apply le_n|apply RTb_byte; assumption|]; cbv beta;
                    eapply RTb_bind; [opt_field RTb_iok|];
                    eapply RTb_bind; [opt_field RTb_iok|];
                    eapply RTb_bind; [opt_field RTb_iok|];
                    eapply RTb_bind; [opt_field RTb_iok|];
                    eapply RTb_bind; [opt_field RTb_string|];
                    eapply RTb_bind; [opt_field RTb_uok|];
                    match goal with |- RTb _ _ _ _ (VDiag ?a ?b ?c ?d ?e ?f ?g _) =>
                      apply (RTb_fmap _ _ _ _ _ _ (fun x => VDiag a b c d e f g x)) end;
                    exact HI).
  Qed.
End Customs.
