(* Part6Proofs.v — the chunk model (signAndEncrypt / verifyAndDecrypt) against the independent Part 6
   specification (Model/Part6Spec.v), in both directions (C08). *)
From Coq Require Import ZArith Bool Lia.
From Coq Require Import List.
From Coq.Strings Require Import Byte.
From Opcua Require Import Model.Layout Model.ChunkBytes Model.ChunkModel Model.Part6Spec
  Proofs.LayoutProofs Proofs.ChunkBytesProofs Proofs.ChunkProofs.
Import ListNotations.
Open Scope Z_scope.

Ltac Zify.zify_post_hook ::= Z.div_mod_to_equations.

Ltac ok_inv H := match type of H with Ok ?a = Ok ?b => let E := fresh "E" in assert (E : b = a) by congruence; subst b end.

Definition signed_mode (m : sec_mode) : bool := match m with ModeNone => false | _ => true end.

(* the specification's view of a sender S / receiver R pair *)
Definition spec_of (m : sec_mode) (asym : bool) (S R : algo) : spec_keys :=
  mkSpecKeys (signed_mode m) (signed_mode m && encrypts m asym) (asym && (8 * a_block S >? 2048))
             (a_plain S) (a_block S) (a_sig S) (a_enc S) (a_dec R) (a_sign S) (a_verify R).

(* what EncodeChunks hands to signAndEncrypt: MessageSize = unsecured length *)
Definition raw_of (x : content) : bytes :=
  (x_t4 x ++ le32 (8 + zlen (x_h8 x) + 8 + zlen (x_body x)) ++ x_h8 x) ++ (le32 (x_seq x) ++ le32 (x_req x) ++ x_body x).

Definition hl_of (x : content) : Z := 8 + zlen (x_h8 x).

Definition model_secure (m : sec_mode) (asym : bool) (S : algo) (x : content) : res bytes :=
  sign_encrypt m asym S (hl_of x) (raw_of x).

(* verifyAndDecrypt followed by the header/sequence-header parsing of readChunk *)
Definition model_receive (m : sec_mode) (pnone asym : bool) (R : algo) (hl : Z) (chunk : bytes) : res content :=
  match verify_decrypt m pnone asym R hl chunk with
  | Ok d => if zlen d <? 8 then Err EDecode
            else Ok (mkContent (ztake 4 chunk) (zdrop 8 (ztake hl chunk)) (de32 d) (de32 (zdrop 4 d)) (zdrop 8 d))
  | Err e => Err e
  | Panic => Panic
  end.

Definition wf_content (x : content) : Prop :=
  zlen (x_t4 x) = 4 /\ 0 <= x_seq x < 4294967296 /\ 0 <= x_req x < 4294967296.

(* the two descriptions of the padding bytes coincide *)
Lemma footer_is_pad_string (k : spec_keys) n : 0 <= n -> k_encrypted k = true ->
  footer_padding k n = pad_string (k_extra k) n.
Proof.
  intros Hn He. unfold footer_padding, pad_string. rewrite He.
  replace (Z.to_nat (n + 1)) with (S (Z.to_nat n)) by lia. cbn [repeat app].
  rewrite Z.shiftr_div_pow2 by lia. change (2 ^ 8) with 256. reflexivity.
Qed.

Lemma forallb_repeat_b8 v n k : v = n mod 256 -> forallb (fun b => zb b =? v) (repeat (b8 n) k) = true.
Proof. intros ->. induction k; [reflexivity|]. cbn. rewrite zb_b8, Z.eqb_refl. exact IHk. Qed.

Lemma parse_inner t4 h8 size sq rq body :
  zlen t4 = 4 -> 0 <= sq < 4294967296 -> 0 <= rq < 4294967296 ->
  let hdr := t4 ++ le32 size ++ h8 in
  let inner := le32 sq ++ le32 rq ++ body in
  (if zlen inner <? 8 then None
   else Some (mkContent (ztake 4 hdr) (zdrop 8 hdr) (de32 inner) (de32 (zdrop 4 inner)) (zdrop 8 inner)))
  = Some (mkContent t4 h8 sq rq body).
Proof.
  intros H4 Hs Hr hdr inner. pose proof (zlen_nonneg body).
  replace (zlen inner <? 8) with false
    by (symmetry; apply Z.ltb_ge; unfold inner; rewrite !zlen_app, !zlen_le32; lia).
  unfold hdr, inner. rewrite ztake_app_exact by exact H4.
  rewrite (app_assoc t4), zdrop_app_exact by (rewrite zlen_app, zlen_le32; lia).
  rewrite de32_le32, Z.mod_small by lia.
  replace (zdrop 4 (le32 sq ++ le32 rq ++ body)) with (le32 rq ++ body) by reflexivity.
  rewrite de32_le32, Z.mod_small by lia.
  replace (zdrop 8 (le32 sq ++ le32 rq ++ body)) with body by reflexivity. reflexivity.
Qed.

(* ---------------------------------------------------------------------------------------------- *)
(* a conforming receiver on a chunk of the secured form *)

Lemma spec_receive_encrypted k hl t4 h8 size sq rq body n s c :
  k_signed k = true -> k_encrypted k = true ->
  zlen t4 = 4 -> hl = 8 + zlen h8 -> 0 <= sq < 4294967296 -> 0 <= rq < 4294967296 ->
  let H' := t4 ++ le32 size ++ h8 in
  let P := le32 sq ++ le32 rq ++ body in
  size = zlen (H' ++ c) -> size < 4294967296 ->
  0 <= n < (if k_extra k then 65536 else 256) ->
  k_dec k c = Some (P ++ pad_string (k_extra k) n ++ s) -> zlen s = k_sig_len k ->
  k_verify k (H' ++ P ++ pad_string (k_extra k) n) s = true ->
  spec_receive k hl (H' ++ c) = Some (mkContent t4 h8 sq rq body).
Proof.
  intros Hsg Hen H4 Hhl Hsq Hrq H' P Hsize Hlt Hn Hdec Hs Hver.
  assert (HH : zlen H' = hl) by (unfold H'; rewrite !zlen_app, zlen_le32; lia).
  pose proof (zlen_nonneg h8) as Hh8. pose proof (zlen_nonneg c) as Hc0. pose proof (zlen_nonneg body) as Hb0.
  unfold spec_receive.
  replace ((zlen (H' ++ c) <? hl) || (hl <? 8)) with false
    by (symmetry; apply orb_false_iff; rewrite zlen_app; split; apply Z.ltb_ge; lia).
  rewrite ztake_app_exact, zdrop_app_exact by exact HH.
  assert (Hd4 : de32 (zdrop 4 H') = zlen (H' ++ c)).
  { assert (E : zdrop 4 H' = le32 size ++ h8) by (unfold H'; apply zdrop_app_exact; exact H4).
    rewrite E, de32_le32. pose proof (zlen_nonneg (H' ++ c)). rewrite Z.mod_small by lia. exact Hsize. }
  rewrite Hd4, Z.eqb_refl. cbn [negb]. rewrite Hen, Hdec, Hsg.
  set (pad := pad_string (k_extra k) n) in *.
  assert (Hpadlen : zlen pad = n + (if k_extra k then 2 else 1)) by (apply zlen_pad_string; lia).
  set (signed := P ++ pad).
  assert (HP : zlen P = 8 + zlen body) by (unfold P; rewrite !zlen_app, !zlen_le32; lia).
  assert (Hsl : zlen signed = zlen P + zlen pad) by (unfold signed; apply zlen_app).
  replace (P ++ pad ++ s) with (signed ++ s) by (unfold signed; rewrite <- app_assoc; reflexivity).
  rewrite zlen_app, Hs. replace (zlen signed + k_sig_len k - k_sig_len k) with (zlen signed) by lia.
  replace (zlen signed + k_sig_len k <? k_sig_len k) with false
    by (symmetry; apply Z.ltb_ge; pose proof (zlen_nonneg signed); lia).
  rewrite ztake_app_exact, zdrop_app_exact by reflexivity.
  replace (H' ++ signed) with (H' ++ P ++ pad) by reflexivity. rewrite Hver. cbn [negb andb].
  assert (Hnth : forall i, 0 <= i < zlen pad -> znth (zlen P + i) signed = znth i pad).
  { intros i Hi. unfold signed. rewrite znth_app_r by lia. f_equal. lia. }
  destruct (k_extra k) eqn:Ex.
  - replace (zlen signed <? 2) with false by (symmetry; apply Z.ltb_ge; lia).
    replace (zlen signed - 2) with (zlen P + n) by lia. replace (zlen signed - 1) with (zlen P + (n + 1)) by lia.
    rewrite !Hnth by lia. unfold pad. destruct (pad_string_last_extra n ltac:(lia)) as [E1 E2]. rewrite E1, E2, !zb_b8.
    rewrite Z.shiftr_div_pow2 by lia. change (2 ^ 8) with 256.
    assert (Hv : n / 256 mod 256 * 256 + n mod 256 = n) by lia. rewrite Hv.
    replace (zlen signed - (n + 2) <? 0) with false by (symmetry; apply Z.ltb_ge; lia).
    replace (zlen signed - (n + 2)) with (zlen P) by lia.
    assert (Hregion : zdrop (zlen P) (ztake (zlen P + (n + 1)) signed) = repeat (b8 n) (Z.to_nat (n + 1))).
    { unfold signed, pad, pad_string. rewrite (app_assoc P).
      rewrite ztake_app_exact by (rewrite zlen_app, zlen_repeat; lia).
      rewrite zdrop_app_exact by reflexivity. reflexivity. }
    rewrite Hregion. rewrite forallb_repeat_b8 by reflexivity.
    unfold signed. rewrite ztake_app_exact by reflexivity.
    unfold P. apply parse_inner; assumption.
  - replace (zlen signed <? 1) with false by (symmetry; apply Z.ltb_ge; lia).
    replace (zlen signed - 1) with (zlen P + n) by lia.
    rewrite Hnth by lia. unfold pad. rewrite pad_string_last_noextra by lia. rewrite zb_b8, Z.mod_small by lia.
    replace (zlen signed - (n + 1) <? 0) with false by (symmetry; apply Z.ltb_ge; lia).
    replace (zlen signed - (n + 1)) with (zlen P) by lia.
    assert (Hregion : zdrop (zlen P) signed = repeat (b8 n) (Z.to_nat (n + 1))).
    { unfold signed, pad, pad_string. rewrite app_nil_r. rewrite zdrop_app_exact by reflexivity. reflexivity. }
    rewrite Hregion. rewrite forallb_repeat_b8 by (symmetry; apply Z.mod_small; lia).
    unfold signed. rewrite ztake_app_exact by reflexivity.
    unfold P. apply parse_inner; assumption.
Qed.

Lemma spec_receive_signed k hl t4 h8 size sq rq body s :
  k_signed k = true -> k_encrypted k = false ->
  zlen t4 = 4 -> hl = 8 + zlen h8 -> 0 <= sq < 4294967296 -> 0 <= rq < 4294967296 ->
  let H' := t4 ++ le32 size ++ h8 in
  let P := le32 sq ++ le32 rq ++ body in
  size = zlen (H' ++ P ++ s) -> size < 4294967296 ->
  zlen s = k_sig_len k -> k_verify k (H' ++ P) s = true ->
  spec_receive k hl (H' ++ P ++ s) = Some (mkContent t4 h8 sq rq body).
Proof.
  intros Hsg Hen H4 Hhl Hsq Hrq H' P Hsize Hlt Hs Hver.
  assert (HH : zlen H' = hl) by (unfold H'; rewrite !zlen_app, zlen_le32; lia).
  pose proof (zlen_nonneg h8) as Hh8. pose proof (zlen_nonneg P) as HP0. pose proof (zlen_nonneg s) as Hs0.
  unfold spec_receive.
  replace ((zlen (H' ++ P ++ s) <? hl) || (hl <? 8)) with false
    by (symmetry; apply orb_false_iff; rewrite zlen_app; pose proof (zlen_nonneg (P ++ s)); split; apply Z.ltb_ge; lia).
  rewrite ztake_app_exact, zdrop_app_exact by exact HH.
  assert (Hd4 : de32 (zdrop 4 H') = zlen (H' ++ P ++ s)).
  { assert (E : zdrop 4 H' = le32 size ++ h8) by (unfold H'; apply zdrop_app_exact; exact H4).
    rewrite E, de32_le32. pose proof (zlen_nonneg (H' ++ P ++ s)). rewrite Z.mod_small by lia. exact Hsize. }
  rewrite Hd4, Z.eqb_refl. cbn [negb]. rewrite Hen, Hsg.
  rewrite zlen_app, Hs. replace (zlen P + k_sig_len k - k_sig_len k) with (zlen P) by lia.
  replace (zlen P + k_sig_len k <? k_sig_len k) with false by (symmetry; apply Z.ltb_ge; lia).
  rewrite ztake_app_exact, zdrop_app_exact by reflexivity. rewrite Hver. cbn [negb andb].
  unfold P. apply parse_inner; assumption.
Qed.

Lemma spec_receive_plain k hl t4 h8 size sq rq body :
  k_signed k = false -> k_encrypted k = false ->
  zlen t4 = 4 -> hl = 8 + zlen h8 -> 0 <= sq < 4294967296 -> 0 <= rq < 4294967296 ->
  let H' := t4 ++ le32 size ++ h8 in
  let P := le32 sq ++ le32 rq ++ body in
  size = zlen (H' ++ P) -> size < 4294967296 ->
  spec_receive k hl (H' ++ P) = Some (mkContent t4 h8 sq rq body).
Proof.
  intros Hsg Hen H4 Hhl Hsq Hrq H' P Hsize Hlt.
  assert (HH : zlen H' = hl) by (unfold H'; rewrite !zlen_app, zlen_le32; lia).
  pose proof (zlen_nonneg h8) as Hh8. pose proof (zlen_nonneg P) as HP0.
  unfold spec_receive.
  replace ((zlen (H' ++ P) <? hl) || (hl <? 8)) with false
    by (symmetry; apply orb_false_iff; rewrite zlen_app; split; apply Z.ltb_ge; lia).
  rewrite ztake_app_exact, zdrop_app_exact by exact HH.
  assert (Hd4 : de32 (zdrop 4 H') = zlen (H' ++ P)).
  { assert (E : zdrop 4 H' = le32 size ++ h8) by (unfold H'; apply zdrop_app_exact; exact H4).
    rewrite E, de32_le32. pose proof (zlen_nonneg (H' ++ P)). rewrite Z.mod_small by lia. exact Hsize. }
  rewrite Hd4, Z.eqb_refl. cbn [negb]. rewrite Hen, Hsg. cbn [andb].
  replace (zlen P <? 0) with false by (symmetry; apply Z.ltb_ge; lia).
  rewrite Z.sub_0_r, ztake_all by lia.
  unfold P. apply parse_inner; assumption.
Qed.

(* ---------------------------------------------------------------------------------------------- *)
(* shape conditions tying the model's parameters to the specification's notions *)
Definition shape_ok (m : sec_mode) (asym : bool) (S : algo) : Prop :=
  (m = ModeNone -> asym = false) /\
  (a_rsig S >? 256) = asym && (8 * a_block S >? 2048) /\      (* ExtraPaddingSize iff the encrypting key is > 2048 bits *)
  0 < a_plain S /\ 0 <= a_sig S.

Section Dir.
Variables (S R : algo).
Hypothesis L : link S R.
Variables (m : sec_mode) (asym : bool).
Hypothesis Hshape : shape_ok m asym S.

Let k := spec_of m asym S R.

(* OUT: what the model sends, an independent conforming receiver accepts and reads back *)
Theorem model_to_spec x w :
  wf_content x -> model_secure m asym S x = Ok w -> zlen w < 4294967296 ->
  spec_receive k (hl_of x) w = Some x.
Proof.
  intros (H4 & Hsq & Hrq) Hsec Hlt. destruct Hshape as (Hnone & Hextra & Hpl & Hsg).
  destruct x as [t4 h8 sq rq body]. unfold model_secure, raw_of, hl_of in *. cbn [x_t4 x_h8 x_seq x_req x_body] in *.
  set (P := le32 sq ++ le32 rq ++ body) in *.
  assert (HP : zlen P = 8 + zlen body) by (unfold P; rewrite !zlen_app, !zlen_le32; lia).
  pose proof (zlen_nonneg body) as Hb0. pose proof (zlen_nonneg h8) as Hh0.
  set (old := le32 (8 + zlen h8 + 8 + zlen body)) in *.
  assert (H16 : zlen (t4 ++ old ++ h8) = 8 + zlen h8) by (rewrite !zlen_app, H4; unfold old; rewrite zlen_le32; lia).
  destruct m.
  - (* None *)
    specialize (Hnone eq_refl). subst asym. cbn [sign_encrypt] in Hsec. ok_inv Hsec.
    fold old.
    assert (Hwl : zlen ((t4 ++ old ++ h8) ++ P) = 8 + zlen h8 + 8 + zlen body) by (rewrite zlen_app, H16, HP; lia).
    apply (spec_receive_plain k (8 + zlen h8) t4 h8 (8 + zlen h8 + 8 + zlen body) sq rq body eq_refl eq_refl H4 eq_refl Hsq Hrq).
    + fold old. fold P. symmetry. exact Hwl.
    + rewrite Hwl in Hlt. exact Hlt.
  - destruct asym.
    + (* Sign mode, asymmetric chunk: signed and encrypted *)
      set (pl := padding_len (a_plain S) (a_sig S) (a_rsig S) (zlen P)).
      set (pad := pad_string (a_rsig S >? 256) pl).
      set (size := (8 + zlen h8) + Z.quot (plaintext_len (a_plain S) (a_sig S) (a_rsig S) (zlen P)) (a_plain S) * a_block S).
      set (H' := t4 ++ le32 size ++ h8).
      pose proof (zlen_nonneg P) as HP0.
      pose proof (padding_len_range (a_plain S) (a_sig S) (a_rsig S) (zlen P) Hpl HP0 Hsg) as Hplr. fold pl in Hplr.
      destruct (lk_sign S R L (H' ++ P ++ pad)) as (s & Hs & Hslen).
      assert (Hpadlen : zlen pad = pl + pad_bytes (a_rsig S)) by (unfold pad; rewrite zlen_pad_string by lia; reflexivity).
      assert (Hptlen : zlen (P ++ pad ++ s) = plaintext_len (a_plain S) (a_sig S) (a_rsig S) (zlen P)).
      { unfold plaintext_len. fold pl. rewrite !zlen_app, Hpadlen, Hslen. lia. }
      pose proof (pad_bytes_range (a_rsig S)) as Hpb.
      destruct (lk_enc S R L (P ++ pad ++ s)) as (c & Hc & Hdec & Hclen).
      { rewrite Hptlen. unfold plaintext_len. fold pl. lia. }
      { rewrite Hptlen. apply padded_is_multiple; lia. }
      rewrite (sign_encrypt_enc S ModeSign true (8 + zlen h8) t4 old h8 P pad size H' s c) in Hsec;
        try reflexivity; try assumption; try discriminate.
      ok_inv Hsec.
      assert (HH' : zlen H' = 8 + zlen h8) by (unfold H'; rewrite !zlen_app, zlen_le32; lia).
      apply (spec_receive_encrypted k (8 + zlen h8) t4 h8 size sq rq body pl s c); try reflexivity; try assumption.
      * fold H'. rewrite zlen_app, HH', Hclen, Hptlen. reflexivity.
      * fold H' in Hlt. rewrite zlen_app, HH', Hclen, Hptlen in Hlt. exact Hlt.
      * cbn [k spec_of k_extra]. rewrite <- Hextra. pose proof (lk_pad S R L). destruct (a_rsig S >? 256); lia.
      * cbn [k spec_of k_extra k_dec]. rewrite <- Hextra. exact Hdec.
      * cbn [k spec_of k_extra k_verify]. rewrite <- Hextra. apply (lk_verify S R L). exact Hs.
    + (* Sign mode, symmetric chunk: signed only *)
      set (H' := t4 ++ le32 ((8 + zlen h8) + (zlen P + a_sig S)) ++ h8).
      destruct (lk_sign S R L (H' ++ P)) as (s & Hs & Hslen).
      rewrite (sign_encrypt_sign S (8 + zlen h8) t4 old h8 P H' s) in Hsec; try reflexivity; try assumption.
      ok_inv Hsec.
      assert (HH' : zlen H' = 8 + zlen h8) by (unfold H'; rewrite !zlen_app, zlen_le32; lia).
      assert (Hwl : zlen (H' ++ P ++ s) = 8 + zlen h8 + (zlen P + a_sig S)) by (rewrite !zlen_app, HH', Hslen; lia).
      apply (spec_receive_signed k (8 + zlen h8) t4 h8 (8 + zlen h8 + (zlen P + a_sig S)) sq rq body s eq_refl eq_refl H4 eq_refl Hsq Hrq).
      * fold H'. fold P. symmetry. exact Hwl.
      * rewrite Hwl in Hlt. exact Hlt.
      * exact Hslen.
      * fold H'. fold P. apply (lk_verify S R L). exact Hs.
  - (* SignAndEncrypt, both shapes *)
    set (pl := padding_len (a_plain S) (a_sig S) (a_rsig S) (zlen P)).
    set (pad := pad_string (a_rsig S >? 256) pl).
    set (size := (8 + zlen h8) + Z.quot (plaintext_len (a_plain S) (a_sig S) (a_rsig S) (zlen P)) (a_plain S) * a_block S).
    set (H' := t4 ++ le32 size ++ h8).
    pose proof (zlen_nonneg P) as HP0.
    pose proof (padding_len_range (a_plain S) (a_sig S) (a_rsig S) (zlen P) Hpl HP0 Hsg) as Hplr. fold pl in Hplr.
    destruct (lk_sign S R L (H' ++ P ++ pad)) as (s & Hs & Hslen).
    assert (Hpadlen : zlen pad = pl + pad_bytes (a_rsig S)) by (unfold pad; rewrite zlen_pad_string by lia; reflexivity).
    assert (Hptlen : zlen (P ++ pad ++ s) = plaintext_len (a_plain S) (a_sig S) (a_rsig S) (zlen P)).
    { unfold plaintext_len. fold pl. rewrite !zlen_app, Hpadlen, Hslen. lia. }
    pose proof (pad_bytes_range (a_rsig S)) as Hpb.
    destruct (lk_enc S R L (P ++ pad ++ s)) as (c & Hc & Hdec & Hclen).
    { rewrite Hptlen. unfold plaintext_len. fold pl. lia. }
    { rewrite Hptlen. apply padded_is_multiple; lia. }
    rewrite (sign_encrypt_enc S ModeSignEnc asym (8 + zlen h8) t4 old h8 P pad size H' s c) in Hsec;
      try reflexivity; try assumption; try discriminate.
    ok_inv Hsec.
    assert (HH' : zlen H' = 8 + zlen h8) by (unfold H'; rewrite !zlen_app, zlen_le32; lia).
    apply (spec_receive_encrypted k (8 + zlen h8) t4 h8 size sq rq body pl s c); try reflexivity; try assumption.
    + fold H'. rewrite zlen_app, HH', Hclen, Hptlen. reflexivity.
    + fold H' in Hlt. rewrite zlen_app, HH', Hclen, Hptlen in Hlt. exact Hlt.
    + cbn [k spec_of k_extra]. rewrite <- Hextra. pose proof (lk_pad S R L). destruct (a_rsig S >? 256); lia.
    + cbn [k spec_of k_extra k_dec]. rewrite <- Hextra. exact Hdec.
    + cbn [k spec_of k_extra k_verify]. rewrite <- Hextra. apply (lk_verify S R L). exact Hs.
Qed.

(* IN: what an independent conforming sender produces, for ANY admissible padding length, the model accepts *)
Theorem spec_to_model x n pnone :
  wf_content x -> admissible k n x ->
  (m = ModeNone -> True) ->
  exists w, spec_send k n x = Some w /\ model_receive m pnone asym R (hl_of x) w = Ok x.
Proof.
  intros (H4 & Hsq & Hrq) Hadm _. destruct Hshape as (Hnone & Hextra & Hpl & Hsg).
  destruct x as [t4 h8 sq rq body]. unfold hl_of, admissible, spec_send in *. cbn [x_t4 x_h8 x_seq x_req x_body] in *.
  set (P := le32 sq ++ le32 rq ++ body).
  assert (HP : zlen P = 8 + zlen body) by (unfold P; rewrite !zlen_app, !zlen_le32; lia).
  pose proof (zlen_nonneg body) as Hb0. pose proof (zlen_nonneg h8) as Hh0.
  assert (Hparse : forall size X d, d = P ->
     (if zlen d <? 8 then Err EDecode
      else Ok (mkContent (ztake 4 ((t4 ++ le32 size ++ h8) ++ X)) (zdrop 8 (ztake (8 + zlen h8) ((t4 ++ le32 size ++ h8) ++ X)))
                         (de32 d) (de32 (zdrop 4 d)) (zdrop 8 d))) = Ok (mkContent t4 h8 sq rq body)).
  { intros size X d ->. replace (zlen P <? 8) with false by (symmetry; apply Z.ltb_ge; lia).
    rewrite (ztake_app_exact (8 + zlen h8)) by (rewrite !zlen_app, zlen_le32; lia).
    rewrite <- app_assoc. rewrite (ztake_app_exact 4) by exact H4.
    rewrite (app_assoc t4), zdrop_app_exact by (rewrite zlen_app, zlen_le32; lia).
    unfold P. rewrite de32_le32, Z.mod_small by lia.
    replace (zdrop 4 (le32 sq ++ le32 rq ++ body)) with (le32 rq ++ body) by reflexivity.
    rewrite de32_le32, Z.mod_small by lia.
    replace (zdrop 8 (le32 sq ++ le32 rq ++ body)) with body by reflexivity. reflexivity. }
  assert (Henc_case : signed_mode m = true -> encrypts m asym = true ->
    exists w, spec_send k n (mkContent t4 h8 sq rq body) = Some w /\
              model_receive m pnone asym R (8 + zlen h8) w = Ok (mkContent t4 h8 sq rq body)).
  { intros Hsm Hen.
    assert (Hke : k_encrypted k = true) by (cbn [k spec_of k_encrypted]; rewrite Hsm, Hen; reflexivity).
    destruct (Hadm Hke) as (Hn & Hmod).
    unfold spec_send. cbn [x_t4 x_h8 x_seq x_req x_body]. rewrite Hke.
    rewrite footer_is_pad_string by (try exact Hke; lia).
    assert (Hks : k_signed k = true) by (cbn [k spec_of k_signed]; exact Hsm). rewrite Hks.
    set (pad := pad_string (k_extra k) n).
    assert (Hpadlen : zlen pad = n + (if k_extra k then 2 else 1)) by (apply zlen_pad_string; lia).
    set (inner := le32 sq ++ le32 rq ++ body ++ pad).
    assert (Hinner : inner = P ++ pad) by (unfold inner, P; rewrite <- !app_assoc; reflexivity).
    set (size := 4 + 4 + zlen h8 + (zlen inner + k_sig_len k) / k_plain_block k * k_cipher_block k).
    set (H' := t4 ++ le32 size ++ h8).
    cbn [k spec_of k_sign k_enc] in *. fold k.
    destruct (lk_sign S R L (H' ++ inner)) as (s & Hs & Hslen). rewrite Hs.
    assert (Hlen : zlen (inner ++ s) = 8 + zlen body + 1 + n + (if k_extra k then 1 else 0) + a_sig S).
    { rewrite Hinner, !zlen_app, HP, Hpadlen, Hslen. destruct (k_extra k); lia. }
    destruct (lk_enc S R L (inner ++ s)) as (c & Hc & Hdec & Hclen).
    { rewrite Hlen. destruct (k_extra k); lia. }
    { rewrite Z.rem_mod_nonneg; [rewrite Hlen; exact Hmod | rewrite Hlen; destruct (k_extra k); lia | lia]. }
    rewrite Hc. eexists. split; [reflexivity|].
    unfold model_receive.
    assert (HH' : zlen H' = 8 + zlen h8) by (unfold H'; rewrite !zlen_app, zlen_le32; lia).
    assert (Hkx : k_extra k = (a_sig R >? 256)).
    { cbn [k spec_of k_extra]. rewrite <- Hextra. symmetry. apply (lk_extra S R L). }
    rewrite (verify_decrypt_enc R m pnone asym (8 + zlen h8) H' P n s c); try assumption; try lia.
    - apply Hparse. reflexivity.
    - intros ->. discriminate Hsm.
    - rewrite <- Hkx. exact Hn.
    - rewrite <- Hkx. fold pad. rewrite Hdec, Hinner, <- app_assoc. reflexivity.
    - rewrite (lk_rsig S R L). exact Hslen.
    - rewrite <- Hkx. fold pad. rewrite <- Hinner. apply (lk_verify S R L). exact Hs. }
  destruct m.
  - (* None: unsecured *)
    specialize (Hnone eq_refl). subst asym. cbn [k spec_of signed_mode k_signed k_encrypted andb footer_padding].
    cbn [k_encrypted k_signed]. rewrite !app_nil_r. eexists. split; [reflexivity|].
    unfold model_receive. fold P.
    rewrite (verify_decrypt_none pnone R (8 + zlen h8) (t4 ++ le32 (4 + 4 + zlen h8 + (zlen P + 0)) ++ h8) P)
      by (rewrite !zlen_app, zlen_le32; lia).
    apply (Hparse _ P P eq_refl).
  - destruct asym.
    + apply Henc_case; reflexivity.
    + (* Sign, symmetric *)
      cbn [k spec_of signed_mode k_signed k_encrypted encrypts andb footer_padding].
      rewrite !app_nil_r. change (k_sign k) with (a_sign S). change (k_sig_len k) with (a_sig S).
      set (size := 4 + 4 + zlen h8 + (zlen (le32 sq ++ le32 rq ++ body) + a_sig S)).
      set (H' := t4 ++ le32 size ++ h8).
      destruct (lk_sign S R L (H' ++ P)) as (s & Hs & Hslen). fold P. rewrite Hs.
      eexists. split; [reflexivity|]. unfold model_receive.
      assert (HH' : zlen H' = 8 + zlen h8) by (unfold H'; rewrite !zlen_app, zlen_le32; lia).
      rewrite (verify_decrypt_sign R pnone (8 + zlen h8) H' P s); try assumption; try lia.
      * apply (Hparse size (P ++ s) P eq_refl).
      * rewrite (lk_rsig S R L). exact Hslen.
      * apply (lk_verify S R L). exact Hs.
  - apply Henc_case; reflexivity.
Qed.
End Dir.
