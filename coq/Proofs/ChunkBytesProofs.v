(* ChunkBytesProofs.v — lemmas about the byte-string utilities of Model/ChunkBytes.v *)
From Coq Require Import ZArith List Bool Lia.
From Coq.Strings Require Import Byte.
From Opcua Require Import Model.ChunkBytes.
Import ListNotations.
Open Scope Z_scope.

Lemma zb_range b : 0 <= zb b < 256.
Proof.
  unfold zb. pose proof (Byte.to_N_bounded b) as H. lia.
Qed.

Lemma land255 z : Z.land z 255 = z mod 256.
Proof. change 255 with (Z.ones 8). rewrite Z.land_ones by lia. reflexivity. Qed.

Lemma zb_b8 z : zb (b8 z) = z mod 256.
Proof.
  unfold zb, b8. rewrite land255.
  pose proof (Z.mod_pos_bound z 256 ltac:(lia)) as Hr.
  destruct (Byte.of_N (Z.to_N (z mod 256))) as [b|] eqn:E.
  - apply Byte.to_of_N in E. rewrite E. lia.
  - apply Byte.of_N_None_iff in E. lia.
Qed.

Lemma b8_zb b : b8 (zb b) = b.
Proof.
  unfold b8, zb. rewrite land255. pose proof (Byte.to_N_bounded b) as H.
  rewrite Z.mod_small by lia. rewrite N2Z.id. rewrite Byte.of_to_N. reflexivity.
Qed.

Lemma b8_mod z : b8 (z mod 256) = b8 z.
Proof. unfold b8. rewrite !land255. rewrite Z.mod_mod by lia. reflexivity. Qed.

Lemma b8_congr x y : x mod 256 = y mod 256 -> b8 x = b8 y.
Proof. intros H. rewrite <- (b8_mod x), <- (b8_mod y), H. reflexivity. Qed.

Lemma b8_shift_inv b k : b8 (zb (b8 (zb b + k)) - k) = b.
Proof.
  rewrite zb_b8. rewrite <- (b8_zb b) at 2. apply b8_congr.
  rewrite Zminus_mod_idemp_l. f_equal. lia.
Qed.

(* lengths *)
Lemma zlen_nonneg {A} (l : list A) : 0 <= zlen l.
Proof. unfold zlen. lia. Qed.
Lemma zlen_nil {A} : zlen (@nil A) = 0.
Proof. reflexivity. Qed.
Lemma zlen_cons {A} (a : A) l : zlen (a :: l) = 1 + zlen l.
Proof. unfold zlen. cbn [length]. lia. Qed.
Lemma zlen_app {A} (a b : list A) : zlen (a ++ b) = zlen a + zlen b.
Proof. unfold zlen. rewrite app_length. lia. Qed.
Lemma zlen_repeat {A} (x : A) n : zlen (repeat x n) = Z.of_nat n.
Proof. unfold zlen. rewrite repeat_length. reflexivity. Qed.
Lemma zlen_map {A B} (f : A -> B) l : zlen (map f l) = zlen l.
Proof. unfold zlen. rewrite map_length. reflexivity. Qed.
Lemma zlen_le32 z : zlen (le32 z) = 4.
Proof. reflexivity. Qed.
Lemma zlen_0_nil {A} (l : list A) : zlen l = 0 -> l = [].
Proof. destruct l; [reflexivity|]. rewrite zlen_cons. pose proof (zlen_nonneg l). lia. Qed.

Lemma ztake_zdrop {A} n (l : list A) : ztake n l ++ zdrop n l = l.
Proof. apply firstn_skipn. Qed.

Lemma ztake_app_exact {A} n (a b : list A) : zlen a = n -> ztake n (a ++ b) = a.
Proof.
  intros H. unfold ztake, zlen in *. subst n. rewrite Nat2Z.id.
  rewrite firstn_app, Nat.sub_diag, firstn_all. cbn [firstn]. apply app_nil_r.
Qed.
Lemma zdrop_app_exact {A} n (a b : list A) : zlen a = n -> zdrop n (a ++ b) = b.
Proof.
  intros H. unfold zdrop, zlen in *. subst n. rewrite Nat2Z.id.
  rewrite skipn_app, Nat.sub_diag, skipn_all. reflexivity.
Qed.
Lemma ztake_all {A} n (l : list A) : zlen l <= n -> ztake n l = l.
Proof. intros H. unfold ztake, zlen in *. apply firstn_all2. lia. Qed.
Lemma zdrop_all {A} n (l : list A) : zlen l <= n -> zdrop n l = [].
Proof. intros H. unfold zdrop, zlen in *. apply skipn_all2. lia. Qed.
Lemma ztake_neg {A} n (l : list A) : n <= 0 -> ztake n l = [].
Proof. intros H. unfold ztake. replace (Z.to_nat n) with O by lia. reflexivity. Qed.
Lemma zdrop_neg {A} n (l : list A) : n <= 0 -> zdrop n l = l.
Proof. intros H. unfold zdrop. replace (Z.to_nat n) with O by lia. reflexivity. Qed.
Lemma zlen_ztake {A} n (l : list A) : 0 <= n <= zlen l -> zlen (ztake n l) = n.
Proof. intros H. unfold ztake, zlen in *. rewrite firstn_length. lia. Qed.
Lemma zlen_zdrop {A} n (l : list A) : 0 <= n <= zlen l -> zlen (zdrop n l) = zlen l - n.
Proof. intros H. unfold zdrop, zlen in *. rewrite skipn_length. lia. Qed.

(* split a list at a position given by a length *)
Lemma split_at {A} n (l : list A) : 0 <= n <= zlen l -> exists a b, l = a ++ b /\ zlen a = n.
Proof.
  intros H. exists (ztake n l), (zdrop n l). split; [symmetry; apply ztake_zdrop | apply zlen_ztake; exact H].
Qed.

Lemma znth_app_r n (a b : bytes) : zlen a <= n -> znth n (a ++ b) = znth (n - zlen a) b.
Proof.
  intros H. unfold znth, zlen in *. rewrite app_nth2 by lia. f_equal. lia.
Qed.
Lemma znth_app_l n (a b : bytes) : 0 <= n < zlen a -> znth n (a ++ b) = znth n a.
Proof. intros H. unfold znth, zlen in *. apply app_nth1. lia. Qed.
Lemma znth_last (a : bytes) x : znth (zlen a) (a ++ [x]) = x.
Proof. rewrite znth_app_r by lia. rewrite Z.sub_diag. reflexivity. Qed.
Lemma znth_repeat n (x : byte) k : 0 <= n < Z.of_nat k -> znth n (repeat x k) = x.
Proof.
  intros H. unfold znth. assert (Hk : (Z.to_nat n < k)%nat) by lia. clear H.
  revert Hk. generalize (Z.to_nat n) as i. induction k as [|k IH]; intros i Hk; [lia|].
  destruct i; cbn; [reflexivity|]. apply IH. lia.
Qed.

(* little-endian 32-bit *)
Lemma de32_le32 z r : de32 (le32 z ++ r) = z mod 4294967296.
Proof.
  unfold le32, de32. cbn [app]. rewrite !zb_b8.
  Local Ltac Zify.zify_post_hook ::= Z.div_mod_to_equations.
  lia.
Qed.

Lemma put32_app4 (a : bytes) (old : bytes) (b : bytes) off v :
  zlen a = off -> zlen old = 4 -> put32 off (a ++ old ++ b) v = Some (a ++ le32 v ++ b).
Proof.
  intros Ha Ho. unfold put32. pose proof (zlen_nonneg a). pose proof (zlen_nonneg b).
  rewrite !zlen_app, Ha, Ho.
  replace ((off <? 0) || (off + (4 + zlen b) <? off + 4)) with false
    by (symmetry; apply orb_false_iff; split; lia).
  rewrite ztake_app_exact by exact Ha.
  rewrite (app_assoc a old b). rewrite zdrop_app_exact by (rewrite zlen_app; lia). reflexivity.
Qed.

Lemma put32_len off b v b' : put32 off b v = Some b' -> zlen b' = zlen b.
Proof.
  unfold put32. destruct ((off <? 0) || (zlen b <? off + 4)) eqn:E; [discriminate|].
  apply orb_false_iff in E. destruct E as [E1 E2].
  intros H. apply (f_equal (fun o => match o with Some x => zlen x | None => 0 end)) in H. rewrite <- H.
  rewrite !zlen_app, zlen_le32, zlen_ztake, zlen_zdrop by lia. lia.
Qed.

Lemma bytes_eqb_refl x : bytes_eqb x x = true.
Proof. induction x as [|a x IH]; [reflexivity|]. cbn. rewrite (Byte.byte_dec_lb (eq_refl a)). exact IH. Qed.
Lemma bytes_eqb_eq x y : bytes_eqb x y = true -> x = y.
Proof.
  revert y. induction x as [|a x IH]; intros [|b y] H; try reflexivity; try discriminate.
  cbn in H. apply andb_true_iff in H. destruct H as [H1 H2].
  apply Byte.byte_dec_bl in H1. subst. f_equal. apply IH. exact H2.
Qed.
