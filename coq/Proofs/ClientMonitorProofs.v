From Coq Require Import List Bool Arith Lia.
From Opcua Require Import Model.ClientSession Model.ClientMonitor.
Import ListNotations.

Lemma path_ok_snoc l : forall x, l <> [] -> path_ok (l ++ [x]) = path_ok l && documented (last l StClosed) x.
Proof.
  induction l as [|a t IH]; intros x Hne; [congruence|].
  destruct t as [|b t'].
  - cbn. rewrite andb_true_r. reflexivity.
  - specialize (IH x ltac:(discriminate)).
    change (path_ok ((a :: b :: t') ++ [x])) with (documented a b && path_ok ((b :: t') ++ [x])).
    rewrite IH.
    change (path_ok (a :: b :: t')) with (documented a b && path_ok (b :: t')).
    change (last (a :: b :: t') StClosed) with (last (b :: t') StClosed).
    rewrite andb_assoc. reflexivity.
Qed.

Lemma last_snoc {A} (l : list A) x d : last (l ++ [x]) d = x.
Proof. induction l as [|a t IH]; [reflexivity|]. cbn. destruct (t ++ [x]) eqn:E; [destruct t; discriminate | exact IH]. Qed.

Lemma do_call_keeps s c : let s' := snd (do_call s c) in
  m_states s' = m_states s /\ m_done s' = m_done s /\ m_session s' = m_session s /\ m_action s' = m_action s.
Proof. unfold do_call. destruct c; destruct (pop _); cbn; repeat split; reflexivity. Qed.

Lemma dial_loop_keeps fuel : forall s, let s' := dial_loop fuel s in
  m_states s' = m_states s /\ m_done s' = m_done s /\ m_session s' = m_session s /\ m_action s' = m_action s.
Proof.
  induction fuel as [|f IH]; intros s; cbn; [repeat split; reflexivity|].
  pose proof (do_call_keeps s CDial) as H. destruct (do_call s CDial) as [ok s1]. cbn in H.
  destruct H as [H1 [H2 [H3 H4]]]. destruct ok; [repeat split; assumption|].
  destruct (IH s1) as [G1 [G2 [G3 G4]]]. repeat split; congruence.
Qed.

(* while the machine is busy the last reported state is Disconnected or Reconnecting, and it is Reconnecting when the
   next action is one of the subscription actions *)
Definition busy_ok (s : mstate) : Prop :=
  m_states s <> [] /\ path_ok (m_states s) = true /\
  (m_done s = false -> m_action s <> RNone ->
     (last_state s = StDisconnected \/ last_state s = StReconnecting) /\
     (m_action s = RRestoreSubscriptions -> last_state s = StReconnecting)).

Ltac keep H := destruct H as [?Hst [?Hdn [?Hse ?Hac]]].

Lemma step_action_ok s : busy_ok s -> m_done s = false -> busy_ok (step_action s).
Proof.
  intros [Hne [Hp Hb]] Hd. unfold step_action, step_action_gen.
  destruct (m_action s) eqn:Ea.
  - (* none *) split; [exact Hne|]. split; [exact Hp|]. intros _ H. congruence.
  - (* createSecureChannel *)
    destruct (Hb Hd ltac:(discriminate)) as [Hl _].
    set (s1 := emit s StReconnecting).
    pose proof (dial_loop_keeps (S (List.length (dials (m_env s1)))) s1) as K. cbn zeta in K. keep K.
    unfold busy_ok, last_state. cbn [set_action m_states m_done m_action]. rewrite Hst. cbn [emit s1 m_states].
    split; [destruct (m_states s); discriminate|]. split.
    + rewrite path_ok_snoc by exact Hne. rewrite Hp. unfold last_state in Hl. destruct Hl as [-> | ->]; reflexivity.
    + intros _ _. rewrite last_snoc. split; [right; reflexivity | intros H; discriminate].
  - (* restoreSession *)
    destruct (Hb Hd ltac:(discriminate)) as [Hl _].
    assert (Hp1 : path_ok (m_states s ++ [StReconnecting]) = true).
    { rewrite path_ok_snoc by exact Hne. rewrite Hp. unfold last_state in Hl. destruct Hl as [-> | ->]; reflexivity. }
    assert (Hne1 : m_states s ++ [StReconnecting] <> []) by (destruct (m_states s); discriminate).
    cbn [emit m_session].
    destruct (m_session s).
    + pose proof (do_call_keeps (set_session (emit s StReconnecting) false) CActivate) as K1.
      destruct (do_call (set_session (emit s StReconnecting) false) CActivate) as [ok s3]. cbn in K1. keep K1.
      destruct ok.
      * pose proof (do_call_keeps (set_session s3 true) CNamespaces) as K2.
        destruct (do_call (set_session s3 true) CNamespaces) as [ok2 s5]. cbn in K2. keep K2.
        destruct ok2; unfold busy_ok, last_state; cbn [set_action m_states m_done m_action];
          rewrite Hst0, Hst; (split; [exact Hne1|]; split; [exact Hp1|]; intros _ _; rewrite last_snoc;
          split; [right; reflexivity | intros H; try discriminate; reflexivity]).
      * unfold busy_ok, last_state; cbn [set_action m_states m_done m_action]. rewrite Hst.
        split; [exact Hne1|]. split; [exact Hp1|]. intros _ _. rewrite last_snoc.
        split; [right; reflexivity | intros H; discriminate].
    + unfold busy_ok, last_state; cbn [set_action emit m_states m_done m_action].
      split; [exact Hne1|]. split; [exact Hp1|]. intros _ _. rewrite last_snoc.
      split; [right; reflexivity | intros H; discriminate].
  - (* recreateSession *)
    destruct (Hb Hd ltac:(discriminate)) as [Hl _].
    assert (Hp1 : path_ok (m_states s ++ [StReconnecting]) = true).
    { rewrite path_ok_snoc by exact Hne. rewrite Hp. unfold last_state in Hl. destruct Hl as [-> | ->]; reflexivity. }
    assert (Hne1 : m_states s ++ [StReconnecting] <> []) by (destruct (m_states s); discriminate).
    pose proof (do_call_keeps (set_session (emit s StReconnecting) false) CCreate) as K1.
    destruct (do_call (set_session (emit s StReconnecting) false) CCreate) as [ok s2]. cbn in K1. keep K1.
    assert (Fin : forall s' a, m_states s' = m_states s ++ [StReconnecting] ->
              (a = RCreateSecureChannel \/ a = RTransferSubscriptions) -> busy_ok (set_action s' a)).
    { intros s' a Hs' Ha. unfold busy_ok, last_state; cbn [set_action m_states m_done m_action]. rewrite Hs'.
      split; [exact Hne1|]. split; [exact Hp1|]. intros _ _. rewrite last_snoc.
      split; [right; reflexivity | intros _; reflexivity]. }
    destruct ok; [|apply Fin; [exact Hst | left; reflexivity]].
    pose proof (do_call_keeps s2 CActivate) as K2. destruct (do_call s2 CActivate) as [ok2 s3]. cbn in K2. keep K2.
    destruct ok2; [|apply Fin; [congruence | left; reflexivity]].
    pose proof (do_call_keeps (set_session s3 true) CNamespaces) as K3.
    destruct (do_call (set_session s3 true) CNamespaces) as [ok3 s5]. cbn in K3. keep K3.
    destruct ok3; apply Fin; try (cbn in *; congruence); [right | left]; reflexivity.
  - (* restoreSubscriptions *)
    destruct (Hb Hd ltac:(discriminate)) as [_ Hl]. specialize (Hl eq_refl).
    unfold busy_ok, last_state; cbn [set_action emit m_states m_done m_action].
    split; [destruct (m_states s); discriminate|]. split.
    + rewrite path_ok_snoc by exact Hne. rewrite Hp. unfold last_state in Hl. rewrite Hl. reflexivity.
    + intros _ H. congruence.
  - (* transferSubscriptions: reports Reconnecting *)
    destruct (Hb Hd ltac:(discriminate)) as [Hl _].
    unfold busy_ok, last_state; cbn [set_action emit m_states m_done m_action].
    split; [destruct (m_states s); discriminate|]. split.
    + rewrite path_ok_snoc by exact Hne. rewrite Hp. unfold last_state in Hl. destruct Hl as [-> | ->]; reflexivity.
    + intros _ _. rewrite last_snoc. split; [right; reflexivity | intros _; reflexivity].
  - (* abort *)
    unfold busy_ok, finish; cbn [m_states m_done m_action].
    split; [destruct (m_states s); discriminate|]. split.
    + rewrite path_ok_snoc by exact Hne. rewrite Hp. cbn. destruct (last (m_states s) StClosed); reflexivity.
    + intros H. discriminate.
Qed.

Lemma run_actions_ok fuel : forall s, busy_ok s -> busy_ok (run_actions fuel s).
Proof.
  unfold run_actions. induction fuel as [|f IH]; intros s H; cbn; [exact H|].
  destruct (m_done s) eqn:Hd; [exact H|]. destruct (m_action s) eqn:Ea; try exact H;
    apply IH; apply step_action_ok; assumption.
Qed.

Lemma on_error_ok auto e ev : busy_ok (on_error auto e (connected ev)).
Proof.
  unfold on_error. destruct e;
    try (destruct auto; unfold busy_ok, last_state; cbn; (split; [discriminate|]; split; [reflexivity|]);
         intros; try discriminate; split; [left; reflexivity | intros H1; discriminate]).
  (* ENoSubscription: nothing happens *)
  unfold busy_ok, last_state; cbn. split; [discriminate|]. split; [reflexivity|]. intros _ H. congruence.
Qed.

Theorem reconnect_transitions_documented auto e fuel ev :
  path_ok (m_states (reconnect auto e fuel ev)) = true.
Proof.
  unfold reconnect, reconnect_gen. destruct (run_actions_ok fuel _ (on_error_ok auto e ev)) as [_ [H _]]. exact H.
Qed.
