From Coq Require Import List Bool.
From Opcua Require Import Model.ClientGuards Model.ClientOps Model.ClientSession.
Import ListNotations.

Section SessionProofs.
  Variable bytes key : Type.
  Variable append : bytes -> bytes -> bytes.
  Variable verify : key -> bytes -> bytes -> bool.
  Variable parse : bytes -> cert_class key.

  Notation env := (env bytes).
  Notation connect := (connect bytes key append verify parse).
  Notation sig_valid := (sig_valid bytes key append verify parse).
  Notation verify_ss := (verify_session_signature bytes key append verify parse).

  Lemma verify_ok_valid g (e : env) :
    verify_ss g e = CkOk -> e_mode _ e = SecNone \/ sig_valid e.
  Proof.
    unfold verify_session_signature, with_remote_key. destruct (e_mode _ e) eqn:Em; [left; reflexivity| |];
      (right; destruct (parse (e_resp_cert _ e)) as [| |pk] eqn:Ep; try discriminate;
       [destruct (assert_site g false); discriminate|];
       destruct (verify pk _ _) eqn:Ev; [|discriminate]; exists pk; split; [exact Ep | exact Ev]).
  Qed.

  Lemma verify_invalid_not_ok g (e : env) :
    e_mode _ e <> SecNone -> ~ sig_valid e -> verify_ss g e <> CkOk.
  Proof.
    intros Hm Hn Hok. destruct (verify_ok_valid g e Hok); contradiction.
  Qed.

  Lemma verify_no_panic g (e : env) : g = GCommaOk -> verify_ss g e <> CkPanic.
  Proof.
    intros ->. unfold verify_session_signature, with_remote_key.
    destruct (e_mode _ e); try discriminate;
      (destruct (parse (e_resp_cert _ e)); try discriminate; destruct (verify _ _ _); discriminate).
  Qed.

  (* Connected only with a valid signature (or no security at all) — for ANY value of the flags and guards *)
  Lemma connected_implies_valid rv rs gv gs (e : env) :
    r_res (connect rv rs gv gs e) = Connected -> rs = true -> e_mode _ e = SecNone \/ sig_valid e.
  Proof.
    unfold connect, create_session. intros H Hrs.
    destruct (e_create_kind _ e); try (cbn in H; discriminate);
      destruct (verify_ss gv e) eqn:Ev; try (destruct rv; cbn in H; discriminate);
      try (cbn in H; discriminate); eapply verify_ok_valid; exact Ev.
  Qed.

  Lemma invalid_rejected gv gs (e : env) :
    gv = GCommaOk -> e_mode _ e <> SecNone -> ~ sig_valid e ->
    connect true true gv gs e = failed.
  Proof.
    intros Hg Hm Hn. unfold connect, create_session.
    pose proof (verify_invalid_not_ok gv e Hm Hn) as H1. pose proof (verify_no_panic gv e Hg) as H2.
    destruct (e_create_kind _ e); try reflexivity; destruct (verify_ss gv e); congruence || reflexivity.
  Qed.

  Lemma connect_no_panic (e : env) : r_res (connect true true GCommaOk GCommaOk e) <> ConnPanic.
  Proof.
    unfold connect, create_session. pose proof (verify_no_panic GCommaOk e eq_refl) as H2.
    assert (H3 : new_session_signature bytes key parse GCommaOk e <> CkPanic).
    { unfold new_session_signature, with_remote_key. destruct (e_mode _ e); try discriminate;
        destruct (parse (e_resp_cert _ e)); discriminate. }
    destruct (e_create_kind _ e); try (cbn; discriminate);
      destruct (verify_ss GCommaOk e); try congruence; try (cbn; discriminate);
      destruct (new_session_signature bytes key parse GCommaOk e); try congruence; try (cbn; discriminate);
      destruct (send_ok (e_activate_kind _ e)), (e_namespaces_ok _ e); cbn; discriminate.
  Qed.

  (* the defect of DESIGN row 18: with `return nil` after the failed verification, an invalid signature panics *)
  Lemma unfixed_panics gv gs (e : env) :
    e_create_kind _ e = KExpected -> verify_ss gv e = CkErr -> r_res (connect false true gv gs e) = ConnPanic.
  Proof. intros Hk Hv. unfold connect, create_session. rewrite Hk, Hv. reflexivity. Qed.
End SessionProofs.
