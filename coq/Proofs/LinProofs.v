(* LinProofs.v — soundness of the linearizability checker, linearizability of every history of the
   single-dispatcher model, and the torn-read criterion for whole-request atomicity (C34). *)
From Coq Require Import ZArith Bool List Sorting.Mergesort Sorting.Sorted Orders Permutation Lia.
From Opcua Require Import Model.Lin.
Import ListNotations.
Open Scope Z_scope.

(* ---------------------------------------------------------------------------------------------- *)
(* real-time check *)

Lemma rt_okb_from_sound : forall l mx, rt_okb_from mx l = true ->
  (forall m, mx = Some m -> Forall (fun b => m <= o_res b) l) /\ rt_ok l.
Proof.
  induction l as [|b r IH]; intros mx H.
  - split; [intros; constructor|constructor].
  - cbn [rt_okb_from] in H. apply andb_prop in H. destruct H as [Hb Hr].
    apply IH in Hr. destruct Hr as [Hall Hrt].
    specialize (Hall _ eq_refl).
    split.
    + intros m Hm. subst mx. apply Z.leb_le in Hb. constructor; [exact Hb|].
      eapply Forall_impl; [|exact Hall]. cbn beta. intros c Hc. lia.
    + constructor; [|exact Hrt].
      eapply Forall_impl; [|exact Hall]. cbn beta. intros c Hc. destruct mx as [m|]; lia.
Qed.

Lemma rt_okb_sound : forall l, rt_okb l = true -> rt_ok l.
Proof. intros l H. exact (proj2 (rt_okb_from_sound l None H)). Qed.

(* ---------------------------------------------------------------------------------------------- *)
(* the checker is sound for every hint *)

Lemma map_snd_combine : forall (A B : Type) (a : list A) (b : list B),
  length a = length b -> map snd (combine a b) = b.
Proof.
  intros A B a. induction a as [|x a IH]; intros [|y b] H; cbn in *; try discriminate; [reflexivity|].
  f_equal. apply IH. congruence.
Qed.

Theorem check_lin_keys_sound : forall h keys, check_lin_keys h keys = true -> linearizable h.
Proof.
  intros h keys H. unfold check_lin_keys in H. apply andb_prop in H. destruct H as [Hlen H].
  apply andb_prop in H. destruct H as [Hrt Hlegal]. apply Nat.eqb_eq in Hlen.
  exists (order_by h keys). split; [|split].
  - unfold order_by. rewrite <- (map_snd_combine _ _ keys h Hlen) at 2.
    apply Permutation_map. apply Permutation_sym. apply KeySort.Permuted_sort.
  - apply rt_okb_sound. exact Hrt.
  - exact Hlegal.
Qed.

Theorem check_lin_sound : forall h, check_lin h = true -> linearizable h.
Proof. intros h H. exact (check_lin_keys_sound h (auto_keys h) H). Qed.

(* ---------------------------------------------------------------------------------------------- *)
(* sequential executions *)

Fixpoint exec (s : store) (l : list op) : option store :=
  match l with
  | [] => Some s
  | o :: r => match apply_op s o with Some s' => exec s' r | None => None end
  end.

Lemma legal_from_exec : forall l s, legal_from s l = true <-> exists s', exec s l = Some s'.
Proof.
  induction l as [|o r IH]; intro s; cbn [legal_from exec].
  - split; [eexists; reflexivity|reflexivity].
  - destruct (apply_op s o) as [s1|]; [apply IH|]. split; [discriminate|intros [s' H]; discriminate].
Qed.

Lemma exec_app : forall l1 l2 s,
  exec s (l1 ++ l2) = match exec s l1 with Some s1 => exec s1 l2 | None => None end.
Proof.
  induction l1 as [|o r IH]; intros l2 s; cbn [app exec]; [reflexivity|].
  destruct (apply_op s o); [apply IH|reflexivity].
Qed.

Definition sem (o : op) : kind * list (N * Z) := (o_kind o, o_args o).

Lemma apply_op_sem : forall s o1 o2, sem o1 = sem o2 -> apply_op s o1 = apply_op s o2.
Proof. intros s o1 o2 H. unfold sem in H. inversion H as [[Hk Ha]]. unfold apply_op. rewrite Hk, Ha. reflexivity. Qed.

Lemma exec_sem : forall l1 l2 s, map sem l1 = map sem l2 -> exec s l1 = exec s l2.
Proof.
  induction l1 as [|o r IH]; intros [|o2 r2] s H; cbn in H; try discriminate; [reflexivity|].
  assert (Ho : sem o = sem o2) by congruence. assert (Hr : map sem r = map sem r2) by congruence.
  cbn [exec]. rewrite (apply_op_sem s o o2 Ho).
  destruct (apply_op s o2); [apply IH; exact Hr|reflexivity].
Qed.

(* ---------------------------------------------------------------------------------------------- *)
(* the single-dispatcher model only produces linearizable histories *)

Lemma read_back : forall s args,
  forallb (fun nv => get s (fst nv) =? snd nv) (map (fun nv : N * Z => (fst nv, get s (fst nv))) args) = true.
Proof.
  intros s args. induction args as [|a r IH]; [reflexivity|].
  cbn [map forallb fst snd]. rewrite Z.eqb_refl. exact IH.
Qed.

Lemma handler_apply : forall s k args s' out e id i t,
  handler s k args = (s', out) ->
  apply_op s (op_of e {| a_id := id; a_kind := k; a_args := out; a_inv := i; a_apply := t; a_res := None |}) = Some s'.
Proof.
  intros s k args s' out e id i t H. unfold apply_op, op_of. cbn [o_kind o_args a_kind a_args].
  destruct k; cbn [handler] in H; inversion H; subst.
  - rewrite read_back. reflexivity.
  - reflexivity.
Qed.

Lemma take_pending_in : forall id l p rest, take_pending id l = Some (p, rest) ->
  In p l /\ (forall q, In q rest -> In q l).
Proof.
  intros id l. induction l as [|x l IH]; intros p rest H; cbn [take_pending] in H; [discriminate|].
  destruct (Nat.eqb (p_id x) id).
  - inversion H; subst. split; [left; reflexivity|intros q Hq; right; exact Hq].
  - destruct (take_pending id l) as [[q r']|] eqn:E; [|discriminate]. inversion H; subst.
    destruct (IH _ _ eq_refl) as [Hin Hsub]. split; [right; exact Hin|].
    intros q' [Hq|Hq]; [left; exact Hq|right; apply Hsub; exact Hq].
Qed.

Definition timing_ok (nw : Z) (a : aop) : Prop :=
  a_inv a <= a_apply a /\ a_apply a <= nw /\ (forall r, a_res a = Some r -> a_apply a <= r).

Record sinv (s : sstate) : Prop := {
  i_exec : forall e, exec init_store (map (op_of e) (applied s)) = Some (st s);
  i_time : Forall (timing_ok (now s)) (applied s);
  i_pend : Forall (fun p => p_inv p <= now s) (pending s);
  i_sort : StronglySorted (fun a b => a_apply a < a_apply b) (applied s) }.

Lemma sinv_init : sinv sinit.
Proof. constructor; cbn; try constructor. Qed.

Lemma sem_set_res : forall e id t l, map sem (map (op_of e) (set_res id t l)) = map sem (map (op_of e) l).
Proof.
  intros e id t l. unfold set_res. rewrite !map_map. apply map_ext. intro a.
  destruct (Nat.eqb (a_id a) id); [|reflexivity]. destruct (a_res a); reflexivity.
Qed.

Lemma sorted_snoc : forall (l : list aop) x,
  StronglySorted (fun a b => a_apply a < a_apply b) l -> Forall (fun a => a_apply a < a_apply x) l ->
  StronglySorted (fun a b => a_apply a < a_apply b) (l ++ [x]).
Proof.
  induction l as [|y l IH]; intros x Hs Hf; cbn [app].
  - constructor; constructor.
  - inversion Hs; subst. inversion Hf; subst. constructor; [apply IH; assumption|].
    apply Forall_app. split; [assumption|constructor; [assumption|constructor]].
Qed.

Lemma sorted_set_res : forall id t l,
  StronglySorted (fun a b => a_apply a < a_apply b) l ->
  StronglySorted (fun a b => a_apply a < a_apply b) (set_res id t l).
Proof.
  intros id t l H. unfold set_res.
  assert (Hap : forall a, a_apply (if Nat.eqb (a_id a) id then
              match a_res a with None => {| a_id := a_id a; a_kind := a_kind a; a_args := a_args a; a_inv := a_inv a;
                                            a_apply := a_apply a; a_res := Some t |} | Some _ => a end else a) = a_apply a).
  { intro a. destruct (Nat.eqb (a_id a) id); [|reflexivity]. destruct (a_res a); reflexivity. }
  induction H as [|a l Hs IH Hf]; cbn [map]; constructor; [exact IH|].
  rewrite Hap. rewrite Forall_map. eapply Forall_impl; [|exact Hf]. cbn beta. intros b Hb. rewrite Hap. exact Hb.
Qed.

Lemma sinv_step : forall s e, sinv s -> sinv (sstep s e).
Proof.
  intros s e [Hexec Htime Hpend Hsort]. destruct e as [id k args|id|id]; cbn [sstep].
  - (* EInv *)
    constructor; cbn [now st pending applied].
    + exact Hexec.
    + eapply Forall_impl; [|exact Htime]. intros a [H1 [H2 H3]]. repeat split; try assumption; lia.
    + apply Forall_app. split.
      * eapply Forall_impl; [|exact Hpend]. cbn beta. intros p Hp. lia.
      * constructor; [cbn; lia|constructor].
    + exact Hsort.
  - (* EApply *)
    destruct (take_pending id (pending s)) as [[p rest]|] eqn:Etp.
    + destruct (handler (st s) (p_kind p) (p_args p)) as [s' out] eqn:Eh.
      destruct (take_pending_in _ _ _ _ Etp) as [Hin Hsub].
      assert (Hpinv : p_inv p <= now s) by (rewrite Forall_forall in Hpend; apply Hpend; exact Hin).
      constructor; cbn [now st pending applied].
      * intro e. rewrite map_app, exec_app, Hexec. cbn [map exec].
        rewrite (handler_apply _ _ _ _ _ e id (p_inv p) (now s + 1) Eh). reflexivity.
      * apply Forall_app. split.
        -- eapply Forall_impl; [|exact Htime]. intros a [H1 [H2 H3]]. repeat split; try assumption; lia.
        -- constructor; [|constructor]. unfold timing_ok. cbn. repeat split; try lia. intros r Hr. discriminate.
      * rewrite Forall_forall. intros q Hq. rewrite Forall_forall in Hpend. specialize (Hpend q (Hsub q Hq)). lia.
      * apply sorted_snoc; [exact Hsort|]. eapply Forall_impl; [|exact Htime].
        intros a [H1 [H2 H3]]. cbn. lia.
    + constructor; cbn [now st pending applied].
      * exact Hexec.
      * eapply Forall_impl; [|exact Htime]. intros a [H1 [H2 H3]]. repeat split; try assumption; lia.
      * eapply Forall_impl; [|exact Hpend]. cbn beta. intros p Hp. lia.
      * exact Hsort.
  - (* ERes *)
    constructor; cbn [now st pending applied].
    + intro e. rewrite (exec_sem _ _ _ (sem_set_res e id (now s + 1) (applied s))). apply Hexec.
    + unfold set_res. rewrite Forall_map. eapply Forall_impl; [|exact Htime].
      intros a [H1 [H2 H3]]. destruct (Nat.eqb (a_id a) id).
      * destruct (a_res a) as [r0|] eqn:Er.
        -- repeat split; try assumption; try lia. intros r Hr. rewrite Er in Hr. apply H3. exact Hr.
        -- unfold timing_ok. cbn. repeat split; try lia. intros r Hr. inversion Hr; subst. lia.
      * repeat split; try assumption; lia.
    + eapply Forall_impl; [|exact Hpend]. cbn beta. intros p Hp. lia.
    + apply sorted_set_res. exact Hsort.
Qed.

Lemma sinv_run_from : forall evs s, sinv s -> sinv (fold_left sstep evs s).
Proof. induction evs as [|e evs IH]; intros s H; cbn [fold_left]; [exact H|]. apply IH. apply sinv_step. exact H. Qed.

Lemma sinv_run : forall evs, sinv (srun evs).
Proof. intro evs. apply sinv_run_from. exact sinv_init. Qed.

Lemma rt_of_sorted : forall nw (l : list aop),
  StronglySorted (fun a b => a_apply a < a_apply b) l -> Forall (timing_ok nw) l ->
  rt_ok (map (op_of (nw + 1)) l).
Proof.
  intros nw l Hs. induction Hs as [|a l Hs IH Hf]; intro Ht; cbn [map]; [constructor|].
  inversion Ht as [|? ? Hta Htl]; subst. constructor; [|apply IH; exact Htl].
  rewrite Forall_map. rewrite Forall_forall in *. intros b Hb.
  specialize (Hf b Hb). specialize (Htl b Hb). destruct Hta as [A1 [A2 A3]]. destruct Htl as [B1 [B2 B3]].
  unfold op_of. cbn [o_res o_inv]. destruct (a_res b) as [r|] eqn:Er.
  - specialize (B3 r eq_refl). lia.
  - lia.
Qed.

(* for every schedule (any number of clients, any interleaving of sends, dispatches and receptions) *)
Theorem dispatcher_histories_linearizable : forall evs, linearizable (history_of (srun evs)).
Proof.
  intro evs. destruct (sinv_run evs) as [Hexec Htime _ Hsort].
  exists (history_of (srun evs)). split; [apply Permutation_refl|split].
  - unfold history_of. apply rt_of_sorted; assumption.
  - unfold legal. apply legal_from_exec. eexists. unfold history_of. apply Hexec.
Qed.

(* ---------------------------------------------------------------------------------------------- *)
(* whole-request atomicity: torn reads are not linearizable *)

Lemma get_set_same : forall s n v, get (set s n v) n = v.
Proof.
  induction s as [|[m w] r IH]; intros n v; cbn [set get].
  - rewrite N.eqb_refl. reflexivity.
  - destruct (N.eqb m n) eqn:E; cbn [get]; rewrite E; [reflexivity|apply IH].
Qed.

Lemma get_set_other : forall s n m v, n <> m -> get (set s n v) m = get s m.
Proof.
  induction s as [|[k w] r IH]; intros n m v Hne; cbn [set get].
  - destruct (N.eqb n m) eqn:E; [apply N.eqb_eq in E; contradiction|reflexivity].
  - destruct (N.eqb k n) eqn:E; cbn [get].
    + apply N.eqb_eq in E. subst k. destruct (N.eqb n m) eqn:E2; [apply N.eqb_eq in E2; contradiction|reflexivity].
    + destruct (N.eqb k m); [reflexivity|apply IH; exact Hne].
Qed.

Definition uniform_store (ns : list N) (s : store) (v : Z) : Prop := forall n, In n ns -> get s n = v.

Lemma fold_set_value : forall args s n v,
  (forall nv, In nv args -> snd nv = v) -> (In n (map fst args) \/ get s n = v) ->
  get (fold_left (fun s nv => set s (fst nv) (snd nv)) args s) n = v.
Proof.
  induction args as [|[m w] r IH]; intros s n v Hv Hn; cbn [fold_left].
  - destruct Hn as [[]|H]; exact H.
  - apply IH; [intros nv H; apply Hv; right; exact H|].
    cbn [fst snd]. assert (Hw : w = v) by (apply (Hv (m, w)); left; reflexivity). subst w.
    destruct (N.eq_dec m n) as [E|E].
    + subst m. right. apply get_set_same.
    + destruct Hn as [[H|H]|H].
      * cbn in H. contradiction.
      * left. exact H.
      * right. rewrite get_set_other by exact E. exact H.
Qed.

Lemma existsb_N_in : forall n ns, existsb (N.eqb n) ns = true -> In n ns.
Proof.
  intros n ns H. apply existsb_exists in H. destruct H as [m [Hin Hm]]. apply N.eqb_eq in Hm. subst. exact Hin.
Qed.

Lemma group_step : forall ns s o s' v, group_write ns o = true -> uniform_store ns s v -> apply_op s o = Some s' ->
  (exists v', uniform_store ns s' v') /\ (o_kind o = KRead -> uniform_args ns o = true).
Proof.
  intros ns s o s' v Hg Hu Ha. unfold group_write in Hg. unfold apply_op in Ha.
  destruct (o_kind o) eqn:Ek.
  - (* read *)
    destruct (forallb (fun nv => get s (fst nv) =? snd nv) (o_args o)) eqn:Er; [|discriminate].
    inversion Ha; subst s'. split; [exists v; exact Hu|]. intros _.
    unfold uniform_args. destruct (o_args o) as [|[n0 v0] r] eqn:Eargs; [reflexivity|].
    rewrite forallb_forall in Hg, Er.
    assert (Hval : forall nv, In nv ((n0, v0) :: r) -> snd nv = v).
    { intros nv Hin. specialize (Er nv Hin). apply Z.eqb_eq in Er. rewrite <- Er. apply Hu.
      apply existsb_N_in. apply Hg. exact Hin. }
    apply forallb_forall. intros nv Hin. rewrite (Hg nv Hin). cbn [andb].
    apply Z.eqb_eq. rewrite (Hval nv Hin). symmetry. exact (Hval (n0, v0) (or_introl eq_refl)).
  - (* write *)
    inversion Ha; subst s'. split; [|discriminate].
    apply andb_prop in Hg. destruct Hg as [Hua Hcov]. unfold uniform_args in Hua.
    destruct (o_args o) as [|[n0 v0] r] eqn:Eargs.
    + (* no arguments: nothing changes *) exists v. exact Hu.
    + exists v0. intros n Hn. apply fold_set_value.
      * intros nv Hin. rewrite forallb_forall in Hua. specialize (Hua nv Hin). apply andb_prop in Hua.
        apply Z.eqb_eq. exact (proj2 Hua).
      * left. rewrite forallb_forall in Hcov. specialize (Hcov n Hn). apply existsb_exists in Hcov.
        destruct Hcov as [nv [Hin Heq]]. apply N.eqb_eq in Heq. subst n. apply in_map. exact Hin.
Qed.

Lemma group_exec : forall ns l s v, forallb (group_write ns) l = true -> uniform_store ns s v ->
  legal_from s l = true -> forallb (fun o => match o_kind o with KRead => uniform_args ns o | KWrite => true end) l = true.
Proof.
  intros ns l. induction l as [|o r IH]; intros s v Hg Hu Hl; [reflexivity|].
  cbn [forallb] in *. apply andb_prop in Hg. destruct Hg as [Hgo Hgr]. cbn [legal_from] in Hl.
  destruct (apply_op s o) as [s'|] eqn:Ea; [|discriminate].
  destruct (group_step ns s o s' v Hgo Hu Ea) as [[v' Hu'] Hread].
  apply andb_true_intro. split.
  - destruct (o_kind o) eqn:Ek; [apply Hread; reflexivity|reflexivity].
  - exact (IH s' v' Hgr Hu' Hl).
Qed.

Lemma forallb_perm : forall (A : Type) (f : A -> bool) l1 l2, Permutation l1 l2 -> forallb f l1 = forallb f l2.
Proof.
  intros A f l1 l2 H. induction H; cbn [forallb]; try congruence.
  destruct (f x), (f y); reflexivity.
Qed.

(* if every write of h sets all the nodes ns to one common value, a linearizable h has no torn read *)
Theorem torn_read_not_linearizable : forall ns h, group_history ns h = true -> untorn ns h = false -> ~ linearizable h.
Proof.
  intros ns h Hg Ht [l [Hp [_ Hl]]]. unfold group_history in Hg. unfold untorn in Ht.
  rewrite (forallb_perm _ _ _ _ (Permutation_sym Hp)) in Hg.
  rewrite (forallb_perm _ _ _ _ (Permutation_sym Hp)) in Ht.
  assert (Hu : uniform_store ns init_store 0) by (intros n _; reflexivity).
  rewrite (group_exec ns l init_store 0 Hg Hu Hl) in Ht. discriminate.
Qed.
