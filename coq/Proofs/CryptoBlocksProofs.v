(* CryptoBlocksProofs.v — block-wise RSA encryption/decryption (uapolicy RSAOAEP / PKCS1v15 loops) round-trips
   every plaintext, of every length, given a per-block primitive that round-trips blocks it can hold. *)
From Coq Require Import ZArith Bool Lia.
From Coq Require Import List.
From Coq.Strings Require Import Byte.
From Opcua Require Import Model.ChunkBytes Model.CryptoBlocks Proofs.ChunkBytesProofs.
Import ListNotations.
Open Scope Z_scope.

Section Blocks.
Variables (enc1 dec1 : bytes -> option bytes).
Variables (ks pb : Z).                    (* key size = cipher block; pb = plaintext bytes per block *)
Hypothesis Hpb : 0 < pb.
Hypothesis Hks : 0 < ks.
(* one block: any plaintext of at most pb bytes encrypts to exactly ks bytes which decrypt to it *)
Hypothesis Hblock : forall blk, zlen blk <= pb ->
  exists c, enc1 blk = Some c /\ zlen c = ks /\ dec1 c = Some blk.

Definition nblocks (n : Z) : Z := (n + pb - 1) / pb.

Lemma blockwise_roundtrip_fuel : forall fuel p, (length p <= fuel)%nat ->
  exists c, blockwise_loop fuel enc1 pb p = Ok c /\ zlen c = nblocks (zlen p) * ks /\
            forall fuel', (length c <= fuel')%nat -> blockwise_loop fuel' dec1 ks c = Ok p.
Proof.
  induction fuel as [|fuel IH]; intros p Hf.
  - destruct p; [|cbn in Hf; lia]. exists []. split; [reflexivity|]. split.
    + unfold nblocks. change (zlen (@nil byte)) with 0. rewrite Z.div_small by lia. reflexivity.
    + intros [|f'] _; reflexivity.
  - destruct p as [|x p'] eqn:Ep; [exists []; split; [reflexivity|]; split;
      [unfold nblocks; change (zlen (@nil byte)) with 0; rewrite Z.div_small by lia; reflexivity | intros [|f'] _; reflexivity]|].
    rewrite <- Ep in *. assert (Hp0 : 0 < zlen p) by (rewrite Ep, zlen_cons; pose proof (zlen_nonneg p'); lia).
    set (blk := ztake pb p). set (rest := zdrop pb p).
    assert (Hblk : zlen blk <= pb /\ 0 < zlen blk /\ zlen rest = zlen p - zlen blk).
    { unfold blk, rest. destruct (Z.le_gt_cases pb (zlen p)).
      - rewrite zlen_ztake, zlen_zdrop by lia. lia.
      - rewrite ztake_all, zdrop_all by lia. change (zlen (@nil byte)) with 0. lia. }
    destruct Hblk as (Hb1 & Hb2 & Hb3).
    destruct (Hblock blk Hb1) as (c1 & Hc1 & Hc1len & Hd1).
    destruct (IH rest) as (cs & Hcs & Hcslen & Hdec).
    { unfold zlen in *. lia. }
    exists (c1 ++ cs). split; [|split].
    + rewrite Ep. cbn [blockwise_loop]. rewrite <- Ep.
      replace (pb <? 0) with false by (symmetry; apply Z.ltb_ge; lia).
      fold blk rest. rewrite Hc1, Hcs. reflexivity.
    + rewrite zlen_app, Hc1len, Hcslen, Hb3. unfold nblocks.
      destruct (Z.le_gt_cases pb (zlen p)) as [Hge|Hlt].
      * assert (zlen blk = pb) by (unfold blk; apply zlen_ztake; lia).
        replace (zlen p + pb - 1) with ((zlen p - zlen blk + pb - 1) + 1 * pb) by lia.
        rewrite Z.div_add by lia. lia.
      * assert (zlen blk = zlen p) by (unfold blk; rewrite ztake_all by lia; reflexivity).
        replace (zlen p - zlen blk + pb - 1) with (pb - 1) by lia.
        rewrite (Z.div_small (pb - 1)) by lia.
        replace (zlen p + pb - 1) with ((zlen p - 1) + 1 * pb) by lia.
        rewrite Z.div_add by lia. rewrite Z.div_small by lia. lia.
    + intros fuel' Hf'.
      assert (Hc1pos : 0 < zlen c1) by lia.
      destruct (c1 ++ cs) as [|y l] eqn:Ecs.
      { apply (f_equal (@zlen byte)) in Ecs. rewrite zlen_app in Ecs. change (zlen (@nil byte)) with 0 in Ecs.
        pose proof (zlen_nonneg cs). lia. }
      rewrite <- Ecs in *.
      destruct fuel' as [|f']; [rewrite Ecs in Hf'; cbn in Hf'; lia|].
      rewrite Ecs. cbn [blockwise_loop]. rewrite <- Ecs.
      replace (ks <? 0) with false by (symmetry; apply Z.ltb_ge; lia).
      rewrite ztake_app_exact, zdrop_app_exact by exact Hc1len. rewrite Hd1.
      rewrite Hdec.
      * unfold blk, rest. rewrite ztake_zdrop. reflexivity.
      * rewrite app_length in Hf'. unfold zlen in Hc1pos. lia.
Qed.

(* Decrypt(Encrypt(p)) = p for every p, including the empty string and exact multiples of the block size;
   the ciphertext is ceil(len/pb) key-size blocks; no panic, the loops terminate *)
Theorem blockwise_roundtrip p :
  exists c, blockwise enc1 pb p = Ok c /\ zlen c = nblocks (zlen p) * ks /\ blockwise dec1 ks c = Ok p.
Proof.
  destruct (blockwise_roundtrip_fuel (S (length p)) p ltac:(lia)) as (c & Hc & Hlen & Hdec).
  exists c. split; [exact Hc|]. split; [exact Hlen|]. apply Hdec. lia.
Qed.

Lemma nblocks_aligned n : 0 <= n -> n mod pb = 0 -> nblocks n = n / pb.
Proof.
  intros Hn Hm. unfold nblocks.
  pose proof (Z.div_mod n pb ltac:(lia)) as D. rewrite Hm in D.
  replace (n + pb - 1) with ((pb - 1) + (n / pb) * pb) by lia.
  rewrite Z.div_add by lia. rewrite (Z.div_small (pb - 1)) by lia. lia.
Qed.
End Blocks.
