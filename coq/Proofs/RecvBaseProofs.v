From Coq Require Import NArith ZArith List Bool Lia.
From Opcua Require Import Model.RecvBase.
Import ListNotations.
Open Scope N_scope.

Section TblFacts.
  Context {V : Type}.
  Implicit Types (t : tbl V) (k : N).

  Lemma tfind_tset t k v k' : tfind (tset t k v) k' = if k' =? k then Some v else tfind t k'.
  Proof.
    induction t as [|[k0 v0] t IH]; cbn [tset tfind].
    - destruct (N.eqb_spec k' k); reflexivity.
    - destruct (N.eqb_spec k k0) as [->|Hk].
      + cbn [tfind]. destruct (N.eqb_spec k' k0); reflexivity.
      + destruct (N.ltb_spec k k0).
        * cbn [tfind]. destruct (N.eqb_spec k' k); [reflexivity|]. reflexivity.
        * cbn [tfind]. destruct (N.eqb_spec k' k0) as [->|].
          -- destruct (N.eqb_spec k0 k); [congruence|reflexivity].
          -- exact IH.
  Qed.

  Lemma tfind_tdel t k k' : tfind (tdel t k) k' = if k' =? k then None else tfind t k'.
  Proof.
    induction t as [|[k0 v0] t IH]; cbn [tdel tfind].
    - destruct (k' =? k); reflexivity.
    - destruct (N.eqb_spec k k0) as [->|Hk].
      + rewrite IH. destruct (N.eqb_spec k' k0); reflexivity.
      + cbn [tfind]. destruct (N.eqb_spec k' k0) as [->|].
        * destruct (N.eqb_spec k0 k); [congruence|reflexivity].
        * exact IH.
  Qed.

  Lemma tdel_length t k : (length (tdel t k) <= length t)%nat.
  Proof. induction t as [|[k0 v0] t IH]; cbn [tdel length]; [lia|]. destruct (k =? k0); cbn [length]; lia. Qed.

  Lemma tset_length t k v : (length (tset t k v) <= S (length t))%nat.
  Proof.
    induction t as [|[k0 v0] t IH]; cbn [tset length]; [lia|].
    destruct (k =? k0); cbn [length]; [lia|]. destruct (k <? k0); cbn [length]; lia.
  Qed.
End TblFacts.

Lemma nlen_app {A} (l1 l2 : list A) : nlen (l1 ++ l2) = nlen l1 + nlen l2.
Proof. unfold nlen. rewrite app_length. lia. Qed.

Lemma slice_no_panic_iff b lo hi :
  (exists r, slice b lo hi = Ok r) <-> (0 <= lo /\ lo <= hi /\ hi <= Z.of_nat (length b))%Z.
Proof.
  unfold slice. split.
  - intros [r H]. destruct (0 <=? lo)%Z eqn:E1; destruct (lo <=? hi)%Z eqn:E2; destruct (hi <=? Z.of_nat (length b))%Z eqn:E3;
      cbn in H; try discriminate. lia.
  - intros (H1 & H2 & H3).
    apply Z.leb_le in H1, H2, H3. rewrite H1, H2, H3. cbn. eauto.
Qed.

Lemma slice_length b lo hi r : slice b lo hi = Ok r -> Z.of_nat (length r) = (hi - lo)%Z.
Proof.
  unfold slice. destruct (0 <=? lo)%Z eqn:E1; destruct (lo <=? hi)%Z eqn:E2; destruct (hi <=? Z.of_nat (length b))%Z eqn:E3;
    cbn; try discriminate.
  intros [= <-]. rewrite firstn_length, skipn_length. lia.
Qed.
