From Coq Require Import List Bool NArith Lia.
From Coq.Strings Require Import Byte.
From Opcua Require Import Model.PureBytes.
Import ListNotations.

Lemma byte_eqb_refl : forall x : byte, Byte.eqb x x = true.
Proof. intro x. apply byte_dec_lb. reflexivity. Qed.

Lemma byte_eqb_eq : forall x y : byte, Byte.eqb x y = true <-> x = y.
Proof. intros x y. split; [apply byte_dec_bl | apply byte_dec_lb]. Qed.

Lemma byte_eqb_neq : forall x y : byte, Byte.eqb x y = false <-> x <> y.
Proof.
  intros x y. split.
  - apply Byte.eqb_false.
  - intro H. destruct (Byte.eqb x y) eqn:E; [|reflexivity]. apply byte_dec_bl in E. contradiction.
Qed.

Lemma beqb_eq : forall a b, beqb a b = true <-> a = b.
Proof.
  induction a as [|x a IH]; destruct b as [|y b]; cbn [beqb]; split; intro H; try reflexivity; try discriminate.
  - apply andb_true_iff in H. destruct H as [H1 H2]. apply byte_dec_bl in H1. apply IH in H2. subst. reflexivity.
  - inversion H; subst. rewrite byte_eqb_refl. cbn. apply IH. reflexivity.
Qed.

Lemma beqb_refl : forall a, beqb a a = true.
Proof. intro a. apply beqb_eq. reflexivity. Qed.

Lemma beqb_neq : forall a b, beqb a b = false <-> a <> b.
Proof.
  intros a b. split.
  - intros H E. apply beqb_eq in E. congruence.
  - intro H. destruct (beqb a b) eqn:E; [|reflexivity]. apply beqb_eq in E. contradiction.
Qed.

Lemma beqb_sym : forall a b, beqb a b = beqb b a.
Proof.
  intros a b. destruct (beqb a b) eqn:E.
  - apply beqb_eq in E. subst. symmetry. apply beqb_refl.
  - symmetry. apply beqb_neq. apply beqb_neq in E. congruence.
Qed.

Lemma has_prefix_app : forall p s, has_prefix (p ++ s) p = true.
Proof. induction p as [|x p IH]; intro s; cbn; [reflexivity|]. rewrite byte_eqb_refl. apply IH. Qed.

Lemma has_prefix_spec : forall p s, has_prefix s p = true <-> exists t, s = p ++ t.
Proof.
  induction p as [|y p IH]; intro s; cbn [has_prefix].
  - split; [intros _; exists s; reflexivity | reflexivity].
  - destruct s as [|x s].
    + split; [discriminate | intros [t H]; discriminate].
    + rewrite andb_true_iff, byte_eqb_eq, IH. split.
      * intros [-> [t ->]]. exists t. reflexivity.
      * intros [t H]. inversion H; subst. split; [reflexivity | exists t; reflexivity].
Qed.
