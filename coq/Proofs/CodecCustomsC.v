(* E1 codec, C01: round trip of Variant: null, scalars of every builtin type id, one-dimensional arrays (nil, empty,
   n elements), multi-dimensional arrays (flattened by Encode, rebuilt by split), relative to the decoder one nesting
   level down for the elements. *)
From Coq Require Import NArith ZArith List Bool Lia.
From Coq.Strings Require Import Byte.
From Opcua Require Import Model.CodecTypes Model.Codec Model.CodecWf Model.CodecWfAll Proofs.CodecBase Proofs.CodecRoundtrip
  Proofs.CodecRT Proofs.CodecCustomsA Proofs.CodecSplit.
Import ListNotations.
Open Scope Z_scope.

(* ------------------------------------------------------------------ the three walkers over the payload, by name *)
Definition enc_payload (reg : list (Z * Z * ty)) (tid : Z) : val -> eres :=
  fix enc_pl (pv : val) : eres :=
    match pv with
    | VSlice None => EOk []
    | VSlice (Some l) => (fix go (l : list val) : eres := match l with [] => EOk [] | x :: r => eapp (enc_pl x) (go r) end) l
    | _ => encode reg (variant_ty tid) pv
    end.
Definition wf_payload (reg : list (Z * Z * ty)) (tid : Z) : val -> bool :=
  fix lv (pv : val) : bool :=
    match pv with
    | VSlice None => true
    | VSlice (Some l) => (fix go (l : list val) : bool := match l with [] => true | x :: r => lv x && go r end) l
    | _ => rwf reg (variant_ty tid) pv
    end.
Definition norm_leaf (reg : list (Z * Z * ty)) (tid : Z) (x : val) : val :=
  let y := rnorm reg (variant_ty tid) x in if tid =? 15 then norm_vbytes y else y.
Definition norm_payload (reg : list (Z * Z * ty)) (tid : Z) : val -> val :=
  fix nl (pv : val) : val :=
    match pv with
    | VSlice None => pv
    | VSlice (Some l) => VSlice (Some ((fix go (l : list val) : list val := match l with [] => [] | x :: r => nl x :: go r end) l))
    | _ => norm_leaf reg tid pv
    end.

Definition enc_dims (mask dimslen : Z) (dims : list Z) : eres :=
  if bit mask 7 && bit mask 6 then
    if zlen dims <? dimslen then EPanic
    else EOk (le 4 dimslen ++ concat (map (le 4) (firstn (Z.to_nat dimslen) dims)))
  else EOk [].

Definition comb_pd (dimsb payload : eres) : eres :=
  match dimsb, payload with
  | EPanic, EOk _ => EPanic | EPanic, EErr => EPanic
  | _, _ => eapp payload dimsb
  end.
Lemma comb_pd_ok : forall bs payload, comb_pd (EOk bs) payload = eapp payload (EOk bs).
Proof. reflexivity. Qed.

Lemma encode_variant : forall reg mask alen dimslen dims value,
  encode reg (TCustom CVariant) (VVariant mask alen dimslen dims value) =
  if mask mod 64 =? 0 then EOk [byte_of_Z mask]
  else eapp (EOk [byte_of_Z mask])
      (eapp (eopt (bit mask 7) (EOk (le 4 alen)))
            (comb_pd (enc_dims mask dimslen dims)
                     (match value with None => EPanic | Some p => enc_payload reg (mask mod 64) p end))).
Proof. reflexivity. Qed.

Lemma rwf_variant : forall reg m alen dl dims value,
  rwf reg (TCustom CVariant) (VVariant m alen dl dims value) =
  byte_ok m &&
  (if m mod 64 =? 0 then (alen =? 0) && (dl =? 0) && is_nil dims && is_none value
   else match value with
        | None => false
        | Some p => variant_hdr_ok m alen dl dims p && wf_payload reg (m mod 64) p
        end).
Proof. reflexivity. Qed.

Lemma rnorm_variant : forall reg m alen dl dims value,
  rnorm reg (TCustom CVariant) (VVariant m alen dl dims value) =
  match value with
  | Some p => if m mod 64 =? 0 then VVariant m alen dl dims value
              else VVariant m alen dl dims (Some (norm_payload reg (m mod 64) p))
  | None => VVariant m alen dl dims value
  end.
Proof. intros. destruct value; reflexivity. Qed.

Lemma eapp_nil_l : forall e, eapp (EOk []) e = e.
Proof. intros [x| | |]; reflexivity. Qed.
Lemma eapp_nil_r : forall e, eapp e (EOk []) = e.
Proof. intros [x| | |]; cbn; [rewrite app_nil_r|..]; reflexivity. Qed.
Lemma eapp_assoc : forall a b c, eapp (eapp a b) c = eapp a (eapp b c).
Proof. intros [x| | |] [y| | |] [z| | |]; cbn; try reflexivity. rewrite app_assoc. reflexivity. Qed.
Lemma enc_list_app : forall f l1 l2, enc_list f (l1 ++ l2) = eapp (enc_list f l1) (enc_list f l2).
Proof.
  intros f l1 l2. induction l1 as [|x r IH]; cbn [app enc_list]; fold (enc_list f).
  - rewrite eapp_nil_l. reflexivity.
  - rewrite IH, eapp_assoc. reflexivity.
Qed.

(* the payload walkers are the list functions over the leaves *)
Lemma payload_walkers : forall reg tid p,
  enc_payload reg tid p = enc_list (encode reg (variant_ty tid)) (leaves p) /\
  wf_payload reg tid p = forallb (rwf reg (variant_ty tid)) (leaves p).
Proof.
  intros reg tid. induction p using val_ind';
    try (split; [cbn [enc_payload leaves enc_list]; rewrite eapp_nil_r; reflexivity
                |cbn [wf_payload leaves forallb]; rewrite andb_true_r; reflexivity]).
  - split; reflexivity.
  - rewrite leaves_slice. induction H as [|x r [Hx1 Hx2] _ [IH1 IH2]]; [split; reflexivity|].
    cbn [flat_map]. rewrite enc_list_app, forallb_app. split.
    + change (enc_payload reg tid (VSlice (Some (x :: r))))
        with (eapp (enc_payload reg tid x) (enc_payload reg tid (VSlice (Some r)))).
      rewrite Hx1, IH1. reflexivity.
    + change (wf_payload reg tid (VSlice (Some (x :: r))))
        with (wf_payload reg tid x && wf_payload reg tid (VSlice (Some r))).
      rewrite Hx2, IH2. reflexivity.
Qed.

Lemma norm_payload_slice : forall reg tid l,
  norm_payload reg tid (VSlice (Some l)) = VSlice (Some (map (norm_payload reg tid) l)).
Proof.
  intros reg tid l. change (norm_payload reg tid (VSlice (Some l))) with
    (VSlice (Some ((fix go (l : list val) : list val := match l with [] => [] | x :: r => norm_payload reg tid x :: go r end) l))).
  apply f_equal. apply f_equal. induction l as [|x r IH]; [reflexivity|]. cbn [map]. rewrite <- IH. reflexivity.
Qed.
Lemma norm_payload_leaf : forall reg tid x, not_slice x = true -> norm_payload reg tid x = norm_leaf reg tid x.
Proof. intros reg tid x H. destruct x; try reflexivity. discriminate. Qed.

(* ------------------------------------------------------------------ dimensions *)
Lemma in_le_nprod : forall ds d, Forall (fun d => 1 <= d)%nat ds -> In d ds -> (d <= nprod ds)%nat.
Proof.
  induction ds as [|a r IH]; intros d HF Hin; [destruct Hin|].
  inversion HF as [|? ? Ha Hr]; subst. rewrite nprod_cons. pose proof (nprod_pos r Hr) as Hp.
  destruct Hin as [->|Hin]; [nia|]. specialize (IH d Hr Hin). nia.
Qed.

Lemma dims_bound : forall dims c, forallb dim_ok dims = true -> dims_product dims 1 = Some c ->
  Forall (fun d => 1 <= d <= c) dims.
Proof.
  intros dims c Hge Hp. destruct (dims_product_nprod dims c Hge Hp) as [Hc HF]. subst c.
  apply Forall_forall. intros d Hin. rewrite forallb_forall in Hge. specialize (Hge d Hin). apply dim_ok_range in Hge.
  split; [lia|].
  assert (Hin' : In (Z.to_nat d) (map Z.to_nat dims)) by (apply in_map; exact Hin).
  pose proof (in_le_nprod _ _ HF Hin'). lia.
Qed.

Lemma decodes_dims : forall dims rest, Forall (fun d => 1 <= d <= max_int32) dims ->
  decodes (dec_n dec_dim (length dims)) (concat (map (le 4) dims) ++ rest) dims rest.
Proof.
  induction dims as [|d r IH]; intros rest HF; [apply decodes_ret|].
  inversion HF as [|? ? Hd Hr]; subst. cbn [map concat length dec_n]. rewrite <- app_assoc.
  eapply decodes_bind.
  - unfold dec_dim. eapply decodes_bind; [apply decodes_read_i; [lia|rewrite pow8_4; unfold max_int32 in Hd; lia]|].
    replace (d <? 1) with false by (symmetry; apply Z.ltb_ge; lia). apply decodes_ret.
  - eapply decodes_bind; [apply IH; exact Hr|apply decodes_ret].
Qed.

Lemma concat_le4_length : forall dims, length (concat (map (le 4) dims)) = (4 * length dims)%nat.
Proof. induction dims as [|d r IH]; [reflexivity|]. cbn [map concat length]. rewrite app_length, le_length, IH. lia. Qed.

(* the part of Variant.Decode after the elements: dimensions, consistency check, reshaping *)
Definition variant_dims_dec (mask : Z) : dec (Z * list Z) :=
  if bit mask 6 then
    dl <- read_i 4 ;;
    if (dl <? 0) || (max_variant_array_dimensions <? dl) then fail EOther
    else r <- remaining ;;
         if r / 4 <? dl then fail EEOF
         else tick (Z.to_N (4 * dl)) ;;;
              ds <- dec_n dec_dim (Z.to_nat dl) ;; ret (dl, ds)
  else ret (0, []).

Lemma EOk_inj : forall a b, EOk a = EOk b -> a = b.
Proof. intros a b H. inversion H. reflexivity. Qed.

Lemma decodes_variant_dims : forall m dl dims rest bs,
  bit m 7 = true -> enc_dims m dl dims = EOk bs ->
  dl = zlen dims -> dl <= max_variant_array_dimensions -> (bit m 6 = false -> dims = []) ->
  Forall (fun d => 1 <= d <= max_int32) dims ->
  decodes (variant_dims_dec m) (bs ++ rest) (dl, dims) rest.
Proof.
  intros m dl dims rest bs B7 E Hdl Hmax Hnil HF. unfold enc_dims in E. unfold variant_dims_dec. rewrite B7 in E. cbn [andb] in E.
  destruct (bit m 6) eqn:B6.
  - replace (zlen dims <? dl) with false in E by (symmetry; apply Z.ltb_ge; lia).
    apply EOk_inj in E. subst bs. subst dl. unfold zlen in *. rewrite Nat2Z.id, firstn_all. rewrite <- app_assoc.
    unfold max_variant_array_dimensions in *.
    eapply decodes_bind; [apply decodes_read_i; [lia|rewrite pow8_4; lia]|].
    replace ((Z.of_nat (length dims) <? 0) || (32 <? Z.of_nat (length dims))) with false
      by (symmetry; apply orb_false_iff; split; apply Z.ltb_ge; lia).
    eapply decodes_bind; [apply decodes_remaining|].
    replace (blen (concat (map (le 4) dims) ++ rest) / 4 <? Z.of_nat (length dims)) with false.
    2:{ symmetry. apply Z.ltb_ge. unfold blen. rewrite app_length, concat_le4_length.
        apply Z.div_le_lower_bound; lia. }
    eapply decodes_bind; [apply decodes_tick|]. rewrite Nat2Z.id.
    eapply decodes_bind; [apply decodes_dims; exact HF|apply decodes_ret].
  - apply EOk_inj in E. subst bs. rewrite (Hnil eq_refl) in *. cbn [zlen length Z.of_nat] in Hdl. subst dl. apply decodes_ret.
Qed.

Lemma hdr_array_facts : forall m alen dl dims p, bit m 7 = true -> variant_hdr_ok m alen dl dims p = true ->
  m mod 64 <= 25 /\ -1 <= alen <= max_variant_array_length /\ dl = zlen dims /\ dl <= max_variant_array_dimensions /\
  forallb dim_ok dims = true /\ (bit m 6 = false -> dims = []) /\
  (0 < dl -> dims_product dims 1 = Some alen) /\
  ((dl < 2 /\ alen = -1 /\ p = VSlice None) \/
   (dl < 2 /\ 0 <= alen /\ exists l, p = VSlice (Some l) /\ length l = Z.to_nat alen /\ forallb not_slice l = true) \/
   (2 <= dl /\ shape_ok (map Z.to_nat dims) p = true)).
Proof.
  intros m alen dl dims p B7 H. unfold variant_hdr_ok in H. rewrite B7 in H. cbn [negb] in H.
  apply andb_true in H. destruct H as [Htid H]. apply andb_true in H. destruct H as [H Hshape].
  apply andb_true in H. destruct H as [H Hdims]. apply andb_true in H. destruct H as [Hlo Hhi].
  apply Z.leb_le in Htid, Hlo, Hhi.
  assert (HD : dl = zlen dims /\ dl <= max_variant_array_dimensions /\ forallb dim_ok dims = true /\ (bit m 6 = false -> dims = []) /\
               (0 < dl -> dims_product dims 1 = Some alen)).
  { destruct (bit m 6).
    - split_and. apply Z.eqb_eq in H. apply Z.leb_le in H2. repeat split; try assumption; try discriminate.
      intros Hpos. replace (0 <? dl) with true in H0 by (symmetry; apply Z.ltb_lt; exact Hpos).
      destruct (dims_product dims 1) as [c|]; [|discriminate]. apply Z.eqb_eq in H0. subst c. reflexivity.
    - split_and. nones. cbn. repeat split; try reflexivity; unfold max_variant_array_dimensions; lia. }
  destruct HD as [H1 [H2 [H3 [H4 H5]]]]. repeat (split; [assumption || lia|]).
  destruct (dl <? 2) eqn:E2.
  - apply Z.ltb_lt in E2. destruct (alen =? -1) eqn:Ea.
    + apply Z.eqb_eq in Ea. left. destruct p; try discriminate. destruct l; [discriminate|]. auto.
    + apply Z.eqb_neq in Ea. right. left. split; [exact E2|]. split; [lia|].
      cbn [shape_ok] in Hshape. destruct p; try discriminate. destruct l as [l|]; [|discriminate].
      split_and. apply Nat.eqb_eq in H. exists l. auto.
  - apply Z.ltb_ge in E2. right. right. auto.
Qed.

Definition variant_tail (mask alen : Z) (vals : option (list val)) (dd : Z * list Z) : dec val :=
  let '(dl, ds) := dd in
  if (0 <? dl) && negb (match dims_product ds 1 with Some c => c =? alen | None => false end)
  then fail EOther
  else if dl <? 2 then ret (VVariant mask alen dl ds (Some (VSlice vals)))
  else match vals with
       | Some l => tick (24 * Z.to_N alen * Z.to_N dl + 3 * Z.to_N dl * Z.to_N dl) ;;;
                   ret (VVariant mask alen dl ds (Some (split (map Z.to_nat ds) l)))
       | None => ret (VVariant mask alen dl ds (Some (split (map Z.to_nat ds) [])))
       end.

Section Variant.
  Variable reg : list (Z * Z * ty).
  Variable rec : ty -> dec val.
  Variable k : nat.

  Lemma RTb_leaf : forall tid x, rwf reg (variant_ty tid) x = true ->
    RTb 1 k (encode reg (variant_ty tid) x) (rec (variant_ty tid)) (rnorm reg (variant_ty tid) x) ->
    RTb 1 k (encode reg (variant_ty tid) x) (dec_builtin rec tid) (norm_leaf reg tid x).
  Proof.
    intros tid x Hw Hr. unfold dec_builtin, norm_leaf. destruct (tid =? 15) eqn:E; [|exact Hr].
    apply Z.eqb_eq in E. subst tid. cbn [variant_ty] in *. destruct x; try discriminate.
    change (encode reg TBytes (VBytes b)) with (enc_bytestring b).
    change (rnorm reg TBytes (VBytes b)) with (VBytes b).
    replace (norm_vbytes (VBytes b)) with (VBytes (norm_obytes b)) by (destruct b as [[|c d]|]; reflexivity).
    apply (RTb_fmap _ _ _ _ _ _ VBytes). eapply RTb_weaken; [apply RTb_obytes|lia|apply le_n].
    destruct b; exact Hw.
  Qed.

  Lemma RTb_variant : forall m alen dl dims value,
    rwf reg (TCustom CVariant) (VVariant m alen dl dims value) = true ->
    (forall p x, value = Some p -> In x (leaves p) -> rwf reg (variant_ty (m mod 64)) x = true ->
       RTb 1 k (encode reg (variant_ty (m mod 64)) x) (rec (variant_ty (m mod 64))) (rnorm reg (variant_ty (m mod 64)) x)) ->
    RTb 1 (S k) (encode reg (TCustom CVariant) (VVariant m alen dl dims value)) (dec_variant rec)
        (rnorm reg (TCustom CVariant) (VVariant m alen dl dims value)).
  Proof.
    intros m alen dl dims value H Hrec. rewrite rwf_variant in H. apply andb_true in H. destruct H as [Hm H].
    rewrite encode_variant, rnorm_variant. unfold dec_variant. apply RTb_tick.
    destruct (m mod 64 =? 0) eqn:E0.
    - (* null *)
      split_and. nones.
      rt_weaken ltac:(rewrite <- (eapp_nil_r (EOk [byte_of_Z m]));
                      eapply RTb_bind; [apply RTb_byte; exact Hm|]; cbv beta zeta; rewrite E0; apply RTb_ret).
    - destruct value as [p|]; [|discriminate]. apply andb_true in H. destruct H as [Hhdr Hpl].
      destruct (payload_walkers reg (m mod 64) p) as [Eenc Ewf]. rewrite Ewf in Hpl. rewrite Eenc.
      rewrite forallb_forall in Hpl.
      assert (Hleaf : forall x, In x (leaves p) ->
                RTb 1 k (encode reg (variant_ty (m mod 64)) x) (dec_builtin rec (m mod 64)) (norm_leaf reg (m mod 64) x)).
      { intros x Hin. apply RTb_leaf; [apply Hpl; exact Hin|]. apply (Hrec p x eq_refl Hin). apply Hpl. exact Hin. }
      destruct (bit m 7) eqn:B7.
      + (* arrays *)
        destruct (hdr_array_facts m alen dl dims p B7 Hhdr) as [Htid [Halen [Hdl [Hdlmax [Hge [Hnil [Hprod Hcases]]]]]]].
        set (tid := m mod 64) in *.
        set (VALS := if alen =? -1 then ret None
                     else bind (tick (Z.to_N alen * variant_elsize tid))
                            (fun _ => bind (dec_n (dec_builtin rec tid) (Z.to_nat alen)) (fun l => ret (Some l)))).
        assert (Hchk : ((0 <? dl) && negb (match dims_product dims 1 with Some c => c =? alen | None => false end)) = false).
        { destruct (0 <? dl) eqn:Ep; [|reflexivity]. apply Z.ltb_lt in Ep. rewrite (Hprod Ep), Z.eqb_refl. reflexivity. }
        assert (Hvals : exists vals, RTb (Z.to_nat alen) k (enc_list (encode reg (variant_ty tid)) (leaves p)) VALS vals /\
                  forall rest, decodes (variant_tail m alen vals (dl, dims)) rest
                                       (VVariant m alen dl dims (Some (norm_payload reg tid p))) rest).
        { destruct Hcases as [[Hd2 [Ha Hp]]|[[Hd2 [Ha [l [Hp [Hlen Hns]]]]]|[Hd2 Hshape]]].
          - subst p alen. exists None. split; [unfold VALS; cbn; apply RTb_ret|].
            intros rest. unfold variant_tail. rewrite Hchk.
            replace (dl <? 2) with true by (symmetry; apply Z.ltb_lt; exact Hd2). apply decodes_ret.
          - subst p. rewrite leaves_flat in * by exact Hns. exists (Some (map (norm_leaf reg tid) l)). split.
            + unfold VALS. replace (alen =? -1) with false by (symmetry; apply Z.eqb_neq; lia).
              apply RTb_tick. apply (RTb_fmap _ _ _ _ _ _ (@Some (list val))). rewrite <- Hlen.
              eapply RTb_weaken; [apply RTb_list with (m := 1%nat)|lia|apply le_n].
              apply Forall_forall. exact Hleaf.
            + intros rest. unfold variant_tail. rewrite Hchk.
              replace (dl <? 2) with true by (symmetry; apply Z.ltb_lt; exact Hd2).
              rewrite norm_payload_slice.
              replace (map (norm_payload reg tid) l) with (map (norm_leaf reg tid) l); [apply decodes_ret|].
              apply map_ext_in. intros x Hx. symmetry. apply norm_payload_leaf.
              rewrite forallb_forall in Hns. apply Hns. exact Hx.
          - assert (Hpos : 0 < dl) by lia. specialize (Hprod Hpos).
            destruct (dims_product_nprod dims alen Hge Hprod) as [Ealen HF].
            destruct (split_leaves (norm_leaf reg tid) (norm_payload reg tid)
                        (norm_payload_leaf reg tid) (norm_payload_slice reg tid) _ p HF Hshape) as [Hlen Hsplit].
            pose proof (nprod_pos _ HF) as Hnp.
            exists (Some (map (norm_leaf reg tid) (leaves p))). split.
            + unfold VALS. replace (alen =? -1) with false by (symmetry; apply Z.eqb_neq; lia).
              apply RTb_tick. apply (RTb_fmap _ _ _ _ _ _ (@Some (list val))).
              replace (Z.to_nat alen) with (length (leaves p)) by lia.
              eapply RTb_weaken; [apply RTb_list with (m := 1%nat)|lia|apply le_n].
              apply Forall_forall. exact Hleaf.
            + intros rest. unfold variant_tail. rewrite Hchk.
              replace (dl <? 2) with false by (symmetry; apply Z.ltb_ge; exact Hd2).
              eapply decodes_bind; [apply decodes_tick|]. rewrite Hsplit. apply decodes_ret. }
        destruct Hvals as [vals [Hvals Htail]].
        assert (Hdimsb : exists dbs, enc_dims m dl dims = EOk dbs).
        { unfold enc_dims. rewrite B7. cbn [andb]. destruct (bit m 6); [|eexists; reflexivity].
          replace (zlen dims <? dl) with false by (symmetry; apply Z.ltb_ge; lia). eexists; reflexivity. }
        destruct Hdimsb as [dbs Edbs]. rewrite Edbs, comb_pd_ok. cbn [eopt].
        assert (HFd : Forall (fun d => 1 <= d <= max_int32) dims).
        { destruct (0 <? dl) eqn:Ep.
          - apply Z.ltb_lt in Ep. pose proof (dims_bound dims alen Hge (Hprod Ep)) as Hb.
            eapply Forall_impl; [|exact Hb]. cbv beta. intros d Hd. unfold max_variant_array_length, max_int32 in *. lia.
          - apply Z.ltb_ge in Ep. destruct dims; [constructor|]. unfold zlen in Hdl. cbn [length] in Hdl. lia. }
        rt_weaken ltac:(eapply RTb_bind_strict; [apply le_n|apply RTb_byte; exact Hm|]; cbv beta zeta; fold tid; rewrite E0;
                        replace (25 <? tid) with false by (symmetry; apply Z.ltb_ge; lia);
                        rewrite B7; cbn [negb];
                        eapply RTb_bind; [apply RTb_i; [lia|rewrite pow8_4; unfold max_variant_array_length in Halen; lia]|];
                        cbv beta;
                        replace (max_variant_array_length <? alen) with false by (symmetry; apply Z.ltb_ge; lia);
                        replace (alen <? -1) with false by (symmetry; apply Z.ltb_ge; lia);
                        eapply (RTb_guard_remaining _ (Z.to_nat alen + 0)); [|lia];
                        eapply RTb_bind; [exact Hvals|];
                        eapply RTb_prim; [reflexivity|apply Nat.le_0_l|]; intros rest;
                        eapply decodes_bind; [apply (decodes_variant_dims m dl dims rest dbs B7 Edbs Hdl Hdlmax Hnil HFd)|];
                        apply Htail).
      + (* scalar *)
        unfold variant_hdr_ok in Hhdr. rewrite B7 in Hhdr. cbn [negb] in Hhdr. split_and. nones.
        apply Z.leb_le in H.
        rewrite (leaves_not_slice p) in * by assumption.
        unfold enc_dims. rewrite B7. cbn [andb eopt]. rewrite comb_pd_ok, eapp_nil_l, eapp_nil_r.
        cbn [enc_list]. rewrite eapp_nil_r.
        rt_weaken ltac:(eapply RTb_bind_strict; [apply le_n|apply RTb_byte; exact Hm|]; cbv beta zeta; rewrite E0;
                        replace (25 <? m mod 64) with false by (symmetry; apply Z.ltb_ge; lia);
                        rewrite B7; cbn [negb];
                        apply (RTb_fmap _ _ _ _ _ _ (fun v => VVariant m 0 0 [] (Some v)));
                        rewrite norm_payload_leaf by assumption; apply Hleaf; left; reflexivity).
  Qed.
End Variant.
