From Coq Require Import List Bool NArith ZArith Lia PeanoNat.
From Coq Require Import ZifyN ZifyNat ZifyBool.
From Coq.Strings Require Import Byte.
From Opcua Require Import Model.PureBytes Proofs.PureBytesProofs Model.NodeIdText.
Import ListNotations.
Open Scope N_scope.
Ltac Zify.zify_post_hook ::= Z.div_mod_to_equations.

(* ====================== bytes ====================== *)

Lemma to_N_lt : forall b : byte, Byte.to_N b < 256.
Proof. intro b. pose proof (Byte.to_N_bounded b). lia. Qed.

Lemma of_N_to_N_small : forall v, v < 256 -> exists b, Byte.of_N v = Some b /\ Byte.to_N b = v.
Proof.
  intros v Hv. destruct (Byte.of_N v) as [b|] eqn:E.
  - exists b. split; [reflexivity|]. apply Byte.to_of_N. exact E.
  - exfalso. pose proof (Byte.to_of_N_option_map v) as H. rewrite E in H. cbn in H.
    destruct (v <=? 255) eqn:E2; [discriminate|]. lia.
Qed.

Lemma byte_of_spec : forall x b, x mod 256 = Byte.to_N b -> byte_of x = b.
Proof. intros x b H. unfold byte_of. rewrite H, Byte.of_to_N. reflexivity. Qed.

(* ====================== decimal ====================== *)

Lemma digit_val_char : forall d, d < 10 -> digit_val (digit_char d) = Some d.
Proof.
  intros d Hd. assert (H : d = 0 \/ d = 1 \/ d = 2 \/ d = 3 \/ d = 4 \/ d = 5 \/ d = 6 \/ d = 7 \/ d = 8 \/ d = 9) by lia.
  repeat (destruct H as [->|H]; [reflexivity|]). subst. reflexivity.
Qed.

Lemma digits_from_app : forall l a c, digits_from a (l ++ [c]) =
  match digits_from a l with Some v => match digit_val c with Some d => Some (v * 10 + d) | None => None end | None => None end.
Proof.
  induction l as [|x l IH]; intros a c; cbn [digits_from app].
  - destruct (digit_val c); reflexivity.
  - destruct (digit_val x); [apply IH | reflexivity].
Qed.

Lemma dec_fuel_digits : forall fuel n, n < 2 ^ N.of_nat fuel -> digits_from 0 (dec_fuel fuel n) = Some n.
Proof.
  induction fuel as [|f IH]; intros n Hn.
  - cbn in Hn. assert (n = 0) by lia. subst. reflexivity.
  - cbn [dec_fuel]. destruct (n <? 10) eqn:E.
    + cbn [digits_from]. rewrite digit_val_char by lia. f_equal; lia.
    + rewrite digits_from_app. rewrite IH.
      * rewrite digit_val_char by (apply N.mod_lt; lia). f_equal; lia.
      * rewrite Nat2N.inj_succ, N.pow_succ_r' in Hn. apply N.div_lt_upper_bound; lia.
Qed.

Lemma dec_fuel_nonempty : forall f n, dec_fuel (S f) n <> [].
Proof. intros f n. cbn [dec_fuel]. destruct (n <? 10); [discriminate|]. destruct (dec_fuel f (n / 10)); discriminate. Qed.

Definition is_digit (c : byte) : Prop := exists d, digit_val c = Some d.

Lemma dec_fuel_all_digits : forall fuel n, Forall is_digit (dec_fuel fuel n).
Proof.
  induction fuel as [|f IH]; intro n; cbn [dec_fuel]; [constructor|].
  destruct (n <? 10) eqn:E.
  - constructor; [|constructor]. exists n. apply digit_val_char. lia.
  - apply Forall_app. split; [apply IH|]. constructor; [|constructor]. exists (n mod 10). apply digit_val_char. apply N.mod_lt. lia.
Qed.

Lemma size_bound : forall n, n < 2 ^ N.of_nat (S (N.to_nat (N.size n))).
Proof.
  intro n. rewrite Nat2N.inj_succ, N2Nat.id, N.pow_succ_r'. pose proof (N.size_gt n). lia.
Qed.

Lemma digits_dec : forall n, digits (dec n) = Some n.
Proof.
  intro n. unfold digits, dec. pose proof (dec_fuel_nonempty (N.to_nat (N.size n)) n) as Hne.
  destruct (dec_fuel (S (N.to_nat (N.size n))) n) eqn:E; [congruence|]. rewrite <- E. apply dec_fuel_digits. apply size_bound.
Qed.

Lemma dec_all_digits : forall n, Forall is_digit (dec n).
Proof. intro n. apply dec_fuel_all_digits. Qed.

Lemma dec_nonempty : forall n, dec n <> [].
Proof. intro n. apply dec_fuel_nonempty. Qed.

Lemma parse_uint64_dec : forall n, n < 18446744073709551616 -> parse_uint64 (dec n) = Some n.
Proof. intros n Hn. unfold parse_uint64. rewrite digits_dec. destruct (n <? 18446744073709551616) eqn:E; [reflexivity | lia]. Qed.

Lemma atoi_dec : forall n, n < 9223372036854775808 -> atoi (dec n) = Some (Z.of_N n).
Proof.
  intros n Hn. unfold atoi. pose proof (dec_nonempty n) as Hne. pose proof (dec_all_digits n) as Hd. pose proof (digits_dec n) as Hdig.
  destruct (dec n) as [|c r] eqn:E; [congruence|]. inversion Hd as [|? ? [d Hc] _]; subst.
  assert (Hp : Byte.eqb c c_plus = false). { apply byte_eqb_neq. intro; subst. discriminate Hc. }
  assert (Hm : Byte.eqb c c_dash = false). { apply byte_eqb_neq. intro; subst. discriminate Hc. }
  rewrite Hp, Hm, Hdig. destruct (n <? 9223372036854775808) eqn:E2; [reflexivity | lia].
Qed.

Definition no_semi (s : bytes) : Prop := Forall (fun c => c <> c_semi) s.

Lemma digit_not_semi : forall c, is_digit c -> c <> c_semi.
Proof. intros c [d H] ->. discriminate H. Qed.

Lemma dec_no_semi : forall n, no_semi (dec n).
Proof. intro n. eapply Forall_impl; [|apply dec_all_digits]. apply digit_not_semi. Qed.

(* ====================== hex ====================== *)

Definition hex_ok (b : byte) : bool :=
  match hex_byte b with
  | [h; l] =>
    match hex_val h, hex_val l with
    | Some a, Some c => match Byte.of_N (16 * a + c) with Some x => Byte.eqb x b | None => false end
                        && negb (Byte.eqb h c_dash) && negb (Byte.eqb l c_dash) && negb (Byte.eqb h c_semi) && negb (Byte.eqb l c_semi)
    | _, _ => false
    end
  | _ => false
  end.

Lemma hex_ok_all : forall b, hex_ok b = true.
Proof. destruct b; vm_compute; reflexivity. Qed.

Lemma hex_byte_inv : forall b, exists h l a c, hex_byte b = [h; l] /\ hex_val h = Some a /\ hex_val l = Some c /\ Byte.of_N (16 * a + c) = Some b /\
  h <> c_dash /\ l <> c_dash /\ h <> c_semi /\ l <> c_semi.
Proof.
  intro b. pose proof (hex_ok_all b) as H. unfold hex_ok in H.
  destruct (hex_byte b) as [|h [|l [|? ?]]]; try discriminate.
  destruct (hex_val h) as [a|] eqn:Eh; [|discriminate]. destruct (hex_val l) as [c|] eqn:El; [|discriminate].
  destruct (Byte.of_N (16 * a + c)) as [x|] eqn:Eo; [|discriminate].
  rewrite !andb_true_iff, !negb_true_iff in H. destruct H as [[[[H1 H2] H3] H4] H5].
  apply byte_dec_bl in H1. subst x. apply byte_eqb_neq in H2, H3, H4, H5.
  exists h, l, a, c. repeat split; try assumption; reflexivity.
Qed.

Lemma unhex_hex_app : forall l r, unhex (hex_bytes l ++ r) = option_map (app l) (unhex r).
Proof.
  induction l as [|b l IH]; intro r.
  - cbn. destruct (unhex r); reflexivity.
  - unfold hex_bytes in *. cbn [flat_map]. destruct (hex_byte_inv b) as (h & lo & a & c & E & Hh & Hl & Hof & _). rewrite E.
    cbn [app unhex]. rewrite Hh, Hl, IH, Hof. destruct (unhex r); reflexivity.
Qed.

Lemma unhex_hex : forall l, unhex (hex_bytes l) = Some l.
Proof. intro l. rewrite <- (app_nil_r (hex_bytes l)), unhex_hex_app. cbn. rewrite app_nil_r. reflexivity. Qed.

Lemma hex_bytes_app : forall a b, hex_bytes (a ++ b) = hex_bytes a ++ hex_bytes b.
Proof. intros. unfold hex_bytes. apply flat_map_app. Qed.

Lemma hex_bytes_length : forall l, length (hex_bytes l) = (2 * length l)%nat.
Proof.
  induction l as [|b l IH]; [reflexivity|]. unfold hex_bytes in *. cbn [flat_map]. rewrite app_length, IH.
  destruct (hex_byte_inv b) as (h & lo & a & c & E & _). rewrite E. cbn. lia.
Qed.

Lemma remove_dashes_hex : forall l, remove_dashes (hex_bytes l) = hex_bytes l.
Proof.
  induction l as [|b l IH]; [reflexivity|]. unfold hex_bytes, remove_dashes in *. cbn [flat_map]. rewrite filter_app, IH.
  destruct (hex_byte_inv b) as (h & lo & a & c & E & _ & _ & _ & Hd1 & Hd2 & _). rewrite E. cbn [filter].
  apply byte_eqb_neq in Hd1, Hd2. rewrite Hd1, Hd2. reflexivity.
Qed.

Lemma hex_bytes_no_semi : forall l, no_semi (hex_bytes l).
Proof.
  induction l as [|b l IH]; [constructor|]. unfold hex_bytes in *. cbn [flat_map]. apply Forall_app. split; [|exact IH].
  destruct (hex_byte_inv b) as (h & lo & a & c & E & _ & _ & _ & _ & _ & Hs1 & Hs2). rewrite E. repeat constructor; assumption.
Qed.

Lemma be_bytes_length : forall k v, length (be_bytes k v) = k.
Proof. induction k as [|k IH]; intro v; [reflexivity|]. cbn [be_bytes]. rewrite app_length, IH. cbn. lia. Qed.

Lemma be_val_app1 : forall l b, be_val (l ++ [b]) = be_val l * 256 + Byte.to_N b.
Proof. intros. unfold be_val. rewrite fold_left_app. reflexivity. Qed.

Lemma be_val_bytes : forall k v, v < 256 ^ N.of_nat k -> be_val (be_bytes k v) = v.
Proof.
  induction k as [|k IH]; intros v Hv.
  - cbn in Hv. assert (v = 0) by lia. subst. reflexivity.
  - cbn [be_bytes]. rewrite be_val_app1, IH.
    + destruct (of_N_to_N_small (v mod 256)) as (b & Hb & Hb2); [apply N.mod_lt; lia|]. rewrite Hb, Hb2. lia.
    + rewrite Nat2N.inj_succ, N.pow_succ_r' in Hv. apply N.div_lt_upper_bound; lia.
Qed.

(* ====================== base64 ====================== *)

Definition b64_sextet_ok (v : N) : bool :=
  match b64_val (b64_char v) with Some w => w =? v | None => false end
  && negb (is_nl (b64_char v)) && negb (Byte.eqb (b64_char v) c_eq) && negb (Byte.eqb (b64_char v) c_semi).

Lemma b64_sextets_ok : forallb b64_sextet_ok (map N.of_nat (seq 0 64)) = true.
Proof. vm_compute. reflexivity. Qed.

Lemma b64_char_spec : forall v, v < 64 ->
  b64_val (b64_char v) = Some v /\ is_nl (b64_char v) = false /\ b64_char v <> c_eq /\ b64_char v <> c_semi.
Proof.
  intros v Hv. pose proof b64_sextets_ok as H. rewrite forallb_forall in H.
  assert (Hin : In v (map N.of_nat (seq 0 64))).
  { apply in_map_iff. exists (N.to_nat v). split; [lia|]. apply in_seq. lia. }
  specialize (H v Hin). unfold b64_sextet_ok in H. rewrite !andb_true_iff, !negb_true_iff in H. destruct H as [[[H1 H2] H3] H4].
  destruct (b64_val (b64_char v)) as [w|]; [|discriminate]. apply N.eqb_eq in H1. subst w.
  apply byte_eqb_neq in H3, H4. repeat split; assumption.
Qed.

Lemma skip_nl_data : forall c r, is_nl c = false -> skip_nl (c :: r) = c :: r.
Proof. intros c r H. cbn [skip_nl]. rewrite H. reflexivity. Qed.

Lemma dec_step4 : forall f c1 c2 c3 c4 v1 v2 v3 v4 rest,
  is_nl c1 = false -> is_nl c2 = false -> is_nl c3 = false -> is_nl c4 = false ->
  b64_val c1 = Some v1 -> b64_val c2 = Some v2 -> b64_val c3 = Some v3 -> b64_val c4 = Some v4 ->
  b64_decode_fuel (S f) (c1 :: c2 :: c3 :: c4 :: rest) =
  match b64_decode_fuel f rest with
  | Some t => let v := ((v1 * 64 + v2) * 64 + v3) * 64 + v4 in Some (byte_of (v / 65536) :: byte_of (v / 256) :: byte_of v :: t)
  | None => None
  end.
Proof.
  intros f c1 c2 c3 c4 v1 v2 v3 v4 rest N1 N2 N3 N4 V1 V2 V3 V4.
  cbn [b64_decode_fuel]. rewrite (skip_nl_data _ _ N1), V1, (skip_nl_data _ _ N2), V2, (skip_nl_data _ _ N3), V3, (skip_nl_data _ _ N4), V4. reflexivity.
Qed.

Lemma dec_pad1 : forall f c1 c2 c3 v1 v2 v3,
  is_nl c1 = false -> is_nl c2 = false -> is_nl c3 = false ->
  b64_val c1 = Some v1 -> b64_val c2 = Some v2 -> b64_val c3 = Some v3 ->
  b64_decode_fuel (S f) [c1; c2; c3; c_eq] = let v := (v1 * 64 + v2) * 64 + v3 in Some [byte_of (v / 1024); byte_of (v / 4)].
Proof.
  intros f c1 c2 c3 v1 v2 v3 N1 N2 N3 V1 V2 V3.
  cbn [b64_decode_fuel]. rewrite (skip_nl_data _ _ N1), V1, (skip_nl_data _ _ N2), V2, (skip_nl_data _ _ N3), V3. reflexivity.
Qed.

Lemma dec_pad2 : forall f c1 c2 v1 v2,
  is_nl c1 = false -> is_nl c2 = false -> b64_val c1 = Some v1 -> b64_val c2 = Some v2 ->
  b64_decode_fuel (S f) [c1; c2; c_eq; c_eq] = Some [byte_of ((v1 * 64 + v2) / 16)].
Proof.
  intros f c1 c2 v1 v2 N1 N2 V1 V2.
  cbn [b64_decode_fuel]. rewrite (skip_nl_data _ _ N1), V1, (skip_nl_data _ _ N2), V2. reflexivity.
Qed.

Lemma b64_roundtrip_fuel : forall fuel l, (length l < fuel)%nat -> b64_decode_fuel fuel (b64_encode l) = Some l.
Proof.
  induction fuel as [|f IH]; intros l Hl; [lia|].
  destruct l as [|a [|b [|c r]]].
  - reflexivity.
  - cbn [b64_encode]. pose proof (to_N_lt a) as Ha.
    destruct (b64_char_spec (Byte.to_N a * 65536 / 262144)) as (V1 & N1 & _); [lia|].
    destruct (b64_char_spec ((Byte.to_N a * 65536 / 4096) mod 64)) as (V2 & N2 & _); [lia|].
    rewrite (dec_pad2 f _ _ _ _ N1 N2 V1 V2). do 2 f_equal. apply byte_of_spec. lia.
  - cbn [b64_encode]. pose proof (to_N_lt a) as Ha. pose proof (to_N_lt b) as Hb.
    set (v := Byte.to_N a * 65536 + Byte.to_N b * 256).
    destruct (b64_char_spec (v / 262144)) as (V1 & N1 & _); [subst v; lia|].
    destruct (b64_char_spec ((v / 4096) mod 64)) as (V2 & N2 & _); [lia|].
    destruct (b64_char_spec ((v / 64) mod 64)) as (V3 & N3 & _); [lia|].
    rewrite (dec_pad1 f _ _ _ _ _ _ N1 N2 N3 V1 V2 V3). cbv zeta. f_equal. f_equal; [|f_equal]; apply byte_of_spec; subst v; lia.
  - cbn [b64_encode]. pose proof (to_N_lt a) as Ha. pose proof (to_N_lt b) as Hb. pose proof (to_N_lt c) as Hc.
    set (v := Byte.to_N a * 65536 + Byte.to_N b * 256 + Byte.to_N c).
    destruct (b64_char_spec (v / 262144)) as (V1 & N1 & _); [subst v; lia|].
    destruct (b64_char_spec ((v / 4096) mod 64)) as (V2 & N2 & _); [lia|].
    destruct (b64_char_spec ((v / 64) mod 64)) as (V3 & N3 & _); [lia|].
    destruct (b64_char_spec (v mod 64)) as (V4 & N4 & _); [lia|].
    rewrite (dec_step4 f _ _ _ _ _ _ _ _ _ N1 N2 N3 N4 V1 V2 V3 V4). rewrite IH by (cbn [length] in Hl; lia).
    cbv zeta. f_equal. f_equal; [|f_equal; [|f_equal]]; apply byte_of_spec; subst v; lia.
Qed.

Lemma b64_encode_length_ge : forall l, (length l <= length (b64_encode l))%nat.
Proof.
  assert (G : forall n l, (length l <= n)%nat -> (length l <= length (b64_encode l))%nat).
  { induction n as [|n IH]; intros l Hl.
    - destruct l; [cbn; lia | cbn in Hl; lia].
    - destruct l as [|a [|b [|c r]]]; cbn [b64_encode length]; try lia.
      assert (length r <= length (b64_encode r))%nat by (apply IH; cbn [length] in Hl; lia). lia. }
  intro l. apply (G (length l)). lia.
Qed.

Theorem b64_roundtrip : forall l, b64_decode (b64_encode l) = Some l.
Proof. intro l. unfold b64_decode. apply b64_roundtrip_fuel. pose proof (b64_encode_length_ge l). lia. Qed.

Lemma b64_encode_no_semi : forall l, no_semi (b64_encode l).
Proof.
  assert (Heq : c_eq <> c_semi) by discriminate.
  assert (G : forall n l, (length l <= n)%nat -> no_semi (b64_encode l)).
  { induction n as [|n IH]; intros l Hl.
    - destruct l; [constructor | cbn in Hl; lia].
    - destruct l as [|a [|b [|c r]]]; cbn [b64_encode].
      + constructor.
      + pose proof (to_N_lt a). repeat constructor; try exact Heq; apply b64_char_spec; lia.
      + pose proof (to_N_lt a). pose proof (to_N_lt b). repeat constructor; try exact Heq; apply b64_char_spec; lia.
      + pose proof (to_N_lt a). pose proof (to_N_lt b). pose proof (to_N_lt c).
        repeat (constructor; [apply b64_char_spec; lia|]). apply IH. cbn [length] in Hl. lia. }
  intro l. apply (G (length l)). lia.
Qed.

(* ====================== SplitN(s, ";", 2) ====================== *)

Lemma split_semi_no : forall s, no_semi s -> split_semi s = (s, None).
Proof.
  induction s as [|c r IH]; intro H; [reflexivity|]. inversion H; subst. cbn [split_semi].
  assert (E : Byte.eqb c c_semi = false) by (apply byte_eqb_neq; assumption). rewrite E, IH by assumption. reflexivity.
Qed.

Lemma split_semi_at : forall p q, no_semi p -> split_semi (p ++ c_semi :: q) = (p, Some q).
Proof.
  induction p as [|c r IH]; intros q H.
  - reflexivity.
  - inversion H; subst. cbn [app split_semi].
    assert (E : Byte.eqb c c_semi = false) by (apply byte_eqb_neq; assumption). rewrite E, IH by assumption. reflexivity.
Qed.

Lemma no_semi_app : forall a b, no_semi a -> no_semi b -> no_semi (a ++ b).
Proof. intros. apply Forall_app. split; assumption. Qed.

Lemma contains_semi_false : forall s, contains_semi s = false -> no_semi s.
Proof.
  induction s as [|c r IH]; intro H; [constructor|]. cbn in H. apply orb_false_iff in H. destruct H as [H1 H2].
  constructor; [apply byte_eqb_neq; exact H1 | apply IH; exact H2].
Qed.

(* ====================== the namespace part ====================== *)

Lemma parse_expanded_ns0 : forall body tbl, body <> [] -> no_semi body -> parse_expanded body tbl = parse_ident 0 [] body.
Proof.
  intros body tbl Hne Hns. unfold parse_expanded. destruct body as [|c r]; [congruence|].
  rewrite (split_semi_no _ Hns). reflexivity.
Qed.

Lemma parse_ns_dec : forall ns tbl, ns < 65536 -> parse_ns (s_ns ++ dec ns) tbl = Ok (ns, []).
Proof.
  intros ns tbl Hns. unfold parse_ns.
  change (has_prefix (s_ns ++ dec ns) s_nsu) with false.
  rewrite (has_prefix_app s_ns). change (drop 3 (s_ns ++ dec ns)) with (dec ns).
  rewrite atoi_dec by lia.
  destruct ((Z.of_N ns <? 0)%Z || (65535 <? Z.of_N ns)%Z) eqn:E; [lia|]. rewrite N2Z.id. reflexivity.
Qed.

Lemma parse_expanded_ns : forall ns body tbl, ns < 65536 ->
  parse_expanded (s_ns ++ dec ns ++ [c_semi] ++ body) tbl = parse_ident ns [] body.
Proof.
  intros ns body tbl Hns. unfold parse_expanded.
  assert (Hp : no_semi (s_ns ++ dec ns)). { apply no_semi_app; [repeat constructor; discriminate | apply dec_no_semi]. }
  replace (s_ns ++ dec ns ++ [c_semi] ++ body) with ((s_ns ++ dec ns) ++ c_semi :: body) by (rewrite <- app_assoc; reflexivity).
  destruct ((s_ns ++ dec ns) ++ c_semi :: body) eqn:E; [destruct (s_ns ++ dec ns); discriminate|]. rewrite <- E.
  rewrite (split_semi_at _ _ Hp). rewrite parse_ns_dec by exact Hns. reflexivity.
Qed.

Lemma find_uri_spec : forall tbl u k i, find_uri tbl u k = Some i ->
  (k <= i)%nat /\ nth_error tbl (i - k) = Some u /\ forall j, (j < i - k)%nat -> nth_error tbl j <> Some u.
Proof.
  induction tbl as [|x t IH]; intros u k i H; [discriminate|]. cbn [find_uri] in H.
  destruct (beqb x u) eqn:E.
  - inversion H; subst. apply beqb_eq in E. subst. rewrite Nat.sub_diag. repeat split; [lia|]. intros j Hj. lia.
  - destruct (IH _ _ _ H) as (H1 & H2 & H3). split; [lia|].
    replace (i - k)%nat with (S (i - S k)) by lia. split; [exact H2|].
    intros j Hj. destruct j as [|j]; cbn.
    + intro X. inversion X; subst. rewrite beqb_refl in E. discriminate.
    + apply H3. lia.
Qed.

Lemma parse_expanded_nsu : forall tbl u i idpart, find_uri tbl u 0 = Some i -> no_semi u ->
  parse_expanded (s_nsu ++ u ++ c_semi :: idpart) (Some tbl) = parse_ident (N.of_nat i mod 65536) u idpart.
Proof.
  intros tbl u i idpart Hf Hu. unfold parse_expanded.
  assert (Hp : no_semi (s_nsu ++ u)). { apply no_semi_app; [repeat constructor; discriminate | exact Hu]. }
  replace (s_nsu ++ u ++ c_semi :: idpart) with ((s_nsu ++ u) ++ c_semi :: idpart) by (rewrite <- app_assoc; reflexivity).
  destruct ((s_nsu ++ u) ++ c_semi :: idpart) eqn:E; [discriminate|]. rewrite <- E.
  rewrite (split_semi_at _ _ Hp). unfold parse_ns. rewrite (has_prefix_app s_nsu).
  change (drop 4 (s_nsu ++ u)) with u. rewrite Hf. reflexivity.
Qed.

(* ====================== the identifier part ====================== *)

Lemma parse_ident_i : forall ns nsu id, id < 18446744073709551616 ->
  parse_ident ns nsu (s_i ++ dec id) =
    if (ns =? 0) && (id <? 256) then Ok (new_expanded (NTwoByte 0 id) [])
    else if (ns <? 256) && (id <? 65535) then Ok (new_expanded (NFourByte ns id) nsu)
    else if id <=? 4294967295 then Ok (new_expanded (NNumeric ns id) nsu)
    else Err ENumericRange.
Proof.
  intros ns nsu id Hid. unfold parse_ident. rewrite (has_prefix_app s_i). change (drop 2 (s_i ++ dec id)) with (dec id).
  rewrite parse_uint64_dec by exact Hid. reflexivity.
Qed.

Lemma parse_ident_s : forall ns nsu s, parse_ident ns nsu (s_s ++ s) = Ok (new_expanded (NString ns s) nsu).
Proof. intros. unfold parse_ident. change (has_prefix (s_s ++ s) s_i) with false. rewrite (has_prefix_app s_s). reflexivity. Qed.

Lemma parse_ident_b : forall ns nsu b, parse_ident ns nsu (s_b ++ b64_encode b) = Ok (new_expanded (NOpaque ns b) nsu).
Proof.
  intros. unfold parse_ident. change (has_prefix (s_b ++ b64_encode b) s_i) with false.
  change (has_prefix (s_b ++ b64_encode b) s_s) with false. change (has_prefix (s_b ++ b64_encode b) s_g) with false.
  rewrite (has_prefix_app s_b). change (drop 2 (s_b ++ b64_encode b)) with (b64_encode b). rewrite b64_roundtrip. reflexivity.
Qed.

(* ---- GUID ---- *)
Lemma firstn_app_exact : forall A (a b : list A) n, length a = n -> firstn n (a ++ b) = a.
Proof. intros A a b n H. subst n. rewrite firstn_app, Nat.sub_diag, firstn_all. cbn. apply app_nil_r. Qed.
Lemma skipn_app_exact : forall A (a b : list A) n, length a = n -> skipn n (a ++ b) = b.
Proof. intros A a b n H. subst n. rewrite skipn_app, Nat.sub_diag, skipn_all. reflexivity. Qed.

Lemma pad8_length : forall l, length (pad8 l) = 8%nat.
Proof. intro l. unfold pad8. rewrite firstn_length, app_length, repeat_length. lia. Qed.

Lemma pad8_idem : forall l, pad8 (pad8 l) = pad8 l.
Proof. intro l. unfold pad8 at 1. apply firstn_app_exact. apply pad8_length. Qed.

Definition norm_guid (g : guid) : guid := {| g1 := g1 g; g2 := g2 g; g3 := g3 g; g4 := pad8 (g4 g) |}.

Lemma wf_guid_inv : forall g, wf_guid g = true -> g1 g < 4294967296 /\ g2 g < 65536 /\ g3 g < 65536.
Proof. intros g H. unfold wf_guid in H. lia. Qed.

Lemma guid_text_norm : forall g, guid_text (norm_guid g) = guid_text g.
Proof. intro g. unfold guid_text, norm_guid. cbn [g1 g2 g3 g4]. rewrite pad8_idem. reflexivity. Qed.

Lemma guid_text_no_semi : forall g, no_semi (guid_text g).
Proof.
  intro g. unfold guid_text. assert (D : no_semi [c_dash]) by (repeat constructor; discriminate).
  repeat (apply no_semi_app; [try apply hex_bytes_no_semi; try exact D|]). apply hex_bytes_no_semi.
Qed.

Lemma guid_text_nonempty : forall g, guid_text g <> [].
Proof.
  intro g. unfold guid_text. intro H. apply (f_equal (@length byte)) in H. rewrite !app_length, !hex_bytes_length, be_bytes_length in H. cbn in H. lia.
Qed.

Lemma new_guid_text : forall g, wf_guid g = true -> new_guid (guid_text g) = Some (norm_guid g).
Proof.
  intros g H. destruct (wf_guid_inv g H) as (H1 & H2 & H3). unfold new_guid. pose proof (pad8_length (g4 g)) as H4.
  set (d := pad8 (g4 g)) in *.
  assert (E : remove_dashes (guid_text g) = hex_bytes (be_bytes 4 (g1 g) ++ be_bytes 2 (g2 g) ++ be_bytes 2 (g3 g) ++ d)).
  { unfold guid_text, remove_dashes. fold d. rewrite !filter_app. fold (remove_dashes (hex_bytes (be_bytes 4 (g1 g)))).
    fold (remove_dashes (hex_bytes (be_bytes 2 (g2 g)))). fold (remove_dashes (hex_bytes (be_bytes 2 (g3 g)))).
    fold (remove_dashes (hex_bytes (firstn 2 d))). fold (remove_dashes (hex_bytes (skipn 2 d))).
    rewrite !remove_dashes_hex. cbn [filter]. change (Byte.eqb c_dash c_dash) with true. cbn [negb app].
    rewrite <- !hex_bytes_app. rewrite firstn_skipn. reflexivity. }
  rewrite E, unhex_hex. rewrite !app_length, !be_bytes_length, H4. cbn [Nat.add Nat.eqb].
  rewrite (firstn_app_exact _ _ _ 4%nat (be_bytes_length 4 _)).
  rewrite (skipn_app_exact _ _ _ 4%nat (be_bytes_length 4 _)).
  rewrite (firstn_app_exact _ _ _ 2%nat (be_bytes_length 2 _)).
  replace (be_bytes 4 (g1 g) ++ be_bytes 2 (g2 g) ++ be_bytes 2 (g3 g) ++ d)
    with ((be_bytes 4 (g1 g) ++ be_bytes 2 (g2 g)) ++ be_bytes 2 (g3 g) ++ d) by (rewrite <- app_assoc; reflexivity).
  rewrite (skipn_app_exact _ (be_bytes 4 (g1 g) ++ be_bytes 2 (g2 g)) _ 6%nat) by (rewrite app_length, !be_bytes_length; reflexivity).
  rewrite (firstn_app_exact _ _ _ 2%nat (be_bytes_length 2 _)).
  replace ((be_bytes 4 (g1 g) ++ be_bytes 2 (g2 g)) ++ be_bytes 2 (g3 g) ++ d)
    with ((be_bytes 4 (g1 g) ++ be_bytes 2 (g2 g) ++ be_bytes 2 (g3 g)) ++ d) by (rewrite <- !app_assoc; reflexivity).
  rewrite (skipn_app_exact _ (be_bytes 4 (g1 g) ++ be_bytes 2 (g2 g) ++ be_bytes 2 (g3 g)) _ 8%nat) by (rewrite !app_length, !be_bytes_length; reflexivity).
  rewrite (be_val_bytes 4) by (change (256 ^ N.of_nat 4) with 4294967296; exact H1).
  rewrite !(be_val_bytes 2) by (change (256 ^ N.of_nat 2) with 65536; assumption).
  reflexivity.
Qed.

Lemma parse_ident_g : forall ns nsu g, wf_guid g = true ->
  parse_ident ns nsu (s_g ++ guid_text g) = Ok (new_expanded (NGuid ns (Some (norm_guid g))) nsu).
Proof.
  intros ns nsu g H. unfold parse_ident. change (has_prefix (s_g ++ guid_text g) s_i) with false.
  change (has_prefix (s_g ++ guid_text g) s_s) with false. rewrite (has_prefix_app s_g).
  change (drop 2 (s_g ++ guid_text g)) with (guid_text g). rewrite (new_guid_text g H). reflexivity.
Qed.

(* ====================== parse (render n) ====================== *)

Lemma parse_of_expanded : forall s n, parse_expanded s None = Ok (new_expanded n []) -> parse s = Ok n.
Proof. intros s n H. unfold parse. rewrite H. reflexivity. Qed.

Lemma smallest_eq : forall ns id, ns < 65536 -> id < 4294967296 ->
  (if (ns =? 0) && (id <? 256) then Ok (new_expanded (NTwoByte 0 id) [])
   else if (ns <? 256) && (id <? 65535) then Ok (new_expanded (NFourByte ns id) [])
   else if id <=? 4294967295 then Ok (new_expanded (NNumeric ns id) []) else Err ENumericRange) = Ok (new_expanded (smallest ns id) []).
Proof.
  intros ns id Hns Hid. unfold smallest. destruct ((ns =? 0) && (id <? 256)); [reflexivity|].
  destruct ((ns <? 256) && (id <? 65535)); [reflexivity|]. destruct (id <=? 4294967295) eqn:E; [reflexivity | lia].
Qed.

(* with_ns: both spellings of the namespace lead to the identifier parser *)
Lemma parse_with_ns : forall ns tag id tbl, ns < 65536 -> tag <> [] -> no_semi (tag ++ id) ->
  parse_expanded (with_ns ns tag id) tbl = parse_ident ns [] (tag ++ id).
Proof.
  intros ns tag id tbl Hns Htag Hsemi. unfold with_ns. destruct (ns =? 0) eqn:E.
  - apply N.eqb_eq in E. subst. apply parse_expanded_ns0; [destruct tag; [congruence | discriminate] | exact Hsemi].
  - apply parse_expanded_ns. exact Hns.
Qed.

Lemma tag_no_semi : forall tag id, Forall (fun c => c <> c_semi) tag -> no_semi id -> no_semi (tag ++ id).
Proof. intros. apply no_semi_app; assumption. Qed.

Theorem parse_render_wf : forall n, wf_id n = true -> exists s, render n = Ok s /\ parse s = Ok (canon n).
Proof.
  intros n Hwf. unfold render. destruct n as [ns id|ns id|ns id|ns s|ns g|ns b|t]; cbn [wf_id] in Hwf; try discriminate.
  - (* two byte *)
    apply andb_true_iff in Hwf. destruct Hwf as [H1 H2]. apply N.eqb_eq in H1. subst ns.
    eexists. split; [reflexivity|]. apply parse_of_expanded. cbn [canon].
    rewrite parse_expanded_ns0; [| discriminate | apply tag_no_semi; [repeat constructor; discriminate | apply dec_no_semi]].
    rewrite parse_ident_i by lia. apply smallest_eq; lia.
  - (* four byte *)
    apply andb_true_iff in Hwf. destruct Hwf as [H1 H2].
    eexists. split; [reflexivity|]. apply parse_of_expanded. cbn [canon].
    rewrite parse_with_ns; [| lia | discriminate | apply tag_no_semi; [repeat constructor; discriminate | apply dec_no_semi]].
    rewrite parse_ident_i by lia. apply smallest_eq; lia.
  - (* numeric *)
    apply andb_true_iff in Hwf. destruct Hwf as [H1 H2].
    eexists. split; [reflexivity|]. apply parse_of_expanded. cbn [canon].
    rewrite parse_with_ns; [| lia | discriminate | apply tag_no_semi; [repeat constructor; discriminate | apply dec_no_semi]].
    rewrite parse_ident_i by lia. apply smallest_eq; lia.
  - (* string *)
    cbn [render_gen orb]. destruct ((ns =? 0) && negb (contains_semi s)) eqn:E.
    + apply andb_true_iff in E. destruct E as [E1 E2]. apply N.eqb_eq in E1. subst ns. apply negb_true_iff in E2.
      eexists. split; [reflexivity|]. apply parse_of_expanded. cbn [canon].
      rewrite parse_expanded_ns0; [| discriminate | apply tag_no_semi; [repeat constructor; discriminate | apply contains_semi_false; exact E2]].
      apply parse_ident_s.
    + eexists. split; [reflexivity|]. apply parse_of_expanded. cbn [canon].
      rewrite parse_expanded_ns by lia. apply parse_ident_s.
  - (* guid *)
    destruct g as [g|]; [|discriminate]. apply andb_true_iff in Hwf. destruct Hwf as [H1 H2].
    cbn [render_gen string_id]. unfold guid_string.
    eexists. split; [reflexivity|]. apply parse_of_expanded. cbn [canon].
    rewrite parse_with_ns; [| lia | discriminate | apply tag_no_semi; [repeat constructor; discriminate | apply guid_text_no_semi]].
    apply parse_ident_g. exact H2.
  - (* opaque *)
    eexists. split; [reflexivity|]. apply parse_of_expanded. cbn [canon].
    rewrite parse_with_ns; [| lia | discriminate | apply tag_no_semi; [repeat constructor; discriminate | apply b64_encode_no_semi]].
    apply parse_ident_b.
Qed.

(* ====================== equality ====================== *)

Lemma render_wf_ok : forall n, wf_id n = true -> exists s, render n = Ok s.
Proof. intros n H. destruct (parse_render_wf n H) as (s & Hs & _). exists s. exact Hs. Qed.

Lemma node_of_smallest : forall ns id, node_of (smallest ns id) = NodeNum ns id.
Proof.
  intros ns id. unfold smallest. destruct ((ns =? 0) && (id <? 256)) eqn:E.
  - apply andb_true_iff in E. destruct E as [E _]. apply N.eqb_eq in E. subst. reflexivity.
  - destruct ((ns <? 256) && (id <? 65535)); reflexivity.
Qed.

Lemma node_of_canon : forall n, wf_id n = true -> node_of (canon n) = node_of n.
Proof.
  intros n H. destruct n as [ns id|ns id|ns id|ns s|ns g|ns b|t]; cbn [canon]; try reflexivity; try (rewrite node_of_smallest; reflexivity).
  destruct g as [g|]; [|reflexivity]. cbn [node_of g1 g2 g3 g4]. rewrite pad8_idem. reflexivity.
Qed.

(* the text form is a function of the node *)
Definition render_node (nd : node) : res bytes :=
  match nd with
  | NodeNum ns id => Ok (with_ns ns s_i (dec id))
  | NodeStr ns s => render (NString ns s)
  | NodeGuid ns a b c d => render (NGuid ns (Some (Build_guid a b c d)))
  | NodeOpaque ns b => render (NOpaque ns b)
  | NodeNone => Panic
  end.

Lemma render_by_node : forall n, wf_id n = true -> render n = render_node (node_of n).
Proof.
  intros n H. destruct n as [ns id|ns id|ns id|ns s|ns g|ns b|t]; cbn [wf_id] in H; try discriminate.
  - apply andb_true_iff in H. destruct H as [H _]. apply N.eqb_eq in H. subst. reflexivity.
  - reflexivity.
  - reflexivity.
  - reflexivity.
  - destruct g as [g|]; [|discriminate]. cbn [node_of render_node]. unfold render. cbn [render_gen string_id]. unfold guid_string.
    rewrite <- (guid_text_norm g). reflexivity.
  - reflexivity.
Qed.

Theorem equal_iff_same_node : forall a b, wf_id a = true -> wf_id b = true ->
  exists r, equal a b = Ok r /\ (r = true <-> node_of a = node_of b).
Proof.
  intros a b Ha Hb. destruct (parse_render_wf a Ha) as (sa & Ra & Pa). destruct (parse_render_wf b Hb) as (sb & Rb & Pb).
  unfold equal, equal_gen. fold render. rewrite Ra, Rb. exists (beqb sa sb). split; [reflexivity|]. split.
  - intro E. apply beqb_eq in E. subst sb. rewrite Pa in Pb. inversion Pb as [Hc].
    rewrite <- (node_of_canon a Ha), <- (node_of_canon b Hb), Hc. reflexivity.
  - intro E. apply beqb_eq. rewrite (render_by_node a Ha), (render_by_node b Hb), E in *. rewrite Ra in Rb. inversion Rb. reflexivity.
Qed.

(* ====================== registry ====================== *)

Theorem registry_roundtrip : forall id t, wf_id id = true ->
  exists r, reg_register false reg_empty id t = RegOk r /\ reg_new false r id = Ok (Some t) /\ reg_lookup r t = Ok (Some (canon id)).
Proof.
  intros id t H. destruct (parse_render_wf id H) as (s & Rs & Ps). unfold reg_register, reg_new, reg_lookup. fold render. rewrite Rs.
  cbn [reg_empty r_types r_ids bassoc nassoc]. eexists. split; [reflexivity|]. cbn [r_types r_ids bassoc nassoc].
  rewrite beqb_refl, N.eqb_refl, Ps. split; reflexivity.
Qed.

Lemma wf_smallest : forall ns id, ns < 65536 -> id < 4294967296 -> wf_id (smallest ns id) = true.
Proof.
  intros ns id Hns Hid. unfold smallest. destruct ((ns =? 0) && (id <? 256)) eqn:E1; [cbn [wf_id]; lia|].
  destruct ((ns <? 256) && (id <? 65535)) eqn:E2; cbn [wf_id]; lia.
Qed.

Lemma wf_canon : forall n, wf_id n = true -> wf_id (canon n) = true.
Proof.
  intros n H. destruct n as [ns id|ns id|ns id|ns s|ns g|ns b|t]; cbn [canon]; try exact H; try (cbn [wf_id] in H; apply wf_smallest; lia).
  destruct g as [g|]; exact H.
Qed.

(* ====================== ExpandedNodeID flags in the mask ====================== *)
Lemma view_set_flags : forall f r, N.land f 15 = 0 -> view (set_flags f r) = view r.
Proof.
  intros f r Hf. unfold view, set_flags. cbn [r_mask r_ns r_nid r_bid r_gid].
  rewrite N.land_lor_distr_l, Hf, N.lor_0_r. reflexivity.
Qed.

(* ====================== what NewGUIDNodeID produces is well-formed ====================== *)
Lemma be_val_lt : forall l, be_val l < 256 ^ N.of_nat (length l).
Proof.
  induction l as [|b l IH] using rev_ind; [cbn; lia|].
  rewrite be_val_app1, app_length. cbn [length]. rewrite Nat.add_1_r, Nat2N.inj_succ, N.pow_succ_r'. pose proof (to_N_lt b) as Hb.
  set (P := 256 ^ N.of_nat (length l)) in *. clearbody P. nia.
Qed.

Lemma be_val_firstn_lt : forall k l, be_val (firstn k l) < 256 ^ N.of_nat k.
Proof.
  intros k l. eapply N.lt_le_trans; [apply be_val_lt|]. apply N.pow_le_mono_r; [lia|]. pose proof (firstn_le_length k l). lia.
Qed.

Lemma new_guid_wf : forall s g, new_guid s = Some g -> wf_guid g = true.
Proof.
  intros s g H. unfold new_guid in H. destruct (unhex (remove_dashes s)) as [b|]; [|discriminate].
  destruct (Nat.eqb (length b) 16); [|discriminate].
  assert (E1 : g1 g = be_val (firstn 4 b)) by (injection H as <-; reflexivity).
  assert (E2 : g2 g = be_val (firstn 2 (skipn 4 b))) by (injection H as <-; reflexivity).
  assert (E3 : g3 g = be_val (firstn 2 (skipn 6 b))) by (injection H as <-; reflexivity).
  pose proof (be_val_firstn_lt 4 b) as A. pose proof (be_val_firstn_lt 2 (skipn 4 b)) as B. pose proof (be_val_firstn_lt 2 (skipn 6 b)) as C.
  change (256 ^ N.of_nat 4) with 4294967296 in A. change (256 ^ N.of_nat 2) with 65536 in B, C.
  unfold wf_guid. rewrite E1, E2, E3. apply N.ltb_lt in A, B, C. rewrite A, B, C. reflexivity.
Qed.

Lemma new_guid_nodeid_wf : forall ns s, ns < 65536 -> wf_id (new_guid_nodeid ns s) = true.
Proof.
  intros ns s Hns. unfold new_guid_nodeid. cbn [wf_id]. destruct (new_guid s) as [g|] eqn:E.
  - rewrite (new_guid_wf _ _ E). lia.
  - cbn. lia.
Qed.
