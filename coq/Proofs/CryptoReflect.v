(* CryptoReflect.v — what verifyAndDecrypt accepts carries a tag that verifies under the receiver's key;
   hence a side's own traffic, reflected back to it, is rejected whenever tags made with its sending key do not
   verify under its receiving key (C14, direction separation). *)
From Coq Require Import ZArith Bool Lia.
From Coq Require Import List.
From Coq.Strings Require Import Byte.
From Opcua Require Import Model.Layout Model.ChunkBytes Model.ChunkModel Proofs.ChunkBytesProofs.
Import ListNotations.
Open Scope Z_scope.

(* the bytes whose tag is checked: after decryption (if any), everything but the last RemoteSignatureLength bytes *)
Definition checked_bytes (m : sec_mode) (asym : bool) (A : algo) (hl : Z) (r : bytes) : option bytes :=
  if encrypts m asym then
    match a_dec A (zdrop hl r) with Some p => Some (ztake hl r ++ p) | None => None end
  else Some r.

Theorem accepted_verifies m pnone asym A hl r d :
  (match m with ModeNone => true | _ => false end) && (pnone || negb asym) = false ->
  verify_decrypt m pnone asym A hl r = Ok d ->
  exists b, checked_bytes m asym A hl r = Some b /\
            a_verify A (ztake (zlen b - a_rsig A) b) (zdrop (zlen b - a_rsig A) b) = true.
Proof.
  intros Hby. unfold verify_decrypt, checked_bytes. rewrite Hby.
  destruct (encrypts m asym).
  - destruct ((hl <? 0) || (zlen r <? hl)); [discriminate|].
    destruct (a_dec A (zdrop hl r)) as [p|]; [|discriminate].
    exists (ztake hl r ++ p). split; [reflexivity|].
    destruct (zlen (ztake hl r ++ p) <? hl + a_rsig A); [discriminate|].
    destruct ((zlen (ztake hl r ++ p) - a_rsig A <? 0) || (a_rsig A <? 0)); [discriminate|].
    destruct (a_verify A _ _); [reflexivity | discriminate].
  - exists r. split; [reflexivity|].
    destruct (zlen r <? hl + a_rsig A); [discriminate|].
    destruct ((zlen r - a_rsig A <? 0) || (a_rsig A <? 0)); [discriminate|].
    destruct (a_verify A _ _); [reflexivity | discriminate].
Qed.

(* Sign mode: a chunk secured by A, handed back to A itself, is rejected *)
Theorem reflected_rejected A pnone hl raw w :
  0 <= hl -> 0 <= a_rsig A ->
  (forall msg s, a_sign A msg = Some s -> zlen s = a_rsig A) ->
  (forall msg s, a_sign A msg = Some s -> a_verify A msg s = false) ->
  sign_encrypt ModeSign false A hl raw = Ok w ->
  verify_decrypt ModeSign pnone false A hl w = Err ESecurityChecks.
Proof.
  intros Hhl Hrs Hlen Hsep. unfold sign_encrypt. cbn [encrypts].
  destruct ((hl <? 0) || (zlen raw <? hl)); [discriminate|].
  destruct (put32 4 raw (hl + (zlen raw - hl + a_sig A))) as [b2|]; [|discriminate].
  destruct (a_sign A b2) as [s|] eqn:Hs; [|discriminate].
  rewrite ztake_zdrop. intros Hw. injection Hw as <-.
  unfold verify_decrypt. cbn [andb encrypts].
  destruct (zlen (b2 ++ s) <? hl + a_rsig A); [reflexivity|].
  pose proof (Hlen b2 s Hs) as Hsl. pose proof (zlen_nonneg b2).
  rewrite zlen_app. replace (zlen b2 + zlen s - a_rsig A) with (zlen b2) by lia.
  replace ((zlen b2 <? 0) || (a_rsig A <? 0)) with false by (symmetry; apply orb_false_iff; split; apply Z.ltb_ge; lia).
  rewrite zdrop_app_exact, ztake_app_exact by reflexivity.
  rewrite (Hsep b2 s Hs). reflexivity.
Qed.
