(* Pure list facts about split / chunks / leaves / shape_ok / dims_product (Variant arrays with dimensions). *)
From Coq Require Import NArith ZArith List Bool Lia.
From Coq.Strings Require Import Byte.
From Opcua Require Import Model.CodecTypes Model.Codec Model.CodecWf Model.CodecWfAll.
Import ListNotations.

Definition nprod (ds : list nat) : nat := fold_right Nat.mul 1%nat ds.

Lemma nprod_cons : forall d ds, nprod (d :: ds) = (d * nprod ds)%nat.
Proof. reflexivity. Qed.

Lemma nprod_pos : forall ds, Forall (fun d => 1 <= d)%nat ds -> (1 <= nprod ds)%nat.
Proof.
  induction 1 as [|d ds Hd _ IH]; [cbn; lia|].
  rewrite nprod_cons. set (s := nprod ds) in *. nia.
Qed.

(* ------------------------------------------------------------------ list helpers *)
Lemma firstn_app_exact : forall (A : Type) (a b : list A), firstn (length a) (a ++ b) = a.
Proof. induction a as [|x a IH]; intros b; cbn; [reflexivity | f_equal; apply IH]. Qed.

Lemma skipn_app_exact : forall (A : Type) (a b : list A), skipn (length a) (a ++ b) = b.
Proof. induction a as [|x a IH]; intros b; cbn; [reflexivity | apply IH]. Qed.

Lemma length_concat_const : forall (A : Type) (s : nat) (xs : list (list A)),
  Forall (fun x => length x = s) xs -> length (concat xs) = (length xs * s)%nat.
Proof.
  induction 1 as [|x xs Hx _ IH]; [reflexivity|].
  cbn [concat length]. rewrite app_length, IH, Hx. cbn [Nat.mul]. reflexivity.
Qed.

Lemma forallb_concat : forall (A : Type) (f : A -> bool) (xs : list (list A)),
  forallb f (concat xs) = true -> Forall (fun c => forallb f c = true) xs.
Proof.
  induction xs as [|x xs IH]; intros H; [constructor|].
  cbn [concat] in H. rewrite forallb_app in H. apply andb_true_iff in H as [H1 H2].
  constructor; auto.
Qed.

(* ------------------------------------------------------------------ chunks *)
Lemma chunks_concat_eq : forall (xs : list (list val)) (d s : nat),
  Forall (fun x => length x = s) xs -> length xs = d -> chunks d s (concat xs) = xs.
Proof.
  induction xs as [|x xs IH]; intros d s HF Hl.
  - cbn in Hl. subst d. reflexivity.
  - destruct d as [|d]; [discriminate|]. cbn in Hl. injection Hl as Hl.
    inversion HF as [|? ? Hx HF']; subst.
    cbn [concat chunks]. rewrite firstn_app_exact, skipn_app_exact. f_equal. apply IH; auto.
Qed.

Lemma chunks_length : forall k s (l : list val), length (chunks k s l) = k.
Proof. induction k as [|k IH]; intros s l; cbn [chunks length]; [reflexivity | f_equal; apply IH]. Qed.

Lemma chunks_Forall_length : forall k s (l : list val), length l = (k * s)%nat ->
  Forall (fun c => length c = s) (chunks k s l).
Proof.
  induction k as [|k IH]; intros s l Hl; cbn [chunks]; [constructor|].
  cbn [Nat.mul] in Hl. constructor.
  - rewrite firstn_length. set (m := (k * s)%nat) in *. lia.
  - apply IH. rewrite skipn_length. set (m := (k * s)%nat) in *. lia.
Qed.

Lemma chunks_concat : forall k s (l : list val), length l = (k * s)%nat -> concat (chunks k s l) = l.
Proof.
  induction k as [|k IH]; intros s l Hl; cbn [chunks concat].
  - cbn in Hl. destruct l; [reflexivity | discriminate].
  - cbn [Nat.mul] in Hl. rewrite IH.
    + apply firstn_skipn.
    + rewrite skipn_length. set (m := (k * s)%nat) in *. lia.
Qed.

Lemma div_mul_l : forall d s, (1 <= d)%nat -> ((d * s) / d = s)%nat.
Proof. intros d s Hd. rewrite Nat.mul_comm. apply Nat.div_mul. lia. Qed.

(* ------------------------------------------------------------------ unfolding leaves / shape_ok / split *)
Lemma leaves_slice : forall l, leaves (VSlice (Some l)) = flat_map leaves l.
Proof.
  intros l. cbn [leaves]. induction l as [|x r IH]; [reflexivity|].
  cbn [flat_map]. rewrite <- IH. reflexivity.
Qed.

Lemma leaves_not_slice : forall x, not_slice x = true -> leaves x = [x].
Proof. intros x H. destruct x; try reflexivity. discriminate H. Qed.

Lemma flat_map_leaves_flat : forall l, forallb not_slice l = true -> flat_map leaves l = l.
Proof.
  induction l as [|x r IH]; intros H; [reflexivity|].
  cbn [forallb] in H. apply andb_true_iff in H as [H1 H2].
  cbn [flat_map]. rewrite (leaves_not_slice x H1), (IH H2). reflexivity.
Qed.

Lemma leaves_flat : forall l, forallb not_slice l = true -> leaves (VSlice (Some l)) = l.
Proof. intros l H. rewrite leaves_slice. apply flat_map_leaves_flat, H. Qed.

Lemma shape_ok_cons : forall d ds l,
  shape_ok (d :: ds) (VSlice (Some l)) =
  Nat.eqb (length l) d && match ds with [] => forallb not_slice l | _ => forallb (shape_ok ds) l end.
Proof. reflexivity. Qed.

Lemma shape_ok_inv : forall d ds p, shape_ok (d :: ds) p = true ->
  exists l, p = VSlice (Some l) /\ length l = d /\
            match ds with [] => forallb not_slice l = true | _ => forallb (shape_ok ds) l = true end.
Proof.
  intros d ds p H. destruct p; try (cbn in H; discriminate H).
  match goal with H : shape_ok _ (VSlice ?o) = true |- _ => destruct o as [l'|]; [|cbn in H; discriminate H] end.
  rewrite shape_ok_cons in H. apply andb_true_iff in H as [H1 H2]. apply Nat.eqb_eq in H1.
  exists l'. split; [reflexivity|]. split; [exact H1|]. destruct ds; exact H2.
Qed.

Lemma split_one : forall d vals, split [d] vals = VSlice (Some vals).
Proof. reflexivity. Qed.

Lemma split_cons2 : forall d d' ds vals,
  split (d :: d' :: ds) vals = VSlice (Some (map (split (d' :: ds)) (chunks d (length vals / d) vals))).
Proof. reflexivity. Qed.

(* ------------------------------------------------------------------ 1. encode-then-decode *)
Lemma split_leaves : forall (nm nl : val -> val),
  (forall x, not_slice x = true -> nl x = nm x) ->
  (forall l, nl (VSlice (Some l)) = VSlice (Some (map nl l))) ->
  forall dims p, Forall (fun d => 1 <= d)%nat dims -> shape_ok dims p = true ->
  length (leaves p) = nprod dims /\ split dims (map nm (leaves p)) = nl p.
Proof.
  intros nm nl Hns Hsl dims. induction dims as [|d ds IH]; intros p Hd Hs.
  - discriminate Hs.
  - destruct (shape_ok_inv _ _ _ Hs) as (l & -> & Hlen & Hrest).
    inversion Hd as [|? ? Hd1 Hds]; subst.
    rewrite leaves_slice. destruct ds as [|d' ds'].
    + rewrite (flat_map_leaves_flat _ Hrest). split.
      * cbn [nprod fold_right]. lia.
      * rewrite split_one, Hsl. do 2 f_equal. apply map_ext_in. intros x Hx.
        symmetry. apply Hns. rewrite forallb_forall in Hrest. apply Hrest, Hx.
    + set (s := nprod (d' :: ds')).
      assert (HF : Forall (fun x => length (leaves x) = s /\ split (d' :: ds') (map nm (leaves x)) = nl x) l).
      { rewrite forallb_forall in Hrest. apply Forall_forall. intros x Hx. apply IH; auto. }
      assert (HFl : Forall (fun c => length c = s) (map (map nm) (map leaves l))).
      { apply Forall_forall. intros c Hc. apply in_map_iff in Hc as (c' & <- & Hc').
        apply in_map_iff in Hc' as (x & <- & Hx). rewrite map_length.
        rewrite Forall_forall in HF. apply (HF x Hx). }
      rewrite flat_map_concat_map. split.
      * rewrite nprod_cons. fold s.
        rewrite (length_concat_const _ s).
        -- rewrite map_length. reflexivity.
        -- apply Forall_forall. intros c Hc. apply in_map_iff in Hc as (x & <- & Hx).
           rewrite Forall_forall in HF. apply (HF x Hx).
      * rewrite split_cons2, Hsl. do 2 f_equal.
        rewrite concat_map.
        rewrite (length_concat_const _ s _ HFl). rewrite !map_length.
        rewrite (div_mul_l _ s Hd1).
        rewrite (chunks_concat_eq _ (length l) s HFl) by (rewrite !map_length; reflexivity).
        rewrite !map_map. apply map_ext_in. intros x Hx.
        rewrite Forall_forall in HF. apply (HF x Hx).
Qed.

(* ------------------------------------------------------------------ 2. decode-then-encode *)
Lemma shape_split : forall dims l, dims <> [] -> Forall (fun d => 1 <= d)%nat dims ->
  length l = nprod dims -> forallb not_slice l = true ->
  shape_ok dims (split dims l) = true /\ leaves (split dims l) = l.
Proof.
  induction dims as [|d ds IH]; intros l Hne Hd Hlen Hns; [congruence|].
  inversion Hd as [|? ? Hd1 Hds]; subst.
  destruct ds as [|d' ds'].
  - rewrite split_one. split.
    + rewrite shape_ok_cons. cbn [nprod fold_right] in Hlen. rewrite Hns, andb_true_r.
      apply Nat.eqb_eq. lia.
    + apply leaves_flat, Hns.
  - rewrite split_cons2. rewrite nprod_cons in Hlen. set (s := nprod (d' :: ds')) in *.
    rewrite Hlen, (div_mul_l _ s Hd1).
    pose proof (chunks_concat d s l Hlen) as Hcc.
    pose proof (chunks_Forall_length d s l Hlen) as HFl.
    assert (HFn : Forall (fun c => forallb not_slice c = true) (chunks d s l)).
    { apply forallb_concat. rewrite Hcc. exact Hns. }
    assert (HF : Forall (fun c => shape_ok (d' :: ds') (split (d' :: ds') c) = true /\
                                  leaves (split (d' :: ds') c) = c) (chunks d s l)).
    { apply Forall_forall. intros c Hc. rewrite Forall_forall in HFl, HFn.
      apply IH; auto. congruence. }
    split.
    + rewrite shape_ok_cons, map_length, chunks_length, Nat.eqb_refl. cbn [andb].
      apply forallb_forall. intros x Hx. apply in_map_iff in Hx as (c & <- & Hc).
      rewrite Forall_forall in HF. apply (HF c Hc).
    + rewrite leaves_slice, flat_map_concat_map, map_map.
      rewrite <- Hcc at 2. f_equal.
      rewrite <- (map_id (chunks d s l)) at 2. apply map_ext_in. intros c Hc.
      rewrite Forall_forall in HF. apply (HF c Hc).
Qed.

(* ------------------------------------------------------------------ 4. dims_product *)
(* dimensions are int32 values >= 1 (dim_ok); the running product is checked against MaxInt32 after every step, so the
   int64 multiplication of the model (mul64, wrapping modulo 2^64 like Go's) never wraps *)
Lemma mul64_exact : forall a b, (1 <= a <= max_int32)%Z -> (1 <= b <= max_int32)%Z -> mul64 a b = (a * b)%Z.
Proof.
  intros a b Ha Hb. unfold mul64, max_int32 in *.
  assert (H : (1 <= a * b <= 2147483647 * 2147483647)%Z) by nia.
  assert (Hp : pow8 8 = 18446744073709551616%Z) by reflexivity.
  rewrite Z.mod_small by (rewrite Hp; lia). unfold to_signed. rewrite Hp.
  destruct (Z.ltb_spec (a * b) (18446744073709551616 / 2)) as [_|Hge]; [reflexivity|].
  exfalso. assert (18446744073709551616 / 2 = 9223372036854775808)%Z by reflexivity. lia.
Qed.

Lemma dim_ok_range : forall d, dim_ok d = true -> (1 <= d <= max_int32)%Z.
Proof. intros d H. unfold dim_ok in H. apply andb_true_iff in H as [H1 H2]. apply Z.leb_le in H1, H2. lia. Qed.

Lemma dims_product_gen : forall ds count c, (1 <= count <= max_int32)%Z ->
  forallb dim_ok ds = true -> dims_product ds count = Some c ->
  c = (count * Z.of_nat (nprod (map Z.to_nat ds)))%Z /\ Forall (fun d => 1 <= d)%nat (map Z.to_nat ds).
Proof.
  induction ds as [|d r IH]; intros count c Hc Hall Hp.
  - cbn in Hp. injection Hp as <-. cbn. split; [lia | constructor].
  - cbn [forallb] in Hall. apply andb_true_iff in Hall as [Hd Hr]. apply dim_ok_range in Hd.
    cbn [dims_product] in Hp. cbv zeta in Hp. rewrite mul64_exact in Hp by assumption.
    destruct (Z.ltb_spec max_int32 (count * d)) as [Hlt|Hle]; [discriminate Hp|].
    assert (Hc' : (1 <= count * d <= max_int32)%Z) by nia.
    destruct (IH _ _ Hc' Hr Hp) as [-> HF]. split.
    + cbn [map]. rewrite nprod_cons, Nat2Z.inj_mul, Z2Nat.id by lia. ring.
    + cbn [map]. constructor; [lia | exact HF].
Qed.

(* the guard makes the wrap unreachable: an accepted dimension vector has its TRUE product equal to the result *)
Lemma dims_product_nprod : forall ds c, forallb dim_ok ds = true -> dims_product ds 1 = Some c ->
  c = Z.of_nat (nprod (map Z.to_nat ds)) /\ Forall (fun d => 1 <= d)%nat (map Z.to_nat ds).
Proof.
  intros ds c Hall Hp. destruct (dims_product_gen ds 1 c ltac:(unfold max_int32; lia) Hall Hp) as [-> HF].
  split; [apply Z.mul_1_l | exact HF].
Qed.

Lemma forallb_ge1_Forall : forall ds, forallb dim_ok ds = true ->
  Forall (fun d => 1 <= d)%nat (map Z.to_nat ds).
Proof.
  induction ds as [|d r IH]; intros H; [constructor|].
  cbn [forallb] in H. apply andb_true_iff in H as [Hd Hr]. apply dim_ok_range in Hd.
  cbn [map]. constructor; [lia | auto].
Qed.

Lemma nprod_dims_product_gen : forall ds count, (1 <= count <= max_int32)%Z ->
  forallb dim_ok ds = true ->
  (count * Z.of_nat (nprod (map Z.to_nat ds)) <= max_int32)%Z ->
  dims_product ds count = Some (count * Z.of_nat (nprod (map Z.to_nat ds)))%Z.
Proof.
  induction ds as [|d r IH]; intros count Hc Hall Hle.
  - cbn. f_equal. lia.
  - pose proof (nprod_pos _ (forallb_ge1_Forall _ Hall)) as Hpos0.
    cbn [forallb] in Hall. apply andb_true_iff in Hall as [Hd Hr]. apply dim_ok_range in Hd.
    pose proof (nprod_pos _ (forallb_ge1_Forall _ Hr)) as Hpos.
    cbn [map] in *. rewrite nprod_cons, Nat2Z.inj_mul, Z2Nat.id in * by lia.
    set (P := Z.of_nat (nprod (map Z.to_nat r))) in *.
    assert (HP : (1 <= P)%Z) by (subst P; lia).
    cbn [dims_product]. cbv zeta. rewrite mul64_exact by assumption.
    destruct (Z.ltb_spec max_int32 (count * d)) as [Hlt|Hle'].
    + exfalso. assert ((count * d <= count * (d * P))%Z) by nia. lia.
    + rewrite IH; [f_equal; ring | nia | exact Hr | ].
      fold P. rewrite <- Z.mul_assoc. exact Hle.
Qed.

Lemma nprod_dims_product : forall ds, forallb dim_ok ds = true ->
  (Z.of_nat (nprod (map Z.to_nat ds)) <= max_int32)%Z ->
  dims_product ds 1 = Some (Z.of_nat (nprod (map Z.to_nat ds))).
Proof.
  intros ds Hall Hle. rewrite nprod_dims_product_gen; [f_equal; apply Z.mul_1_l | unfold max_int32; lia | exact Hall | ].
  rewrite Z.mul_1_l. exact Hle.
Qed.

(* without the guard the wrap is reachable: the product of 16, 2^30, 2^30 is 0 modulo 2^64 (seeded change C02-a) *)
Example mul64_wraps : mul64 (mul64 16 1073741824) 1073741824 = 0%Z /\ dims_product [16; 1073741824; 1073741824]%Z 1 = None.
Proof. vm_compute. split; reflexivity. Qed.

Print Assumptions split_leaves.
Print Assumptions shape_split.
Print Assumptions leaves_flat.
Print Assumptions dims_product_nprod.
Print Assumptions nprod_dims_product.
