(* ChunkReassembly.v — EncodeChunks splits the body, the send loop numbers and secures the chunks,
   the peer's Receive + mergeChunks deliver exactly the body (C07). *)
From Coq Require Import ZArith List Bool Lia.
From Coq.Strings Require Import Byte.
From Opcua Require Import Model.Layout Model.ChunkBytes Model.ChunkModel Proofs.LayoutProofs
  Proofs.ChunkBytesProofs Proofs.ChunkProofs Gen.ArithFromGo Gen.ChunkPreds.
Import ListNotations.
Open Scope Z_scope.

Ltac Zify.zify_post_hook ::= Z.div_mod_to_equations.

(* ---------------------------------------------------------------------------------------------- *)
(* sequence numbers (go_nextSequenceNumber is regenerated from the Go source on every run) *)

Lemma next_range s : 0 <= s < 4294967296 -> 0 <= go_nextSequenceNumber s <= 4294966272.
Proof.
  intros H. unfold go_nextSequenceNumber. cbv zeta.
  destruct (Z.eq_dec s 4294967295) as [->|Hne]; [vm_compute; split; discriminate|].
  rewrite (Z.mod_small (s + 1)) by lia.
  destruct (Z.gtb_spec (s + 1) (4294967295 - 1023)); lia.
Qed.
Lemma next_neq s : 0 <= s < 4294967296 -> go_nextSequenceNumber s <> s.
Proof.
  intros H. unfold go_nextSequenceNumber. cbv zeta.
  destruct (Z.eq_dec s 4294967295) as [->|Hne]; [vm_compute; discriminate|].
  rewrite (Z.mod_small (s + 1)) by lia.
  destruct (Z.gtb_spec (s + 1) (4294967295 - 1023)); lia.
Qed.

(* the receiver's sequence check accepts the sender's next number (increase, or the roll-over) *)
Lemma next_accepted s : 0 <= s < 4294967296 -> seq_accept (Some s) (go_nextSequenceNumber s) = true.
Proof.
  intros H. unfold seq_accept, go_seqReject, go_nextSequenceNumber. cbv zeta.
  destruct (Z.eq_dec s 4294967295) as [->|Hne]; [vm_compute; reflexivity|].
  rewrite (Z.mod_small (s + 1)) by lia.
  apply negb_true_iff. apply andb_false_iff.
  destruct (Z.gtb_spec (s + 1) (4294967295 - 1023)).
  - right. apply negb_false_iff. apply andb_true_iff. split; [rewrite Z.geb_leb; apply Z.leb_le; lia | reflexivity].
  - left. apply Z.leb_gt. lia.
Qed.

(* ---------------------------------------------------------------------------------------------- *)
(* EncodeChunks *)

Fixpoint pieces (k : nat) (maxb : Z) (body : bytes) : list bytes * bytes :=
  match k with
  | O => ([], body)
  | S k' => let '(ps, r) := pieces k' maxb (zdrop maxb body) in (ztake maxb body :: ps, r)
  end.

Lemma pieces_spec k maxb body :
  0 < maxb -> Z.of_nat k * maxb <= zlen body ->
  concat (fst (pieces k maxb body)) ++ snd (pieces k maxb body) = body /\
  Forall (fun d => zlen d = maxb) (fst (pieces k maxb body)) /\
  length (fst (pieces k maxb body)) = k /\
  zlen (snd (pieces k maxb body)) = zlen body - Z.of_nat k * maxb.
Proof.
  intros Hm. revert body. induction k as [|k IH]; intros body Hk.
  - cbn. repeat split; [constructor | lia].
  - cbn [pieces]. destruct (pieces k maxb (zdrop maxb body)) as [ps r] eqn:E.
    specialize (IH (zdrop maxb body)). rewrite E in IH. cbn [fst snd] in *.
    assert (Hlen : zlen (zdrop maxb body) = zlen body - maxb) by (apply zlen_zdrop; lia).
    destruct IH as (I1 & I2 & I3 & I4); [rewrite Hlen; lia|].
    repeat split.
    + cbn [concat]. rewrite <- app_assoc, I1. apply ztake_zdrop.
    + constructor; [apply zlen_ztake; lia | exact I2].
    + cbn [length]. rewrite I3. reflexivity.
    + rewrite I4, Hlen. lia.
Qed.

Definition rawC mt chan tok seq req maxb (d : bytes) : bytes :=
  raw_chunk mt "C" ((maxb + 24) mod 4294967296) chan tok seq req d.

Lemma enc_loop_ok k mt chan tok seq req maxb body :
  0 < maxb -> Z.of_nat k * maxb <= zlen body ->
  enc_loop k mt chan tok seq req maxb (body, false) =
  (map (rawC mt chan tok seq req maxb) (fst (pieces k maxb body)), (snd (pieces k maxb body), false)).
Proof.
  intros Hm. revert body. induction k as [|k IH]; intros body Hk; [reflexivity|].
  cbn [enc_loop pieces]. unfold readn.
  replace (zlen body <? maxb) with false by (symmetry; apply Z.ltb_ge; lia).
  assert (Hlen : zlen (zdrop maxb body) = zlen body - maxb) by (apply zlen_zdrop; lia).
  rewrite IH by (rewrite Hlen; lia).
  destruct (pieces k maxb (zdrop maxb body)) as [ps r]. reflexivity.
Qed.

(* the chunks EncodeChunks produces, as (chunk type, data) items *)
Definition items (maxb : Z) (body : bytes) : list (byte * bytes) :=
  let k := Z.to_nat (zlen body / maxb) in
  map (fun d => ("C"%byte, d)) (fst (pieces k maxb body)) ++ [("F"%byte, snd (pieces k maxb body))].

Definition raw_item mt chan tok seq req (it : byte * bytes) : bytes :=
  raw_chunk mt (fst it) ((24 + zlen (snd it)) mod 4294967296) chan tok seq req (snd it).

Lemma encode_chunks_ok mt chan tok seq req maxBody body :
  0 < maxBody < 4294967296 -> zlen body < 4294967295 ->
  encode_chunks mt chan tok seq req maxBody body = Ok (map (raw_item mt chan tok seq req) (items maxBody body)).
Proof.
  intros Hm Hb. pose proof (zlen_nonneg body) as Hb0.
  unfold encode_chunks, go_nrChunks. cbv zeta.
  replace (maxBody =? 0) with false by (symmetry; apply Z.eqb_neq; lia).
  rewrite (Z.mod_small (zlen body)) by lia.
  rewrite Z.quot_div_nonneg by lia.
  assert (Hq : 0 <= zlen body / maxBody <= zlen body).
  { split; [apply Z.div_pos; lia|]. apply Z.div_le_upper_bound; [lia|].
    assert (1 * zlen body <= maxBody * zlen body) by (apply Z.mul_le_mono_nonneg_r; lia). lia. }
  rewrite (Z.mod_small (zlen body / maxBody + 1)) by lia.
  replace (zlen body / maxBody + 1 =? 0) with false by (symmetry; apply Z.eqb_neq; lia).
  replace (zlen body / maxBody + 1 - 1) with (zlen body / maxBody) by lia.
  set (k := Z.to_nat (zlen body / maxBody)).
  assert (Hk : Z.of_nat k * maxBody <= zlen body).
  { unfold k. rewrite Z2Nat.id by lia. rewrite Z.mul_comm. apply Z.mul_div_le. lia. }
  rewrite enc_loop_ok by (try exact Hk; lia).
  destruct (pieces_spec k maxBody body ltac:(lia) Hk) as (P1 & P2 & P3 & P4).
  unfold items. fold k. rewrite map_app, map_map. cbn [map].
  f_equal. f_equal.
  apply map_ext_in. intros d Hd. unfold rawC, raw_item. cbn [fst snd].
  rewrite Forall_forall in P2. rewrite (P2 d Hd). f_equal. f_equal. lia.
Qed.

Lemma items_concat maxb body : 0 < maxb ->
  concat (map snd (items maxb body)) = body.
Proof.
  intros Hm. pose proof (zlen_nonneg body) as Hb0. unfold items.
  set (k := Z.to_nat (zlen body / maxb)).
  assert (Hk : Z.of_nat k * maxb <= zlen body).
  { unfold k. rewrite Z2Nat.id by (apply Z.div_pos; lia). rewrite Z.mul_comm. apply Z.mul_div_le. lia. }
  destruct (pieces_spec k maxb body Hm Hk) as (P1 & _).
  rewrite map_app, map_map. cbn [map snd]. rewrite map_id, concat_app. cbn [concat]. rewrite app_nil_r. exact P1.
Qed.

Lemma items_shape maxb body : 0 < maxb ->
  exists cs f, items maxb body = map (fun d => ("C"%byte, d)) cs ++ [("F"%byte, f)] /\
    Forall (fun d => zlen d = maxb) cs /\ Z.of_nat (length cs) = zlen body / maxb /\
    zlen f = zlen body mod maxb.
Proof.
  intros Hm. pose proof (zlen_nonneg body) as Hb0. unfold items.
  set (k := Z.to_nat (zlen body / maxb)).
  assert (Hq : 0 <= zlen body / maxb) by (apply Z.div_pos; lia).
  assert (Hk : Z.of_nat k * maxb <= zlen body).
  { unfold k. rewrite Z2Nat.id by lia. rewrite Z.mul_comm. apply Z.mul_div_le. lia. }
  destruct (pieces_spec k maxb body Hm Hk) as (P1 & P2 & P3 & P4).
  exists (fst (pieces k maxb body)), (snd (pieces k maxb body)).
  split; [reflexivity|]. split; [exact P2|]. split; [rewrite P3; unfold k; lia|].
  rewrite P4. unfold k. rewrite Z2Nat.id by lia. lia.
Qed.

Lemma limit_ok lim x :
  0 <= x -> (lim = 0 \/ x <= lim) -> 0 <= lim < 4294967296 ->
  (lim >? 0) && (x mod 4294967296 >? lim) = false.
Proof.
  intros Hx [->|Hle] Hl; [reflexivity|].
  rewrite Z.mod_small by lia. apply andb_false_iff. right. rewrite Z.gtb_ltb. apply Z.ltb_ge. exact Hle.
Qed.

Lemma zlen_raw_item mt chan tok seq req it :
  zlen mt = 3 -> zlen (raw_item mt chan tok seq req it) = 24 + zlen (snd it).
Proof.
  intros Hmt. unfold raw_item, raw_chunk, hdr12. rewrite !zlen_app, !zlen_le32, zlen_single, Hmt. lia.
Qed.

Lemma sum_raw mt chan tok seq req its : zlen mt = 3 -> forall acc,
  fold_left (fun acc c => acc + (zlen c - 24)) (map (raw_item mt chan tok seq req) its) acc
  = acc + zlen (concat (map snd its)).
Proof.
  intros Hmt. induction its as [|it rest IH]; intros acc; [cbn [map fold_left concat]; change (zlen (@nil byte)) with 0; lia|].
  cbn [map fold_left concat]. rewrite IH, zlen_raw_item, zlen_app by exact Hmt. lia.
Qed.

Lemma check_peer_limits_ok mt chan tok seq req maxb body pmc pmm :
  zlen mt = 3 -> 0 < maxb -> zlen body / maxb + 1 < 4294967296 ->
  0 <= pmc < 4294967296 -> 0 <= pmm ->
  (pmc = 0 \/ zlen body / maxb + 1 <= pmc) -> (pmm = 0 \/ zlen body <= pmm) ->
  check_peer_limits pmc pmm (map (raw_item mt chan tok seq req) (items maxb body)) = None.
Proof.
  intros Hmt Hm Hn Hpc Hpm Hc Hs. unfold check_peer_limits.
  destruct (items_shape maxb body Hm) as (cs & f & Hitems & _ & Hcsn & _).
  assert (Hlen : zlen (map (raw_item mt chan tok seq req) (items maxb body)) = zlen body / maxb + 1).
  { rewrite zlen_map, Hitems, zlen_app, zlen_map, zlen_single. unfold zlen at 1. lia. }
  rewrite Hlen.
  pose proof (zlen_nonneg body) as Hb0.
  assert (Hq : 0 <= zlen body / maxb) by (apply Z.div_pos; lia).
  rewrite limit_ok by (try assumption; lia).
  rewrite sum_raw by exact Hmt. rewrite items_concat by exact Hm. rewrite Z.add_0_l.
  destruct Hs as [->|Hs]; [reflexivity|].
  replace (zlen body >? pmm) with false by (symmetry; rewrite Z.gtb_ltb; apply Z.ltb_ge; exact Hs).
  rewrite andb_false_r. reflexivity.
Qed.

(* ---------------------------------------------------------------------------------------------- *)
(* send loop: numbering *)

Fixpoint numbered (first : bool) (s : Z) (its : list (byte * bytes)) : list (byte * Z * bytes) * Z :=
  match its with
  | [] => ([], s)
  | (ct, d) :: rest =>
    let s' := if first then s else go_nextSequenceNumber s in
    let '(l, sn) := numbered false s' rest in
    ((ct, s', d) :: l, sn)
  end.

Section Channel.
Variables (S R : algo).
Hypothesis L : link S R.
Hypothesis Hplain : 0 < a_plain S.
Hypothesis Hsig : 0 <= a_sig S.
Variables (m : sec_mode) (pnone : bool) (chan tok req : Z).
Hypothesis Hchan : 0 <= chan < 4294967296.
Hypothesis Hreq : 0 <= req < 4294967296.

(* what a produced frame looks like to the peer *)
Definition wire_ok (x : byte * Z * bytes) (w : bytes) : Prop :=
  let '(ct, sq, d) := x in
  read_chunk m pnone R chan w = Ok (mkChunk ct chan sq req d) /\
  zlen w = secured_len m (a_block S) (a_plain S) (a_sig S) (a_rsig S) 16 (8 + zlen d) /\
  znth 3 w = ct /\
  (zlen w < 4294967296 -> de32 (zdrop 4 w) = zlen w).

Lemma secure_item_ok ct d sq :
  0 <= sq < 4294967296 ->
  exists w, sign_encrypt m false S 16 (raw_item MSG chan tok sq req (ct, d)) = Ok w /\ wire_ok (ct, sq, d) w.
Proof.
  intros Hsq. unfold raw_item. cbn [fst snd].
  destruct (secure_roundtrip S R m pnone MSG ct ((24 + zlen d) mod 4294967296) chan tok sq req d L eq_refl Hplain Hsig)
    as (size' & X & Hse & Hvd & Hlen & Hsz).
  exists (hdr16 MSG ct size' chan tok ++ X). split; [exact Hse|].
  unfold wire_ok. pose proof (zlen_nonneg d) as Hd0.
  assert (Hwl : zlen (hdr16 MSG ct size' chan tok ++ X) = 16 + zlen X)
    by (rewrite zlen_app, zlen_hdr16 by reflexivity; reflexivity).
  split.
  - rewrite (read_chunk_ok m pnone R ct size' chan tok X _ Hchan Hvd)
      by (rewrite !zlen_app, !zlen_le32; lia).
    f_equal. f_equal.
    + rewrite de32_le32. apply Z.mod_small. lia.
    + replace (zdrop 4 (le32 sq ++ le32 req ++ d)) with (le32 req ++ d) by reflexivity.
      rewrite de32_le32. apply Z.mod_small. lia.
  - split; [rewrite Hwl; exact Hlen|]. split; [reflexivity|].
    intros Hlt. replace (zdrop 4 (hdr16 MSG ct size' chan tok ++ X)) with (le32 size' ++ (le32 chan ++ le32 tok) ++ X) by reflexivity.
    rewrite de32_le32. rewrite Hwl in *.
    destruct m; subst size'.
    + (* None: the field EncodeChunks wrote *)
      cbn [secured_len] in Hlen. rewrite Z.mod_mod by lia. replace (24 + zlen d) with (16 + zlen X) by lia.
      apply Z.mod_small. pose proof (zlen_nonneg X). lia.
    + apply Z.mod_small. pose proof (zlen_nonneg X). lia.
    + apply Z.mod_small. pose proof (zlen_nonneg X). lia.
Qed.

Lemma put32_seq ct d s1 n :
  put32 16 (raw_item MSG chan tok s1 req (ct, d)) n = Some (raw_item MSG chan tok n req (ct, d)).
Proof.
  unfold raw_item, raw_chunk. cbn [fst snd].
  set (size := (24 + zlen d) mod 4294967296).
  replace (hdr12 MSG ct size chan ++ le32 tok ++ le32 s1 ++ le32 req ++ d)
    with ((hdr12 MSG ct size chan ++ le32 tok) ++ le32 s1 ++ (le32 req ++ d)) by (rewrite <- !app_assoc; reflexivity).
  rewrite put32_app4 by reflexivity. rewrite <- !app_assoc. reflexivity.
Qed.

Definition seq_inv (s : Z) : Prop := 0 <= s <= 4294966272.

Lemma send_loop_ok its : forall first s s1,
  (first = true -> s1 = s /\ 0 <= s <= 4294966272) -> (first = false -> seq_inv s) ->
  exists ws, send_loop m S first s (map (raw_item MSG chan tok s1 req) its) = Ok (ws, snd (numbered first s its)) /\
             Forall2 wire_ok (fst (numbered first s its)) ws.
Proof.
  induction its as [|[ct d] rest IH]; intros first s s1 Hf Hnf.
  - exists []. split; [reflexivity | constructor].
  - cbn [map send_loop numbered].
    set (s' := if first then s else go_nextSequenceNumber s).
    assert (Hs' : 0 <= s' <= 4294966272).
    { unfold s'. destruct first; [apply Hf; reflexivity|]. apply next_range. specialize (Hnf eq_refl). unfold seq_inv in Hnf. lia. }
    assert (Hput : (if first then Some (raw_item MSG chan tok s1 req (ct, d)) else put32 16 (raw_item MSG chan tok s1 req (ct, d)) s')
                   = Some (raw_item MSG chan tok s' req (ct, d))).
    { destruct first; [|apply put32_seq]. destruct (Hf eq_refl) as [-> _]. reflexivity. }
    rewrite Hput.
    destruct (secure_item_ok ct d s' ltac:(lia)) as (w & Hw & Hok). rewrite Hw.
    destruct (IH false s' s1 ltac:(discriminate) ltac:(intros _; unfold seq_inv; lia)) as (ws & Hws & Hall).
    rewrite Hws. destruct (numbered false s' rest) as [l sn]. cbn [fst snd] in *.
    exists (w :: ws). split; [reflexivity|]. constructor; assumption.
Qed.

(* consecutive numbers differ, the first is not 0: mergeChunks' duplicate filter never fires *)
Fixpoint chain_ok (prev : Z) (l : list Z) : Prop :=
  match l with [] => True | x :: r => x <> prev /\ chain_ok x r end.

Lemma numbered_chain its : forall s, 0 <= s <= 4294966272 ->
  chain_ok s (map (fun x => snd (fst x)) (fst (numbered false s its))).
Proof.
  induction its as [|[ct d] rest IH]; intros s Hs; [exact I|].
  cbn [numbered]. pose proof (next_range s ltac:(lia)) as Hn. pose proof (next_neq s ltac:(lia)) as Hne.
  specialize (IH (go_nextSequenceNumber s) ltac:(lia)).
  destruct (numbered false (go_nextSequenceNumber s) rest) as [l sn]. cbn [fst snd map chain_ok] in *.
  split; assumption.
Qed.

(* every number is accepted after its predecessor *)
Fixpoint accept_chain (last : option Z) (l : list Z) : Prop :=
  match l with [] => True | x :: r => seq_accept last x = true /\ accept_chain (Some x) r end.

Lemma numbered_accept its : forall s, 0 <= s <= 4294966272 ->
  accept_chain (Some s) (map (fun x => snd (fst x)) (fst (numbered false s its))).
Proof.
  induction its as [|[ct d] rest IH]; intros s Hs; [exact I|].
  cbn [numbered]. pose proof (next_range s ltac:(lia)) as Hn. pose proof (next_accepted s ltac:(lia)) as Ha.
  specialize (IH (go_nextSequenceNumber s) ltac:(lia)).
  destruct (numbered false (go_nextSequenceNumber s) rest) as [l sn]. cbn [fst snd map accept_chain] in *.
  split; assumption.
Qed.

Lemma numbered_last first s its : its <> [] ->
  last (map (fun x => snd (fst x)) (fst (numbered first s its))) 0 = snd (numbered first s its).
Proof.
  revert first s. induction its as [|[ct d] rest IH]; intros first s Hne; [congruence|].
  cbn [numbered]. specialize (IH false (if first then s else go_nextSequenceNumber s)).
  destruct rest as [|it rest'].
  - cbn. reflexivity.
  - destruct (numbered false (if first then s else go_nextSequenceNumber s) (it :: rest')) as [l sn] eqn:E.
    cbn [fst snd map] in *. specialize (IH ltac:(discriminate)).
    destruct l as [|y l']; [cbn [numbered] in E; destruct it; destruct (numbered false _ rest'); discriminate E|].
    cbn [map last] in *. exact IH.
Qed.

Lemma numbered_items first s its :
  map (fun x => (fst (fst x), snd x)) (fst (numbered first s its)) = its.
Proof.
  revert first s. induction its as [|[ct d] rest IH]; intros first s; [reflexivity|].
  cbn [numbered]. specialize (IH false (if first then s else go_nextSequenceNumber s)).
  destruct (numbered false (if first then s else go_nextSequenceNumber s) rest) as [l sn].
  cbn [fst snd map] in *. rewrite IH. reflexivity.
Qed.

(* ---------------------------------------------------------------------------------------------- *)
(* receive side *)

Lemma merge_loop_chain (chs : list chunk) : forall i prev,
  chain_ok prev (map c_seq chs) -> merge_loop i prev chs = concat (map c_data chs).
Proof.
  induction chs as [|c rest IH]; intros i prev Hc; [reflexivity|].
  cbn [map chain_ok] in Hc. destruct Hc as [Hne Hrest]. cbn [merge_loop map concat].
  assert (Hd : go_mergeDuplicate i (c_seq c) prev = false).
  { unfold go_mergeDuplicate. apply andb_false_iff. right. apply Z.eqb_neq. exact Hne. }
  rewrite Hd, IH by exact Hrest. reflexivity.
Qed.

(* adjacent sequence numbers differ *)
Definition adjacent_distinct (l : list Z) : Prop :=
  match l with [] => True | x :: r => chain_ok x r end.

Lemma merge_chunks_chain (chs : list chunk) :
  adjacent_distinct (map c_seq chs) -> merge_chunks chs = concat (map c_data chs).
Proof.
  intros Hc. destruct chs as [|c [|c2 rest]].
  - reflexivity.
  - cbn. rewrite app_nil_r. reflexivity.
  - unfold merge_chunks.
    assert (H0 : forall n, go_mergeDuplicate 0 n 0 = false) by (intros n; reflexivity).
    change (merge_loop 0 0 (c :: c2 :: rest))
      with (if go_mergeDuplicate 0 (c_seq c) 0 then merge_loop (0 + 1) 0 (c2 :: rest)
            else c_data c ++ merge_loop (0 + 1) (c_seq c) (c2 :: rest)).
    rewrite H0. rewrite (merge_loop_chain (c2 :: rest) (0 + 1) (c_seq c)) by exact Hc. reflexivity.
Qed.

Lemma tbl_get_del t k : tbl_get (tbl_del t k) k = [].
Proof.
  induction t as [|[k' v] t IH]; [reflexivity|]. cbn [tbl_del].
  destruct (Z.eqb_spec k' k); [exact IH|]. cbn [tbl_get].
  replace (k' =? k) with false by (symmetry; apply Z.eqb_neq; assumption). exact IH.
Qed.
Lemma tbl_get_set t k v : tbl_get (tbl_set t k v) k = v.
Proof. unfold tbl_set. cbn [tbl_get]. rewrite Z.eqb_refl. reflexivity. Qed.

Variables (maxchunks maxmsg : Z).
Definition cfg : rcfg := mkRcfg m pnone R chan maxchunks maxmsg.

Definition mk (x : byte * Z * bytes) : chunk := let '(ct, sq, d) := x in mkChunk ct chan sq req d.

(* intermediate chunks are stored, the final one triggers the merge *)
Lemma receive_run_ok (cs : list (byte * Z * bytes)) : forall (ws : list bytes) (t : chunk_table) (last : option Z) f fw,
  Forall2 wire_ok cs ws -> wire_ok f fw ->
  Forall (fun x => fst (fst x) = "C"%byte) cs -> fst (fst f) = "F"%byte ->
  accept_chain last (map (fun x => snd (fst x)) (cs ++ [f])) ->
  (maxchunks = 0 \/ zlen (tbl_get t req) + zlen cs <= maxchunks) -> 0 <= maxchunks < 4294967296 ->
  let all := tbl_get t req ++ map mk cs ++ [mk f] in
  (maxmsg = 0 \/ zlen (merge_chunks all) <= maxmsg) -> 0 <= maxmsg < 4294967296 ->
  exists t', receive_run cfg (t, last) (ws ++ [fw]) = ((t', Some (snd (fst f))), [Deliver req chan (merge_chunks all)]).
Proof.
  induction cs as [|x cs IH]; intros ws t last f fw Hall Hf HC HF Hch Hcnt Hmc all Hsz Hmm.
  - inversion Hall; subst. cbn [app receive_run]. unfold receive_step.
    destruct f as [[ct sq] d]. cbn [fst] in HF. subst ct.
    destruct Hf as (Hr & _). cbn [cfg r_mode r_pnone r_algo r_chan]. rewrite Hr. cbn [c_req c_type c_chan c_seq].
    cbn [app map fst snd accept_chain] in Hch. destruct Hch as [Hacc _]. rewrite Hacc. cbn [negb].
    change (Byte.eqb "F" "A") with false. change (Byte.eqb "F" "C") with false. cbv iota.
    unfold all in Hsz. cbn [map app] in Hsz. cbn [mk] in Hsz.
    change (r_maxmsg cfg) with maxmsg.
    rewrite limit_ok by (try assumption; apply zlen_nonneg).
    eexists. reflexivity.
  - inversion Hall as [|x' w cs' ws' Hx Hrest]; subst. inversion HC as [|? ? HxC HCrest]; subst.
    cbn [app receive_run]. unfold receive_step at 1.
    destruct x as [[ct sq] d]. cbn [fst] in HxC. subst ct.
    destruct Hx as (Hr & _). cbn [cfg r_mode r_pnone r_algo r_chan]. rewrite Hr. cbn [c_req c_type c_chan c_seq].
    cbn [app map fst snd accept_chain] in Hch. destruct Hch as [Hacc Hch]. rewrite Hacc. cbn [negb].
    change (Byte.eqb "C" "A") with false. change (Byte.eqb "C" "C") with true. cbv iota.
    change (r_maxchunks cfg) with maxchunks.
    pose proof (zlen_nonneg (tbl_get t req)) as Hg0. pose proof (zlen_nonneg cs) as Hc0.
    rewrite zlen_cons in Hcnt.
    rewrite zlen_app, zlen_single.
    rewrite limit_ok by (try assumption; lia).
    fold cfg.
    destruct (IH ws' (tbl_set t req (tbl_get t req ++ [mkChunk "C" chan sq req d])) (Some sq) f fw Hrest Hf HCrest HF Hch) as [t' Ht'].
    + rewrite tbl_get_set, zlen_app, zlen_single. destruct Hcnt as [->|Hcnt]; [left; reflexivity | right; lia].
    + exact Hmc.
    + rewrite tbl_get_set. unfold all in Hsz. cbn [map mk] in Hsz. rewrite <- !app_assoc. exact Hsz.
    + exact Hmm.
    + rewrite Ht'. exists t'. cbn [app]. f_equal. f_equal. f_equal.
      rewrite tbl_get_set. unfold all. cbn [map mk]. rewrite <- !app_assoc. reflexivity.
Qed.

End Channel.

(* ---------------------------------------------------------------------------------------------- *)
(* the whole path: SendMsg on one side, Receive on the other *)

Lemma mk_seq chan req l : map c_seq (map (mk chan req) l) = map (fun x => snd (fst x)) l.
Proof. rewrite map_map. apply map_ext. intros [[ct sq] d]. reflexivity. Qed.
Lemma mk_data chan req l : map c_data (map (mk chan req) l) = map snd l.
Proof. rewrite map_map. apply map_ext. intros [[ct sq] d]. reflexivity. Qed.

Theorem send_receive S R m pnone chan tok req maxBody s0 pmc pmm body maxchunks maxmsg t rlast :
  link S R -> 0 < a_plain S -> 0 <= a_sig S ->
  0 <= chan < 4294967296 -> 0 <= req < 4294967296 ->
  0 < maxBody < 4294967296 -> 0 <= s0 < 4294967296 ->
  zlen body < 4294967295 ->
  0 <= pmc < 4294967296 -> 0 <= pmm -> (pmc = 0 \/ zlen body / maxBody + 1 <= pmc) -> (pmm = 0 \/ zlen body <= pmm) ->
  (maxmsg = 0 \/ zlen body <= maxmsg) -> 0 <= maxmsg < 4294967296 ->
  (maxchunks = 0 \/ zlen body / maxBody <= maxchunks) -> 0 <= maxchunks < 4294967296 ->
  tbl_get t req = [] -> (rlast = None \/ rlast = Some s0) ->
  exists ws sn t',
    send_message m S MSG chan tok req maxBody s0 pmc pmm body = Ok (ws, sn) /\
    receive_run (cfg R m pnone chan maxchunks maxmsg) (t, rlast) ws = ((t', Some sn), [Deliver req chan body]) /\
    Forall2 (wire_ok S R m pnone chan req) (fst (numbered true (go_nextSequenceNumber s0) (items maxBody body))) ws.
Proof.
  intros L Hpl Hsg Hch Hrq Hmb Hs0 Hb Hpc Hpm Hpcl Hpml Hbm Hmm Hcnt Hmc Ht Hrl.
  unfold send_message. rewrite encode_chunks_ok by assumption.
  assert (Hnr : zlen body / maxBody + 1 < 4294967296).
  { pose proof (zlen_nonneg body). assert (zlen body / maxBody <= zlen body); [|lia].
    apply Z.div_le_upper_bound; [lia|].
    assert (1 * zlen body <= maxBody * zlen body) by (apply Z.mul_le_mono_nonneg_r; lia). lia. }
  rewrite check_peer_limits_ok by (try assumption; try reflexivity; lia).
  pose proof (next_range s0 Hs0) as Hs1. set (s1 := go_nextSequenceNumber s0) in *.
  destruct (send_loop_ok S R L Hpl Hsg m pnone chan tok req Hch Hrq (items maxBody body) true s1 s1)
    as (ws & Hsend & Hall); [intros _; split; [reflexivity | lia] | discriminate |].
  set (sn := snd (numbered true s1 (items maxBody body))) in *.
  cut (exists t', receive_run (cfg R m pnone chan maxchunks maxmsg) (t, rlast) ws = ((t', Some sn), [Deliver req chan body])).
  { intros [t' Hr]. exists ws, sn, t'. split; [exact Hsend|]. split; [exact Hr | exact Hall]. }
  destruct (items_shape maxBody body ltac:(lia)) as (cs & f & Hitems & HcsLen & Hcsn & Hf).
  pose proof (numbered_items true s1 (items maxBody body)) as Hproj.
  set (l := fst (numbered true s1 (items maxBody body))) in *.
  rewrite Hitems in Hproj.
  apply map_eq_app in Hproj. destruct Hproj as (csN & lf & Hl & HcsN & Hlf).
  destruct lf as [|fN [|? ?]]; try discriminate Hlf. cbn [map] in Hlf. injection Hlf as HfN.
  rewrite Hl in Hall. apply Forall2_app_inv_l in Hall. destruct Hall as (ws1 & ws2 & Hall1 & Hall2 & ->).
  inversion Hall2 as [|? fw ? ws2' Hfw Hnil]; subst. inversion Hnil; subst.
  (* sequence numbers of the produced chunks never trip the duplicate filter *)
  assert (Hchain : adjacent_distinct (map (fun x => snd (fst x)) l)).
  { unfold l. destruct (items maxBody body) as [|[ct d] rest] eqn:Ei.
    - rewrite Hitems in Ei. destruct cs; discriminate.
    - cbn [numbered]. pose proof (numbered_chain rest s1 ltac:(lia)) as Hc.
      destruct (numbered false s1 rest) as [l' sn']. cbn [fst snd map adjacent_distinct] in *. exact Hc. }
  assert (Hdata : concat (map snd l) = body).
  { rewrite <- (items_concat maxBody body) by lia.
    rewrite <- (numbered_items true s1 (items maxBody body)). fold l. rewrite map_map. reflexivity. }
  assert (Hlen_csN : length csN = length cs).
  { apply (f_equal (@length _)) in HcsN. rewrite !map_length in HcsN. exact HcsN. }
  assert (Hmerge : merge_chunks (tbl_get t req ++ map (mk chan req) csN ++ [mk chan req fN]) = body).
  { rewrite Ht. cbn [app].
    replace (map (mk chan req) csN ++ [mk chan req fN]) with (map (mk chan req) l) by (rewrite Hl, map_app; reflexivity).
    rewrite merge_chunks_chain by (rewrite mk_seq; exact Hchain).
    rewrite mk_data. exact Hdata. }
  rewrite <- Hmerge.
  assert (Hne : items maxBody body <> []) by (rewrite Hitems; destruct cs; discriminate).
  assert (Hlast : snd (fst fN) = sn).
  { unfold sn. rewrite <- (numbered_last true s1 (items maxBody body) Hne). fold l. rewrite Hl, map_app. cbn [map].
    rewrite last_last. reflexivity. }
  rewrite <- Hlast.
  assert (Hacc : accept_chain rlast (map (fun x => snd (fst x)) (csN ++ [fN]))).
  { rewrite <- Hl. unfold l. destruct (items maxBody body) as [|[ct d] rest] eqn:Ei; [congruence|].
    cbn [numbered]. pose proof (numbered_accept rest s1 ltac:(lia)) as Hc.
    destruct (numbered false s1 rest) as [l' sn']. cbn [fst snd map accept_chain] in *. split; [|exact Hc].
    destruct Hrl as [->| ->]; [reflexivity | apply next_accepted; exact Hs0]. }
  apply (receive_run_ok S R m pnone chan req maxchunks maxmsg csN ws1 t rlast fN fw Hall1 Hfw); [| | exact Hacc | | | |].
  - rewrite Forall_forall. intros x Hx.
    assert (Hin : In (fst (fst x), snd x) (map (fun x => (fst (fst x), snd x)) csN)) by (apply (in_map (fun x => (fst (fst x), snd x))); exact Hx).
    rewrite HcsN in Hin. apply in_map_iff in Hin. destruct Hin as (d & Hd & _). injection Hd as Hd _. symmetry. exact Hd.
  - exact HfN.
  - destruct Hcnt as [->|Hcnt]; [left; reflexivity | right]. rewrite Ht, zlen_nil. unfold zlen. rewrite Hlen_csN. lia.
  - exact Hmc.
  - rewrite Hmerge. exact Hbm.
  - exact Hmm.
Qed.

Lemma Forall2_Forall_r {A B} (P : A -> B -> Prop) (Q : B -> Prop) l ws :
  Forall2 P l ws -> (forall x w, In x l -> P x w -> Q w) -> Forall Q ws.
Proof.
  induction 1 as [|x w l ws Hxw Hrest IH]; intros HQ; constructor.
  - apply (HQ x w); [left; reflexivity | exact Hxw].
  - apply IH. intros x' w' Hin. apply HQ. right. exact Hin.
Qed.

(* sizes, MessageSize field and chunk type flags of everything SendMsg writes *)
Theorem send_shapes S R m pnone chan req maxBody s1 body ws :
  0 < maxBody ->
  Forall2 (wire_ok S R m pnone chan req) (fst (numbered true s1 (items maxBody body))) ws ->
  exists cws fw, ws = cws ++ [fw] /\
    Forall (fun w => znth 3 w = "C"%byte /\
                     zlen w = secured_len m (a_block S) (a_plain S) (a_sig S) (a_rsig S) 16 (8 + maxBody) /\
                     (zlen w < 4294967296 -> de32 (zdrop 4 w) = zlen w)) cws /\
    znth 3 fw = "F"%byte /\
    zlen fw = secured_len m (a_block S) (a_plain S) (a_sig S) (a_rsig S) 16 (8 + zlen body mod maxBody) /\
    (zlen fw < 4294967296 -> de32 (zdrop 4 fw) = zlen fw) /\
    zlen cws = zlen body / maxBody.
Proof.
  intros Hmb Hall.
  destruct (items_shape maxBody body Hmb) as (cs & f & Hitems & HcsLen & Hcsn & Hf).
  pose proof (numbered_items true s1 (items maxBody body)) as Hproj.
  set (l := fst (numbered true s1 (items maxBody body))) in *.
  rewrite Hitems in Hproj.
  apply map_eq_app in Hproj. destruct Hproj as (csN & lf & Hl & HcsN & Hlf).
  destruct lf as [|fN [|? ?]]; try discriminate Hlf. cbn [map] in Hlf. injection Hlf as HfN.
  rewrite Hl in Hall. apply Forall2_app_inv_l in Hall. destruct Hall as (ws1 & ws2 & Hall1 & Hall2 & ->).
  inversion Hall2 as [|? fw ? ws2' Hfw Hnil]; subst. inversion Hnil; subst.
  exists ws1, fw. split; [reflexivity|].
  assert (HcsN' : forall x, In x csN -> fst (fst x) = "C"%byte /\ zlen (snd x) = maxBody).
  { intros x Hx.
    assert (Hin : In (fst (fst x), snd x) (map (fun x => (fst (fst x), snd x)) csN)) by (apply (in_map (fun x => (fst (fst x), snd x))); exact Hx).
    rewrite HcsN in Hin. apply in_map_iff in Hin. destruct Hin as (d & Hd & Hdin). injection Hd as Hd1 Hd2.
    rewrite Forall_forall in HcsLen. split; [symmetry; exact Hd1 | rewrite <- Hd2; apply HcsLen; exact Hdin]. }
  split.
  - apply (Forall2_Forall_r _ _ _ _ Hall1). intros x w Hx Hw.
    destruct x as [[ct sq] d]. destruct (HcsN' (ct, sq, d) Hx) as [Hc Hd]. cbn [fst snd] in Hc, Hd.
    destruct Hw as (_ & Hlen & Hty & Hsz). subst ct. rewrite Hd in Hlen. repeat split; assumption.
  - destruct fN as [[ct sq] d]. cbn [fst snd] in HfN, Hf. subst ct.
    destruct Hfw as (_ & Hlen & Hty & Hsz). rewrite Hf in Hlen.
    repeat split; try assumption.
    apply (f_equal (@length _)) in HcsN. rewrite !map_length in HcsN.
    assert (length ws1 = length csN) by (clear -Hall1; induction Hall1; cbn; congruence).
    rewrite <- Hcsn. unfold zlen. lia.
Qed.

(* the counter the send loop leaves behind satisfies the precondition of the next message *)
Lemma numbered_final its : forall first s, 0 <= s <= 4294966272 ->
  0 <= snd (numbered first s its) <= 4294966272.
Proof.
  induction its as [|[ct d] rest IH]; intros first s Hs; [exact Hs|].
  cbn [numbered].
  assert (Hs' : 0 <= (if first then s else go_nextSequenceNumber s) <= 4294966272).
  { destruct first; [exact Hs|]. pose proof (next_range s ltac:(lia)). lia. }
  specialize (IH false _ Hs').
  destruct (numbered false (if first then s else go_nextSequenceNumber s) rest) as [l sn]. exact IH.
Qed.

(* strict positivity of the maximum body size needs one byte more than params_ok guarantees *)
Definition params_ok7 (block plain sig rsig : Z) : bool :=
  params_ok block plain sig rsig && (sig + 11 <=? plain * ((8192 - 16) / block)).

Lemma max_body_pos cs block plain sig rsig :
  params_ok7 block plain sig rsig = true -> 8192 <= cs -> 0 < max_body cs block plain sig rsig.
Proof.
  unfold params_ok7. intros H Hc. apply andb_true_iff in H. destruct H as [Hp Hk']. apply Z.leb_le in Hk'.
  apply params_ok_spec in Hp. destruct Hp as (Hpl & Hpb & Hs & Hr & Hk).
  unfold max_body. pose proof (pad_bytes_range rsig).
  assert (plain * ((8192 - 16) / block) <= plain * ((cs - 16) / block)).
  { apply Z.mul_le_mono_nonneg_l; [lia|]. apply blocks_mono; lia. }
  lia.
Qed.
