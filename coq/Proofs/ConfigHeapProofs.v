From Coq Require Import List Bool NArith ZArith Lia.
From Coq.Strings Require Import Byte.
From Opcua Require Import Model.PureBytes Model.EndpointSelect Model.ConfigHeap.
Import ListNotations.

(* the separation invariant: nothing in this client's configuration points at the package-level cell *)
Definition no_global (c : cstate) : Prop :=
  match c_dialer c with Some d => d_ack d <> Some AGlobal | None => True end.

(* result of an option with the package state replaced *)
Definition with_g (g : gstate) (r : ores) : ores :=
  match r with Done _ c e => Done g c e | Panicked _ => Panicked g end.

Definition ores_inv (r : ores) : Prop := match r with Done _ c _ => no_global c | Panicked _ => True end.

Section WithTables.
  Variable policy_tbl : list (bytes * bytes).
  Variable policy_prefix : bytes.
  Variable uri_none : bytes.
  Variable shares : bool.
  Variable dsc : sechan.
  Variable dss : session.
  Variable dto : Z.

  Notation apply_opt := (apply_opt policy_tbl policy_prefix uri_none).
  Notation apply_opts := (apply_opts policy_tbl policy_prefix uri_none).
  Notation new_client := (new_client policy_tbl policy_prefix uri_none).
  Notation run := (run policy_tbl policy_prefix uri_none).

  Lemma no_global_set_sechan : forall c s, no_global c -> no_global (set_sechan c s).
  Proof. intros c s H. exact H. Qed.
  Lemma no_global_set_session : forall c s, no_global c -> no_global (set_session c s).
  Proof. intros c s H. exact H. Qed.

  Lemma no_global_tok_alloc : forall c t, no_global c -> no_global (tok_alloc c t).
  Proof. intros c t H. exact H. Qed.
  Lemma no_global_tok_update : forall c f, no_global c -> no_global (tok_update c f).
  Proof.
    intros c f H. unfold tok_update. destruct (ss_token (c_session c)) as [i|]; [|exact H].
    destruct (nth_error (c_toks c) i); exact H.
  Qed.

  Lemma sfe_tokens_frame : forall ts g g0 c e auth, no_global c ->
    sfe_tokens uri_none g c e auth ts = with_g g (sfe_tokens uri_none g0 c e auth ts) /\ ores_inv (sfe_tokens uri_none g0 c e auth ts).
  Proof.
    induction ts as [|t ts IH]; intros g g0 c e auth Hc; cbn [sfe_tokens].
    - destruct (ss_token (c_session c)); cbn [with_g ores_inv]; split; try reflexivity; exact Hc.
    - destruct t as [t|]; [|cbn; split; [reflexivity|exact I]].
      destruct (negb (N.eqb (et_type t) auth)); [apply IH; exact Hc|]. cbn [with_g ores_inv]. split; [reflexivity|].
      apply no_global_set_session. unfold set_policy_id. apply no_global_tok_update.
      destruct (ss_token (c_session c)); [exact Hc|]. destruct (N.leb auth 3); [apply no_global_tok_alloc|]; exact Hc.
  Qed.

  Lemma auth_token_frame : forall g g0 c kind ft fs, no_global c ->
    auth_token g c kind ft fs = with_g g (auth_token g0 c kind ft fs) /\ ores_inv (auth_token g0 c kind ft fs).
  Proof.
    intros g g0 c kind ft fs Hc. unfold auth_token.
    set (c1 := match ss_token (c_session c) with Some _ => c | None => tok_alloc c (tok0 kind) end).
    assert (H1 : no_global c1) by (subst c1; destruct (ss_token (c_session c)); [exact Hc | apply no_global_tok_alloc; exact Hc]).
    destruct (tok_get c1) as [t|]; [destruct (N.eqb (t_kind t) kind)|]; cbn [with_g ores_inv]; split; try reflexivity; try exact H1.
    apply no_global_set_session. apply no_global_tok_update. exact H1.
  Qed.

  Lemma set_certificate_frame : forall g g0 c cert i, no_global c ->
    set_certificate g c cert i = with_g g (set_certificate g0 c cert i) /\ ores_inv (set_certificate g0 c cert i).
  Proof.
    intros g g0 c cert i Hc. unfold set_certificate. destruct i as [| |u]; [| |destruct u]; cbn; split; try reflexivity; exact Hc.
  Qed.

  Lemma write_ack_frame : forall g g0 c f, no_global c ->
    write_ack g c f = with_g g (write_ack g0 c f) /\ ores_inv (write_ack g0 c f).
  Proof.
    intros g g0 c f Hc. unfold write_ack, no_global in *. destruct (c_dialer c) as [d|] eqn:Ed; [|cbn; split; [reflexivity|exact I]].
    destruct (d_ack d) as [p|] eqn:Ea; [|cbn; split; [reflexivity|exact I]].
    destruct p as [|n]; [congruence|]. cbn [ack_store]. destruct (nth_error (c_acks c) n); cbn; split; try reflexivity;
      unfold no_global; cbn; rewrite Ed, Ea; discriminate.
  Qed.

  (* an admissible option never touches the package state, its effect does not depend on it, and it keeps the invariant *)
  Lemma apply_opt_frame : forall o g g0 c, opt_ok o = true -> no_global c ->
    apply_opt g c o = with_g g (apply_opt g0 c o) /\ ores_inv (apply_opt g0 c o).
  Proof.
    intros o g g0 c Hok Hc.
    destruct o; cbn [apply_opt];
      try (split; [reflexivity | exact Hc]);
      try (apply write_ack_frame; exact Hc);
      try (apply auth_token_frame; exact Hc);
      try (apply set_certificate_frame; exact Hc).
    - destruct f; cbn; split; try reflexivity; try exact I; exact Hc.
    - destruct f; cbn; split; try reflexivity; try exact I; exact Hc.
    - destruct f; try (cbn; split; [reflexivity | exact Hc]). apply set_certificate_frame; exact Hc.
    - destruct e as [e|]; [|cbn; split; [reflexivity|exact I]]. apply sfe_tokens_frame. exact Hc.
    - destruct (ss_token (c_session c)); cbn [with_g ores_inv]; split; try reflexivity; try exact Hc.
      unfold set_policy_id. apply no_global_tok_update. exact Hc.
    - destruct d as [u|]; [|cbn; split; [reflexivity|exact I]].
      destruct u as [un ua]. destruct ua; cbn in Hok; try discriminate; cbn; split; try reflexivity; discriminate.
    - unfold no_global in Hc. destruct (c_dialer c) as [dl|] eqn:Ed; [|cbn; split; [reflexivity|exact I]].
      destruct (d_net dl); cbn; split; try reflexivity; try exact I. exact Hc.
  Qed.

  Definition outs_with_g (g : gstate) (r : gstate * outcome) : gstate * outcome := (g, snd r).

  Lemma apply_opts_frame : forall os g g0 c err, forallb opt_ok os = true -> no_global c ->
    apply_opts g c err os = (g, snd (apply_opts g0 c err os)).
  Proof.
    induction os as [|o os IH]; intros g g0 c err Hok Hc; cbn [apply_opts]; [reflexivity|].
    cbn [forallb] in Hok. apply andb_true_iff in Hok. destruct Hok as [Ho Hos].
    destruct (apply_opt_frame o g g0 c Ho Hc) as [E Hinv]. rewrite E.
    destruct (apply_opt g0 c o) as [g1 c1 e1|g1]; cbn [with_g]; [|reflexivity].
    cbn in Hinv. rewrite (IH g g0 c1 (err || e1) Hos Hinv). rewrite (IH g1 g0 c1 (err || e1) Hos Hinv). reflexivity.
  Qed.

  Hypothesis Hcopy : shares = false.

  Lemma new_config_no_global : forall g, no_global (new_config shares dsc dss dto g).
  Proof. intro g. unfold new_config. rewrite Hcopy. cbn. discriminate. Qed.

  (* NewClient leaves the package state alone *)
  Lemma new_client_frame : forall os g, forallb opt_ok os = true ->
    fst (new_client shares dsc dss dto g os) = g.
  Proof.
    intros os g Hok. unfold ConfigHeap.new_client. rewrite (apply_opts_frame os g g _ false Hok (new_config_no_global g)). reflexivity.
  Qed.

  (* every program: the package state stays pristine and every construction gives what it gives on its own *)
  Theorem run_isolated : forall progs g, forallb (forallb opt_ok) progs = true ->
    run shares dsc dss dto g progs = (g, map (fun os => snd (new_client shares dsc dss dto g os)) progs).
  Proof.
    induction progs as [|p ps IH]; intros g Hok; cbn [run map]; [reflexivity|].
    cbn [forallb] in Hok. apply andb_true_iff in Hok. destruct Hok as [Hp Hps].
    pose proof (new_client_frame p g Hp) as Hf.
    destruct (new_client shares dsc dss dto g p) as [g' out] eqn:E. cbn in Hf. subst g'. rewrite (IH g Hps). reflexivity.
  Qed.

  (* the invariant holds for every created client ... *)
  Lemma apply_opts_inv : forall os g c err c', forallb opt_ok os = true -> no_global c ->
    snd (apply_opts g c err os) = Created c' -> no_global c'.
  Proof.
    induction os as [|o os IH]; intros g c err c' Hok Hc H; cbn [apply_opts] in H.
    - cbn in H. destruct err; [discriminate|]. inversion H; subst. exact Hc.
    - cbn [forallb] in Hok. apply andb_true_iff in Hok. destruct Hok as [Ho Hos].
      destruct (apply_opt_frame o g g c Ho Hc) as [_ Hinv].
      destruct (apply_opt g c o) as [g1 c1 e1|g1]; [|discriminate]. eapply IH; eassumption.
  Qed.

  Lemma new_client_inv : forall os g c', forallb opt_ok os = true ->
    snd (new_client shares dsc dss dto g os) = Created c' -> no_global c'.
  Proof. intros os g c' Hok H. eapply apply_opts_inv; [exact Hok | apply new_config_no_global | exact H]. Qed.
End WithTables.

(* ... and then the effective configuration does not depend on the package state at all *)
Lemma effective_indep : forall g1 g2 c, no_global c -> effective g1 c = effective g2 c.
Proof.
  intros g1 g2 c Hc. unfold effective, no_global in *. destruct (c_dialer c) as [d|]; [|reflexivity].
  destruct d as [dn [[|n]|]]; cbn in *; [congruence| |]; reflexivity.
Qed.
