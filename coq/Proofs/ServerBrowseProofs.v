(* Lemmas about Browse (C33, C29). *)
From Coq Require Import NArith ZArith Bool List Lia Permutation.
From Opcua Require Import Model.ServerSpace Model.ServerBrowse Proofs.ServerSpaceProofs.
Import ListNotations.
Open Scope N_scope.

Lemma okey_eqb_true : forall a k, okey_eqb a k = true <-> a = Some k.
Proof.
  intros [x|] k; cbn [okey_eqb]; split; intros H; try discriminate.
  - apply N.eqb_eq in H. now subst.
  - inversion H. apply N.eqb_refl.
Qed.

Lemma sub_plus_inv : forall sp a b, sub_plus sp a b ->
  exists c, sub_edge sp a c /\ (c = b \/ sub_plus sp c b).
Proof. intros sp a b H. inversion H; subst; eauto. Qed.

Lemma sub_loop_spec : forall (rec : nid -> option (list key)) (P : nid -> key -> Prop),
  (forall t l, rec t = Some l -> forall k, In k l <-> P t k) ->
  forall rs l, sub_loop rec rs = Some l ->
  forall k, In k l <-> exists r t, In r rs /\ subtype_edge r = Some t /\ (k = snd t \/ P t k).
Proof.
  intros rec P Hrec. induction rs as [|r rs IH]; intros l H k; cbn [sub_loop] in H.
  - inversion H; subst. split; [intros [] | intros (r & t & [] & _)].
  - destruct (subtype_edge r) as [tg|] eqn:E.
    + destruct (rec tg) as [a|] eqn:Ea; [|discriminate].
      destruct (sub_loop rec rs) as [b|] eqn:Eb; [|discriminate].
      inversion H; subst l; clear H. cbn [In]. rewrite in_app_iff.
      rewrite (Hrec _ _ Ea k). rewrite (IH _ eq_refl k). split.
      * intros [Hk|[Hk|(r' & t & Hin & He & Hd)]].
        -- exists r, tg. split; [now left|]. split; [exact E|]. left. now symmetry.
        -- exists r, tg. split; [now left|]. split; [exact E|]. now right.
        -- exists r', t. split; [now right|]. now split.
      * intros (r' & t & [Hin|Hin] & He & Hd).
        -- subst r'. rewrite E in He. inversion He; subst t. destruct Hd as [Hd|Hd]; [left; now symmetry | right; now left].
        -- right. right. exists r', t. now repeat split.
    + rewrite (IH _ H k). split.
      * intros (r' & t & Hin & He & Hd). exists r', t. split; [now right|]. now split.
      * intros (r' & t & [Hin|Hin] & He & Hd); [subst r'; congruence|]. exists r', t. now repeat split.
Qed.

(* getSubRefs returns exactly the keys of the proper subtypes (whenever it returns) *)
Lemma sub_refs_spec : forall fuel sp a l, sub_refs fuel sp a = Some l ->
  forall k, In k l <-> exists b, sub_plus sp a b /\ snd b = k.
Proof.
  induction fuel as [|f IH]; intros sp a l H k; cbn [sub_refs] in H; [discriminate|].
  destruct (lookup_nid sp a) as [nd|] eqn:L.
  - rewrite (sub_loop_spec (sub_refs f sp) (fun t k => exists b, sub_plus sp t b /\ snd b = k)
               (fun t l' Ht k' => IH sp t l' Ht k') _ _ H k).
    split.
    + intros (r & t & Hin & He & [Hk|(b & Hb & Hk)]).
      * exists t. split; [|now symmetry]. apply sub_one. exists nd, r. now repeat split.
      * exists b. split; [|exact Hk]. eapply sub_more; [|exact Hb]. exists nd, r. now repeat split.
    + intros (b & Hb & Hk). destruct (sub_plus_inv _ _ _ Hb) as (c & (nd' & r & L' & Hin & He) & Hd).
      rewrite L in L'. inversion L'; subst nd'. exists r, c. split; [exact Hin|]. split; [exact He|].
      destruct Hd as [->|Hd]; [left; now symmetry | right; exists b; now split].
  - inversion H; subst l. split; [intros []|].
    intros (b & Hb & _). destruct (sub_plus_inv _ _ _ Hb) as (c & (nd' & r & L' & _) & _). congruence.
Qed.

Lemma existsb_okey : forall ref2 l, existsb (okey_eqb ref2) l = true <-> exists k, In k l /\ ref2 = Some k.
Proof.
  intros ref2 l. rewrite existsb_exists. split; intros (k & Hin & H); exists k; (split; [exact Hin|]); now apply okey_eqb_true.
Qed.

Lemma suitable_ref_type_spec : forall fuel sp bd r b,
  suitable_ref_type fuel sp (bd_reftype bd) (r_type r) (bd_subtypes bd) = Some b ->
  (b = true <-> spec_type_ok sp bd r).
Proof.
  intros fuel sp bd r b H. unfold suitable_ref_type in H. unfold spec_type_ok.
  destruct (snd (bd_reftype bd) =? 0) eqn:E0.
  { inversion H; subst. apply N.eqb_eq in E0. tauto. }
  apply N.eqb_neq in E0.
  destruct (okey_eqb (r_type r) (snd (bd_reftype bd))) eqn:E1.
  { inversion H; subst. apply okey_eqb_true in E1. tauto. }
  assert (N1 : r_type r <> Some (snd (bd_reftype bd))).
  { intros C. apply okey_eqb_true in C. congruence. }
  destruct (bd_subtypes bd) eqn:ES; cbn [negb] in H.
  - destruct (sub_refs fuel sp (bd_reftype bd)) as [l|] eqn:EL; [|discriminate].
    inversion H; subst b; clear H. rewrite existsb_okey. split.
    + intros (k & Hin & Hk). right. right. split; [reflexivity|].
      apply (sub_refs_spec _ _ _ _ EL) in Hin. destruct Hin as (b & Hb & Hs). exists b. split; [exact Hb|]. now subst.
    + intros [C|[C|(_ & b & Hb & Hk)]]; [contradiction | contradiction |].
      exists (snd b). split; [|exact Hk]. apply (sub_refs_spec _ _ _ _ EL). now exists b.
  - inversion H; subst b. split; [discriminate|]. intros [C|[C|(C & _)]]; [contradiction | contradiction | discriminate].
Qed.

Lemma suitable_ref_spec : forall fuel sp bd r b, suitable_ref fuel sp bd r = Some b ->
  (b = true <-> spec_match sp bd r).
Proof.
  intros fuel sp bd r b H. unfold suitable_ref in H. unfold spec_match.
  destruct (suitable_direction (bd_dir bd) (r_fwd r)) eqn:ED; cbn [negb] in H.
  2:{ inversion H; subst. split; [discriminate | intros (C & _); discriminate]. }
  destruct (suitable_ref_type fuel sp (bd_reftype bd) (r_type r) (bd_subtypes bd)) as [[|]|] eqn:ET; [| |discriminate].
  - inversion H; subst b; clear H. pose proof (proj1 (suitable_ref_type_spec _ _ _ _ _ ET) eq_refl) as HT.
    split; [intros Hc; now repeat split | intros (_ & _ & Hc); exact Hc].
  - inversion H; subst b; clear H. split; [discriminate|]. intros (_ & HT & _).
    apply (suitable_ref_type_spec _ _ _ _ _ ET) in HT. discriminate.
Qed.

(* fuel suffices for the requested reference type -> suitableRef always returns *)
Lemma suitable_ref_total : forall fuel sp bd r, sub_refs fuel sp (bd_reftype bd) <> None ->
  suitable_ref fuel sp bd r <> None.
Proof.
  intros fuel sp bd r Hf. unfold suitable_ref, suitable_ref_type.
  destruct (negb (suitable_direction (bd_dir bd) (r_fwd r))); [discriminate|].
  destruct (snd (bd_reftype bd) =? 0); [destruct (class_ok _ _); discriminate|].
  destruct (okey_eqb (r_type r) (snd (bd_reftype bd))); [destruct (class_ok _ _); discriminate|].
  destruct (negb (bd_subtypes bd)); [discriminate|].
  destruct (sub_refs fuel sp (bd_reftype bd)) as [l|]; [|contradiction].
  destruct (existsb (okey_eqb (r_type r)) l); discriminate.
Qed.

(* the references Browse selects *)
Definition selb (fuel : nat) (sp : space) (bd : bdesc) (r : ref) : bool :=
  returnable r && match suitable_ref fuel sp bd r with Some true => true | _ => false end.

Definition mk (sp : space) (r : ref) : ref * rdesc := (r, rdesc_of sp r).

Lemma browse_loop_exact : forall fuel sp bd rs acc,
  sub_refs fuel sp (bd_reftype bd) <> None ->
  (forall r, In r rs -> r_type r <> None) ->
  browse_loop fuel sp bd rs acc =
    Ok (rev (map (mk sp) (filter hoisted (filter (selb fuel sp bd) rs))) ++ acc ++
        map (mk sp) (filter (fun r => negb (hoisted r)) (filter (selb fuel sp bd) rs))).
Proof.
  intros fuel sp bd rs. induction rs as [|r rs IH]; intros acc Hf Ht; cbn [browse_loop filter map rev].
  - now rewrite app_nil_r.
  - assert (Ht' : forall r', In r' rs -> r_type r' <> None) by (intros r' Hin; apply Ht; now right).
    pose proof (suitable_ref_total fuel sp bd r Hf) as Hn.
    destruct (selb fuel sp bd r) eqn:ES; unfold selb in ES.
    + apply andb_true_iff in ES. destruct ES as [ER ESu]. rewrite ER. cbn [negb].
      destruct (suitable_ref fuel sp bd r) as [[|]|]; try discriminate.
      destruct (r_type r) eqn:ETy; [|exfalso; apply (Ht r); [now left | exact ETy]].
      cbn [filter]. destruct (hoisted r) eqn:EH; cbn [negb filter map rev].
      * rewrite IH by assumption. rewrite <- !app_assoc. reflexivity.
      * rewrite IH by assumption. rewrite <- !app_assoc. reflexivity.
    + destruct (returnable r); cbn [negb andb] in *; [|now apply IH].
      destruct (suitable_ref fuel sp bd r) as [[|]|]; [discriminate | now apply IH | contradiction].
Qed.

Lemma filter_split_perm : forall A (f : A -> bool) l,
  Permutation (rev (filter f l) ++ filter (fun x => negb (f x)) l) l.
Proof.
  intros A f l. eapply Permutation_trans.
  - apply Permutation_app_tail. symmetry. apply Permutation_rev.
  - induction l as [|x l IH]; cbn [filter]; [constructor|].
    destruct (f x); cbn [negb app].
    + now constructor.
    + eapply Permutation_trans; [symmetry; apply Permutation_middle|]. now constructor.
Qed.

(* selected <-> returnable and matching the specification *)
Lemma selb_spec : forall fuel sp bd r, sub_refs fuel sp (bd_reftype bd) <> None ->
  (selb fuel sp bd r = true <-> returnable r = true /\ spec_match sp bd r).
Proof.
  intros fuel sp bd r Hf. unfold selb.
  pose proof (suitable_ref_total fuel sp bd r Hf) as Hn.
  destruct (suitable_ref fuel sp bd r) as [b|] eqn:E; [|contradiction].
  pose proof (suitable_ref_spec _ _ _ _ _ E) as HS.
  rewrite andb_true_iff. destruct b.
  - split; intros [H1 H2]; split; try assumption; [now apply HS | reflexivity].
  - split; intros [H1 H2]; [discriminate|]. apply HS in H2. discriminate.
Qed.

(* sub_refs only looks at the reference lists and the number of namespaces *)
Definition same_refs (sp sp' : space) : Prop :=
  sp_ns sp' = sp_ns sp /\ forall k, option_map n_refs (get_node sp' k) = option_map n_refs (get_node sp k).

Lemma same_refs_refl : forall sp, same_refs sp sp.
Proof. intros sp. split; reflexivity. Qed.

Lemma same_refs_trans : forall a b c, same_refs a b -> same_refs b c -> same_refs a c.
Proof. intros a b c [N1 R1] [N2 R2]. split; [congruence|]. intros k. now rewrite R2, R1. Qed.

Lemma sub_refs_same : forall fuel sp sp' n, same_refs sp sp' -> sub_refs fuel sp' n = sub_refs fuel sp n.
Proof.
  induction fuel as [|f IH]; intros sp sp' n HS; cbn [sub_refs]; [reflexivity|].
  destruct HS as [HN HR]. unfold lookup_nid. rewrite HN.
  destruct (fst n <? sp_ns sp); [|reflexivity].
  pose proof (HR (snd n)) as HRn.
  destruct (get_node sp' (snd n)) as [n1|], (get_node sp (snd n)) as [n2|]; cbn [option_map] in HRn; try discriminate; [|reflexivity].
  inversion HRn as [HR']. clear HRn.
  assert (E : forall rs, sub_loop (sub_refs f sp') rs = sub_loop (sub_refs f sp) rs).
  { induction rs as [|r rs IHr]; cbn [sub_loop]; [reflexivity|].
    destruct (subtype_edge r) as [tg|]; [|exact IHr].
    rewrite (IH sp sp' tg) by (split; assumption). now rewrite IHr. }
  rewrite HR'. apply E.
Qed.

Lemma refs_typed_same : forall sp sp', same_refs sp sp' -> refs_typed sp -> refs_typed sp'.
Proof.
  intros sp sp' [HN HR] HT k n r Hg Hin. specialize (HR k). rewrite Hg in HR. cbn [option_map] in HR.
  destruct (get_node sp k) as [n0|] eqn:G0; [|discriminate]. cbn [option_map] in HR. inversion HR as [HR'].
  eapply HT; [exact G0|]. now rewrite <- HR'.
Qed.

Lemma refs_typedb_sound : forall sp, refs_typedb sp = true -> refs_typed sp.
Proof.
  intros sp H k n r Hg Hin. unfold refs_typedb in H. rewrite forallb_forall in H.
  unfold get_node in Hg.
  assert (Hin' : In (k, n) (sp_nodes sp)).
  { revert Hg. generalize (sp_nodes sp). induction l as [|[k' v'] t IH]; cbn [alist_get]; [discriminate|].
    destruct (k' =? k) eqn:E; intros Hg.
    - inversion Hg; subst. apply N.eqb_eq in E. subst. now left.
    - right. now apply IH. }
  specialize (H _ Hin'). cbn [snd] in H. rewrite forallb_forall in H. specialize (H _ Hin).
  destruct (r_type r); [discriminate | discriminate].
Qed.

(* Browse neither panics nor runs out of stack on a well-formed space *)
Lemma browse_one_ok : forall fuel sp bd, refs_typed sp -> sub_refs fuel sp (bd_reftype bd) <> None ->
  exists x, browse_one fuel sp bd = Ok x.
Proof.
  intros fuel sp bd HT Hf. unfold browse_one.
  destruct (negb (fst (bd_node bd) <? sp_ns sp)); [eauto|].
  destruct (get_node sp (snd (bd_node bd))) as [n|] eqn:G; [|eauto].
  rewrite browse_loop_exact; [eauto | exact Hf | intros r Hin; eapply HT; eassumption].
Qed.

Lemma browse_all_ok : forall fuel sp l, refs_typed sp -> (forall n, sub_refs fuel sp n <> None) ->
  exists x, browse_all fuel sp l = Ok x.
Proof.
  intros fuel sp l HT Hf. induction l as [|bd t [xs IH]]; cbn [browse_all]; [eauto|].
  destruct (browse_one_ok fuel sp bd HT (Hf _)) as [x Hx]. rewrite Hx, IH. eauto.
Qed.

(* MapNamespace.Browse: exactly the made-up references that match the description, in order *)
Lemma map_loop_exact : forall fuel sp bd rs, sub_refs fuel sp (bd_reftype bd) <> None ->
  map_loop fuel sp bd rs = Ok (filter (fun r => match suitable_ref fuel sp bd r with Some true => true | _ => false end) rs).
Proof.
  intros fuel sp bd rs Hf. induction rs as [|r t IH]; cbn [map_loop filter]; [reflexivity|].
  pose proof (suitable_ref_total fuel sp bd r Hf) as Hn.
  destruct (suitable_ref fuel sp bd r) as [[|]|]; [| |contradiction]; now rewrite IH.
Qed.
