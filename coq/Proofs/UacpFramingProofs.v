(* Proofs about Model/UacpFraming.v (C05). *)
From Coq Require Import ZArith NArith List Bool Lia Arith.
From Coq Require Import ZifyN ZifyNat ZifyBool.
From Coq.Strings Require Import Byte.
From Opcua Require Import Model.UacpFraming.
Import ListNotations.
Open Scope N_scope.

(* ------------------------------------------------------------------------------------------------ *)
(* read_full is the ReadAtLeast loop over `read`                                                     *)

Lemma read_full_step s n got :
  read_full s n got =
  match n with
  | O => (Ok got, s)
  | S _ =>
      match read n s with
      | None => (Err (match got with [] => EEOF | _ => EUnexpectedEOF end), [])
      | Some (d, s') =>
          if Nat.ltb (length d) n then read_full s' (n - length d) (got ++ d) else (Ok (got ++ d), s')
      end
  end.
Proof.
  destruct n as [|m]; [destruct s; reflexivity|].
  destruct s as [|seg rest]; [reflexivity|].
  cbn [read_full read].
  destruct (Nat.leb (length seg) (S m)) eqn:E.
  - apply Nat.leb_le in E.
    destruct (Nat.ltb (length seg) (S m)) eqn:E2; [reflexivity|].
    apply Nat.ltb_ge in E2. assert (Hl : length seg = S m) by lia.
    rewrite Hl, Nat.sub_diag. destruct rest; reflexivity.
  - apply Nat.leb_gt in E.
    rewrite firstn_length_le by lia.
    rewrite Nat.ltb_irrefl. reflexivity.
Qed.

(* ------------------------------------------------------------------------------------------------ *)
(* the same operations on the flat byte string                                                       *)

Definition read_flat (n : nat) (got bs : bytes) : res bytes * bytes :=
  match n with
  | O => (Ok got, bs)
  | S _ =>
      if Nat.leb n (length bs) then (Ok (got ++ firstn n bs), skipn n bs)
      else (Err (match got ++ bs with [] => EEOF | _ => EUnexpectedEOF end), [])
  end.

Lemma read_flat_app_le seg x n got :
  (length seg <= n)%nat ->
  read_flat n got (seg ++ x) = read_flat (n - length seg) (got ++ seg) x.
Proof.
  intros Hle. destruct n as [|m].
  - destruct seg; [|cbn in Hle; lia]. cbn. rewrite app_nil_r. reflexivity.
  - cbn [read_flat]. rewrite app_length.
    destruct (S m - length seg)%nat as [|k] eqn:Ek.
    + assert (Hl : length seg = S m) by lia.
      replace (Nat.leb (S m) (length seg + length x)) with true by (symmetry; apply Nat.leb_le; lia).
      rewrite firstn_app, skipn_app, Ek, firstn_O, skipn_O, app_nil_r.
      rewrite firstn_all2 by lia. rewrite skipn_all2 by lia. reflexivity.
    + destruct (Nat.leb (S k) (length x)) eqn:E2.
      * apply Nat.leb_le in E2.
        replace (Nat.leb (S m) (length seg + length x)) with true by (symmetry; apply Nat.leb_le; lia).
        rewrite firstn_app, skipn_app, Ek.
        rewrite firstn_all2 by lia. rewrite skipn_all2 by lia.
        cbn [read_flat]. replace (Nat.leb (S k) (length x)) with true by (symmetry; apply Nat.leb_le; lia).
        rewrite <- app_assoc. reflexivity.
      * apply Nat.leb_gt in E2.
        replace (Nat.leb (S m) (length seg + length x)) with false by (symmetry; apply Nat.leb_gt; lia).
        cbn [read_flat]. replace (Nat.leb (S k) (length x)) with false by (symmetry; apply Nat.leb_gt; lia).
        rewrite <- app_assoc. reflexivity.
Qed.

Lemma read_flat_app_gt seg x m got :
  (S m < length seg)%nat ->
  read_flat (S m) got (seg ++ x) = (Ok (got ++ firstn (S m) seg), skipn (S m) seg ++ x).
Proof.
  intros Hgt. cbn [read_flat]. rewrite app_length.
  replace (Nat.leb (S m) (length seg + length x)) with true by (symmetry; apply Nat.leb_le; lia).
  rewrite firstn_app, skipn_app.
  replace (S m - length seg)%nat with 0%nat by lia.
  rewrite firstn_O, skipn_O, app_nil_r. reflexivity.
Qed.

Lemma read_full_flat : forall s n got,
  fst (read_full s n got) = fst (read_flat n got (concat s)) /\
  concat (snd (read_full s n got)) = snd (read_flat n got (concat s)).
Proof.
  induction s as [|seg rest IH]; intros n got.
  - destruct n as [|m]; cbn; [auto|]. rewrite app_nil_r. auto.
  - destruct n as [|m]; [cbn; auto|].
    cbn [read_full concat].
    destruct (Nat.leb (length seg) (S m)) eqn:E.
    + apply Nat.leb_le in E.
      rewrite read_flat_app_le by exact E. apply IH.
    + apply Nat.leb_gt in E.
      rewrite read_flat_app_gt by exact E. cbn. auto.
Qed.

(* read_full over any segmentation = firstn / skipn of the concatenation *)
Lemma read_full_concat s n :
  (n <= length (concat s))%nat ->
  fst (read_full s n []) = Ok (firstn n (concat s)) /\
  concat (snd (read_full s n [])) = skipn n (concat s).
Proof.
  intros Hn. destruct (read_full_flat s n []) as [H1 H2]. rewrite H1, H2.
  destruct n as [|m]; [cbn; auto|].
  cbn [read_flat]. replace (Nat.leb (S m) (length (concat s))) with true by (symmetry; apply Nat.leb_le; lia).
  cbn. auto.
Qed.

Lemma read_full_short s n :
  (length (concat s) < n)%nat ->
  fst (read_full s n []) = Err (match concat s with [] => EEOF | _ => EUnexpectedEOF end).
Proof.
  intros Hn. destruct (read_full_flat s n []) as [H1 _]. rewrite H1.
  destruct n as [|m]; [lia|].
  cbn [read_flat]. replace (Nat.leb (S m) (length (concat s))) with false by (symmetry; apply Nat.leb_gt; lia).
  reflexivity.
Qed.

(* ------------------------------------------------------------------------------------------------ *)
(* Receive on the flat byte string                                                                   *)

Definition receive_flat (rbuf : N) (bs : bytes) : res bytes * bytes :=
  if rbuf <? hdrlen then (Panic PSliceBounds, bs) else
  match read_flat (N.to_nat hdrlen) [] bs with
  | (Ok hdr, s1) =>
      match decode_header hdr with
      | None => (Err EHeaderDecode, s1)
      | Some h =>
          if rbuf <? h_size h then (Err ETooLarge, s1)
          else if h_size h <? hdrlen then (Err ETooSmall, s1)
          else if (h_size h <? hdrlen) || (rbuf <? h_size h) then (Panic PSliceBounds, s1)
          else
            match read_flat (N.to_nat (h_size h - hdrlen)) [] s1 with
            | (Ok body, s2) =>
                if is_err_type (h_type h) then
                  match decode_error body with
                  | None => (Err EErrDecode, s2)
                  | Some (code, reason) => (Err (EStatus code reason), s2)
                  end
                else (Ok (hdr ++ body), s2)
            | (Err e, s2) => (Err e, s2)
            | (Panic p, s2) => (Panic p, s2)
            end
      end
  | (Err e, s1) => (Err e, s1)
  | (Panic p, s1) => (Panic p, s1)
  end.

Lemma receive_flat_eq rbuf s :
  fst (receive rbuf s) = fst (receive_flat rbuf (concat s)) /\
  concat (snd (receive rbuf s)) = snd (receive_flat rbuf (concat s)).
Proof.
  unfold receive, receive_flat.
  destruct (rbuf <? hdrlen); [cbn; auto|].
  destruct (read_full_flat s (N.to_nat hdrlen) []) as [H1 H2].
  destruct (read_full s (N.to_nat hdrlen) []) as [r s1].
  destruct (read_flat (N.to_nat hdrlen) [] (concat s)) as [r' b1].
  cbn [fst snd] in H1, H2. subst r' b1.
  destruct r as [hdr|e|p]; [|cbn; auto|cbn; auto].
  destruct (decode_header hdr) as [h|]; [|cbn; auto].
  destruct (rbuf <? h_size h); [cbn; auto|].
  destruct (h_size h <? hdrlen); [cbn; auto|].
  cbn [orb].
  destruct (read_full_flat s1 (N.to_nat (h_size h - hdrlen)) []) as [H1 H2].
  destruct (read_full s1 (N.to_nat (h_size h - hdrlen)) []) as [r s2].
  destruct (read_flat (N.to_nat (h_size h - hdrlen)) [] (concat s1)) as [r' b2].
  cbn [fst snd] in H1, H2. subst r' b2.
  destruct r as [body|e|p]; [|cbn; auto|cbn; auto].
  destruct (is_err_type (h_type h)); [|cbn; auto].
  destruct (decode_error body) as [[c r]|]; cbn; auto.
Qed.

Fixpoint receive_all_flat (k : nat) (rbuf : N) (bs : bytes) : list (res bytes) * bytes :=
  match k with
  | O => ([], bs)
  | S k' =>
      let '(r, s1) := receive_flat rbuf bs in
      if continues r then
        let '(rs, s2) := receive_all_flat k' rbuf s1 in (r :: rs, s2)
      else ([r], s1)
  end.

Lemma receive_all_flat_eq : forall k rbuf s,
  fst (receive_all k rbuf s) = fst (receive_all_flat k rbuf (concat s)) /\
  concat (snd (receive_all k rbuf s)) = snd (receive_all_flat k rbuf (concat s)).
Proof.
  induction k as [|k IH]; intros rbuf s; [cbn; auto|].
  cbn [receive_all receive_all_flat].
  destruct (receive_flat_eq rbuf s) as [H1 H2].
  destruct (receive rbuf s) as [r s1].
  destruct (receive_flat rbuf (concat s)) as [r' b1].
  cbn [fst snd] in H1, H2. subst r' b1.
  destruct (continues r); [|cbn; auto].
  specialize (IH rbuf s1). destruct IH as [I1 I2].
  destruct (receive_all k rbuf s1) as [rs s2].
  destruct (receive_all_flat k rbuf (concat s1)) as [rs' b2].
  cbn [fst snd] in *. subst. auto.
Qed.

(* the results of any number of Receive calls depend only on the bytes, not on how they are segmented *)
Lemma receive_all_segmentation_independent k rbuf s1 s2 :
  concat s1 = concat s2 ->
  fst (receive_all k rbuf s1) = fst (receive_all k rbuf s2) /\
  concat (snd (receive_all k rbuf s1)) = concat (snd (receive_all k rbuf s2)).
Proof.
  intros E.
  destruct (receive_all_flat_eq k rbuf s1) as [A1 A2].
  destruct (receive_all_flat_eq k rbuf s2) as [B1 B2].
  rewrite A1, A2, B1, B2, E. auto.
Qed.

(* ------------------------------------------------------------------------------------------------ *)
(* frames                                                                                            *)

Lemma wf_frameb_spec rbuf f : wf_frameb rbuf f = true <-> wf_frame rbuf f.
Proof.
  unfold wf_frameb, wf_frame. rewrite !andb_true_iff, Nat.leb_le, N.leb_le, N.eqb_eq. tauto.
Qed.

Lemma decode_header_8 t0 t1 t2 c s0 s1 s2 s3 :
  decode_header [t0; t1; t2; c; s0; s1; s2; s3] =
  Some {| h_type := [t0; t1; t2]; h_chunk := c; h_size := le32 [s0; s1; s2; s3] |}.
Proof. reflexivity. Qed.

(* Header.Decode cannot fail on the 8 bytes Receive hands it *)
Lemma header_decode_total hdr : length hdr = 8%nat -> decode_header hdr <> None.
Proof.
  intros H. do 8 (destruct hdr as [|? hdr]; [discriminate H|]). discriminate.
Qed.

Lemma read_flat_exact n got bs rest :
  length bs = n -> read_flat n got (bs ++ rest) = (Ok (got ++ bs), rest).
Proof.
  intros H. destruct n as [|m].
  - destruct bs; [|discriminate]. cbn. rewrite app_nil_r. reflexivity.
  - cbn [read_flat]. rewrite app_length.
    replace (Nat.leb (S m) (length bs + length rest)) with true by (symmetry; apply Nat.leb_le; lia).
    rewrite <- H. rewrite firstn_app, Nat.sub_diag, firstn_all, firstn_O, app_nil_r.
    rewrite skipn_app, Nat.sub_diag, skipn_all, skipn_O. reflexivity.
Qed.

(* one well-sized frame at the head of the byte string: Receive answers `deliver f` and leaves the rest *)
Lemma receive_flat_frame rbuf f rest :
  8 <= rbuf -> wf_frame rbuf f -> receive_flat rbuf (f ++ rest) = (deliver f, rest).
Proof.
  intros Hr (Hlen & Hmax & Hsz).
  do 8 (destruct f as [|? f]; [cbn in Hlen; lia|]).
  rename f into body.
  unfold frame_size_field in Hsz. cbn [skipn] in Hsz.
  unfold receive_flat.
  replace (rbuf <? hdrlen) with false by (symmetry; apply N.ltb_ge; unfold hdrlen; lia).
  change (N.to_nat hdrlen) with 8%nat.
  change ((b :: b0 :: b1 :: b2 :: b3 :: b4 :: b5 :: b6 :: body) ++ rest)
    with ([b; b0; b1; b2; b3; b4; b5; b6] ++ (body ++ rest)).
  rewrite read_flat_exact by reflexivity.
  cbn [app]. rewrite decode_header_8. cbn [h_size h_type].
  assert (Hs : le32 [b3; b4; b5; b6] = N.of_nat (length (b :: b0 :: b1 :: b2 :: b3 :: b4 :: b5 :: b6 :: body))).
  { rewrite <- Hsz. reflexivity. }
  rewrite Hs. clear Hs Hsz.
  set (L := N.of_nat (length (b :: b0 :: b1 :: b2 :: b3 :: b4 :: b5 :: b6 :: body))) in *.
  assert (HL : L = 8 + N.of_nat (length body)) by (unfold L; cbn [length]; lia).
  replace (rbuf <? L) with false by (symmetry; apply N.ltb_ge; lia).
  replace (L <? hdrlen) with false by (symmetry; apply N.ltb_ge; unfold hdrlen; lia).
  cbn [orb].
  replace (N.to_nat (L - hdrlen)) with (length body) by (unfold hdrlen; lia).
  rewrite read_flat_exact by reflexivity.
  unfold deliver. cbn [firstn skipn app].
  destruct (is_err_type [b; b0; b1]); [|reflexivity].
  destruct (decode_error body) as [[c r]|]; reflexivity.
Qed.

Lemma continues_deliver f : continues (deliver f) = true.
Proof.
  unfold deliver. destruct (is_err_type _); [|reflexivity].
  destruct (decode_error _) as [[c r]|]; reflexivity.
Qed.

Lemma receive_flat_nil rbuf : 8 <= rbuf -> receive_flat rbuf [] = (Err EEOF, []).
Proof.
  intros Hr. unfold receive_flat.
  replace (rbuf <? hdrlen) with false by (symmetry; apply N.ltb_ge; unfold hdrlen; lia).
  reflexivity.
Qed.

(* all the frames, then whatever Receive makes of the tail *)
Lemma receive_all_flat_frames : forall fs k rbuf tail,
  8 <= rbuf -> Forall (wf_frame rbuf) fs ->
  receive_all_flat (length fs + k) rbuf (concat fs ++ tail) =
  (map deliver fs ++ fst (receive_all_flat k rbuf tail), snd (receive_all_flat k rbuf tail)).
Proof.
  induction fs as [|f fs IH]; intros k rbuf tail Hr Hwf.
  - cbn. destruct (receive_all_flat k rbuf tail); reflexivity.
  - inversion Hwf as [|? ? Hf Hfs]; subst.
    cbn [length Nat.add concat receive_all_flat]. rewrite <- app_assoc.
    rewrite receive_flat_frame by assumption.
    rewrite continues_deliver. rewrite IH by assumption. reflexivity.
Qed.

(* ------------------------------------------------------------------------------------------------ *)
(* malformed and truncated input                                                                     *)

Definition hdr_size (h : bytes) : N := le32 (skipn 4 h).

Lemma receive_flat_bad_header rbuf h tail :
  8 <= rbuf -> length h = 8%nat -> (hdr_size h < 8 \/ rbuf < hdr_size h) ->
  receive_flat rbuf (h ++ tail) = (Err (if rbuf <? hdr_size h then ETooLarge else ETooSmall), tail).
Proof.
  intros Hr Hlen Hbad.
  do 8 (destruct h as [|? h]; [discriminate Hlen|]). destruct h; [|discriminate Hlen].
  unfold hdr_size in *. cbn [skipn] in *.
  unfold receive_flat.
  replace (rbuf <? hdrlen) with false by (symmetry; apply N.ltb_ge; unfold hdrlen; lia).
  change (N.to_nat hdrlen) with 8%nat.
  rewrite read_flat_exact by reflexivity.
  cbn [app]. rewrite decode_header_8. cbn [h_size].
  destruct (rbuf <? le32 [b3; b4; b5; b6]) eqn:E; [reflexivity|].
  apply N.ltb_ge in E.
  replace (le32 [b3; b4; b5; b6] <? hdrlen) with true by (symmetry; apply N.ltb_lt; unfold hdrlen; lia).
  reflexivity.
Qed.

(* the peer closes inside a frame: an error, never a delivered (partial) frame *)
Lemma receive_flat_truncated rbuf f p :
  8 <= rbuf -> wf_frame rbuf f -> (length p < length f)%nat -> p = firstn (length p) f ->
  fst (receive_flat rbuf p) = Err EEOF \/ fst (receive_flat rbuf p) = Err EUnexpectedEOF.
Proof.
  intros Hr (Hlen & Hmax & Hsz) Hp Hpre.
  unfold receive_flat.
  replace (rbuf <? hdrlen) with false by (symmetry; apply N.ltb_ge; unfold hdrlen; lia).
  change (N.to_nat hdrlen) with 8%nat.
  destruct (Nat.leb 8 (length p)) eqn:E8.
  - apply Nat.leb_le in E8.
    (* the whole header is there *)
    do 8 (destruct f as [|? f]; [cbn in Hlen; lia|]). rename f into body.
    do 8 (destruct p as [|? p]; [cbn in E8; lia|]).
    cbn [length firstn] in Hpre. injection Hpre as -> -> -> -> -> -> -> -> Hpre.
    unfold frame_size_field in Hsz. cbn [skipn] in Hsz.
    change (b :: b0 :: b1 :: b2 :: b3 :: b4 :: b5 :: b6 :: p) with ([b; b0; b1; b2; b3; b4; b5; b6] ++ p).
    rewrite read_flat_exact by reflexivity.
    cbn [app]. rewrite decode_header_8. cbn [h_size h_type].
    assert (Hs : le32 [b3; b4; b5; b6] = N.of_nat (length (b :: b0 :: b1 :: b2 :: b3 :: b4 :: b5 :: b6 :: body))).
    { rewrite <- Hsz. reflexivity. }
    rewrite Hs. clear Hs Hsz.
    set (L := N.of_nat (length (b :: b0 :: b1 :: b2 :: b3 :: b4 :: b5 :: b6 :: body))) in *.
    assert (HL : L = 8 + N.of_nat (length body)) by (unfold L; cbn [length]; lia).
    replace (rbuf <? L) with false by (symmetry; apply N.ltb_ge; lia).
    replace (L <? hdrlen) with false by (symmetry; apply N.ltb_ge; unfold hdrlen; lia).
    cbn [orb].
    replace (N.to_nat (L - hdrlen)) with (length body) by (unfold hdrlen; lia).
    cbn [length] in Hp.
    unfold read_flat. destruct (length body) as [|m] eqn:Eb; [lia|].
    replace (Nat.leb (S m) (length p)) with false by (symmetry; apply Nat.leb_gt; lia).
    cbn [app]. destruct p; cbn; auto.
  - apply Nat.leb_gt in E8.
    unfold read_flat.
    replace (Nat.leb 8 (length p)) with false by (symmetry; apply Nat.leb_gt; lia).
    cbn [app]. destruct p; cbn; auto.
Qed.

(* ------------------------------------------------------------------------------------------------ *)
(* arbitrary byte strings: no panic; whatever is delivered is a whole well-sized frame at the head   *)

Lemma read_flat_ok n bs r rest :
  read_flat n [] bs = (Ok r, rest) -> bs = r ++ rest /\ length r = n.
Proof.
  unfold read_flat. destruct n as [|m].
  - intros H. injection H as <- <-. auto.
  - remember (S m) as n eqn:En.
    destruct (Nat.leb n (length bs)) eqn:E; [|discriminate].
    apply Nat.leb_le in E. intros H. injection H as <- <-. cbn [app].
    rewrite firstn_skipn. split; [reflexivity|]. apply firstn_length_le. exact E.
Qed.

Lemma read_flat_no_panic n got bs p rest : read_flat n got bs <> (Panic p, rest).
Proof.
  unfold read_flat. destruct n; [discriminate|]. destruct (Nat.leb _ _); discriminate.
Qed.

Lemma read_flat_err n got bs e rest : read_flat n got bs = (Err e, rest) -> continues (Err e) = false.
Proof.
  unfold read_flat. destruct n; [discriminate|]. destruct (Nat.leb _ _); [discriminate|].
  intros H. injection H as <- _. destruct (got ++ bs); reflexivity.
Qed.

Lemma receive_flat_no_panic rbuf bs : 8 <= rbuf -> forall p, fst (receive_flat rbuf bs) <> Panic p.
Proof.
  intros Hr p. unfold receive_flat.
  replace (rbuf <? hdrlen) with false by (symmetry; apply N.ltb_ge; unfold hdrlen; lia).
  destruct (read_flat (N.to_nat hdrlen) [] bs) as [[hdr|e|q] s1] eqn:E1; cbn; try discriminate.
  2:{ exfalso. eapply read_flat_no_panic; eassumption. }
  destruct (decode_header hdr) as [h|]; [|discriminate].
  destruct (rbuf <? h_size h) eqn:Ea; [discriminate|].
  destruct (h_size h <? hdrlen) eqn:Eb; [discriminate|].
  cbn [orb].
  destruct (read_flat (N.to_nat (h_size h - hdrlen)) [] s1) as [[body|e|q] s2] eqn:E2; cbn; try discriminate.
  2:{ exfalso. eapply read_flat_no_panic; eassumption. }
  destruct (is_err_type (h_type h)); [|discriminate].
  destruct (decode_error body) as [[c r]|]; discriminate.
Qed.

(* soundness for arbitrary input: an outcome after which the conversation continues (a delivered frame or a
   decoded ERR frame) always stands for a whole, well-sized frame that was at the head of the byte string *)
Lemma receive_flat_sound rbuf bs r rest :
  8 <= rbuf -> receive_flat rbuf bs = (r, rest) -> continues r = true ->
  exists f, bs = f ++ rest /\ wf_frame rbuf f /\ r = deliver f.
Proof.
  intros Hr. unfold receive_flat.
  replace (rbuf <? hdrlen) with false by (symmetry; apply N.ltb_ge; unfold hdrlen; lia).
  destruct (read_flat (N.to_nat hdrlen) [] bs) as [[hdr|e|q] s1] eqn:E1.
  2:{ intros H Hc; injection H as <- <-. apply read_flat_err in E1. congruence. }
  2:{ intros H Hc; injection H as <- <-. discriminate Hc. }
  apply read_flat_ok in E1. destruct E1 as [-> Hl]. change (N.to_nat hdrlen) with 8%nat in Hl.
  do 8 (destruct hdr as [|? hdr]; [discriminate Hl|]). destruct hdr; [|discriminate Hl].
  rewrite decode_header_8. cbn [h_size h_type].
  destruct (rbuf <? le32 [b3; b4; b5; b6]) eqn:Ea.
  { intros H Hc; injection H as <- <-. discriminate Hc. }
  destruct (le32 [b3; b4; b5; b6] <? hdrlen) eqn:Eb.
  { intros H Hc; injection H as <- <-. discriminate Hc. }
  cbn [orb]. apply N.ltb_ge in Ea, Eb. unfold hdrlen in *.
  destruct (read_flat (N.to_nat (le32 [b3; b4; b5; b6] - 8)) [] s1) as [[body|e|q] s2] eqn:E2.
  2:{ intros H Hc; injection H as <- <-. apply read_flat_err in E2. congruence. }
  2:{ exfalso. eapply read_flat_no_panic; eassumption. }
  apply read_flat_ok in E2. destruct E2 as [-> Hb].
  intros H Hc.
  exists ([b; b0; b1; b2; b3; b4; b5; b6] ++ body).
  assert (Hwf : wf_frame rbuf ([b; b0; b1; b2; b3; b4; b5; b6] ++ body)).
  { unfold wf_frame, frame_size_field. cbn [app length skipn]. split; [lia|].
    change (le32 (b3 :: b4 :: b5 :: b6 :: body)) with (le32 [b3; b4; b5; b6]). lia. }
  split; [|split; [exact Hwf|]].
  - destruct (is_err_type [b; b0; b1]).
    + destruct (decode_error body) as [[c rr]|]; injection H as <- <-; rewrite <- app_assoc; reflexivity.
    + injection H as <- <-. rewrite <- app_assoc. reflexivity.
  - unfold deliver. cbn [app firstn skipn].
    destruct (is_err_type [b; b0; b1]).
    + destruct (decode_error body) as [[c rr]|]; injection H as <- <-; reflexivity.
    + injection H as <- <-. reflexivity.
Qed.

(* ------------------------------------------------------------------------------------------------ *)
(* little-endian round trip, ERR frames                                                              *)

Lemma b2n_n2b n : b2n (n2b n) = n mod 256.
Proof.
  unfold b2n, n2b.
  destruct (Byte.of_N (n mod 256)) as [b|] eqn:E.
  - apply Byte.to_of_N. exact E.
  - apply Byte.of_N_None_iff in E. pose proof (N.mod_lt n 256). lia.
Qed.

Ltac Zify.zify_post_hook ::= Z.div_mod_to_equations.

Lemma le32_enc32 n rest : n < 4294967296 -> le32 (enc32 n ++ rest) = n.
Proof.
  intros Hn. unfold enc32, le32. cbn [app]. rewrite !b2n_n2b. lia.
Qed.

Lemma length_enc32 n : length (enc32 n) = 4%nat.
Proof. reflexivity. Qed.

(* Error.Decode on the encoding of (code, reason) followed by anything *)
Lemma decode_error_enc code reason extra :
  code < 4294967296 -> N.of_nat (length reason) < 4294967295 ->
  decode_error (enc32 code ++ enc32 (N.of_nat (length reason)) ++ reason ++ extra) = Some (code, reason).
Proof.
  intros Hc Hl.
  assert (E1 : le32 (enc32 code ++ enc32 (N.of_nat (length reason)) ++ reason ++ extra) = code)
    by (apply le32_enc32; exact Hc).
  assert (E2 : le32 (enc32 (N.of_nat (length reason)) ++ reason ++ extra) = N.of_nat (length reason))
    by (apply le32_enc32; lia).
  remember (enc32 (N.of_nat (length reason)) ++ reason ++ extra) as r1 eqn:Er1.
  unfold decode_error.
  remember (enc32 code ++ r1) as body eqn:Eb.
  assert (Hb : exists a b c d, body = a :: b :: c :: d :: r1) by (subst body; unfold enc32; cbn [app]; eauto).
  destruct Hb as (a & b & c & d & Hb). rewrite Hb. rewrite <- Hb, E1.
  assert (Hr : exists a b c d, r1 = a :: b :: c :: d :: reason ++ extra) by (subst r1; unfold enc32; cbn [app]; eauto).
  destruct Hr as (a' & b' & c' & d' & Hr). rewrite Hr at 1. rewrite E2.
  destruct reason as [|x reason].
  - cbn. reflexivity.
  - replace (N.of_nat (length (x :: reason)) =? 0) with false by (symmetry; apply N.eqb_neq; cbn [length]; lia).
    replace (N.of_nat (length (x :: reason)) =? 4294967295) with false by (symmetry; apply N.eqb_neq; lia).
    cbn [orb]. rewrite app_length.
    replace (N.of_nat (length (x :: reason) + length extra) <? N.of_nat (length (x :: reason))) with false
      by (symmetry; apply N.ltb_ge; lia).
    rewrite Nnat.Nat2N.id. rewrite firstn_app, Nat.sub_diag, firstn_all, firstn_O, app_nil_r. reflexivity.
Qed.

Definition err_frame (chunk : byte) (code : N) (reason extra : bytes) : bytes :=
  mk_frame [x45; x52; x52] chunk (enc32 code ++ enc32 (N.of_nat (length reason)) ++ reason ++ extra).

Lemma deliver_err_frame chunk code reason extra :
  code < 4294967296 -> N.of_nat (length reason) < 4294967295 ->
  deliver (err_frame chunk code reason extra) = Err (EStatus code reason).
Proof.
  intros Hc Hl. unfold err_frame, mk_frame, deliver.
  cbn [app firstn]. change (is_err_type [x45; x52; x52]) with true. cbv iota.
  change (skipn 8 (x45 :: x52 :: x52 :: chunk :: enc32 (8 + N.of_nat (length (enc32 code ++ enc32 (N.of_nat (length reason)) ++ reason ++ extra))) ++
            enc32 code ++ enc32 (N.of_nat (length reason)) ++ reason ++ extra))
    with (enc32 code ++ enc32 (N.of_nat (length reason)) ++ reason ++ extra).
  rewrite decode_error_enc by assumption. reflexivity.
Qed.

Lemma mk_frame_wf rbuf t0 t1 t2 chunk body :
  8 + N.of_nat (length body) <= rbuf -> rbuf < 4294967296 ->
  wf_frame rbuf (mk_frame [t0; t1; t2] chunk body).
Proof.
  intros Hb Hr. unfold mk_frame, wf_frame, frame_size_field. cbn [app firstn skipn length].
  rewrite le32_enc32 by lia. rewrite app_length, length_enc32. cbn [length]. lia.
Qed.

(* ------------------------------------------------------------------------------------------------ *)
(* statements at the level of segmented streams (what Props/C05.v exposes)                           *)

Lemma receive_all_flat_nil k rbuf : 8 <= rbuf -> receive_all_flat (S k) rbuf [] = ([Err EEOF], []).
Proof. intros Hr. cbn [receive_all_flat]. rewrite receive_flat_nil by exact Hr. reflexivity. Qed.

Lemma frames_then_eof rbuf fs segs k :
  8 <= rbuf -> Forall (wf_frame rbuf) fs -> concat segs = concat fs ->
  fst (receive_all (length fs + S k) rbuf segs) = map deliver fs ++ [Err EEOF] /\
  concat (snd (receive_all (length fs + S k) rbuf segs)) = [].
Proof.
  intros Hr Hwf Hc.
  destruct (receive_all_flat_eq (length fs + S k) rbuf segs) as [H1 H2]. rewrite H1, H2, Hc.
  rewrite <- (app_nil_r (concat fs)).
  rewrite receive_all_flat_frames by assumption.
  rewrite receive_all_flat_nil by exact Hr. cbn [fst snd]. auto.
Qed.

Lemma frames_exactly rbuf fs segs :
  8 <= rbuf -> Forall (wf_frame rbuf) fs -> concat segs = concat fs ->
  fst (receive_all (length fs) rbuf segs) = map deliver fs /\
  concat (snd (receive_all (length fs) rbuf segs)) = [].
Proof.
  intros Hr Hwf Hc.
  destruct (receive_all_flat_eq (length fs) rbuf segs) as [H1 H2]. rewrite H1, H2, Hc.
  pose proof (receive_all_flat_frames fs 0 rbuf [] Hr Hwf) as HF.
  rewrite Nat.add_0_r, app_nil_r in HF. rewrite HF.
  cbn [receive_all_flat fst snd]. rewrite app_nil_r. auto.
Qed.

Definition no_err_type (f : bytes) : bool := negb (is_err_type (firstn 3 f)).

Lemma deliver_plain fs : forallb no_err_type fs = true -> map deliver fs = map Ok fs.
Proof.
  induction fs as [|f fs IH]; [reflexivity|].
  cbn [forallb map]. rewrite andb_true_iff. intros [Hf Hfs]. rewrite IH by exact Hfs.
  f_equal. unfold deliver. unfold no_err_type in Hf. destruct (is_err_type (firstn 3 f)); [discriminate|reflexivity].
Qed.

Lemma frames_then_bad_header rbuf fs h tail segs k :
  8 <= rbuf -> Forall (wf_frame rbuf) fs -> length h = 8%nat -> (hdr_size h < 8 \/ rbuf < hdr_size h) ->
  concat segs = concat fs ++ h ++ tail ->
  fst (receive_all (length fs + S k) rbuf segs) =
    map deliver fs ++ [Err (if rbuf <? hdr_size h then ETooLarge else ETooSmall)] /\
  concat (snd (receive_all (length fs + S k) rbuf segs)) = tail.
Proof.
  intros Hr Hwf Hl Hbad Hc.
  destruct (receive_all_flat_eq (length fs + S k) rbuf segs) as [H1 H2]. rewrite H1, H2, Hc.
  rewrite receive_all_flat_frames by assumption.
  cbn [receive_all_flat]. rewrite receive_flat_bad_header by assumption.
  destruct (rbuf <? hdr_size h); cbn; auto.
Qed.

Lemma frames_then_truncated rbuf fs f p segs k :
  8 <= rbuf -> Forall (wf_frame rbuf) fs -> wf_frame rbuf f ->
  (length p < length f)%nat -> p = firstn (length p) f ->
  concat segs = concat fs ++ p ->
  exists e, (e = EEOF \/ e = EUnexpectedEOF) /\
  fst (receive_all (length fs + S k) rbuf segs) = map deliver fs ++ [Err e].
Proof.
  intros Hr Hwf Hf Hp Hpre Hc.
  destruct (receive_all_flat_eq (length fs + S k) rbuf segs) as [H1 _]. rewrite H1, Hc.
  rewrite receive_all_flat_frames by assumption.
  cbn [receive_all_flat fst].
  destruct (receive_flat_truncated rbuf f p Hr Hf Hp Hpre) as [E|E];
    destruct (receive_flat rbuf p) as [r s1]; cbn [fst] in E; subst r; cbn [continues fst]; eauto.
Qed.

Lemma receive_all_flat_no_panic rbuf : 8 <= rbuf ->
  forall k bs p, ~ In (Panic p) (fst (receive_all_flat k rbuf bs)).
Proof.
  intros Hr. induction k as [|k IH]; intros bs p; [cbn; tauto|].
  cbn [receive_all_flat].
  pose proof (receive_flat_no_panic rbuf bs Hr) as Hnp.
  destruct (receive_flat rbuf bs) as [r s1]. cbn [fst] in Hnp.
  destruct (continues r).
  - specialize (IH s1 p). destruct (receive_all_flat k rbuf s1) as [rs s2]. cbn [fst] in *.
    intros [H|H]; [eapply Hnp; exact H|tauto].
  - cbn. intros [H|H]; [eapply Hnp; exact H|tauto].
Qed.

Lemma receive_all_no_panic rbuf k s p : 8 <= rbuf -> ~ In (Panic p) (fst (receive_all k rbuf s)).
Proof.
  intros Hr. destruct (receive_all_flat_eq k rbuf s) as [H1 _]. rewrite H1.
  apply receive_all_flat_no_panic. exact Hr.
Qed.

(* For ANY byte string: the results are `deliver` of whole well-sized frames standing at the head of the byte
   string, followed by at most one final outcome that ends the conversation. *)
Lemma receive_all_flat_sound rbuf : 8 <= rbuf ->
  forall k bs, exists fs junk tl,
    Forall (wf_frame rbuf) fs /\ bs = concat fs ++ junk /\
    fst (receive_all_flat k rbuf bs) = map deliver fs ++ tl /\
    (tl = [] \/ exists r, tl = [r] /\ continues r = false).
Proof.
  intros Hr. induction k as [|k IH]; intros bs.
  - exists [], bs, []. cbn. auto.
  - cbn [receive_all_flat].
    destruct (receive_flat rbuf bs) as [r s1] eqn:E.
    destruct (continues r) eqn:Ec.
    + destruct (receive_flat_sound rbuf bs r s1 Hr E Ec) as (f & Hbs & Hf & Hd).
      destruct (IH s1) as (fs & junk & tl & Hwf & Hs1 & Hrs & Htl).
      destruct (receive_all_flat k rbuf s1) as [rs s2]. cbn [fst] in *.
      exists (f :: fs), junk, tl. split; [constructor; assumption|].
      split; [cbn [concat]; rewrite <- app_assoc, <- Hs1; exact Hbs|].
      split; [cbn [map app]; rewrite Hrs, Hd; reflexivity|exact Htl].
    + exists [], bs, [r]. cbn. split; [constructor|]. split; [reflexivity|]. split; [reflexivity|].
      right. exists r. auto.
Qed.

Lemma receive_all_sound rbuf k s : 8 <= rbuf ->
  exists fs junk tl,
    Forall (wf_frame rbuf) fs /\ concat s = concat fs ++ junk /\
    fst (receive_all k rbuf s) = map deliver fs ++ tl /\
    (tl = [] \/ exists r, tl = [r] /\ continues r = false).
Proof.
  intros Hr. destruct (receive_all_flat_eq k rbuf s) as [H1 _]. rewrite H1.
  apply receive_all_flat_sound. exact Hr.
Qed.

Lemma receive_small_buffer rbuf s : rbuf < 8 -> fst (receive rbuf s) = Panic PSliceBounds.
Proof.
  intros H. unfold receive. replace (rbuf <? hdrlen) with true by (symmetry; apply N.ltb_lt; unfold hdrlen; lia).
  reflexivity.
Qed.
