(* CryptoShaProofs.v — output lengths of the Gallina SHA-1 / SHA-256 / HMAC (for every input), so that the
   hypotheses of the key-derivation theorems are met by the concrete functions. *)
From Coq Require Import ZArith Bool Lia.
From Coq Require Import List.
From Coq.Strings Require Import Byte.
From Opcua Require Import Model.ChunkBytes Model.CryptoSha Proofs.ChunkBytesProofs.
Import ListNotations.
Open Scope Z_scope.

Lemma compress256_len hs blk : length hs = 8%nat -> length (compress256 hs blk) = 8%nat.
Proof.
  intros H. do 9 (destruct hs as [|? hs]; try discriminate H). unfold compress256.
  destruct (fold_left round256 _ _) as [[[[[[[a' b'] c'] d'] e'] f'] g'] h']. reflexivity.
Qed.
Lemma compress1_len hs blk : length hs = 5%nat -> length (compress1 hs blk) = 5%nat.
Proof.
  intros H. do 6 (destruct hs as [|? hs]; try discriminate H). unfold compress1.
  destruct (fold_left round1 _ _) as [[[[a' b'] c'] d'] e']. reflexivity.
Qed.

Lemma fold_len {A} (f : list Z -> A -> list Z) n (Hf : forall hs x, length hs = n -> length (f hs x) = n) l :
  forall hs, length hs = n -> length (fold_left f l hs) = n.
Proof. induction l as [|x l IH]; intros hs H; [exact H|]. cbn. apply IH, Hf, H. Qed.

Lemma zlen_flat_be32 l : zlen (flat_map be32 l) = 4 * Z.of_nat (length l).
Proof.
  induction l as [|w l IH]; [reflexivity|]. cbn [flat_map]. rewrite zlen_app, IH. cbn [length].
  change (zlen (be32 w)) with 4. lia.
Qed.

Theorem zlen_sha256 m : zlen (sha256 m) = 32.
Proof.
  unfold sha256. rewrite zlen_flat_be32.
  rewrite (fold_len compress256 8%nat compress256_len) by reflexivity. reflexivity.
Qed.
Theorem zlen_sha1 m : zlen (sha1 m) = 20.
Proof.
  unfold sha1. rewrite zlen_flat_be32.
  rewrite (fold_len compress1 5%nat compress1_len) by reflexivity. reflexivity.
Qed.
Theorem zlen_hmac_sha256 k m : zlen (hmac_sha256 k m) = 32.
Proof. unfold hmac_sha256, hmac. apply zlen_sha256. Qed.
Theorem zlen_hmac_sha1 k m : zlen (hmac_sha1 k m) = 20.
Proof. unfold hmac_sha1, hmac. apply zlen_sha1. Qed.
