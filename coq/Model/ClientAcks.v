(* Engine E7 (client), C26: acknowledgement bookkeeping of the publish loop (client_sub.go: sendPublishRequest,
   publish, handleAcks_NeedsSubMuxLock, handleNotification_NeedsSubMuxLock), republish (sendRepublishRequests) and the
   subscription bookkeeping of a reconnect (client.go monitor(): transferSubscriptions / restoreSubscriptions;
   client_sub.go recreateSubscription), as pure functions over histories. *)
From Coq Require Import List Bool Arith Lia.
Import ListNotations.

Definition ack := (nat * nat)%type.            (* (SubscriptionID, SequenceNumber) *)
Definition ack_eqb (a b : ack) : bool := (fst a =? fst b) && (snd a =? snd b).

(* status of one acknowledgement in PublishResponse.Results *)
Inductive ack_status := AckOK | AckSubInvalid | AckSeqUnknown | AckOther.

(* handleAcks: pending vs results *)
Fixpoint retry_acks (pending : list ack) (res : list ack_status) : list ack :=
  match pending, res with
  | a :: p', r :: res' =>
      match r with AckOther => a :: retry_acks p' res' | _ => retry_acks p' res' end
  | _, _ => []
  end.

Definition handle_acks (pending : list ack) (res : list ack_status) : list ack :=
  if List.length pending =? List.length res then retry_acks pending res
  else [].     (* "got %d results for pending ACKs but want %d": the list is dropped *)

(* one publish exchange as the client sees it *)
Record publish_resp := {
  pr_sub : nat;               (* SubscriptionID *)
  pr_known : bool;            (* c.subs[SubscriptionID] exists *)
  pr_seq : nat;               (* NotificationMessage.SequenceNumber *)
  pr_data : bool;             (* len(NotificationData) > 0 (false = keep-alive) *)
  pr_results : list ack_status
}.

(* publish(), default branch: returns the new pending list and whether a notification was delivered to the app *)
Definition publish_step (pending : list ack) (r : publish_resp) : list ack * option ack :=
  let p1 := handle_acks pending (pr_results r) in
  if pr_known r then
    if pr_data r then (p1 ++ [(pr_sub r, pr_seq r)], Some (pr_sub r, pr_seq r))
    else (p1, None)
  else (p1, None).             (* "unknown subscription": handleNotification is skipped *)

(* the acknowledgement lists of the successive PublishRequests (the first request carries the initial pending list) *)
Fixpoint requests (pending : list ack) (h : list publish_resp) : list (list ack) :=
  match h with
  | [] => [pending]
  | r :: rest => pending :: requests (fst (publish_step pending r)) rest
  end.

Fixpoint delivered (pending : list ack) (h : list publish_resp) : list ack :=
  match h with
  | [] => []
  | r :: rest =>
      match snd (publish_step pending r) with
      | Some a => a :: delivered (fst (publish_step pending r)) rest
      | None => delivered (fst (publish_step pending r)) rest
      end
  end.

Definition final_pending (pending : list ack) (h : list publish_resp) : list ack :=
  fold_left (fun p r => fst (publish_step p r)) h pending.

(* a conforming server answers one status per acknowledgement it was sent *)
Fixpoint conforming (pending : list ack) (h : list publish_resp) : bool :=
  match h with
  | [] => true
  | r :: rest => (List.length pending =? List.length (pr_results r)) && conforming (fst (publish_step pending r)) rest
  end.

(* --- republish (sendRepublishRequests): the notification goes to the application, sub.lastSeq/nextSeq advance, and
       (before the fix) NOTHING was appended to pendingAcks ------------------------------------------------------------ *)
Definition republish_step_before_fix (pending : list ack) (sub seq : nat) : list ack * option ack := (pending, Some (sub, seq)).

(* since the fix: the republished message (it always carries data) is appended to pendingAcks like a published one *)
Definition republish_step (pending : list ack) (sub seq : nat) : list ack * option ack :=
  (pending ++ [(sub, seq)], Some (sub, seq)).

(* --- reconnect bookkeeping --------------------------------------------------------------------------------------- *)

Record sub_env := {
  se_id : nat;
  se_items : nat;                 (* monitored items the subscription had *)
  se_transfer_ok : bool;          (* TransferResult status is not BadSubscriptionIDInvalid *)
  se_republish_ok : bool;         (* republishSubscription returns nil *)
  se_create_ok : bool;            (* recreate_create succeeds *)
  se_items_ok : bool              (* recreate_monitoredItems succeeds *)
}.

Inductive fate := Republished | Recreated (items : nat) | Lost | Untouched.

(* recreateSubscription: delete; forget (the subscription leaves c.subs); create; register; monitored items *)
Definition recreate (e : sub_env) : fate * bool :=
  if se_create_ok e then
    if se_items_ok e then (Recreated (se_items e), true)
    else (Recreated 0, false)          (* registered again, items map emptied, error returned *)
  else (Lost, false).                  (* forgotten and never registered again *)

(* transferSubscriptions + restoreSubscriptions for one subscription; transfer_failed = the whole call failed *)
Definition restore_one (transfer_failed : bool) (e : sub_env) : fate * bool :=
  if transfer_failed || negb (se_transfer_ok e) then recreate e
  else if se_republish_ok e then (Republished, true)
  else recreate e.

(* restoreSubscriptions ends with `c.setState(ctx, Connected); action = none` whatever the loop did: the
   `action = recreateSession; continue` of a failed recreateSubscription only continues the range loop *)
Definition restore_all (transfer_failed : bool) (es : list sub_env) : list (nat * fate) * bool (* reports Connected *) :=
  (map (fun e => (se_id e, fst (restore_one transfer_failed e))) es, true).

Definition all_recreate_ok (es : list sub_env) : bool := forallb (fun e => se_create_ok e && se_items_ok e) es.

Definition survived (e : sub_env) (f : fate) : bool :=
  match f with Republished => true | Recreated n => n =? se_items e | Lost => false | Untouched => false end.

(* which way the reconnect went: restoreSession succeeded (the server still had the session), or the session had to be
   recreated and the subscriptions transferred *)
Inductive path := SessionKept | SessionLost (transfer_failed : bool).

(* activeSubs as restoreSubscriptions counts it: every subscription in subsToRepublish (whatever republish returned)
   plus every successful recreateSubscription *)
Definition active_one (transfer_failed : bool) (e : sub_env) : nat :=
  if transfer_failed || negb (se_transfer_ok e) then (if snd (recreate e) then 1 else 0)
  else 1 + (if se_republish_ok e then 0 else if snd (recreate e) then 1 else 0).

(* restoreSession -> restoreSubscriptions.  Before the fix both lists were empty on this path: nothing was republished
   or recreated and activeSubs stayed 0.  Since the fix subsToRepublish = all subscriptions of the client: each one is
   republished, or recreated when the republish fails. *)
Definition reconnect_subs_before_fix (p : path) (es : list sub_env) : list (nat * fate) * nat :=
  match p with
  | SessionKept => (map (fun e => (se_id e, Untouched)) es, 0)
  | SessionLost tf => (fst (restore_all tf es), fold_right (fun e n => active_one tf e + n) 0 es)
  end.

Definition kept_env (e : sub_env) : sub_env :=
  {| se_id := se_id e; se_items := se_items e; se_transfer_ok := true; se_republish_ok := se_republish_ok e;
     se_create_ok := se_create_ok e; se_items_ok := se_items_ok e |}.

Definition reconnect_subs (p : path) (es : list sub_env) : list (nat * fate) * nat :=
  match p with
  | SessionKept => (fst (restore_all false (map kept_env es)), fold_right (fun e n => active_one false (kept_env e) + n) 0 es)
  | SessionLost tf => (fst (restore_all tf es), fold_right (fun e n => active_one tf e + n) 0 es)
  end.

(* `case activeSubs > 0: c.resumeSubscriptions(ctx)` — otherwise the publish loop stays paused *)
Definition publishing_resumed (p : path) (es : list sub_env) : bool := 0 <? snd (reconnect_subs p es).
Definition publishing_resumed_before_fix (p : path) (es : list sub_env) : bool := 0 <? snd (reconnect_subs_before_fix p es).

(* --- the monitored items of a subscription across consecutive reconnects ------------------------------------------ *)

(* item table: number of monitored items per TimestampsToReturn value (recreate_monitoredItems sends one
   CreateMonitoredItems request per value) *)
Definition total_items (groups : list nat) : nat := fold_right plus 0 groups.

(* one reconnect: (items the client asks the server to create, item table afterwards).  A recreate rebuilds EVERY
   group from the table it had; a failed CreateMonitoredItems leaves the table empty (it was cleared first). *)
Definition round_items (p : path) (e : sub_env) (groups : list nat) : nat * list nat :=
  match fst (reconnect_subs p [e]) with
  | [(_, Recreated _)] => (total_items groups, if se_items_ok e then groups else [])
  | [(_, Lost)] => (0, [])
  | _ => (0, groups)
  end.

Fixpoint rounds_items (k : nat) (p : path) (e : sub_env) (groups : list nat) : list nat * list nat :=
  match k with
  | 0 => ([], groups)
  | S k' => let '(req, g1) := round_items p e groups in
            let '(reqs, gk) := rounds_items k' p e g1 in (req :: reqs, gk)
  end.

(* --- everything the client receives: publish responses and republished notifications ------------------------------ *)
(* ERecreate: recreateSubscription of one subscription during a reconnect.  pendingAcks is ONE queue for all subscriptions
   of the client and recreateSubscription does not touch it: acknowledgements queued for the other subscriptions (and the
   stale ones of the recreated subscription, which the server answers with BadSubscriptionIDInvalid) stay queued. *)
Inductive event := EPublish (r : publish_resp) | ERepublish (sub seq : nat) | ERecreate (sub : nat).

Definition ev_step_gen (fixed : bool) (pending : list ack) (e : event) : list ack * option ack :=
  match e with
  | EPublish r => publish_step pending r
  | ERepublish s q => if fixed then republish_step pending s q else republish_step_before_fix pending s q
  | ERecreate _ => (pending, None)
  end.
Definition ev_step := ev_step_gen true.

(* acknowledgement lists sent after each event, and the notifications handed to the application *)
Fixpoint ev_requests_gen (fixed : bool) (pending : list ack) (h : list event) : list (list ack) :=
  match h with [] => [pending] | e :: rest => pending :: ev_requests_gen fixed (fst (ev_step_gen fixed pending e)) rest end.
Fixpoint ev_delivered_gen (fixed : bool) (pending : list ack) (h : list event) : list ack :=
  match h with
  | [] => []
  | e :: rest => match snd (ev_step_gen fixed pending e) with
                 | Some a => a :: ev_delivered_gen fixed (fst (ev_step_gen fixed pending e)) rest
                 | None => ev_delivered_gen fixed (fst (ev_step_gen fixed pending e)) rest
                 end
  end.
Definition ev_requests := ev_requests_gen true.
Definition ev_delivered := ev_delivered_gen true.
