(* Server.v — the server as one state machine (DESIGN Appendix D.5): sessions, the dispatcher's session gate,
   subscriptions, monitored items, and the attribute / view services of ServerSpace.v / ServerBrowse.v.
   Hand transcription of
     server/service_handlers.go     handleService, sessionRequired, checkSession
     server/session_service.go      CreateSession, ActivateSession, CloseSession
     server/session_broker.go       NewSession, Close, Session, Activate, Activated
     server/subscription_service.go CreateSubscription, nextSubID, revisePublishingInterval, DeleteSubscriptions,
                                    DeleteSubscription, Publish, Subscription.run (its start only)
     server/monitored_item_service.go CreateMonitoredItems, NextID, SetMonitoringMode, DeleteMonitoredItems,
                                    DeleteMonitoredItem, DeleteSub, ChangeNotification
     server/discovery_service.go    FindServers (the endpoint index)
   Goroutines started by handlers (go DeleteSubscription / go DeleteMonitoredItem / a subscription worker that
   exits) are separate events, so that theorems over event lists cover every interleaving.
   Tied to the code by the correspondence runs of engines/C32.py, C35.py, C29.py (request histories from several
   channels against the real server; every outcome and the dumped tables are recomputed here with vm_compute). *)
From Coq Require Import NArith ZArith Bool List.
From Opcua Require Import Model.ServerSpace Model.ServerBrowse.
Import ListNotations.
Open Scope N_scope.

Definition token := N.    (* key of AuthenticationToken.String(); 0 = the null id "i=0" *)

(* status codes *)
Definition StBadUnexpectedError := 2147549184.        (* 0x80010000 *)
Definition StBadServiceUnsupported := 2148204544.     (* 0x800B0000 *)
Definition StBadSecurityChecksFailed := 2148728832.   (* 0x80130000 *)
Definition StBadSessionIDInvalid := 2149908480.       (* 0x80250000 *)
Definition StBadSessionNotActivated := 2150039552.    (* 0x80270000 *)
Definition StBadSubscriptionIDInvalid := 2150105088.  (* 0x80280000 *)
Definition StBadInternalError := 2147614720.          (* 0x80020000 *)
Definition StBadMonitoredItemIDInvalid := 2151809024. (* 0x80420000 *)

(* service ids (DefaultBinary encoding ids of the request types) *)
Definition SvcFindServers := 422.
Definition SvcGetEndpoints := 428.
Definition SvcRegisterServer := 437.
Definition SvcCreateSession := 461.
Definition SvcActivateSession := 467.
Definition SvcCloseSession := 473.
Definition SvcBrowse := 527.
Definition SvcRead := 631.
Definition SvcWrite := 673.
Definition SvcCreateMonitoredItems := 751.
Definition SvcSetMonitoringMode := 769.
Definition SvcDeleteMonitoredItems := 781.
Definition SvcCreateSubscription := 787.
Definition SvcPublish := 826.
Definition SvcDeleteSubscriptions := 847.
Definition SvcFindServersOnNetwork := 12208.
Definition SvcRegisterServer2 := 12211.

(* sessionRequired: false exactly for discovery and the session set-up / tear-down services *)
Definition exempt_services : list N :=
  [SvcFindServers; SvcFindServersOnNetwork; SvcGetEndpoints; SvcRegisterServer; SvcRegisterServer2;
   SvcCreateSession; SvcActivateSession; SvcCloseSession].
Definition session_required (svc : N) : bool := negb (existsb (N.eqb svc) exempt_services).

(* requested publishing interval (a float64 of milliseconds) *)
Inductive ival := INaN | INegInf | IPosInf | IFin (u : Z).   (* u in 1/1000 ms *)
Definition IntervalMin : Z := 1000.
Definition IntervalMax : Z := 86400000000.
(* revisePublishingInterval *)
Definition revise (i : ival) : Z :=
  match i with
  | INaN | INegInf => IntervalMin
  | IPosInf => IntervalMax
  | IFin u => if (u <? IntervalMin)%Z then IntervalMin else if (IntervalMax <? u)%Z then IntervalMax else u
  end.
(* time.Millisecond * time.Duration(ms): truncation towards zero, then nanoseconds *)
Definition ticker_ns (u : Z) : Z := (Z.quot u 1000 * 1000000)%Z.

Record ssub := SSub { sub_owner : option token; sub_chan : N; sub_interval : Z }.
Record item := Item { it_sub : N; it_owner : option token; it_node : nid; it_attr : N; it_mode : N }.

Record srv := Srv {
  sv_space : space;
  sv_sessions : list (token * bool);   (* sessionBroker.s: token -> activated *)
  sv_subs : list (N * ssub);           (* SubscriptionService.Subs *)
  sv_last_sub : N;                     (* SubscriptionService.lastSubID *)
  sv_items : list (N * item);          (* MonitoredItemService.Items (Nodes and Subs are indexes of it) *)
  sv_item_ctr : N;                     (* MonitoredItemService.id *)
  sv_endpoints : N                     (* len(Server.endpoints) *)
}.

Inductive req :=
| RRead (l : list (nid * N))
| RWrite (l : list (nid * N * dval))
| RBrowse (l : list bdesc)
| RCreateSession (fresh : token) (crypto_ok : bool)   (* token drawn by NewSession; NewSessionSignature succeeded *)
| RActivate (sig_ok : bool)                           (* VerifySessionSignature succeeded *)
| RCloseSession
| RCreateSub (iv : ival)
| RDeleteSubs (ids : list N)
| RCreateItems (sub : N) (l : list (nid * N))
| RDeleteItems (ids : list N)
| RSetMode (ids : list N) (mode : N)
| RPublish
| RSvc (svc : N) (registered : bool).   (* any other service: discovery, not implemented, no handler *)

Inductive event :=
| EReq (chan : N) (tok : token) (r : req)
| EDelSub (id : N)      (* a `go DeleteSubscription(id)` runs, or the subscription's worker exits *)
| EDelItem (id : N).    (* a `go DeleteMonitoredItem(id)` runs *)

Inductive outcome :=
| OFault (st : N)                       (* ServiceFault with this status; the handler was not run or failed *)
| ORead (l : list dval)
| OWrite (l : list N)
| OBrowse (l : list (N * list rdesc))
| OCreateSession (tok : token)
| OActivate
| OClose
| OCreateSub (id : N) (revised : Z)
| ODeleteSubs (l : list N)
| OCreateItems (l : list N)             (* item ids; every status is Good *)
| ODeleteItems (l : list N)
| OSetMode (l : list N)
| OPublishQueued                        (* no response now *)
| OPublishNoSession
| OFindServers (n : N)
| OOther                                (* GetEndpoints / a handler answering BadServiceUnsupported *)
| OInternal
| OPanic (why : N)
| OOutOfFuel
| OHang                                 (* the dispatcher goroutine blocks forever *)
| OWriteTimeout.                        (* the peer did not take the response within the write deadline; connection closed *)

Definition PanicNilSession := 2.      (* worker dereferences a nil session *)
Definition PanicTicker := 3.          (* time.NewTicker with a non-positive period *)
Definition PanicNoEndpoint := 4.      (* Endpoints()[0] on an empty list *)

Definition svc_of (r : req) : N :=
  match r with
  | RRead _ => SvcRead | RWrite _ => SvcWrite | RBrowse _ => SvcBrowse
  | RCreateSession _ _ => SvcCreateSession | RActivate _ => SvcActivateSession | RCloseSession => SvcCloseSession
  | RCreateSub _ => SvcCreateSubscription | RDeleteSubs _ => SvcDeleteSubscriptions
  | RCreateItems _ _ => SvcCreateMonitoredItems | RDeleteItems _ => SvcDeleteMonitoredItems
  | RSetMode _ _ => SvcSetMonitoringMode | RPublish => SvcPublish
  | RSvc svc _ => svc
  end.

Definition has_handler (r : req) : bool := match r with RSvc _ reg => reg | _ => true end.

(* checkSession *)
Definition check_session (s : srv) (svc : N) (tok : token) : option N :=
  if session_required svc then
    match alist_get tok (sv_sessions s) with
    | None => Some StBadSessionIDInvalid
    | Some false => Some StBadSessionNotActivated
    | Some true => None
    end
  else None.

Definition wrap32 (n : N) : N := n mod 4294967296.
(* nextSubID / NextID: increment, skip zero *)
Definition next_id (last : N) : N := let i := wrap32 (last + 1) in if i =? 0 then wrap32 (i + 1) else i.

(* start of Subscription.run: the session's publish queue is dereferenced, a ticker is created *)
Definition worker_start (owner : option token) (interval : Z) : option N :=
  match owner with
  | None => Some PanicNilSession
  | Some _ => if (ticker_ns interval <=? 0)%Z then Some PanicTicker else None
  end.

Definition owner_is (o : option token) (tok : token) : bool := match o with Some t => t =? tok | None => false end.

(* MonitoredItemService.ChangeNotification: every item on the node reads its attribute *)
Definition notify (items : list (N * item)) (sp : space) (n : nid) : space :=
  fold_left (fun sp0 (e : N * item) =>
               if snd (it_node (snd e)) =? snd n then fst (read_one sp0 (n, it_attr (snd e))) else sp0) items sp.

(* ... and what it hands to the subscriptions' workers: (item id, the DataValue just read) for every item on the node.
   The value goes through NodeNameSpace.Attribute, i.e. through the CurrentRead check, like a Read. *)
Fixpoint notify_vals (items : list (N * item)) (sp : space) (n : nid) : space * list (N * dval) :=
  match items with
  | [] => (sp, [])
  | e :: t => if snd (it_node (snd e)) =? snd n
              then let '(sp1, d) := read_one sp (n, it_attr (snd e)) in
                   let '(sp2, l) := notify_vals t sp1 n in (sp2, (fst e, d) :: l)
              else notify_vals t sp n
  end.

(* CreateMonitoredItems starts `go s.ChangeNotification(node)` for every new item: the initial notifications.  They read
   like any other notification (and so may rewrite a stored uint32 NodeClass); the harness lets them finish before the
   next request, the model runs them with the handler. *)
Definition notify_all (items : list (N * item)) (sp : space) (l : list (nid * N)) : space :=
  fold_left (fun sp0 (na : nid * N) => notify items sp0 (fst na)) l sp.

Fixpoint srv_write_all (items : list (N * item)) (sp : space) (l : list (nid * N * dval)) : space * list N :=
  match l with
  | [] => (sp, [])
  | wv :: t => let '(sp1, st) := write_one sp wv in
               let sp1' := if st =? StOK then notify items sp1 (fst (fst wv)) else sp1 in
               let '(sp2, sts) := srv_write_all items sp1' t in (sp2, st :: sts)
  end.

Definition del_sub_status (s : srv) (tok : token) (id : N) : N :=
  match alist_get id (sv_subs s) with
  | None => StBadSubscriptionIDInvalid
  | Some sub => if owner_is (sub_owner sub) tok then StOK else StBadSessionIDInvalid
  end.

Definition del_item_status (s : srv) (tok : token) (id : N) : N :=
  match alist_get id (sv_items s) with
  | None => StBadMonitoredItemIDInvalid
  | Some it => if owner_is (it_owner it) tok then StOK else StBadSessionIDInvalid
  end.

Fixpoint set_mode_all (items : list (N * item)) (tok : token) (mode : N) (ids : list N) : list (N * item) * list N :=
  match ids with
  | [] => (items, [])
  | id :: t =>
    match alist_get id items with
    | None => let '(it', sts) := set_mode_all items tok mode t in (it', StBadMonitoredItemIDInvalid :: sts)
    | Some it =>
      if owner_is (it_owner it) tok then
        let items1 := alist_set id (Item (it_sub it) (it_owner it) (it_node it) (it_attr it) mode) items in
        let '(it', sts) := set_mode_all items1 tok mode t in (it', StOK :: sts)
      else let '(it', sts) := set_mode_all items tok mode t in (it', StBadSessionIDInvalid :: sts)
    end
  end.

Fixpoint create_items (items : list (N * item)) (ctr : N) (sub : N) (owner : option token) (l : list (nid * N))
  : list (N * item) * N * list N :=
  match l with
  | [] => (items, ctr, [])
  | (n, a) :: t => let id := next_id ctr in
                   let '(items', ctr', ids) := create_items (alist_set id (Item sub owner n a 0) items) id sub owner t in
                   (items', ctr', id :: ids)
  end.

Definition set_space (s : srv) (sp : space) : srv :=
  Srv sp (sv_sessions s) (sv_subs s) (sv_last_sub s) (sv_items s) (sv_item_ctr s) (sv_endpoints s).
Definition set_sessions (s : srv) (ss : list (token * bool)) : srv :=
  Srv (sv_space s) ss (sv_subs s) (sv_last_sub s) (sv_items s) (sv_item_ctr s) (sv_endpoints s).
Definition set_subs (s : srv) (subs : list (N * ssub)) (last : N) : srv :=
  Srv (sv_space s) (sv_sessions s) subs last (sv_items s) (sv_item_ctr s) (sv_endpoints s).
Definition set_items (s : srv) (items : list (N * item)) (ctr : N) : srv :=
  Srv (sv_space s) (sv_sessions s) (sv_subs s) (sv_last_sub s) items ctr (sv_endpoints s).

(* the handlers, after the gate *)
Definition dispatch (fuel : nat) (s : srv) (chan : N) (tok : token) (r : req) : srv * outcome :=
  match r with
  | RRead l => let '(sp, ds) := read_all (sv_space s) l in (set_space s sp, ORead ds)
  | RWrite l => let '(sp, sts) := srv_write_all (sv_items s) (sv_space s) l in (set_space s sp, OWrite sts)
  | RBrowse l => match browse_all fuel (sv_space s) l with
                 | Ok x => (s, OBrowse x)
                 | Panic w => (s, OPanic w)
                 | OutOfFuel => (s, OOutOfFuel)
                 end
  | RCreateSession fresh crypto_ok =>
      let s' := set_sessions s (alist_set fresh false (sv_sessions s)) in
      if crypto_ok then (s', OCreateSession fresh) else (s', OFault StBadInternalError)
  | RActivate sig_ok =>
      match alist_get tok (sv_sessions s) with
      | None => (s, OFault StBadSessionIDInvalid)
      | Some _ => if sig_ok then (set_sessions s (alist_set tok true (sv_sessions s)), OActivate)
                  else (s, OFault StBadSecurityChecksFailed)
      end
  | RCloseSession =>
      match alist_get tok (sv_sessions s) with
      | None => (s, OFault StBadSessionIDInvalid)
      | Some _ => (set_sessions s (alist_del tok (sv_sessions s)), OClose)
      end
  | RCreateSub iv =>
      match alist_get tok (sv_sessions s) with
      | None => (s, OFault StBadSessionIDInvalid)
      | Some _ =>
        let id := next_id (sv_last_sub s) in
        let sub := SSub (Some tok) chan (revise iv) in
        let s' := set_subs s (alist_set id sub (sv_subs s)) id in
        match worker_start (sub_owner sub) (sub_interval sub) with
        | Some w => (s', OPanic w)
        | None => (s', OCreateSub id (revise iv))
        end
      end
  | RDeleteSubs ids =>
      match alist_get tok (sv_sessions s) with
      | None => (s, OFault StBadSessionIDInvalid)
      | Some _ => (s, ODeleteSubs (map (del_sub_status s tok) ids))
      end
  | RCreateItems sub l =>
      match alist_get sub (sv_subs s) with
      | None => (s, OFault StBadUnexpectedError)
      | Some sb =>
        match alist_get tok (sv_sessions s) with
        | None => (s, OFault StBadSessionIDInvalid)
        | Some _ =>
          if owner_is (sub_owner sb) tok then
            let '(items, ctr, ids) := create_items (sv_items s) (sv_item_ctr s) sub (sub_owner sb) l in
            (set_space (set_items s items ctr) (notify_all items (sv_space s) l), OCreateItems ids)
          else (s, OFault StBadUnexpectedError)
        end
      end
  | RDeleteItems ids =>
      match alist_get tok (sv_sessions s) with
      | None => (s, OFault StBadSessionIDInvalid)
      | Some _ => (s, ODeleteItems (map (del_item_status s tok) ids))
      end
  | RSetMode ids mode =>
      match alist_get tok (sv_sessions s) with
      | None => (s, OFault StBadSessionIDInvalid)
      | Some _ => let '(items, sts) := set_mode_all (sv_items s) tok mode ids in
                  (set_items s items (sv_item_ctr s), OSetMode sts)
      end
  | RPublish =>
      match alist_get tok (sv_sessions s) with
      | None => (s, OPublishNoSession)
      | Some _ => (s, OPublishQueued)
      end
  | RSvc svc _ =>
      if svc =? SvcFindServers then (s, OFindServers (if sv_endpoints s =? 0 then 0 else 1))
      else (s, OOther)
  end.

(* handleService for a request; the goroutines for the other events *)
Definition handle (fuel : nat) (s : srv) (e : event) : srv * outcome :=
  match e with
  | EReq chan tok r =>
      if negb (has_handler r) then (s, OFault StBadServiceUnsupported)
      else match check_session s (svc_of r) tok with
           | Some st => (s, OFault st)
           | None => dispatch fuel s chan tok r
           end
  | EDelSub id =>
      (Srv (sv_space s) (sv_sessions s) (alist_del id (sv_subs s)) (sv_last_sub s)
           (filter (fun e => negb (it_sub (snd e) =? id)) (sv_items s)) (sv_item_ctr s) (sv_endpoints s), OInternal)
  | EDelItem id => (set_items s (alist_del id (sv_items s)) (sv_item_ctr s), OInternal)
  end.

(* handleService ends with sc.SendResponseWithContext on the dispatcher goroutine itself (server.go: "should this be
   delegated to another goroutine in case handling this hangs?"). The write returns when the socket has taken the
   bytes; towards a peer that has stopped reading (its receive window and the send buffer are full) it never does,
   and no other request is dispatched meanwhile.  `reading chan` = the peer of that channel still reads. *)
Definition deliver (reading : N -> bool) (e : event) (o : outcome) : outcome :=
  match e, o with
  | EReq _ _ _, OPublishQueued => o            (* nothing is written now *)
  | EReq chan _ _, _ => if reading chan then o else OHang
  | _, _ => o
  end.

Definition serve (fuel : nat) (reading : N -> bool) (s : srv) (e : event) : srv * outcome :=
  let '(s', o) := handle fuel s e in (s', deliver reading e o).

(* ---- since the fix: response writes have a deadline (uasc writeMessageChunks: SetWriteDeadline(now + ResponseWriteTimeout),
   default 5 s; when it expires the connection is closed), and a change notification does not wait for a subscription that
   has been shut down (Subscription.notify).  Time accounting, as an upper bound: a channel whose peer has stopped reading
   ("stalled") costs the dispatcher at most one deadline D - the first time the dispatcher touches it, by writing a response
   to it or by waiting for one of its subscription workers, itself stuck in a write to it, to take a notification - and is
   closed by then (a write to a closed connection fails at once, its workers exit, its subscriptions are shut down). *)
Record tsrv := TS { ts_srv : srv; ts_stalled : list N; ts_closed : list N }.

Definition writes_response (o : outcome) : bool := match o with OPublishQueued | OInternal => false | _ => true end.

(* channels of the subscriptions that monitor node k *)
Definition item_chans (s : srv) (k : key) : list N :=
  flat_map (fun e : N * item => if snd (it_node (snd e)) =? k
                                then match alist_get (it_sub (snd e)) (sv_subs s) with Some sb => [sub_chan sb] | None => [] end
                                else []) (sv_items s).

(* channels the dispatcher writes to or waits for while it handles e *)
Definition touched (s : srv) (e : event) (o : outcome) : list N :=
  match e, o with
  | EReq chan _ (RWrite l), OWrite sts =>
      chan :: flat_map (fun ws : (nid * N * dval) * N => if snd ws =? StOK then item_chans s (snd (fst (fst (fst ws)))) else []) (combine l sts)
  | EReq chan _ _, _ => if writes_response o then [chan] else []
  | _, _ => []
  end.

Definition mem (c : N) (l : list N) : bool := existsb (N.eqb c) l.

(* one dispatcher iteration with its duration; htime = the handler's own computation time *)
Definition serve_t (fuel : nat) (D : N) (htime : event -> N) (t : tsrv) (e : event) : tsrv * outcome * N :=
  let '(s', o) := handle fuel (ts_srv t) e in
  let tch := touched (ts_srv t) e o in
  let hit := filter (fun c => mem c tch) (ts_stalled t) in
  let stalled' := filter (fun c => negb (mem c tch)) (ts_stalled t) in
  let own_dead := match e with EReq chan _ _ => mem chan hit || mem chan (ts_closed t) | _ => false end in
  (TS s' stalled' (hit ++ ts_closed t),
   if own_dead && writes_response o then OWriteTimeout else o,
   htime e + D * N.of_nat (length hit)).

(* outcomes and the time at which each event has been dealt with, from time 0 *)
Fixpoint run_t (fuel : nat) (D : N) (htime : event -> N) (t : tsrv) (now : N) (h : list event) : list (outcome * N) :=
  match h with
  | [] => []
  | e :: r => let '(t', o, dt) := serve_t fuel D htime t e in (o, now + dt) :: run_t fuel D htime t' (now + dt) r
  end.

Definition step (fuel : nat) (s : srv) (e : event) : srv := fst (handle fuel s e).
Definition run (fuel : nat) (s : srv) (h : list event) : srv := fold_left (step fuel) h s.

(* outcomes along a history *)
Fixpoint outcomes (fuel : nat) (s : srv) (h : list event) : list outcome :=
  match h with
  | [] => []
  | e :: t => let '(s', o) := handle fuel s e in o :: outcomes fuel s' t
  end.

Definition init (sp : space) (endpoints : N) : srv := Srv sp [] [] 0 [] 0 endpoints.
