(* Lin.v — linearizability of read/write registers (one per node), a checker, and a model of the server as a
   single dispatcher with atomic handlers (C34).

   An operation is a completed request: Write [(node, value); ...] or Read [(node, value returned); ...] with the
   client-side invocation and response instants.  A history is linearizable iff some permutation of it
     (rt)    keeps every pair that is ordered in real time (a's response before b's invocation) in that order, and
     (legal) is a legal sequential execution of the registers (every read returns the latest value written).

   check_lin_keys h keys : sort the operations by the given keys (any keys: they are only a hint), then CHECK (rt) and
                           (legal) on the sorted list.  Sound for every hint (Proofs/LinProofs.v).
   auto_keys h           : a hint computed from the history itself for single-node operations with unique written
                           values (cluster = a write and the reads that returned its value; Gibbons-Korach zones).
   check_lin h           = check_lin_keys h (auto_keys h). *)
From Coq Require Import ZArith Bool List Sorting.Mergesort Orders Permutation.
Import ListNotations.
Open Scope Z_scope.

Inductive kind := KRead | KWrite.
Record op := { o_kind : kind; o_args : list (N * Z); o_inv : Z; o_res : Z }.
Definition history := list op.

(* ---- register file ---- *)
Definition store := list (N * Z).
Fixpoint get (st : store) (n : N) : Z :=
  match st with [] => 0 | (m, v) :: r => if N.eqb m n then v else get r n end.
Fixpoint set (st : store) (n : N) (v : Z) : store :=
  match st with [] => [(n, v)] | (m, w) :: r => if N.eqb m n then (m, v) :: r else (m, w) :: set r n v end.
Definition init_store : store := [].   (* every register starts at 0 *)

Definition apply_op (st : store) (o : op) : option store :=
  match o_kind o with
  | KWrite => Some (fold_left (fun s nv => set s (fst nv) (snd nv)) (o_args o) st)
  | KRead => if forallb (fun nv => get st (fst nv) =? snd nv) (o_args o) then Some st else None
  end.

Fixpoint legal_from (st : store) (l : list op) : bool :=
  match l with
  | [] => true
  | o :: r => match apply_op st o with Some st' => legal_from st' r | None => false end
  end.
Definition legal (l : list op) : bool := legal_from init_store l.

(* ---- real-time order ---- *)
(* a stands before b in the list  ==>  b did not respond before a was invoked *)
Definition rt_ok (l : list op) : Prop := ForallOrdPairs (fun a b => ~ (o_res b < o_inv a)) l.

(* linear-time check: every operation responds no earlier than the latest invocation before it *)
Fixpoint rt_okb_from (mx : option Z) (l : list op) : bool :=
  match l with
  | [] => true
  | b :: r =>
      (match mx with None => true | Some m => m <=? o_res b end) &&
      rt_okb_from (Some (match mx with None => o_inv b | Some m => Z.max m (o_inv b) end)) r
  end.
Definition rt_okb (l : list op) : bool := rt_okb_from None l.

Definition linearizable (h : history) : Prop :=
  exists l, Permutation l h /\ rt_ok l /\ legal l = true.

(* ---- sorting by keys (lexicographic lists of integers) ---- *)
Fixpoint lex_leb (a b : list Z) : bool :=
  match a, b with
  | [], _ => true
  | _ :: _, [] => false
  | x :: a', y :: b' => if x <? y then true else if y <? x then false else lex_leb a' b'
  end.

Module KeyOrder <: TotalLeBool.
  Definition t := (list Z * op)%type.
  Definition leb (x y : t) : bool := lex_leb (fst x) (fst y).
  Theorem leb_total : forall x y, leb x y = true \/ leb y x = true.
  Proof.
    intros [a oa] [b ob]. unfold leb. cbn [fst]. revert b.
    induction a as [|x a IH]; intro b; [left; reflexivity|].
    destruct b as [|y b]; [right; reflexivity|]. cbn [lex_leb].
    destruct (x <? y) eqn:E1; [left; reflexivity|].
    destruct (y <? x) eqn:E2; [right; reflexivity|]. apply IH.
  Qed.
End KeyOrder.
Module KeySort := Sort KeyOrder.

Definition order_by (h : history) (keys : list (list Z)) : list op := map snd (KeySort.sort (combine keys h)).

Definition check_lin_keys (h : history) (keys : list (list Z)) : bool :=
  Nat.eqb (length keys) (length h) &&
  (let l := order_by h keys in rt_okb l && legal l).

(* ---- the hint: clusters and zones (single-node operations, unique written values) ---- *)
Record cluster := { cl_node : N; cl_val : Z; cl_f : Z (* min response *); cl_s : Z (* max invocation *);
                    cl_winv : option Z (* invocation of the write, if the cluster has one *) }.

Definition op_nv (o : op) : option (N * Z) := match o_args o with [nv] => Some nv | _ => None end.

Fixpoint cl_add (cs : list cluster) (n : N) (v : Z) (o : op) : list cluster :=
  match cs with
  | [] => [{| cl_node := n; cl_val := v; cl_f := o_res o; cl_s := o_inv o;
              cl_winv := match o_kind o with KWrite => Some (o_inv o) | KRead => None end |}]
  | c :: r =>
      if N.eqb (cl_node c) n && (cl_val c =? v) then
        {| cl_node := n; cl_val := v; cl_f := Z.min (cl_f c) (o_res o); cl_s := Z.max (cl_s c) (o_inv o);
           cl_winv := match o_kind o with KWrite => Some (o_inv o) | KRead => cl_winv c end |} :: r
      else c :: cl_add r n v o
  end.

Definition clusters_of (h : history) : list cluster :=
  fold_left (fun cs o => match op_nv o with Some (n, v) => cl_add cs n v o | None => cs end) h [].

Fixpoint cl_find (cs : list cluster) (n : N) (v : Z) : option cluster :=
  match cs with
  | [] => None
  | c :: r => if N.eqb (cl_node c) n && (cl_val c =? v) then Some c else cl_find r n v
  end.

Definition forward (c : cluster) : bool := cl_f c <? cl_s c.

(* earliest instant >= t0 that is not strictly inside a forward zone of the same node *)
Definition skip_zone (cs : list cluster) (n : N) (t0 : Z) : Z :=
  match find (fun u => N.eqb (cl_node u) n && forward u && (cl_f u <? t0) && (t0 <? cl_s u)) cs with
  | Some u => cl_s u
  | None => t0
  end.

(* the cluster of reads that returned the initial value (it has no write) must come first on its node: its block ends
   at its latest invocation *)
Definition init_end (cs : list cluster) (n : N) : option Z :=
  match find (fun u => N.eqb (cl_node u) n && match cl_winv u with None => true | Some _ => false end) cs with
  | Some u => Some (cl_s u)
  | None => None
  end.

Definition key_of (cs : list cluster) (o : op) : list Z :=
  match op_nv o with
  | None => [o_inv o]
  | Some (n, v) =>
      match cl_find cs n v with
      | None => [o_inv o]
      | Some c =>
          let k := match o_kind o with KWrite => 0 | KRead => 1 end in
          let hasw := match cl_winv c with Some _ => 1 | None => 0 end in
          if forward c then
            let tw := match cl_winv c with Some wi => Z.max wi (cl_f c) | None => cl_f c end in
            let t := match o_kind o with KWrite => tw | KRead => Z.max (o_inv o) tw end in
            [t; cl_f c; cl_s c; hasw; v; k]
          else
            let t0 := match cl_winv c, init_end cs n with
                      | Some _, Some e => Z.max (cl_s c) e
                      | _, _ => cl_s c
                      end in
            let t := match cl_winv c with Some _ => skip_zone cs n t0 | None => t0 end in
            [t; t; t; hasw; v; k]
      end
  end.

Definition auto_keys (h : history) : list (list Z) := let cs := clusters_of h in map (key_of cs) h.

Definition check_lin (h : history) : bool := check_lin_keys h (auto_keys h).

(* ---- a necessary condition used for whole-request atomicity: if every write sets all of `ns` to one common value,
        every read of several of them must return equal values ---- *)
Definition uniform_args (ns : list N) (o : op) : bool :=
  match o_args o with
  | [] => true
  | (_, v) :: _ => forallb (fun nv => existsb (N.eqb (fst nv)) ns && (snd nv =? v)) (o_args o)
  end.
Definition group_write (ns : list N) (o : op) : bool :=
  match o_kind o with
  | KWrite => uniform_args ns o && forallb (fun n => existsb (fun nv => N.eqb (fst nv) n) (o_args o)) ns
  | KRead => forallb (fun nv => existsb (N.eqb (fst nv)) ns) (o_args o)
  end.
Definition group_history (ns : list N) (h : history) : bool := forallb (group_write ns) h.
Definition untorn (ns : list N) (h : history) : bool :=
  forallb (fun o => match o_kind o with KRead => uniform_args ns o | KWrite => true end) h.

(* ---- the server as a single dispatcher with atomic handlers ----
   Any number of clients; the environment chooses the interleaving (the list of events IS the schedule):
     EInv id k args : a client sends request id (for writes args = values to write; for reads the values are ignored,
                      only the nodes matter)
     EApply id      : the dispatcher takes request id off the wire and runs its handler to completion (atomic)
     ERes id        : the client receives the response
   Time = position in the schedule. *)
Inductive event := EInv (id : nat) (k : kind) (args : list (N * Z)) | EApply (id : nat) | ERes (id : nat).

Record preq := { p_id : nat; p_kind : kind; p_args : list (N * Z); p_inv : Z }.
Record aop := { a_id : nat; a_kind : kind; a_args : list (N * Z); a_inv : Z; a_apply : Z; a_res : option Z }.
Record sstate := { now : Z; st : store; pending : list preq; applied : list aop (* in dispatch order *) }.

Definition sinit : sstate := {| now := 0; st := init_store; pending := []; applied := [] |}.

Fixpoint take_pending (id : nat) (l : list preq) : option (preq * list preq) :=
  match l with
  | [] => None
  | p :: r => if Nat.eqb (p_id p) id then Some (p, r)
              else match take_pending id r with Some (q, r') => Some (q, p :: r') | None => None end
  end.

Definition handler (s : store) (k : kind) (args : list (N * Z)) : store * list (N * Z) :=
  match k with
  | KWrite => (fold_left (fun s nv => set s (fst nv) (snd nv)) args s, args)
  | KRead => (s, map (fun nv => (fst nv, get s (fst nv))) args)
  end.

Definition set_res (id : nat) (t : Z) (l : list aop) : list aop :=
  map (fun a => if Nat.eqb (a_id a) id then
                  match a_res a with None => {| a_id := a_id a; a_kind := a_kind a; a_args := a_args a; a_inv := a_inv a;
                                                a_apply := a_apply a; a_res := Some t |}
                                   | Some _ => a end
                else a) l.

Definition sstep (s : sstate) (e : event) : sstate :=
  let t := now s + 1 in
  match e with
  | EInv id k args =>
      {| now := t; st := st s; pending := pending s ++ [{| p_id := id; p_kind := k; p_args := args; p_inv := t |}];
         applied := applied s |}
  | EApply id =>
      match take_pending id (pending s) with
      | Some (p, rest) =>
          let '(s', out) := handler (st s) (p_kind p) (p_args p) in
          {| now := t; st := s'; pending := rest;
             applied := applied s ++ [{| a_id := id; a_kind := p_kind p; a_args := out; a_inv := p_inv p;
                                         a_apply := t; a_res := None |}] |}
      | None => {| now := t; st := st s; pending := pending s; applied := applied s |}
      end
  | ERes id => {| now := t; st := st s; pending := pending s; applied := set_res id t (applied s) |}
  end.

Definition srun (evs : list event) : sstate := fold_left sstep evs sinit.

(* the history a run produces: every request that was dispatched, with its response instant (requests whose response
   has not arrived yet are completed at the end of time, as the definition of linearizability allows) *)
Definition op_of (endt : Z) (a : aop) : op :=
  {| o_kind := a_kind a; o_args := a_args a; o_inv := a_inv a;
     o_res := match a_res a with Some r => r | None => endt end |}.
Definition history_of (s : sstate) : history := map (op_of (now s + 1)) (applied s).
