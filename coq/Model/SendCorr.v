(* SendCorr.v — request/response correlation of the client secure channel (C18, C19).

   Hand-written transcription of uasc/secure_channel.go:
     SendRequestWithTimeout / open          -> EAlloc      (nextRequestID under requestIDMu)
     sendAsyncWithTimeout                   -> ERegister   (duplicate check + s.handlers[reqID] = resp under handlersMu)
                                               EWrite ok   (encode, number, write all chunks; ok=false: any error return
                                                            after the registration: EncodeChunks, ctx.Done, signAndEncrypt, Write)
     sendRequestWithTimeout, the select     -> ETake | ETimer | ECtx | EDisc
     dispatcher                             -> ENet m (Receive returned m) | EEOF | EPop | ELock | EDeliver | EResume
   Threads: any number of callers (tid : nat), one dispatcher.  The peer is adversarial: ENet m for ANY m at ANY
   time (reordered, dropped, duplicated, unsolicited responses, faults, aborts, wrong types).
   Every atomic step is one critical section of the Go code (handlersMu, requestIDMu, conditionLocker.lockMu) or a
   channel operation.  Ghost fields (prefix g_) never influence a step; they only name things for the theorems.

   The request id counter is Gen.ArithFromGo.go_nextRequestID (translated from the Go AST on every run); the type id
   that makes the dispatcher lock the receive gate is Gen.SendSide.opn_response_type_id.

   Versions (parameter `leaky : ver` of step, name kept from the first fix):
     VLeaky    the code before fix 584974e "release the response handler when sending the request fails"
     VGateOld  after that fix, before the fix of the dispatcher/open() hand-off: the dispatcher locks rcvLocker for
               ANY OpenSecureChannelResponse it has a handler for
     VNow      the code as it is: open() publishes the request id it waits for (openingReqID, guarded by rcvLocker's
               mutex, cleared before its deferred unlock) and the dispatcher locks only for that id (lockIf).
   The correspondence checks VNow; the older versions are kept to state what was wrong. *)
From Coq Require Import ZArith List Bool Lia.
From Opcua Require Import Gen.ArithFromGo Gen.SendSide.
Import ListNotations.
Open Scope Z_scope.

Definition tid := nat.

Inductive ver := VLeaky | VGateOld | VNow.
Definition is_leaky (v : ver) : bool := match v with VLeaky => true | _ => false end.
Definition gate_fixed (v : ver) : bool := match v with VNow => true | _ => false end.

Definition updN {A} (f : nat -> A) (k : nat) (v : A) : nat -> A := fun x => if Nat.eqb x k then v else f x.
Definition updZ {A} (f : Z -> A) (k : Z) (v : A) : Z -> A := fun x => if Z.eqb x k then v else f x.

(* a MessageBody as the dispatcher sees it: request id of the chunk, type id of the decoded body (None: no body, e.g.
   an abort chunk or a decode error), Err <> nil, and (ghost) which caller's request the peer claims to answer *)
Record msg := Msg { m_id : Z; m_ty : option Z; m_err : bool; m_for : option tid }.

Definition is_opn (m : msg) : bool :=
  match m_ty m with Some t => t =? opn_response_type_id | None => false end.

Inductive kind := KReq | KOpen.     (* ordinary request | OpenSecureChannel request issued by open() *)

Inductive result :=
| ROk (u : nat) (m : msg)           (* h(msg.Response()) returned nil *)
| RErrStatus (u : nat) (m : msg)    (* msg.Err returned *)
| RErrHandler (u : nat) (m : msg)   (* the handler rejected the response (safeAssign: wrong or missing type) *)
| RTimeout | RCtx | REOF | RDup | RSendErr.

Inductive cpc :=
| CNew
| CHasId (k : kind) (w : Z) (id : Z)      (* w = type id the caller's handler accepts *)
| CRegd (k : kind) (w : Z) (id : Z)       (* handler registered, chunks not written yet *)
| CWait (k : kind) (w : Z) (id : Z)       (* in the select *)
| CDone (k : kind) (w : Z) (id : Z) (r : result).

Inductive dpc :=
| DIdle
| DGot (u : nat) (m : msg)                (* Receive returned *)
| DHave (u : nat) (m : msg) (ch : tid)    (* popHandler succeeded; ch = the caller whose channel it is *)
| DLocked (u : nat) (m : msg) (ch : tid)  (* after the (conditional) rcvLocker.lock() *)
| DWaitRcv                                (* at rcvLocker.waitIfLock() *)
| DExited.

Inductive loc := LNet | LDisp | LSlot (t : tid) | LTaken (t : tid) | LGone.

Record st := St {
  next_req : Z   (* s.requestID *);
  handlers : Z -> option tid   (* s.handlers: request id -> channel (one channel per caller) *);
  slot : tid -> option (nat * msg)   (* content of caller's buffered channel (capacity 1) *);
  cs : tid -> cpc;
  d : dpc;
  net_n : nat   (* messages received so far = unique index of the next one *);
  rcv_locked : bool   (* s.rcvLocker.bLock *);
  disconnected : bool   (* s.disconnected closed *);
  overflow : bool   (* the dispatcher's `default:` branch ("should never happen") was taken *);
  opening : option Z   (* s.openingReqID: the request id open() is waiting for (None = 0) *);
  open_by : option tid   (* which call holds s.openingMu (open() is serialised) *);
  g_nalloc : nat;
  g_serial : tid -> nat;
  g_loc : nat -> loc }.

Definition set_next_req s v := St v (handlers s) (slot s) (cs s) (d s) (net_n s) (rcv_locked s) (disconnected s) (overflow s) (opening s) (open_by s) (g_nalloc s) (g_serial s) (g_loc s).
Definition set_handlers s v := St (next_req s) v (slot s) (cs s) (d s) (net_n s) (rcv_locked s) (disconnected s) (overflow s) (opening s) (open_by s) (g_nalloc s) (g_serial s) (g_loc s).
Definition set_slot s v := St (next_req s) (handlers s) v (cs s) (d s) (net_n s) (rcv_locked s) (disconnected s) (overflow s) (opening s) (open_by s) (g_nalloc s) (g_serial s) (g_loc s).
Definition set_cs s v := St (next_req s) (handlers s) (slot s) v (d s) (net_n s) (rcv_locked s) (disconnected s) (overflow s) (opening s) (open_by s) (g_nalloc s) (g_serial s) (g_loc s).
Definition set_d s v := St (next_req s) (handlers s) (slot s) (cs s) v (net_n s) (rcv_locked s) (disconnected s) (overflow s) (opening s) (open_by s) (g_nalloc s) (g_serial s) (g_loc s).
Definition set_net_n s v := St (next_req s) (handlers s) (slot s) (cs s) (d s) v (rcv_locked s) (disconnected s) (overflow s) (opening s) (open_by s) (g_nalloc s) (g_serial s) (g_loc s).
Definition set_rcv_locked s v := St (next_req s) (handlers s) (slot s) (cs s) (d s) (net_n s) v (disconnected s) (overflow s) (opening s) (open_by s) (g_nalloc s) (g_serial s) (g_loc s).
Definition set_disconnected s v := St (next_req s) (handlers s) (slot s) (cs s) (d s) (net_n s) (rcv_locked s) v (overflow s) (opening s) (open_by s) (g_nalloc s) (g_serial s) (g_loc s).
Definition set_overflow s v := St (next_req s) (handlers s) (slot s) (cs s) (d s) (net_n s) (rcv_locked s) (disconnected s) v (opening s) (open_by s) (g_nalloc s) (g_serial s) (g_loc s).
Definition set_opening s v := St (next_req s) (handlers s) (slot s) (cs s) (d s) (net_n s) (rcv_locked s) (disconnected s) (overflow s) v (open_by s) (g_nalloc s) (g_serial s) (g_loc s).
Definition set_open_by s v := St (next_req s) (handlers s) (slot s) (cs s) (d s) (net_n s) (rcv_locked s) (disconnected s) (overflow s) (opening s) v (g_nalloc s) (g_serial s) (g_loc s).
Definition set_alloc s n f := St (next_req s) (handlers s) (slot s) (cs s) (d s) (net_n s) (rcv_locked s) (disconnected s) (overflow s) (opening s) (open_by s) n f (g_loc s).
Definition set_loc s v := St (next_req s) (handlers s) (slot s) (cs s) (d s) (net_n s) (rcv_locked s) (disconnected s) (overflow s) (opening s) (open_by s) (g_nalloc s) (g_serial s) v.

Definition init (seed : Z) : st :=
  St seed (fun _ => None) (fun _ => None) (fun _ => CNew) DIdle 0 false false false None None 0 (fun _ => 0%nat) (fun _ => LNet).

Inductive ev :=
| EAlloc (t : tid) (k : kind) (w : Z)
| ERegister (t : tid)
| EWrite (t : tid) (ok : bool)
| ETake (t : tid)
| ETimer (t : tid) | ECtx (t : tid) | EDisc (t : tid)
| ENet (m : msg) | EEOF | EPop | ELock | EDeliver | EResume
| EChunkC (id : Z).      (* Receive read an intermediate ('C') chunk of the message with this request id and loops *)

(* the caller's handler: safeAssign accepts exactly the expected type; a missing body (msg.Response() == nil) is rejected *)
Definition handler_ok (w : Z) (m : msg) : bool :=
  match m_ty m with Some ty => ty =? w | None => false end.

(* the call returns.  open() clears openingReqID, runs `defer s.rcvLocker.unlock()` and releases openingMu
   (one step here; in the code openingMu is released between the two, which matters only for overlapping open() calls
   and not for the statements made about this model). *)
Definition finish (s : st) (t : tid) (k : kind) (w id : Z) (r : result) : st :=
  let s := set_cs s (updN (cs s) t (CDone k w id r)) in
  match k with KOpen => set_open_by (set_opening (set_rcv_locked s false) None) None | KReq => s end.

(* open() holds openingMu for its whole duration: a second open() waits *)
Definition open_blocked (s : st) (k : kind) : bool :=
  match k, open_by s with KOpen, Some _ => true | _, _ => false end.

(* select branches other than `msg := <-ch`: popHandler(reqID), return the error *)
Definition give_up (s : st) (t : tid) (r : result) : option st :=
  match cs s t with
  | CWait k w id => Some (finish (set_handlers s (updZ (handlers s) id None)) t k w id r)
  | _ => None
  end.

Definition step (leaky : ver) (s : st) (e : ev) : option st :=
  match e with
  | EAlloc t k w =>
      match cs s t with
      | CNew =>
          if open_blocked s k then None else
          let id := go_nextRequestID (next_req s) in
          let s := set_next_req s id in
          let s := set_cs s (updN (cs s) t (CHasId k w id)) in
          let s := match k with KOpen => set_open_by (set_opening s (Some id)) (Some t) | KReq => s end in
          Some (set_alloc s (S (g_nalloc s)) (updN (g_serial s) t (S (g_nalloc s))))
      | _ => None
      end
  | ERegister t =>
      match cs s t with
      | CHasId k w id =>
          match handlers s id with
          | Some _ => Some (finish s t k w id RDup)
          | None => Some (set_cs (set_handlers s (updZ (handlers s) id (Some t))) (updN (cs s) t (CRegd k w id)))
          end
      | _ => None
      end
  | EWrite t ok =>
      match cs s t with
      | CRegd k w id =>
          if ok then Some (set_cs s (updN (cs s) t (CWait k w id)))
          else if is_leaky leaky then Some (finish s t k w id RSendErr)
          else Some (finish (set_handlers s (updZ (handlers s) id None)) t k w id RSendErr)
      | _ => None
      end
  | ETake t =>
      match cs s t, slot s t with
      | CWait k w id, Some (u, m) =>
          let r := if m_err m then RErrStatus u m else if handler_ok w m then ROk u m else RErrHandler u m in
          let s := set_slot s (updN (slot s) t None) in
          let s := set_loc s (updN (g_loc s) u (LTaken t)) in
          Some (finish s t k w id r)
      | _, _ => None
      end
  | ETimer t => give_up s t RTimeout
  | ECtx t => give_up s t RCtx
  | EDisc t => if disconnected s then give_up s t REOF else None
  | ENet m =>
      match d s with
      | DIdle => Some (set_net_n (set_loc (set_d s (DGot (net_n s) m)) (updN (g_loc s) (net_n s) LDisp)) (S (net_n s)))
      | _ => None
      end
  | EEOF =>
      match d s with
      | DIdle => Some (set_disconnected (set_d s DExited) true)
      | _ => None
      end
  | EPop =>
      match d s with
      | DGot u m =>
          match handlers s (m_id m) with
          | Some ch => Some (set_d (set_handlers s (updZ (handlers s) (m_id m) None)) (DHave u m ch))
          | None => Some (set_loc (set_d s DIdle) (updN (g_loc s) u LGone))
          end
      | _ => None
      end
  | ELock =>
      match d s with
      | DHave u m ch =>
          (* before the fix: rcvLocker.lock() for every OpenSecureChannelResponse;
             now: rcvLocker.lockIf(openingReqID == msg.RequestID), evaluated under the locker's mutex *)
          let mine := match opening s with Some i => i =? m_id m | None => false end in
          let lk := is_opn m && (negb (gate_fixed leaky) || mine) in
          Some (set_d (set_rcv_locked s (rcv_locked s || lk)) (DLocked u m ch))
      | _ => None
      end
  | EDeliver =>
      match d s with
      | DLocked u m ch =>
          match slot s ch with
          | None => Some (set_d (set_loc (set_slot s (updN (slot s) ch (Some (u, m)))) (updN (g_loc s) u (LSlot ch))) DWaitRcv)
          | Some _ => Some (set_d (set_loc (set_overflow s true) (updN (g_loc s) u LGone)) DWaitRcv)
          end
      | _ => None
      end
  | EResume =>
      match d s with
      | DWaitRcv => if rcv_locked s then None else Some (set_d s DIdle)
      | _ => None
      end
  | EChunkC _ =>
      (* the chunk is appended to s.chunks[id] under chunksMu, which is released again, and Receive reads the next
         chunk: nothing the callers can see changes and the dispatcher is not held up, whether or not anybody still
         waits for that id (the buffering itself is the subject of the receive-side model) *)
      match d s with
      | DIdle => Some s
      | _ => None
      end
  end.

(* runs restricted by a predicate on (state, event); P = fun _ _ => true gives all runs *)
Fixpoint runP (P : st -> ev -> bool) (leaky : ver) (evs : list ev) (s : st) : option st :=
  match evs with
  | [] => Some s
  | e :: r => if P s e then match step leaky s e with Some s' => runP P leaky r s' | None => None end else None
  end.

Definition anyev (_ : st) (_ : ev) : bool := true.
Definition run := runP anyev.

Definition reachableP (P : st -> ev -> bool) (leaky : ver) (seed : Z) (s : st) : Prop :=
  exists evs, runP P leaky evs (init seed) = Some s.
Definition reachable := reachableP anyev.

(* ---- observables used by the correspondence and by the statements ---- *)

Definition active_opener (c : cpc) : bool :=
  match c with CHasId KOpen _ _ | CRegd KOpen _ _ | CWait KOpen _ _ => true | _ => false end.

Definition id_of (c : cpc) : option Z :=
  match c with CNew => None | CHasId _ _ i | CRegd _ _ i | CWait _ _ i | CDone _ _ i _ => Some i end.

Definition res_msg (r : result) : option (nat * msg) :=
  match r with ROk u m | RErrStatus u m | RErrHandler u m => Some (u, m) | _ => None end.

(* small integer code of a result, for the comparison with the harness *)
Definition res_code (r : result) : Z :=
  match r with ROk _ _ => 0 | RErrStatus _ _ => 1 | RErrHandler _ _ => 2 | RTimeout => 3 | RCtx => 4 | REOF => 5 | RDup => 6 | RSendErr => 7 end.

(* (result code, request id, uid of the consumed response or -1) ; (-1,_,_) = not returned *)
Definition outcome (s : st) (t : tid) : Z * Z * Z :=
  match cs s t with
  | CDone _ _ id r => (res_code r, id, match res_msg r with Some (u, _) => Z.of_nat u | None => -1 end)
  | CHasId _ _ id | CRegd _ _ id | CWait _ _ id => (-1, id, -1)
  | CNew => (-1, 0, -1)
  end.

Definition registered (s : st) (ids : list Z) : list Z :=
  filter (fun i => match handlers s i with Some _ => true | None => false end) ids.

Definition disp_code (s : st) : Z :=
  match d s with DIdle => 0 | DGot _ _ => 1 | DHave _ _ _ => 2 | DLocked _ _ _ => 3 | DWaitRcv => 4 | DExited => 5 end.

(* ---- vocabulary of the harness (go/cmd/schedharness): observed histories are replayed through the model ---- *)

Inductive hev :=
| HE (e : ev)
| HCall (t : tid) (k : kind) (w : Z)     (* the whole send phase of one call: EAlloc; ERegister; EWrite true *)
| HFrame (m : msg).                      (* one frame through the dispatcher: ENet; EPop; and if a handler was found ELock; EDeliver; EResume *)

Definition frame_cycle (leaky : ver) (s : st) (m : msg) : option st :=
  match run leaky [ENet m; EPop] s with
  | Some s1 =>
      match d s1 with
      | DHave _ _ _ =>
          match run leaky [ELock; EDeliver] s1 with
          | Some s2 => match step leaky s2 EResume with Some s3 => Some s3 | None => Some s2 end
          | None => None
          end
      | _ => Some s1
      end
  | None => None
  end.

Fixpoint hrun (leaky : ver) (l : list hev) (s : st) : option st :=
  match l with
  | [] => Some s
  | HE e :: r => match step leaky s e with Some s' => hrun leaky r s' | None => None end
  | HCall t k w :: r => match run leaky [EAlloc t k w; ERegister t; EWrite t true] s with Some s' => hrun leaky r s' | None => None end
  | HFrame m :: r => match frame_cycle leaky s m with Some s' => hrun leaky r s' | None => None end
  end.

Fixpoint zlist_eqb (a b : list Z) : bool :=
  match a, b with
  | [], [] => true
  | x :: a', y :: b' => (x =? y) && zlist_eqb a' b'
  | _, _ => false
  end.

(* observed: (tid, (result code, request id, uid)); uid = -2: not observable on the implementation *)
Definition outcome_agrees (s : st) (o : nat * (Z * Z * Z)) : bool :=
  let '(t, (c, i, u)) := o in
  let '(c', i', u') := outcome s t in
  (c =? c') && (i =? i') && ((u =? -2) || (u =? u')).

Definition history_agrees (leaky : ver) (start : Z) (l : list hev) (outs : list (nat * (Z * Z * Z)))
           (probe hs : list Z) (rl : bool) (dcode : Z) : bool :=
  match hrun leaky l (init start) with
  | Some s => forallb (outcome_agrees s) outs && zlist_eqb (registered s probe) hs && Bool.eqb (rcv_locked s) rl
              && ((dcode =? -1) || (dcode =? disp_code s)) && negb (overflow s)
  | None => false
  end.
