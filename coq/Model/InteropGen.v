(* InteropGen.v — the tables of Model/Interop.v instantiated at what the translator regenerated from /repo. *)
From Coq Require Import ZArith Bool List String.
From Opcua Require Import Model.Interop Gen.PolicyParams Gen.InteropTables.
Import ListNotations.
Open Scope Z_scope.

Definition gen_tables : tables := {|
  t_levels := security_levels;
  t_rows := map (fun r => match r with (p, l, rk, (ok, pl, n)) => (p, l, rk, {| ai_ok := ok; ai_plain := pl; ai_nonce := n |}) end) asym_mixed;
  t_chunk_rt := opn_chunk_rt;
  t_sym_nonce := map (fun p => (sp_name p, sp_nonce p)) sym_policies;
  t_sym_dir := sym_dir;
  t_asym_rt := asym_rt;
  t_supported := supported_policies;
  t_sess_cert := create_session_sends_certificate;
  t_sess_nonce_server := session_nonce_server;
  t_sess_nonce_client := session_nonce_client |}.
