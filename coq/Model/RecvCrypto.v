(* RecvCrypto.v -- byte-level model of MessageChunk.Decode (uasc/message.go) and of
   channelInstance.verifyAndDecrypt (uasc/secure_channel_instance.go) over abstract cryptography.
   Every Go slicing / indexing operation is a [slice] / [index] that yields Panic when Go would panic.
   [guards = false] is the code before the length guards were added (kept to state the repaired defect).
   Tied to the code by the C09 correspondence (recvharness c09: toy algorithm plugged into a real
   channelInstance, outcome and plaintext compared byte for byte). *)
From Coq Require Import NArith ZArith List Bool.
From Opcua Require Import Model.RecvBase.
Import ListNotations.
Open Scope Z_scope.

Inductive smode := SNone | SSign | SSignEnc.

Definition E_SEC : N := 1.        (* ua.StatusBadSecurityChecksFailed *)
Definition E_DECODE : N := 2.     (* header does not decode (io.ErrUnexpectedEOF / invalid message type) *)

Definition zlen (b : bytes) : Z := Z.of_nat (length b).

(* ---- MessageChunk.Decode: 12-byte header, then the security header selected by the message type ---- *)

(* ua.Buffer.ReadBytes: length prefix, 0 and 0xffffffff give nil; returns the number of content bytes *)
Definition read_bytes (b : bytes) : option (Z * bytes) :=
  match read_u32 b with
  | None => None
  | Some (n, r) =>
      if (n =? 0)%N || (n =? 4294967295)%N then Some (0, r)
      else if (Z.of_N n <=? zlen r) then Some (Z.of_N n, skipn (N.to_nat n) r) else None
  end.

Definition MT_MSG : bytes := [77; 83; 71]%N.
Definition MT_OPN : bytes := [79; 80; 78]%N.
Definition MT_CLO : bytes := [67; 76; 79]%N.

Definition bytes_eqb (a b : bytes) : bool := if list_eq_dec N.eq_dec a b then true else false.

Record chunk_hdr := { h_type : bytes; h_ctype : N; h_size : N; h_chan : N;
                      h_asym : bool;       (* AsymmetricSecurityHeader != nil *)
                      h_token : N;         (* symmetric header only *)
                      h_len : Z;           (* 12 + security header length = number of bytes consumed *)
                      h_data : bytes }.    (* m.Data = b[n:] *)

Definition chunk_decode (b : bytes) : option chunk_hdr :=
  match b with
  | t0 :: t1 :: t2 :: ct :: r0 =>
      match read_u32 r0 with
      | None => None
      | Some (size, r1) =>
          match read_u32 r1 with
          | None => None
          | Some (chan, r2) =>
              let mt := [t0; t1; t2] in
              if bytes_eqb mt MT_OPN then
                match read_bytes r2 with
                | None => None
                | Some (n1, r3) =>
                    match read_bytes r3 with
                    | None => None
                    | Some (n2, r4) =>
                        match read_bytes r4 with
                        | None => None
                        | Some (n3, r5) => Some (Build_chunk_hdr mt ct size chan true 0 (12 + 12 + n1 + n2 + n3) r5)
                        end
                    end
                end
              else if bytes_eqb mt MT_MSG || bytes_eqb mt MT_CLO then
                match read_u32 r2 with
                | None => None
                | Some (tok, r3) => Some (Build_chunk_hdr mt ct size chan false tok 16 r3)
                end
              else None
          end
      end
  | _ => None
  end.

Section VD.
  (* the channel's algorithm *)
  Variable dec : bytes -> option bytes.          (* Decrypt; None = error *)
  Variable verify : bytes -> bytes -> bool.      (* VerifySignature msg sig *)
  Variable rsl : Z.                              (* RemoteSignatureLength *)
  Variable lsl : Z.                              (* SignatureLength (own key: selects the two-byte padding size) *)
  Variable mode : smode.
  Variable policy_none : bool.                   (* cfg.SecurityPolicyURI == #None *)
  Variable guards : bool.                        (* length guards present (the code after the fix) *)

  Definition encrypted (asym : bool) : bool := match mode with SSignEnc => true | _ => asym end.

  (* everything after the optional decryption: b is the chunk with its encrypted part replaced by the plaintext *)
  Definition vd_tail (enc : bool) (hl : Z) (b : bytes) : res bytes :=
      if guards && (zlen b <? hl + rsl) then Err E_SEC else
      bind (slice b (zlen b - rsl) (zlen b)) (fun sig =>
      bind (slice b 0 (zlen b - rsl)) (fun mtv =>
      if negb (verify mtv sig) then Err E_SEC else
      bind (if enc then
              if guards && (zlen mtv <? hl + (if 256 <? lsl then 2 else 1)) then Err E_SEC else
              bind (index mtv (zlen mtv - 1)) (fun x =>
              if 256 <? lsl then
                bind (index mtv (zlen mtv - 2)) (fun y => Ok (Z.of_N x * 256 + Z.of_N y + 1 + 1))
              else Ok (Z.of_N x + 1))
            else Ok 0) (fun pad =>
      if guards && (zlen mtv - pad <? hl) then Err E_SEC else
      slice mtv hl (zlen mtv - pad)))).

  Definition vd_front (enc : bool) (hl : Z) (r : bytes) : res bytes :=
    if enc then
      bind (slice r hl (zlen r)) (fun ct =>
      match dec ct with
      | None => Err E_SEC
      | Some p => bind (slice r 0 hl) (fun hd => Ok (hd ++ p))
      end)
    else Ok r.

  Definition verify_decrypt (asym : bool) (hl : Z) (data r : bytes) : res bytes :=
    if (match mode with SNone => true | _ => false end) && (policy_none || negb asym) then Ok data
    else bind (vd_front (encrypted asym) hl r) (vd_tail (encrypted asym) hl).

  (* VerifInstance.VerifyAndDecrypt / the per-instance part of readChunk: decode the headers, then verify *)
  Definition verify_chunk (r : bytes) : res bytes :=
    match chunk_decode r with
    | None => Err E_DECODE
    | Some h => verify_decrypt (h_asym h) (h_len h) (h_data h) r
    end.
End VD.

(* ---- toy algorithm used by the Examples and by the correspondence run (same functions on the Go side) ---- *)
Definition toy_xor (k : N) (p : bytes) : bytes := map (fun x => N.lxor x k) p.
Definition toy_dec (block : Z) (k : N) (c : bytes) : option bytes :=
  if (zlen c mod block =? 0) then Some (toy_xor k c) else None.
Definition toy_hash (k : N) (m : bytes) : N := fold_left (fun h x => ((h * 31 + x + 7) mod 4294967296)%N) m k.
Definition toy_mac (k : N) (n : nat) (m : bytes) : bytes :=
  let h := toy_hash k m in
  map (fun i => ((N.shiftr h (8 * (N.of_nat i mod 4)) + N.of_nat i) mod 256)%N) (seq 0 n).
Definition toy_verify (k : N) (m s : bytes) : bool := bytes_eqb s (toy_mac k (length s) m).
