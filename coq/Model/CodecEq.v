(* E1 codec: boolean equality on value trees and outcome classes (used by the correspondence evaluation). *)
From Coq Require Import NArith ZArith List Bool.
From Coq.Strings Require Import Byte.
From Opcua Require Import Model.CodecTypes Model.Codec.
Import ListNotations.
Open Scope Z_scope.

Definition bytes_eqb (a b : bytes) : bool :=
  (fix go (a b : bytes) : bool :=
     match a, b with
     | [], [] => true
     | x :: a', y :: b' => Byte.eqb x y && go a' b'
     | _, _ => false
     end) a b.

Definition opt_eqb {A} (f : A -> A -> bool) (a b : option A) : bool :=
  match a, b with None, None => true | Some x, Some y => f x y | _, _ => false end.

Definition zlist_eqb (a b : list Z) : bool :=
  (fix go (a b : list Z) : bool :=
     match a, b with [], [] => true | x :: a', y :: b' => (x =? y) && go a' b' | _, _ => false end) a b.

Fixpoint val_eqb (a b : val) {struct a} : bool :=
  let list_eqb := fix go (l m : list val) {struct l} : bool :=
                    match l, m with
                    | [], [] => true
                    | x :: l', y :: m' => val_eqb x y && go l' m'
                    | _, _ => false
                    end in
  let oval_eqb := fun (o p : option val) =>
                    match o, p with None, None => true | Some x, Some y => val_eqb x y | _, _ => false end in
  match a, b with
  | VBool x, VBool y => Bool.eqb x y
  | VInt x, VInt y => x =? y
  | VStr x, VStr y => bytes_eqb x y
  | VTime x, VTime y => opt_eqb Z.eqb x y
  | VBytes x, VBytes y => opt_eqb bytes_eqb x y
  | VSlice None, VSlice None => true
  | VSlice (Some l), VSlice (Some m) => list_eqb l m
  | VPtr o, VPtr p => oval_eqb o p
  | VStruct l, VStruct m => list_eqb l m
  | VGuid a1 a2 a3 a4, VGuid b1 b2 b3 b4 => (a1 =? b1) && (a2 =? b2) && (a3 =? b3) && bytes_eqb a4 b4
  | VNodeID m1 n1 i1 b1 g1, VNodeID m2 n2 i2 b2 g2 =>
    (m1 =? m2) && (n1 =? n2) && (i1 =? i2) && opt_eqb bytes_eqb b1 b2 && oval_eqb g1 g2
  | VExpNodeID n1 u1 s1, VExpNodeID n2 u2 s2 => oval_eqb n1 n2 && bytes_eqb u1 u2 && (s1 =? s2)
  | VLocText m1 l1 t1, VLocText m2 l2 t2 => (m1 =? m2) && bytes_eqb l1 l2 && bytes_eqb t1 t2
  | VDiag m1 a1 b1 c1 d1 i1 s1 n1, VDiag m2 a2 b2 c2 d2 i2 s2 n2 =>
    (m1 =? m2) && (a1 =? a2) && (b1 =? b2) && (c1 =? c2) && (d1 =? d2) && bytes_eqb i1 i2 && (s1 =? s2) && oval_eqb n1 n2
  | VDataValue m1 v1 s1 a1 b1 c1 d1, VDataValue m2 v2 s2 a2 b2 c2 d2 =>
    (m1 =? m2) && oval_eqb v1 v2 && (s1 =? s2) && opt_eqb Z.eqb a1 a2 && (b1 =? b2) && opt_eqb Z.eqb c1 c2 && (d1 =? d2)
  | VVariant m1 a1 l1 d1 v1, VVariant m2 a2 l2 d2 v2 =>
    (m1 =? m2) && (a1 =? a2) && (l1 =? l2) && zlist_eqb d1 d2 && oval_eqb v1 v2
  | VExtObj m1 t1 b1, VExtObj m2 t2 b2 => (m1 =? m2) && oval_eqb t1 t2 && oval_eqb b1 b2
  | _, _ => false
  end.

(* outcome classes as the harness reports them: 0 ok, 1 error (EOF), 2 error (other), 3 panic, 4 out of fuel *)
Definition res_class {A} (r : res A) : Z :=
  match r with Ok _ _ _ => 0 | Err EEOF _ => 1 | Err EOther _ => 2 | Panic _ => 3 | OutOfFuel => 4 end.
Definition eres_class (r : eres) : Z :=
  match r with EOk _ => 0 | EErr => 2 | EPanic => 3 | EIllTyped => 5 end.
Definition res_alloc {A} (r : res A) : N :=
  match r with Ok _ _ al => al | Err _ al => al | Panic al => al | OutOfFuel => 0%N end.

Definition mk_reg (tbl : list (Z * Z * String.string * ty)) : list (Z * Z * ty) :=
  map (fun r => (fst (fst (fst r)), snd (fst (fst r)), snd r)) tbl.
