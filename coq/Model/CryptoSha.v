(* CryptoSha.v — SHA-1, SHA-256 (FIPS 180-4) and HMAC (RFC 2104) in Gallina, over Z words, so that the
   symmetric key derivation of uapolicy can be compared byte for byte with the implementation (C14).
   Checked against the standard test vectors below (vm_compute). *)
From Coq Require Import ZArith Bool String.
From Coq Require Import List.
From Coq.Strings Require Import Byte.
From Opcua Require Import Model.ChunkBytes.
Import ListNotations.
Open Scope Z_scope.

Definition m32 (x : Z) : Z := Z.land x 4294967295.
Definition rotr (x n : Z) : Z := m32 (Z.lor (Z.shiftr x n) (Z.shiftl x (32 - n))).
Definition rotl (x n : Z) : Z := rotr x (32 - n).
Definition add32 (x y : Z) : Z := m32 (x + y).
Definition not32 (x : Z) : Z := Z.lxor x 4294967295.

(* big-endian words *)
Fixpoint be_words (l : bytes) : list Z :=
  match l with
  | a :: b :: c :: d :: r => (16777216 * zb a + 65536 * zb b + 256 * zb c + zb d) :: be_words r
  | _ => []
  end.
Definition be32 (w : Z) : bytes := [b8 (Z.shiftr w 24); b8 (Z.shiftr w 16); b8 (Z.shiftr w 8); b8 w].
Definition be64 (w : Z) : bytes := be32 (Z.shiftr w 32) ++ be32 (m32 w).

(* message padding: 0x80, zeros up to 56 mod 64, 64-bit big-endian bit length *)
Definition sha_pad (msg : bytes) : bytes :=
  let n := zlen msg in
  let k := (55 - n) mod 64 in
  msg ++ [b8 128] ++ repeat (b8 0) (Z.to_nat k) ++ be64 (8 * n).

Fixpoint blocks16 (fuel : nat) (ws : list Z) : list (list Z) :=
  match fuel with
  | O => []
  | S f => match ws with [] => [] | _ => firstn 16 ws :: blocks16 f (skipn 16 ws) end
  end.

(* ---- SHA-256 ---- *)
Definition K256 : list Z := [
 1116352408; 1899447441; 3049323471; 3921009573; 961987163; 1508970993; 2453635748; 2870763221;
 3624381080; 310598401; 607225278; 1426881987; 1925078388; 2162078206; 2614888103; 3248222580;
 3835390401; 4022224774; 264347078; 604807628; 770255983; 1249150122; 1555081692; 1996064986;
 2554220882; 2821834349; 2952996808; 3210313671; 3336571891; 3584528711; 113926993; 338241895;
 666307205; 773529912; 1294757372; 1396182291; 1695183700; 1986661051; 2177026350; 2456956037;
 2730485921; 2820302411; 3259730800; 3345764771; 3516065817; 3600352804; 4094571909; 275423344;
 430227734; 506948616; 659060556; 883997877; 958139571; 1322822218; 1537002063; 1747873779;
 1955562222; 2024104815; 2227730452; 2361852424; 2428436474; 2756734187; 3204031479; 3329325298].
Definition H256 : list Z := [1779033703; 3144134277; 1013904242; 2773480762; 1359893119; 2600822924; 528734635; 1541459225].

(* rev = schedule so far, most recent word first *)
Fixpoint sched256 (n : nat) (rev : list Z) : list Z :=
  match n with
  | O => rev
  | S n' =>
    let w2 := nth 1 rev 0 in let w7 := nth 6 rev 0 in let w15 := nth 14 rev 0 in let w16 := nth 15 rev 0 in
    let s0 := Z.lxor (Z.lxor (rotr w15 7) (rotr w15 18)) (Z.shiftr w15 3) in
    let s1 := Z.lxor (Z.lxor (rotr w2 17) (rotr w2 19)) (Z.shiftr w2 10) in
    sched256 n' (add32 (add32 (add32 s1 w7) s0) w16 :: rev)
  end.

Definition st8 := (Z * Z * Z * Z * Z * Z * Z * Z)%type.
Definition round256 (s : st8) (kw : Z * Z) : st8 :=
  let '(a, b, c, d, e, f, g, h) := s in
  let S1 := Z.lxor (Z.lxor (rotr e 6) (rotr e 11)) (rotr e 25) in
  let ch := Z.lxor (Z.land e f) (Z.land (not32 e) g) in
  let t1 := add32 (add32 (add32 (add32 h S1) ch) (fst kw)) (snd kw) in
  let S0 := Z.lxor (Z.lxor (rotr a 2) (rotr a 13)) (rotr a 22) in
  let maj := Z.lxor (Z.lxor (Z.land a b) (Z.land a c)) (Z.land b c) in
  let t2 := add32 S0 maj in
  (add32 t1 t2, a, b, c, add32 d t1, e, f, g).

Definition compress256 (hs : list Z) (blk : list Z) : list Z :=
  let w := rev (sched256 48 (rev blk)) in
  match hs with
  | [a; b; c; d; e; f; g; h] =>
    let '(a', b', c', d', e', f', g', h') := fold_left round256 (combine K256 w) (a, b, c, d, e, f, g, h) in
    [add32 a a'; add32 b b'; add32 c c'; add32 d d'; add32 e e'; add32 f f'; add32 g g'; add32 h h']
  | _ => hs
  end.

Definition sha256 (msg : bytes) : bytes :=
  let ws := be_words (sha_pad msg) in
  flat_map be32 (fold_left compress256 (blocks16 (length ws) ws) H256).

(* ---- SHA-1 ---- *)
Definition H1 : list Z := [1732584193; 4023233417; 2562383102; 271733878; 3285377520].

Fixpoint sched1 (n : nat) (rev : list Z) : list Z :=
  match n with
  | O => rev
  | S n' =>
    let x := Z.lxor (Z.lxor (Z.lxor (nth 2 rev 0) (nth 7 rev 0)) (nth 13 rev 0)) (nth 15 rev 0) in
    sched1 n' (rotl x 1 :: rev)
  end.

Definition st5 := (Z * Z * Z * Z * Z)%type.
Definition round1 (s : st5) (tw : Z * Z) : st5 :=
  let '(a, b, c, d, e) := s in
  let t := fst tw in
  let '(f, k) :=
    if t <? 20 then (Z.lor (Z.land b c) (Z.land (not32 b) d), 1518500249)
    else if t <? 40 then (Z.lxor (Z.lxor b c) d, 1859775393)
    else if t <? 60 then (Z.lor (Z.lor (Z.land b c) (Z.land b d)) (Z.land c d), 2400959708)
    else (Z.lxor (Z.lxor b c) d, 3395469782) in
  let tmp := add32 (add32 (add32 (add32 (rotl a 5) f) e) k) (snd tw) in
  (tmp, a, rotl b 30, c, d).

Definition compress1 (hs : list Z) (blk : list Z) : list Z :=
  let w := rev (sched1 64 (rev blk)) in
  match hs with
  | [a; b; c; d; e] =>
    let '(a', b', c', d', e') := fold_left round1 (combine (map Z.of_nat (seq 0 80)) w) (a, b, c, d, e) in
    [add32 a a'; add32 b b'; add32 c c'; add32 d d'; add32 e e']
  | _ => hs
  end.

Definition sha1 (msg : bytes) : bytes :=
  let ws := be_words (sha_pad msg) in
  flat_map be32 (fold_left compress1 (blocks16 (length ws) ws) H1).

(* ---- HMAC (block size 64 for both hashes) ---- *)
Definition hmac (hash : bytes -> bytes) (key msg : bytes) : bytes :=
  let k0 := if zlen key >? 64 then hash key else key in
  let k := k0 ++ repeat (b8 0) (Z.to_nat (64 - zlen k0)) in
  let ipad := map (fun b => b8 (Z.lxor (zb b) 54)) k in
  let opad := map (fun b => b8 (Z.lxor (zb b) 92)) k in
  hash (opad ++ hash (ipad ++ msg)).

Definition hmac_sha1 := hmac sha1.
Definition hmac_sha256 := hmac sha256.

(* test vectors: FIPS 180 "abc"; RFC 2202 / RFC 4231 test case 2 *)
Definition abc : bytes := ["a"; "b"; "c"]%byte.
Example sha256_abc : sha256 abc = unhex "ba7816bf8f01cfea414140de5dae2223b00361a396177a9cb410ff61f20015ad"%string.
Proof. vm_compute. reflexivity. Qed.
Example sha1_abc : sha1 abc = unhex "a9993e364706816aba3e25717850c26c9cd0d89d"%string.
Proof. vm_compute. reflexivity. Qed.
Example sha256_two_blocks :
  sha256 (unhex "6162636462636465636465666465666765666768666768696768696a68696a6b696a6b6c6a6b6c6d6b6c6d6e6c6d6e6f6d6e6f706e6f7071"%string)
  = unhex "248d6a61d20638b8e5c026930c3e6039a33ce45964ff2167f6ecedd419db06c1"%string.
Proof. vm_compute. reflexivity. Qed.
Example hmac_sha256_rfc4231_2 :
  hmac_sha256 (unhex "4a656665"%string) (unhex "7768617420646f2079612077616e7420666f72206e6f7468696e673f"%string)
  = unhex "5bdcc146bf60754e6a042426089575c75a003f089d2739839dec58b964ec3843"%string.
Proof. vm_compute. reflexivity. Qed.
Example hmac_sha1_rfc2202_2 :
  hmac_sha1 (unhex "4a656665"%string) (unhex "7768617420646f2079612077616e7420666f72206e6f7468696e673f"%string)
  = unhex "effcdf6ae5eb2fa2d27416d5f184df9c259a7c79"%string.
Proof. vm_compute. reflexivity. Qed.
