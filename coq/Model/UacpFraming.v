(* UacpFraming.v — executable model of UACP framing: Conn.Receive over a byte stream that arrives in
   arbitrary segments (uacp/conn.go Receive, uacp/uacp.go Header.Decode / Error.Decode, ua/buffer.go ReadN /
   ReadUint32 / ReadBytes, io.ReadFull / io.ReadAtLeast).

   Hand-written; tied to the code by the C05 correspondence run (go/cmd/uacpharness c05): the real Receive is
   driven over a loopback TCP connection by a writer that emits the stream in a chosen segmentation, and the
   sequence of Receive results is compared with `receive_all` evaluated inside Coq on the same stream.

   Definitions only (proofs are in Proofs/UacpFramingProofs.v). *)
From Coq Require Import NArith List Bool.
From Coq.Strings Require Import Byte.
Import ListNotations.
Open Scope N_scope.

Notation byte := Byte.byte.
Definition bytes := list byte.

(* ------------------------------------------------------------------------------------------------ *)
(* outcomes                                                                                          *)

(* the errors Receive can return, projected to what a caller can distinguish *)
Inductive uerr :=
| EEOF                      (* io.EOF: the peer closed and the ReadFull call had read nothing *)
| EUnexpectedEOF            (* io.ErrUnexpectedEOF: the peer closed in the middle of a ReadFull *)
| EHeaderDecode             (* "uacp: header decode failed" (unreachable, see header_decode_total) *)
| ETooLarge                 (* "uacp: message too large" *)
| ETooSmall                 (* "uacp: message too small" *)
| EErrDecode                (* "uacp: failed to decode ERRF message" *)
| EStatus (code : N) (reason : bytes).   (* uacp.Error decoded from an ERR frame *)

Inductive panic :=
| PSliceBounds.             (* b[:hdrlen] with cap(b) < 8, b[hdrlen:size] out of range *)

Inductive res (A : Type) :=
| Ok (a : A)
| Err (e : uerr)
| Panic (p : panic).
Arguments Ok {A} a.
Arguments Err {A} e.
Arguments Panic {A} p.

(* ------------------------------------------------------------------------------------------------ *)
(* little-endian integers (encoding/binary.LittleEndian.Uint32)                                       *)

Definition b2n (b : byte) : N := Byte.to_N b.

Definition le32 (bs : bytes) : N :=
  match bs with
  | b0 :: b1 :: b2 :: b3 :: _ => b2n b0 + 256 * b2n b1 + 65536 * b2n b2 + 16777216 * b2n b3
  | _ => 0
  end.

Definition n2b (n : N) : byte :=
  match Byte.of_N (n mod 256) with Some b => b | None => x00 end.

Definition enc32 (n : N) : bytes :=
  [n2b n; n2b (n / 256); n2b (n / 65536); n2b (n / 16777216)].

(* ------------------------------------------------------------------------------------------------ *)
(* the byte stream as the receiver sees it                                                           *)

(* A stream is the list of segments in which the bytes become available to successive Read calls; after the
   last segment the peer has closed its side (Read returns 0, io.EOF).  Well-formed segments are non-empty
   (a TCP Read with a non-empty buffer never returns 0, nil); the model tolerates empty ones. *)
Definition stream := list bytes.

(* one TCPConn.Read(p) with len(p) = n > 0: a non-empty prefix of the first segment, at most n bytes.
   None = io.EOF. *)
Definition read (n : nat) (s : stream) : option (bytes * stream) :=
  match s with
  | [] => None
  | seg :: rest =>
      if Nat.leb (length seg) n then Some (seg, rest)
      else Some (firstn n seg, skipn n seg :: rest)
  end.

(* io.ReadFull(c, buf) with len(buf) = n, written as the loop of io.ReadAtLeast:
     for n < min && err == nil { nn, err = r.Read(buf[n:]); n += nn }
     if n >= min { err = nil } else if n > 0 && err == EOF { err = ErrUnexpectedEOF }
   `got` = bytes already read by this call.  Structural in the stream (each iteration either finishes or
   consumes a whole segment); read_full_step in the proofs shows it is exactly the loop over `read`. *)
Fixpoint read_full (s : stream) (n : nat) (got : bytes) : res bytes * stream :=
  match n with
  | O => (Ok got, s)
  | S _ =>
      match s with
      | [] => (Err (match got with [] => EEOF | _ => EUnexpectedEOF end), [])
      | seg :: rest =>
          if Nat.leb (length seg) n then read_full rest (n - length seg) (got ++ seg)
          else (Ok (got ++ firstn n seg), skipn n seg :: rest)
      end
  end.

(* ------------------------------------------------------------------------------------------------ *)
(* ua.Buffer decoding used by Receive                                                                 *)

(* Header.Decode: ReadN(3), ReadByte, ReadUint32; the error is buf.Error() (first short read). *)
Record header := { h_type : bytes; h_chunk : byte; h_size : N }.

Definition decode_header (b : bytes) : option header :=
  match b with
  | t0 :: t1 :: t2 :: c :: rest =>
      match rest with
      | _ :: _ :: _ :: _ :: _ => Some {| h_type := [t0; t1; t2]; h_chunk := c; h_size := le32 rest |}
      | _ => None
      end
  | _ => None
  end.

(* "ERR" *)
Definition is_err_type (t : bytes) : bool :=
  match t with
  | [a; b; c] => Byte.eqb a x45 && Byte.eqb b x52 && Byte.eqb c x52
  | _ => false
  end.

(* Error.Decode: ErrorCode = ReadUint32; Reason = ReadString = ReadBytes:
     n := ReadUint32; n == 0 || n == 0xffffffff -> nil; ReadN(int(n)) (io.ErrUnexpectedEOF if n > remaining).
   Trailing bytes are ignored.  None = decode error. *)
Definition decode_error (body : bytes) : option (N * bytes) :=
  match body with
  | _ :: _ :: _ :: _ :: r1 =>
      let code := le32 body in
      match r1 with
      | _ :: _ :: _ :: _ :: r2 =>
          let n := le32 r1 in
          if (n =? 0) || (n =? 4294967295) then Some (code, [])
          else if N.of_nat (length r2) <? n then None
          else Some (code, firstn (N.to_nat n) r2)
      | _ => None
      end
  | _ => None
  end.

(* ------------------------------------------------------------------------------------------------ *)
(* Conn.Receive                                                                                   *)

Definition hdrlen : N := 8.

(* rbuf = c.ack.ReceiveBufSize (uint32).
     b := make([]byte, rbuf)
     io.ReadFull(c, b[:hdrlen])              -- b[:8] panics when rbuf < 8 (evaluated before anything is read)
     h.Decode(b[:hdrlen])
     if h.MessageSize > rbuf  -> too large   -- in this order
     if h.MessageSize < hdrlen -> too small
     io.ReadFull(c, b[hdrlen:h.MessageSize])  -- panics unless 8 <= size <= len(b) = rbuf (modelled explicitly:
                                                 it is the two checks above that exclude it)
     if h.MessageType == "ERR" -> decode, return it as the error
     return b[:h.MessageSize]                                                                          *)
Definition receive (rbuf : N) (s : stream) : res bytes * stream :=
  if rbuf <? hdrlen then (Panic PSliceBounds, s) else
  match read_full s (N.to_nat hdrlen) [] with
  | (Ok hdr, s1) =>
      match decode_header hdr with
      | None => (Err EHeaderDecode, s1)
      | Some h =>
          if rbuf <? h_size h then (Err ETooLarge, s1)
          else if h_size h <? hdrlen then (Err ETooSmall, s1)
          else if (h_size h <? hdrlen) || (rbuf <? h_size h) then (Panic PSliceBounds, s1)  (* b[hdrlen:size], len(b) = rbuf *)
          else
            match read_full s1 (N.to_nat (h_size h - hdrlen)) [] with
            | (Ok body, s2) =>
                if is_err_type (h_type h) then
                  match decode_error body with
                  | None => (Err EErrDecode, s2)
                  | Some (code, reason) => (Err (EStatus code reason), s2)
                  end
                else (Ok (hdr ++ body), s2)
            | (Err e, s2) => (Err e, s2)
            | (Panic p, s2) => (Panic p, s2)
            end
      end
  | (Err e, s1) => (Err e, s1)
  | (Panic p, s1) => (Panic p, s1)
  end.

(* After these outcomes the byte stream is still in frame sync, so a caller may go on receiving
   (an ERR frame has been consumed completely).  Every other outcome ends the conversation. *)
Definition continues (r : res bytes) : bool :=
  match r with
  | Ok _ => true
  | Err (EStatus _ _) => true
  | Err EErrDecode => true
  | _ => false
  end.

(* the caller invokes Receive up to k times, stopping after the first outcome that ends the conversation *)
Fixpoint receive_all (k : nat) (rbuf : N) (s : stream) : list (res bytes) * stream :=
  match k with
  | O => ([], s)
  | S k' =>
      let '(r, s1) := receive rbuf s in
      if continues r then
        let '(rs, s2) := receive_all k' rbuf s1 in (r :: rs, s2)
      else ([r], s1)
  end.

(* ------------------------------------------------------------------------------------------------ *)
(* the sender's side of the statement: frames                                                        *)

(* a frame as the peer sends it: 3 type bytes, chunk byte, LE size, body *)
Definition frame_size_field (f : bytes) : N := le32 (skipn 4 f).

(* well-sized frame for a receiver with buffer rbuf *)
Definition wf_frame (rbuf : N) (f : bytes) : Prop :=
  (8 <= length f)%nat /\ N.of_nat (length f) <= rbuf /\ frame_size_field f = N.of_nat (length f).

Definition wf_frameb (rbuf : N) (f : bytes) : bool :=
  Nat.leb 8 (length f) && (N.of_nat (length f) <=? rbuf) && (frame_size_field f =? N.of_nat (length f)).

(* what Receive must answer for a well-sized frame: the frame itself, or for an ERR frame its content as error *)
Definition deliver (f : bytes) : res bytes :=
  if is_err_type (firstn 3 f) then
    match decode_error (skipn 8 f) with
    | None => Err EErrDecode
    | Some (code, reason) => Err (EStatus code reason)
    end
  else Ok f.

Definition mk_frame (typ : bytes) (chunk : byte) (body : bytes) : bytes :=
  firstn 3 (typ ++ [x00; x00; x00]) ++ [chunk] ++ enc32 (8 + N.of_nat (length body)) ++ body.

(* ------------------------------------------------------------------------------------------------ *)
(* helpers for the correspondence run (decidable equality on outcomes, run-length coded byte strings)  *)

Fixpoint bytes_eqb (a b : bytes) : bool :=
  match a, b with
  | [], [] => true
  | x :: a', y :: b' => Byte.eqb x y && bytes_eqb a' b'
  | _, _ => false
  end.

Definition uerr_eqb (a b : uerr) : bool :=
  match a, b with
  | EEOF, EEOF | EUnexpectedEOF, EUnexpectedEOF | EHeaderDecode, EHeaderDecode
  | ETooLarge, ETooLarge | ETooSmall, ETooSmall | EErrDecode, EErrDecode => true
  | EStatus c r, EStatus c' r' => (c =? c') && bytes_eqb r r'
  | _, _ => false
  end.

Definition res_eqb (a b : res bytes) : bool :=
  match a, b with
  | Ok x, Ok y => bytes_eqb x y
  | Err x, Err y => uerr_eqb x y
  | Panic _, Panic _ => true
  | _, _ => false
  end.

Fixpoint results_eqb (a b : list (res bytes)) : bool :=
  match a, b with
  | [], [] => true
  | x :: a', y :: b' => res_eqb x y && results_eqb a' b'
  | _, _ => false
  end.

(* run-length coded bytes: [(value, count); ...] *)
Definition unrle (l : list (N * N)) : bytes :=
  flat_map (fun '(v, c) => repeat (n2b v) (N.to_nat c)) l.

(* cut a byte string into segments of the given lengths (the rest, if any, is a last segment) *)
Fixpoint segment (lens : list N) (bs : bytes) : stream :=
  match lens with
  | [] => match bs with [] => [] | _ => [bs] end
  | l :: lens' =>
      match bs with
      | [] => []
      | _ => firstn (N.to_nat l) bs :: segment lens' (skipn (N.to_nat l) bs)
      end
  end.
