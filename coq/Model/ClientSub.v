(* Engine E7 (client), C27 (and the signalling part of C26): the publish loop (client_sub.go monitorSubscriptions /
   publish), the API callers (Subscribe, ForgetSubscription / Cancel), the reconnect monitor's use of the same
   signals (pauseSubscriptions, resumeSubscriptions, recreateSubscription), the two signal channels pausech/resumech
   and the lock subMux, as a small-step interleaving semantics.  One [step] = one atomic action of one thread;
   atomic blocks are exactly the critical sections that contain no blocking operation.

   Parameters read off the source by the translator (Gen/ClientSubParams.v): channel capacities and, per signalling
   site, whether the send can block (a `select` without `default`, or a bare send) or not. *)
From Coq Require Import List Bool Arith Lia.
Import ListNotations.

Record params := {
  cap_pause : nat;            (* cap(c.pausech)  *)
  cap_resume : nat;           (* cap(c.resumech) *)
  pause_blocks : bool;        (* pauseSubscriptions: can the send block? *)
  resume_blocks : bool;       (* resumeSubscriptions *)
  subscribe_blocks : bool;    (* the resume signal in Subscribe *)
  subscribe_signals_after : bool;  (* Subscribe signals resume after registering the subscription (under subMux), not before *)
  resume_wins : bool          (* the loop remembers a consumed resume signal and ignores pause signals until it has published *)
}.

(* operations of application / monitor goroutines *)
Inductive op :=
| OpSubscribe (id : nat)      (* Client.Subscribe after a successful CreateSubscription answer with this id *)
| OpForget (id : nat)         (* Client.ForgetSubscription = first half of Subscription.Cancel *)
| OpRecreate (id : nat)       (* Client.recreateSubscription (monitor goroutine): Lock; forget; create; register; Unlock *)
| OpConsume                   (* the application goroutine that reads Subscription.Notifs: it calls an API that takes subMux
                                 (SubscriptionIDs, Subscribe, Cancel, ...) and then receives one notification *)
| OpPause                     (* monitor: c.pauseSubscriptions(ctx) on disconnect *)
| OpResume.                   (* monitor: c.resumeSubscriptions(ctx) after the reconnect *)

Inductive pc :=
| SubSignal (id : nat)        (* before the resume signal in Subscribe *)
| SubLock (id : nat)          (* before c.subMux.Lock() in Subscribe *)
| SubSignalHeld               (* Subscribe, registered, holds subMux: the resume signal (when it comes after registering) *)
| ForgetLock (id : nat)       (* before c.subMux.Lock() in ForgetSubscription *)
| ForgetPause                 (* holds subMux; len(c.subs) == 0: in c.pauseSubscriptions *)
| ForgetUnlock                (* holds subMux; before Unlock *)
| RecreateLock (id : nat)
| RecreatePause (id : nat)    (* holds subMux; forgetSubscription_NeedsSubMuxLock pausing *)
| RecreateRegister (id : nat) (* holds subMux; register again, Unlock *)
| MonPause | MonResume
| ConsumeLock                 (* consumer: before the subMux acquisition of its API call *)
| ConsumeRecv                 (* consumer: API call returned; receiving from Notifs *)
| Done.

Definition start (P : params) (o : op) : pc :=
  match o with
  | OpSubscribe id => if subscribe_signals_after P then SubLock id else SubSignal id | OpForget id => ForgetLock id | OpRecreate id => RecreateLock id
  | OpPause => MonPause | OpResume => MonResume | OpConsume => ConsumeLock
  end.

Definition holds_lock (p : pc) : bool :=
  match p with ForgetPause | ForgetUnlock | RecreatePause _ | RecreateRegister _ | SubSignalHeld => true | _ => false end.

Inductive loop_pc :=
| LTop                        (* the outer select *)
| LPaused                     (* the inner select *)
| LInPublish                  (* PublishRequest sent, waiting for the answer *)
| LWantLock                   (* answer received: c.subMux.Lock() *)
| LWantLockData (sub : nat)    (* the same, and the NotificationMessage carries data for this subscription *)
| LNotifying                  (* subMux released; notifySubscription: sending on Subscription.Notifs (blocks until the
                                 application receives) *)
| LWantPause.                 (* publish returned an error: c.pauseSubscriptions(ctx) *)

Inductive pub_outcome := POk | PData (sub : nat) | PErr | PTimeout.   (* keep-alive / data notification / error / timeout *)

Record state := {
  pausech : nat; resumech : nat;
  mux : option nat;                 (* the thread holding subMux for writing *)
  subs : list nat;                  (* ids in c.subs *)
  loop : loop_pc;
  script : list pub_outcome;        (* what the server will do with the next publish requests; [] = withhold *)
  threads : list pc;
  resumed : bool                    (* the loop has consumed a resume signal since its last publish *)
}.

(* NewClient calls pauseSubscriptions once: one token in pausech; Connect starts the loop at the outer select *)
Definition init (P : params) (scr : list pub_outcome) (prog : list op) : state :=
  {| pausech := 1; resumech := 0; mux := None; subs := []; loop := LTop; script := scr; threads := map (start P) prog;
     resumed := false |}.

Fixpoint upd {A} (l : list A) (i : nat) (x : A) : list A :=
  match l, i with
  | [], _ => []
  | _ :: t, 0 => x :: t
  | h :: t, S i' => h :: upd t i' x
  end.

Fixpoint remove_id (id : nat) (l : list nat) : list nat :=
  match l with [] => [] | h :: t => if h =? id then remove_id id t else h :: remove_id id t end.

Definition mem_id (id : nat) (l : list nat) : bool := existsb (Nat.eqb id) l.

(* a signal: Some n' = the sender proceeds with the channel at n'; None = the sender is blocked *)
Definition signal (blocks : bool) (cap n : nat) : option nat :=
  if n <? cap then Some (S n) else if blocks then None else Some n.

Definition set_thread (s : state) (i : nat) (p : pc) : state :=
  {| pausech := pausech s; resumech := resumech s; mux := mux s; subs := subs s; loop := loop s; script := script s;
     threads := upd (threads s) i p; resumed := resumed s |}.

(* one step of API/monitor thread i *)
Definition step_api (P : params) (s : state) (i : nat) : option state :=
  match nth_error (threads s) i with
  | None => None
  | Some p =>
    match p with
    | SubSignal id =>
        match signal (subscribe_blocks P) (cap_resume P) (resumech s) with
        | None => None
        | Some r => Some {| pausech := pausech s; resumech := r; mux := mux s; subs := subs s; loop := loop s;
                            script := script s; threads := upd (threads s) i (SubLock id); resumed := resumed s |}
        end
    | SubLock id =>
        match mux s with
        | Some _ => None
        | None =>
            (* Lock; reject id 0 / duplicate, else register; [resume signal when it comes after registering;] Unlock *)
            let accepted := negb ((id =? 0) || mem_id id (subs s)) in
            let subs' := if accepted then id :: subs s else subs s in
            if accepted && subscribe_signals_after P then
              Some {| pausech := pausech s; resumech := resumech s; mux := Some i; subs := subs'; loop := loop s;
                      script := script s; threads := upd (threads s) i SubSignalHeld; resumed := resumed s |}
            else
              Some {| pausech := pausech s; resumech := resumech s; mux := None; subs := subs'; loop := loop s;
                      script := script s; threads := upd (threads s) i Done; resumed := resumed s |}
        end
    | SubSignalHeld =>
        match signal (subscribe_blocks P) (cap_resume P) (resumech s) with
        | None => None
        | Some r => Some {| pausech := pausech s; resumech := r; mux := None; subs := subs s; loop := loop s;
                            script := script s; threads := upd (threads s) i Done; resumed := resumed s |}
        end
    | ForgetLock id =>
        match mux s with
        | Some _ => None
        | None =>
            let subs' := remove_id id (subs s) in
            Some {| pausech := pausech s; resumech := resumech s; mux := Some i; subs := subs'; loop := loop s;
                    script := script s;
                    threads := upd (threads s) i (match subs' with [] => ForgetPause | _ => ForgetUnlock end); resumed := resumed s |}
        end
    | ForgetPause =>
        match signal (pause_blocks P) (cap_pause P) (pausech s) with
        | None => None
        | Some n => Some {| pausech := n; resumech := resumech s; mux := mux s; subs := subs s; loop := loop s;
                            script := script s; threads := upd (threads s) i ForgetUnlock; resumed := resumed s |}
        end
    | ForgetUnlock =>
        Some {| pausech := pausech s; resumech := resumech s; mux := None; subs := subs s; loop := loop s;
                script := script s; threads := upd (threads s) i Done; resumed := resumed s |}
    | RecreateLock id =>
        match mux s with
        | Some _ => None
        | None =>
            if mem_id id (subs s) then
              let subs' := remove_id id (subs s) in
              Some {| pausech := pausech s; resumech := resumech s; mux := Some i; subs := subs'; loop := loop s;
                      script := script s;
                      threads := upd (threads s) i (match subs' with [] => RecreatePause id | _ => RecreateRegister id end); resumed := resumed s |}
            else (* unknown id: Lock; return BadSubscriptionIDInvalid; Unlock *)
              Some (set_thread s i Done)
        end
    | RecreatePause id =>
        match signal (pause_blocks P) (cap_pause P) (pausech s) with
        | None => None
        | Some n => Some {| pausech := n; resumech := resumech s; mux := mux s; subs := subs s; loop := loop s;
                            script := script s; threads := upd (threads s) i (RecreateRegister id); resumed := resumed s |}
        end
    | RecreateRegister id =>
        Some {| pausech := pausech s; resumech := resumech s; mux := None; subs := id :: subs s; loop := loop s;
                script := script s; threads := upd (threads s) i Done; resumed := resumed s |}
    | MonPause =>
        match signal (pause_blocks P) (cap_pause P) (pausech s) with
        | None => None
        | Some n => Some {| pausech := n; resumech := resumech s; mux := mux s; subs := subs s; loop := loop s;
                            script := script s; threads := upd (threads s) i Done; resumed := resumed s |}
        end
    | MonResume =>
        match signal (resume_blocks P) (cap_resume P) (resumech s) with
        | None => None
        | Some r => Some {| pausech := pausech s; resumech := r; mux := mux s; subs := subs s; loop := loop s;
                            script := script s; threads := upd (threads s) i Done; resumed := resumed s |}
        end
    | ConsumeLock =>
        (* an API call of the consumer: takes subMux (read or write) for a moment *)
        match mux s with Some _ => None | None => Some (set_thread s i ConsumeRecv) end
    | ConsumeRecv =>
        (* <-Notifs: possible when the loop is sending *)
        match loop s with
        | LNotifying => Some {| pausech := pausech s; resumech := resumech s; mux := mux s; subs := subs s; loop := LTop;
                                script := script s; threads := upd (threads s) i Done; resumed := resumed s |}
        | _ => None
        end
    | Done => None
    end
  end.

(* actions of the publish loop; Go's select picks any ready case, `default` only when none is ready *)
Inductive loop_act := TakeResume | TakePause | Default | Answer | Handle | SelfPause.

Definition set_loop (s : state) (l : loop_pc) (pa re : nat) (scr : list pub_outcome) : state :=
  {| pausech := pa; resumech := re; mux := mux s; subs := subs s; loop := l; script := scr; threads := threads s;
     resumed := resumed s |}.
Definition set_resumed (s : state) (b : bool) : state :=
  {| pausech := pausech s; resumech := resumech s; mux := mux s; subs := subs s; loop := loop s; script := script s;
     threads := threads s; resumed := b |}.

Definition step_loop (P : params) (s : state) (a : loop_act) : option state :=
  match loop s, a with
  | LTop, TakeResume =>
      match resumech s with S r => Some (set_resumed (set_loop s LTop (pausech s) r (script s)) (resume_wins P)) | 0 => None end
  | LTop, TakePause =>
      (* a resume signal consumed since the last publish wins over this (older or redundant) pause signal *)
      match pausech s with
      | S p => Some (set_loop s (if resumed s then LTop else LPaused) p (resumech s) (script s))
      | 0 => None
      end
  | LTop, Default =>
      (* publish(): RLock/RUnlock twice, then the request goes out *)
      match pausech s, resumech s, mux s with
      | 0, 0, None => Some (set_resumed (set_loop s LInPublish 0 0 (script s)) false)
      | _, _, _ => None
      end
  | LPaused, TakeResume =>
      match resumech s with S r => Some (set_resumed (set_loop s LTop (pausech s) r (script s)) (resume_wins P)) | 0 => None end
  | LPaused, TakePause => match pausech s with S p => Some (set_loop s LPaused p (resumech s) (script s)) | 0 => None end
  | LInPublish, Answer =>
      match script s with
      | [] => None                                    (* withheld *)
      | POk :: rest => Some (set_loop s LWantLock (pausech s) (resumech s) rest)
      | PData id :: rest => Some (set_loop s (LWantLockData id) (pausech s) (resumech s) rest)
      | PErr :: rest => Some (set_loop s LWantPause (pausech s) (resumech s) rest)
      | PTimeout :: rest => Some (set_loop s LTop (pausech s) (resumech s) rest)
      end
  | LWantLock, Handle =>
      match mux s with
      | None => Some (set_loop s LTop (pausech s) (resumech s) (script s))   (* Lock; handleAcks; handleNotification; Unlock; notify *)
      | Some _ => None
      end
  | LWantLockData id, Handle =>
      match mux s with
      | None =>
          (* Lock; handleAcks; unknown subscription -> Unlock, return; else handleNotification; Unlock; then notify *)
          Some (set_loop s (if mem_id id (subs s) then LNotifying else LTop) (pausech s) (resumech s) (script s))
      | Some _ => None
      end
  | LWantPause, SelfPause =>
      match signal (pause_blocks P) (cap_pause P) (pausech s) with
      | None => None
      | Some n => Some (set_loop s LTop n (resumech s) (script s))
      end
  | _, _ => None
  end.

Inductive action := AApi (i : nat) | ALoop (a : loop_act).

Definition step (P : params) (s : state) (a : action) : option state :=
  match a with AApi i => step_api P s i | ALoop la => step_loop P s la end.

Definition loop_acts : list loop_act := [TakeResume; TakePause; Default; Answer; Handle; SelfPause].

Definition all_actions (s : state) : list action :=
  map AApi (seq 0 (List.length (threads s))) ++ map ALoop loop_acts.

Definition enabled (P : params) (s : state) : list action :=
  filter (fun a => match step P s a with Some _ => true | None => false end) (all_actions s).

Fixpoint run (P : params) (s : state) (sched : list action) : option state :=
  match sched with
  | [] => Some s
  | a :: rest => match step P s a with Some s' => run P s' rest | None => None end
  end.

Inductive reachable (P : params) (s0 : state) : state -> Prop :=
| reach_init : reachable P s0 s0
| reach_step : forall s a s', reachable P s0 s -> step P s a = Some s' -> reachable P s0 s'.

(* receiving from Notifs is not an API call: a consumer that waits for a notification counts as finished *)
Definition api_finished (s : state) : bool :=
  forallb (fun p => match p with Done | ConsumeRecv => true | _ => false end) (threads s).

(* a thread that has not finished and cannot move; the loop counts as stuck when it wants the lock or wants to signal
   and cannot (being paused with empty channels, or waiting for a withheld answer, is not "stuck") *)
Definition can_step_api (P : params) (s : state) (i : nat) : bool :=
  match step_api P s i with Some _ => true | None => false end.

Definition loop_stuck (P : params) (s : state) : bool :=
  match loop s with
  | LWantLock | LWantLockData _ => match step_loop P s Handle with Some _ => false | None => true end
  | LWantPause => match step_loop P s SelfPause with Some _ => false | None => true end
  | LTop => match enabled P s with [] => negb (api_finished s) | _ => false end
  | _ => false
  end.

(* deadlock: some API call has not returned, and nothing at all can move *)
Definition deadlocked (P : params) (s : state) : bool :=
  negb (api_finished s) && match enabled P s with [] => true | _ => false end.

(* lost resume: everything has returned, nothing can move, there are subscriptions, and the loop sits paused *)
Definition loop_starved (P : params) (s : state) : bool :=
  api_finished s && match enabled P s with [] => true | _ => false end &&
  match subs s with [] => false | _ => true end &&
  match loop s with LPaused => true | _ => false end.

(* --- exhaustive exploration of small programs (used by the correspondence run and for witnesses) ------------------ *)

Record terminal := { t_done : list bool; t_loop : loop_pc; t_subs : list nat }.

Definition terminal_of (s : state) : terminal :=
  {| t_done := map (fun p => match p with Done => true | _ => false end) (threads s); t_loop := loop s; t_subs := subs s |}.

(* breadth-first search over STATES (with duplicate elimination): all reachable states of a small program *)
Definition pc_eqb (a b : pc) : bool :=
  match a, b with
  | SubSignal x, SubSignal y | SubLock x, SubLock y | ForgetLock x, ForgetLock y | RecreateLock x, RecreateLock y
  | RecreatePause x, RecreatePause y | RecreateRegister x, RecreateRegister y => x =? y
  | ForgetPause, ForgetPause | ForgetUnlock, ForgetUnlock | SubSignalHeld, SubSignalHeld | MonPause, MonPause
  | ConsumeLock, ConsumeLock | ConsumeRecv, ConsumeRecv | MonResume, MonResume | Done, Done => true
  | _, _ => false
  end.

Definition loop_eqb (a b : loop_pc) : bool :=
  match a, b with
  | LTop, LTop | LPaused, LPaused | LInPublish, LInPublish | LWantLock, LWantLock | LWantPause, LWantPause
  | LNotifying, LNotifying => true
  | LWantLockData x, LWantLockData y => x =? y
  | _, _ => false
  end.

Definition pub_eqb (a b : pub_outcome) : bool :=
  match a, b with POk, POk | PErr, PErr | PTimeout, PTimeout => true | PData x, PData y => x =? y | _, _ => false end.

Fixpoint list_eqb {A} (eq : A -> A -> bool) (a b : list A) : bool :=
  match a, b with
  | [], [] => true
  | x :: a', y :: b' => eq x y && list_eqb eq a' b'
  | _, _ => false
  end.

Definition state_eqb (a b : state) : bool :=
  (pausech a =? pausech b) && (resumech a =? resumech b) &&
  match mux a, mux b with None, None => true | Some x, Some y => x =? y | _, _ => false end &&
  list_eqb Nat.eqb (subs a) (subs b) && loop_eqb (loop a) (loop b) && list_eqb pub_eqb (script a) (script b) &&
  list_eqb pc_eqb (threads a) (threads b) && Bool.eqb (resumed a) (resumed b).

Definition successors (P : params) (s : state) : list state :=
  flat_map (fun a => match step P s a with Some s' => [s'] | None => [] end) (all_actions s).

Fixpoint bfs (P : params) (fuel : nat) (frontier visited : list state) : list state :=
  match fuel with
  | 0 => visited
  | S f =>
      match frontier with
      | [] => visited
      | s :: rest =>
          if existsb (state_eqb s) visited then bfs P f rest visited
          else bfs P f (rest ++ successors P s) (s :: visited)
      end
  end.

Definition terminal_eqb (a b : terminal) : bool :=
  list_eqb Bool.eqb (t_done a) (t_done b) && loop_eqb (t_loop a) (t_loop b) && list_eqb Nat.eqb (t_subs a) (t_subs b).

(* the terminal states (nothing enabled) a program can end in, over all schedules *)
Definition terminals (P : params) (fuel : nat) (s0 : state) : list terminal :=
  map terminal_of (filter (fun s => match enabled P s with [] => true | _ => false end) (bfs P fuel [s0] [])).
