(* Lockset.v — lock discipline and data races in an interleaving semantics (C36).
   Threads are sequences of events: acquire / release of a mutex (exclusive, or shared = RLock) and accesses to
   locations (plain read, plain write, sync/atomic operation).  Any number of threads; the scheduler picks any thread
   whose next event is enabled.  A RACE is a reachable state in which two different threads both have a conflicting
   access to the same location as their next event (nothing orders them).

   Locations and locks are strings so that the table extracted from the Go AST (Gen.LockSites) can be used directly. *)
From Coq Require Import Bool List String.
Import ListNotations.

Inductive akind := ARead | AWrite | AAtomic.
Inductive ev :=
| Acq (l : string) (excl : bool)     (* Lock / RLock *)
| Rel (l : string)                   (* Unlock / RUnlock *)
| Acc (x : string) (k : akind).

Definition conflict (a b : akind) : bool :=
  match a, b with ARead, ARead => false | AAtomic, AAtomic => false | _, _ => true end.

Definition held := list (string * bool).     (* lock, exclusive? *)
Definition holds (h : held) (l : string) : bool := existsb (fun e => String.eqb (fst e) l) h.
Definition holds_excl (h : held) (l : string) : bool := existsb (fun e => String.eqb (fst e) l && snd e) h.
Definition release (h : held) (l : string) : held := filter (fun e => negb (String.eqb (fst e) l)) h.

Record thread := { t_held : held; t_rest : list ev }.
Definition state := list thread.

(* may thread i (holding hi) acquire l in the given mode, given what the others hold? *)
Definition can_acquire (others : list thread) (hi : held) (l : string) (excl : bool) : bool :=
  negb (holds hi l) &&
  forallb (fun t => if excl then negb (holds (t_held t) l) else negb (holds_excl (t_held t) l)) others.

Inductive step : state -> state -> Prop :=
| step_acq : forall pre post h l excl rest,
    can_acquire (pre ++ post) h l excl = true ->
    step (pre ++ {| t_held := h; t_rest := Acq l excl :: rest |} :: post)
         (pre ++ {| t_held := (l, excl) :: h; t_rest := rest |} :: post)
| step_rel : forall pre post h l rest,
    step (pre ++ {| t_held := h; t_rest := Rel l :: rest |} :: post)
         (pre ++ {| t_held := release h l; t_rest := rest |} :: post)
| step_acc : forall pre post h x k rest,
    step (pre ++ {| t_held := h; t_rest := Acc x k :: rest |} :: post)
         (pre ++ {| t_held := h; t_rest := rest |} :: post).

Inductive reachable (s0 : state) : state -> Prop :=
| reach_refl : reachable s0 s0
| reach_step : forall s s', reachable s0 s -> step s s' -> reachable s0 s'.

Definition start (progs : list (list ev)) : state := map (fun p => {| t_held := []; t_rest := p |}) progs.

(* two different threads are both about to perform conflicting accesses to the same location *)
Definition racy (s : state) : Prop :=
  exists pre mid post h1 h2 x k1 k2 r1 r2,
    s = pre ++ {| t_held := h1; t_rest := Acc x k1 :: r1 |} :: mid ++ {| t_held := h2; t_rest := Acc x k2 :: r2 |} :: post
    /\ conflict k1 k2 = true.

(* ---- the static side: access sites with the locks held ---- *)
Record site := { s_loc : string; s_kind : akind; s_locks : held }.

(* sites of a straight-line program, starting with the given locks *)
Fixpoint sites_from (h : held) (p : list ev) : list site :=
  match p with
  | [] => []
  | Acq l excl :: r => sites_from ((l, excl) :: h) r
  | Rel l :: r => sites_from (release h l) r
  | Acc x k :: r => {| s_loc := x; s_kind := k; s_locks := h |} :: sites_from h r
  end.

(* a common lock that at least one side holds exclusively *)
Definition guarded_pair (a b : held) : bool :=
  existsb (fun e => holds b (fst e) && (snd e || holds_excl b (fst e))) a.

Definition sites_ok (a b : site) : bool :=
  negb (String.eqb (s_loc a) (s_loc b) && conflict (s_kind a) (s_kind b)) || guarded_pair (s_locks a) (s_locks b).

(* the side condition decided by computation on an extracted table: every two conflicting sites share a lock *)
Definition table_ok (T : list site) : bool := forallb (fun a => forallb (sites_ok a) T) T.

(* a program follows the table: each of its access sites appears in the table with the same location and kind and holds
   at least the locks the table records *)
Definition sub_held (small big : held) : bool :=
  forallb (fun e => holds big (fst e) && (negb (snd e) || holds_excl big (fst e))) small.
Definition covered (T : list site) (s : site) : bool :=
  existsb (fun t => String.eqb (s_loc t) (s_loc s) &&
                    match s_kind t, s_kind s with ARead, ARead | AWrite, AWrite | AAtomic, AAtomic => true | _, _ => false end &&
                    sub_held (s_locks t) (s_locks s)) T.
Definition follows (T : list site) (p : list ev) : bool := forallb (covered T) (sites_from [] p).
