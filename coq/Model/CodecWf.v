(* E1 codec: well-formedness (wf) and the documented normalisation (norm) of value trees, for the part of the universe
   the round-trip theorem C01_partial_generic covers: everything reflection drives (booleans, integers, floats,
   strings, DateTime, byte strings, slices, pointers, structs) plus the hand-written GUID and LocalizedText codecs. *)
From Coq Require Import NArith ZArith List Bool Lia.
From Coq.Strings Require Import Byte.
From Opcua Require Import Model.CodecTypes Model.Codec.
Import ListNotations.
Open Scope Z_scope.

Definition width_ok (w : nat) : bool := (Nat.eqb w 1 || Nat.eqb w 2 || Nat.eqb w 4 || Nat.eqb w 8).
Definition int_ok (w : nat) (s : bool) (z : Z) : bool :=
  if s then (- (pow8 w / 2) <=? z) && (z <? pow8 w / 2) else (0 <=? z) && (z <? pow8 w).
Definition float_ok (w : nat) (z : Z) : bool := (Nat.eqb w 4 || Nat.eqb w 8) && (0 <=? z) && (z <? pow8 w).
(* DateTime: every time whose count of 100 ns ticks since 1601 fits an int64 (years -27627 .. 30828; this includes the
   int64-nanosecond range of the property, 9999-12-31 and everything a decoder can return) *)
Definition time_ok (t : option Z) : bool :=
  match t with
  | None => true
  | Some ns => (-9223372036854775808 <=? ns / 100 + time_offset) && (ns / 100 + time_offset <? 9223372036854775808)
  end.
Definition str_ok (s : bytes) : bool := blen s <=? max_int32.
Definition byte_ok (z : Z) : bool := (0 <=? z) && (z <? 256).

(* element types of pointers that ua.decode can allocate (see dec_ptr) *)
Definition ptr_elem_ok (e : ty) : bool := match e with TPtr _ | TCustom _ => false | _ => true end.

Definition cminsize (c : custom) : nat :=
  match c with
  | CVariant | CDataValue | CDiagInfo | CLocText => 1 | CNodeID | CExpNodeID => 2 | CExtObj => 3 | CGUID => 16
  end.
Fixpoint minsize (t : ty) : nat :=
  match t with
  | TBool => 1 | TInt w _ => w | TFloat w => w | TString => 4 | TTime => 8 | TBytes => 4 | TSlice _ => 4
  | TPtr e => minsize e
  | TStruct fs => fold_right (fun f a => minsize f + a)%nat 0%nat fs
  | TCustom c => cminsize c
  end.

(* gwf t v: v is a Go value of type t that the codec is specified on:
   integer ranges, DateTime within the int64 ns range, strings/arrays shorter than 2^31, non-nil struct pointers,
   slice elements occupying at least one byte (decodeSlice rejects counts above the remaining bytes),
   mask-governed fields empty when their bit is off *)
Fixpoint gwf (t : ty) (v : val) {struct v} : bool :=
  match t with
  | TBool => match v with VBool _ => true | _ => false end
  | TInt w s => match v with VInt z => width_ok w && int_ok w s z | _ => false end
  | TFloat w => match v with VInt z => float_ok w z | _ => false end
  | TString => match v with VStr s => str_ok s | _ => false end
  | TTime => match v with VTime t => time_ok t | _ => false end
  | TBytes => match v with VBytes None => true | VBytes (Some d) => str_ok d | _ => false end
  | TSlice e =>
    match v with
    | VSlice None => true
    | VSlice (Some l) =>
      Nat.leb 1 (minsize e) && (zlen l <=? max_int32) &&
      (fix go (l : list val) : bool := match l with [] => true | x :: r => gwf e x && go r end) l
    | _ => false
    end
  | TPtr e => match v with VPtr (Some x) => ptr_elem_ok e && gwf e x | _ => false end
  | TStruct fs =>
    match v with
    | VStruct vs =>
      (fix go (fs : list ty) (vs : list val) {struct vs} : bool :=
         match fs, vs with
         | [], [] => true
         | f :: fs', x :: vs' => gwf f x && go fs' vs'
         | _, _ => false
         end) fs vs
    | _ => false
    end
  | TCustom CGUID =>
    match v with
    | VGuid d1 d2 d3 d4 => int_ok 4 false d1 && int_ok 2 false d2 && int_ok 2 false d3 && Nat.eqb (length d4) 8
    | _ => false
    end
  | TCustom CLocText =>
    match v with
    | VLocText mask locale text =>
      byte_ok mask && str_ok locale && str_ok text &&
      (bit mask 0 || match locale with [] => true | _ => false end) &&
      (bit mask 1 || match text with [] => true | _ => false end)
    | _ => false
    end
  | TCustom _ => false
  end.

(* 100 ns resolution (rounded down); tick count 0 (1601-01-01T00:00:00Z) is the null DateTime and 0001-01-01T00:00:00Z is
   Go's zero time: both come back as the zero time *)
Definition norm_time (t : option Z) : option Z :=
  match t with
  | None => None
  | Some ns => let q := ns / 100 in
               if (q + time_offset =? 0) || (q * 100 =? zero_time_ns) then None else Some (q * 100)
  end.

(* the documented normalisations: 100 ns time resolution, NaN canonicalisation; (in this fragment nil and empty
   slices / byte strings round-trip exactly, and "" is the only empty string) *)
Fixpoint norm (t : ty) (v : val) {struct v} : val :=
  match t, v with
  | TFloat w, VInt z => VInt (canon_float w z)
  | TTime, VTime t => VTime (norm_time t)
  | TSlice e, VSlice (Some l) =>
    VSlice (Some ((fix go (l : list val) : list val := match l with [] => [] | x :: r => norm e x :: go r end) l))
  | TPtr e, VPtr (Some x) => VPtr (Some (norm e x))
  | TStruct fs, VStruct vs =>
    VStruct ((fix go (fs : list ty) (vs : list val) {struct vs} : list val :=
                match fs, vs with
                | f :: fs', x :: vs' => norm f x :: go fs' vs'
                | _, _ => []
                end) fs vs)
  | _, _ => v
  end.

(* descriptors of the fragment *)
Fixpoint generic_ty (t : ty) : bool :=
  match t with
  | TSlice e => generic_ty e
  | TPtr e => generic_ty e
  | TStruct fs => forallb generic_ty fs
  | TCustom CGUID | TCustom CLocText => true
  | TCustom _ => false
  | _ => true
  end.
