(* Engine E7 (client), C22: Connect = Dial; CreateSession (verify the server's session signature); ActivateSession;
   UpdateNamespaces — transcribed from client.go (Connect, CreateSession, ActivateSession, Close) and
   uasc/secure_channel_crypto.go (VerifySessionSignature, NewSessionSignature).
   Cryptography and X.509 parsing are Section variables WITHOUT any hypothesis: the theorems hold for every
   verification function; Props/C22.v gives a toy instantiation to show the statements are not vacuous.
   Two facts about the source are taken from the generated table instead of being assumed:
   - whether the error branches after VerifySessionSignature / NewSessionSignature return the error or nil
     (Gen.ClientSites.create_session_returns_verify_error, activate_session_returns_signature_error);
   - the guard on `remoteX509Cert.PublicKey.( *rsa.PublicKey)` (Gen.ClientSites.sites). *)
From Coq Require Import List Bool.
From Opcua Require Import Model.ClientGuards Model.ClientOps.
Import ListNotations.

Inductive sec_mode := SecNone | SecSign | SecSignEncrypt.
Inductive conn_state := StClosed | StConnected | StConnecting | StDisconnected | StReconnecting.   (* connstate.go *)
Inductive conn_result := Connected | ConnError | ConnPanic.

Section Session.
  Variable bytes : Type.
  Variable key : Type.
  Variable append : bytes -> bytes -> bytes.
  (* uapolicy.Asymmetric(policy, localKey, remoteKey).VerifySignature(data, sig) == nil *)
  Variable verify : key -> bytes -> bytes -> bool.
  (* uapolicy.ParseCertificate followed by the public-key type test *)
  Inductive cert_class := CertGarbage | CertNotRSA | CertRSA (k : key).
  Variable parse : bytes -> cert_class.

  Record env := {
    e_mode : sec_mode;
    e_client_cert : bytes;         (* cfg.Certificate *)
    e_nonce : bytes;               (* the 32 random bytes CreateSession sent *)
    e_create_kind : rkind;         (* kind of the answer to CreateSessionRequest *)
    e_resp_cert : bytes;           (* CreateSessionResponse.ServerCertificate *)
    e_resp_sig : bytes;            (* CreateSessionResponse.ServerSignature.Signature *)
    e_activate_kind : rkind;       (* kind of the answer to ActivateSessionRequest *)
    e_namespaces_ok : bool         (* UpdateNamespaces succeeds *)
  }.

  Inductive check := CkOk | CkErr | CkPanic.

  (* uasc.VerifySessionSignature(cert, nonce, signature) and the first half of NewSessionSignature *)
  Definition with_remote_key (g_assert : guard) (mode : sec_mode) (cert : bytes) (k : key -> check) : check :=
    match mode with
    | SecNone => CkOk
    | _ => match parse cert with
           | CertGarbage => CkErr
           | CertNotRSA => match assert_site g_assert false with Boom => CkPanic | _ => CkErr end
           | CertRSA pk => k pk
           end
    end.

  Definition verify_session_signature (g : guard) (e : env) : check :=
    with_remote_key g (e_mode e) (e_resp_cert e)
      (fun pk => if verify pk (append (e_client_cert e) (e_nonce e)) (e_resp_sig e) then CkOk else CkErr).

  (* signing with the local key cannot fail once the remote key is there *)
  Definition new_session_signature (g : guard) (e : env) : check :=
    with_remote_key g (e_mode e) (e_resp_cert e) (fun _ => CkOk).

  (* CreateSession: (session, err) or panic.  The handler runs for KExpected and KBadResult. *)
  Inductive create_res := CrSession | CrNilNoError | CrError | CrPanic.

  Definition create_session (returns_err : bool) (g : guard) (e : env) : create_res :=
    match e_create_kind e with
    | KFault | KWrongType => CrError
    | k =>
        match verify_session_signature g e with
        | CkPanic => CrPanic
        | CkErr =>
            (* log.Printf(...); return err   -- or, before the fix, return nil: s stays nil *)
            match k with KBadResult => CrError | _ => if returns_err then CrError else CrNilNoError end
        | CkOk => match k with KBadResult => CrError | _ => CrSession end
        end
    end.

  Record result := { r_res : conn_result; r_state : conn_state; r_activate_sent : bool; r_session : bool }.

  Definition failed := {| r_res := ConnError; r_state := StClosed; r_activate_sent := false; r_session := false |}.
  Definition crashed (sent : bool) := {| r_res := ConnPanic; r_state := StConnecting; r_activate_sent := sent; r_session := false |}.

  (* client.go Connect (the Dial has succeeded: the channel is open) *)
  Definition connect (ret_verify ret_sign : bool) (g_verify g_sign : guard) (e : env) : result :=
    match create_session ret_verify g_verify e with
    | CrPanic => crashed false
    | CrError => failed                                (* c.Close(ctx): state Closed, no session *)
    | CrNilNoError => crashed false                    (* ActivateSession(nil): s.serverCertificate dereferences nil *)
    | CrSession =>
        match new_session_signature g_sign e with
        | CkPanic => crashed false
        | CkErr =>
            if ret_sign then failed
            else (* `return nil` without activating: Connect reports success with no session *)
              {| r_res := (if e_namespaces_ok e then Connected else ConnError);
                 r_state := (if e_namespaces_ok e then StConnected else StClosed);
                 r_activate_sent := false; r_session := false |}
        | CkOk =>
            if send_ok (e_activate_kind e) then
              if e_namespaces_ok e then {| r_res := Connected; r_state := StConnected; r_activate_sent := true; r_session := true |}
              else {| r_res := ConnError; r_state := StClosed; r_activate_sent := true; r_session := false |}
            else {| r_res := ConnError; r_state := StClosed; r_activate_sent := true; r_session := false |}
        end
    end.

  (* the server proved its identity: its signature over clientCertificate ++ clientNonce verifies with the key of
     the certificate it presented *)
  Definition sig_valid (e : env) : Prop :=
    exists pk, parse (e_resp_cert e) = CertRSA pk /\ verify pk (append (e_client_cert e) (e_nonce e)) (e_resp_sig e) = true.

End Session.
