(* Engine E7 (client), C21: the response-consuming code of every client operation, as a function of the response
   SHAPE (response kind, array lengths, variant kinds, status codes).  Every Go operation that can panic (slice
   index, unchecked type assertion) is an explicit [Panic]; whether it is protected is decided by the guard that
   the translator extracted from the source for that very expression (Gen/ClientSites.v), never assumed.

   Transcribed from: client.go (Read, Call, NamespaceArray, Connect, monitor/transferSubscriptions, ...),
   node.go (Attribute, BrowseName, ..., browseNext, TranslateBrowsePathsToNodeIDs), subscription.go (delete, Monitor,
   ModifyMonitoredItems, recreate_monitoredItems, Stats), client_sub.go (publish, handleAcks, handleNotification,
   notifySubscription), monitor/subscription.go (AddMonitorItems), uasc/secure_channel.go (sendRequestWithTimeout:
   how the handler is called).

   Modelling facts about decoded responses (validated by the correspondence run, which decodes real messages):
   every struct pointer inside a decoded response is non-nil (ua.decode allocates), DataValue.Decode always
   allocates Value (an absent value is the Null variant), interface-typed fields (ExtensionObject.Value,
   Variant.Value()) may be nil. *)
From Coq Require Import List String Bool Arith Lia.
From Opcua Require Import Model.ClientGuards.
Import ListNotations.
Open Scope list_scope.
Open Scope nat_scope.

Inductive outcome := Value | Error | Panic.

(* What the server sent, relative to what the request expects. *)
Inductive rkind :=
| KExpected     (* the expected response type, ServiceResult Good *)
| KFault        (* a ServiceFault (ServiceResult Bad) *)
| KBadResult    (* the expected response type with a Bad ServiceResult: uasc still calls the handler, then
                   returns the status as the error (sendRequestWithTimeout: `_ = h(msg.Response())`) *)
| KWrongType.   (* another response type, ServiceResult Good: safeAssign fails *)

(* err == nil after Send(..., safeAssign) *)
Definition send_ok (k : rkind) : bool := match k with KExpected => true | _ => false end.

(* A handler closure whose body does more than safeAssign runs for KExpected and KBadResult; for KBadResult its
   result is ignored but a panic inside it still kills the process. [body] is the outcome of the code after a
   successful safeAssign. *)
Definition with_handler (k : rkind) (body : outcome) : outcome :=
  match k with
  | KExpected => body
  | KBadResult => match body with Panic => Panic | _ => Error end
  | _ => Error
  end.

(* --- run-time checks ------------------------------------------------------------------------------------- *)

Inductive step := Go | Leave | Boom.

(* X[idx] under guard g; [rhs] is the value the guard compares len(X) with (if it has a right-hand side). *)
Definition index_site (g : guard) (len_x idx rhs : nat) : step :=
  if guard_leaves g len_x rhs then Leave else if idx <? len_x then Go else Boom.

(* X[0], X[1], ..., X[n-1] under guard g (a loop whose index runs over another slice of length n). *)
Definition range_site (g : guard) (len_x n rhs : nat) : step :=
  if guard_leaves g len_x rhs then Leave else if n <=? len_x then Go else Boom.

(* x.(T): with the comma-ok form a mismatch takes the error branch, otherwise it panics. *)
Definition assert_site (g : guard) (type_matches : bool) : step :=
  if type_matches then Go else match g with GCommaOk => Leave | _ => Boom end.

Definition seq_step (s : step) (k : outcome) : outcome :=
  match s with Go => k | Leave => Error | Boom => Panic end.

(* --- Variant kinds the helpers distinguish ------------------------------------------------------------------ *)

Inductive vkind := VNull | VQName | VLText | VByte | VInt32 | VStrArr | VInt32ArrEmpty | VInt32Arr | VString | VEOArr.

Definition vkind_eqb (a b : vkind) : bool :=
  match a, b with
  | VNull, VNull | VQName, VQName | VLText, VLText | VByte, VByte | VInt32, VInt32 | VStrArr, VStrArr
  | VInt32ArrEmpty, VInt32ArrEmpty | VInt32Arr, VInt32Arr | VString, VString | VEOArr, VEOArr => true
  | _, _ => false
  end.

(* First DataValue of a ReadResponse: the value (absent = Null variant) and whether its status is Good. *)
Record dv_shape := { dv_value : vkind; dv_good : bool }.

(* node.go Attribute: Read, then `if len(res.Results) == 0 { return BadUnexpectedError }`, res.Results[0] (three
   occurrences), status check.  Client.Read's handler has no panicking site for decoded responses. *)
Definition attribute (g_res0 : guard) (k : rkind) (nres : nat) (d : dv_shape) (cont : vkind -> outcome) : outcome :=
  if send_ok k then
    seq_step (index_site g_res0 nres 0 0) (if dv_good d then cont (dv_value d) else Error)
  else Error.

Inductive helper := HNodeClass | HBrowseName | HDescription | HDisplayName | HAccessLevel | HUserAccessLevel
                  | HValue | HNamespaceArray | HStats.

(* ua.Variant.Int(): `if m.Has(VariantArrayValues) { return 0 }`, then a type switch on Type() whose assertions
   agree with the decoded value. *)
Definition variant_int (v : vkind) : outcome := Value.

Definition helper_tail (g_assert : guard) (h : helper) (v : vkind) : outcome :=
  match h with
  | HNodeClass => variant_int v
  | HBrowseName => seq_step (assert_site g_assert (vkind_eqb v VQName)) Value
  | HDescription | HDisplayName => seq_step (assert_site g_assert (vkind_eqb v VLText)) Value
  | HAccessLevel | HUserAccessLevel => seq_step (assert_site g_assert (vkind_eqb v VByte)) Value
  | HValue => Value
  | HNamespaceArray => seq_step (assert_site g_assert (vkind_eqb v VStrArr)) Value
  | HStats =>
      (* v.Value().(slice of ExtensionObject) comma-ok; then for each eo: eo.Value asserted to SubscriptionDiagnosticsDataType
         comma-ok; the harness never sends a matching diagnostics object: not found -> error *)
      seq_step (assert_site g_assert (vkind_eqb v VEOArr)) Error
  end.

Definition node_helper (g_res0 g_assert : guard) (h : helper) (k : rkind) (nres : nat) (d : dv_shape) : outcome :=
  attribute g_res0 k nres d (helper_tail g_assert h).

(* --- node.go References / browseNext ------------------------------------------------------------------------ *)

(* one Browse / BrowseNext response: kind, number of results, whether results[0] carries a continuation point *)
Definition bresp := (rkind * nat * bool)%type.

Fixpoint browse_next (g : guard) (n : nat) (cp : bool) (nexts : list bresp) : outcome :=
  seq_step (index_site g n 0 0)
    (if cp then
       match nexts with
       | [] => Error                      (* the scripted server answers BadContinuationPointInvalid *)
       | (k, n', cp') :: rest => if send_ok k then browse_next g n' cp' rest else Error
       end
     else Value).

Definition references (g : guard) (first : bresp) (nexts : list bresp) : outcome :=
  let '(k, n, cp) := first in if send_ok k then browse_next g n cp nexts else Error.

(* --- client.go Call ---------------------------------------------------------------------------------------- *)
Definition call (g : guard) (k : rkind) (nres : nat) : outcome :=
  if send_ok k then seq_step (index_site g nres 0 0) Value else Error.

(* --- node.go TranslateBrowsePathsToNodeIDs (everything happens inside the handler; the type test is comma-ok) - *)
Definition translate (g_res g_tgt : guard) (k : rkind) (nres : nat) (st_good : bool) (ntargets : nat) : outcome :=
  with_handler k
    (seq_step (index_site g_res nres 0 0)
       (if st_good then seq_step (index_site g_tgt ntargets 0 0) Value else Error)).

(* --- subscription.go Monitor: for i := range items { res.Results[i] } ---------------------------------------- *)
Definition monitor_items (g : guard) (k : rkind) (nitems nres : nat) : outcome :=
  if send_ok k then seq_step (range_site g nres nitems nitems) Value else Error.

(* --- subscription.go ModifyMonitoredItems: for i, r := range res.Results { if r bad continue; req.ItemsToModify[i] } *)
Fixpoint modify_loop (g : guard) (nmod nres : nat) (i : nat) (oks : list bool) : outcome :=
  match oks with
  | [] => Value
  | ok :: rest =>
      if ok then seq_step (index_site g nmod i nres) (modify_loop g nmod nres (S i) rest)
      else modify_loop g nmod nres (S i) rest
  end.

Definition modify_items (g : guard) (k : rkind) (nmod : nat) (oks : list bool) : outcome :=
  if send_ok k then
    (if guard_leaves g nmod (List.length oks) then Error else modify_loop g nmod (List.length oks) 0 oks)
  else Error.

(* --- subscription.go Cancel -> delete: switch { err; len != 1; res.Results[0] == OK; default res.Results[0] } -- *)
Definition cancel (g : guard) (k : rkind) (nres : nat) (st0_good : bool) : outcome :=
  if send_ok k then seq_step (index_site g nres 0 0) (if st0_good then Value else Error) else Error.

(* --- operations that only safeAssign (Read*, Write, Browse, BrowseNext, RegisterNodes, UnregisterNodes, HistoryRead*,
       FindServers, GetEndpoints, Attributes, Unmonitor, SetTriggering, ModifySubscription, SetMonitoringMode) --- *)
Definition simple (k : rkind) : outcome := if send_ok k then Value else Error.

(* client_sub.go Subscribe: ServiceResult check is subsumed by send_ok; id 0 (or a duplicate) is rejected *)
Definition subscribe (k : rkind) (subid0 : bool) : outcome :=
  if send_ok k then (if subid0 then Error else Value) else Error.

(* --- monitor/subscription.go AddMonitorItems: Subscription.Monitor, then ServiceResult, then the length check,
       then toAdd[i] / nodes[i] for i over resp.Results ------------------------------------------------------- *)
Definition add_monitor_items (g_mon g_toadd : guard) (k : rkind) (nitems : nat) (oks : list bool) : outcome :=
  match monitor_items g_mon k nitems (List.length oks) with
  | Value =>
      seq_step (range_site g_toadd nitems (List.length oks) (List.length oks))
        (if forallb (fun b => b) oks then Value else Error)
  | o => o
  end.

(* --- client_sub.go publish loop ---------------------------------------------------------------------------- *)

(* NotificationData entries: nil body, a notification type, a registered non-notification type *)
Inductive dkind := DNil | DNotification | DOther.
Inductive note := NValue | NError.   (* what the application receives on Subscription.Notifs *)

Record presp := { p_kind : rkind; p_known : bool; p_nacks : nat; p_retry : bool; p_data : list dkind }.

(* handleAcks_NeedsSubMuxLock: pending acknowledgements vs res.Results.  A count mismatch resets the pending list (when
   the site has that guard); then res[i] for i over the pending list.  The harness sends either all Good statuses
   (every pending acknowledgement is dropped) or all retryable ones ([retry]: every one is kept). *)
Definition handle_acks (g : guard) (pending nres : nat) (retry : bool) : step * nat :=
  let pending' := match g with GResetOnMismatch => if pending =? nres then pending else 0 | _ => pending end in
  (range_site GNone nres pending' 0, if retry then pending' else 0).

Definition notify_data (d : dkind) : note := match d with DNotification => NValue | _ => NError end.

(* one PublishResponse: (continue?, pending', notes) or panic *)
Inductive pub_res := PubGo (pending : nat) (notes : list note) | PubPaused (notes : list note) | PubPanic.

Definition publish_one (g : guard) (pending : nat) (r : presp) : pub_res :=
  match p_kind r with
  | KExpected =>
      match handle_acks g pending (p_nacks r) (p_retry r) with
      | (Boom, _) => PubPanic
      | (_, pend) =>
          if p_known r then
            PubGo (match p_data r with [] => pend | _ => S pend end) (map notify_data (p_data r))
          else PubGo pend []
      end
  | KBadResult =>
      (* err != nil && res != nil: the error is reported to the subscription(s), the loop pauses itself *)
      PubPaused (if p_known r then [NError] else [])
  | KFault | KWrongType =>
      (* err != nil, res == nil: "unexpected error", loop pauses *)
      PubPaused []
  end.

Fixpoint publish_loop (g : guard) (pending : nat) (rs : list presp) (acc : list note) : option (list note) :=
  match rs with
  | [] => Some acc
  | r :: rest =>
      match publish_one g pending r with
      | PubPanic => None
      | PubPaused ns => Some (acc ++ ns)
      | PubGo pend ns => publish_loop g pend rest (acc ++ ns)
      end
  end.

(* --- client.go monitor(): transferSubscriptions results, then recreate_monitoredItems ------------------------- *)

Inductive tkind := TOk | TUnsupported | TFailed.   (* err == nil / BadServiceUnsupported / any other error *)

(* number of subscriptions to recreate after the transfer step, or panic *)
Definition transfer_step (g_sub : guard) (t : tkind) (nsubs : nat) (invalid : list bool) : option nat :=
  match t with
  | TUnsupported | TFailed => Some nsubs
  | TOk =>
      (* switch: ...; case len(res.Results) != len(subIDs): recreate all; default: for i := range res.Results { subIDs[i] } *)
      match range_site g_sub nsubs (List.length invalid) (List.length invalid) with
      | Leave => Some nsubs
      | Boom => None
      | Go => Some (List.length (filter (fun b => b) invalid))
      end
  end.

(* recreate_monitoredItems for one subscription: CreateMonitoredItems response vs the items to restore *)
Definition recreate_items (g : guard) (k : rkind) (nitems : nat) (oks : list bool) : outcome :=
  if send_ok k then
    match range_site g (List.length oks) nitems nitems with
    | Leave => Error
    | Boom => if forallb (fun b => b) oks then Panic else Error   (* the status loop returns first on a Bad status *)
    | Go => if forallb (fun b => b) oks then Value else Error
    end
  else Error.

(* whole reconnect as far as panics are concerned: every subscription to recreate gets the same shaped answer *)
Definition reconnect (g_sub g_items : guard) (t : tkind) (nsubs : nat) (invalid : list bool)
           (k : rkind) (nitems : nat) (oks : list bool) : outcome :=
  match transfer_step g_sub t nsubs invalid with
  | None => Panic
  | Some 0 => Value
  | Some (S _) => match recreate_items g_items k nitems oks with Panic => Panic | _ => Value end
  end.

(* --- client.go Connect as far as response shapes go (signatures: see Model/ClientSession.v) --------------------- *)
Definition connect_shape (g_res0 g_assert : guard) (k_create : rkind) (k_read : rkind) (nres : nat) (d : dv_shape) : outcome :=
  if send_ok k_create then node_helper g_res0 g_assert HNamespaceArray k_read nres d else Error.
