(* Engine E7 (client), C21/C22: vocabulary shared by the generated site table (Gen/ClientSites.v) and the
   hand-written models of the response-consuming client code (Model/ClientOps.v). *)
From Coq Require Import List String Bool Arith.
Import ListNotations.
Open Scope string_scope.

(* What kind of run-time check a site performs. *)
Inductive site_kind := KIndex | KSlice | KAssert | KNilRecv.

(* The guard that dominates a site, as recognised syntactically by the translator.
   "Ret" guards are `if <cond> { ...; return/continue/break }` statements that precede the site with no
   reassignment of the guarded expression in between (also along loop back-edges). *)
Inductive guard :=
| GNone                         (* nothing recognised: the site is unprotected *)
| GRangeSame                    (* X[i] inside `for i := range X` *)
| GLenNeRet (rhs : string)      (* if len(X) != rhs { return } *)
| GLenNeConstRet (n : nat)      (* if len(X) != n { return } *)
| GLenEq0Ret                    (* if len(X) == 0 { return } *)
| GLenLtRet (rhs : string)      (* if len(X) < rhs { return } *)
| GLenLeRet (rhs : string)      (* if len(X) <= rhs { return } *)
| GLenLtConstRet (n : nat)      (* if len(X) < n { return } *)
| GResetOnMismatch              (* X[i] in `for i := range R` after `if len(R) != len(X) { R = empty }` *)
| GCommaOk                      (* v, ok := x.(T) *)
| GNilRet.                      (* if x == nil { return } *)

Record site := { s_file : string; s_func : string; s_expr : string; s_kind : site_kind; s_guard : guard }.

Definition guard_eqb (a b : guard) : bool :=
  match a, b with
  | GNone, GNone | GRangeSame, GRangeSame | GLenEq0Ret, GLenEq0Ret | GResetOnMismatch, GResetOnMismatch
  | GCommaOk, GCommaOk | GNilRet, GNilRet => true
  | GLenNeRet x, GLenNeRet y | GLenLtRet x, GLenLtRet y | GLenLeRet x, GLenLeRet y => String.eqb x y
  | GLenNeConstRet x, GLenNeConstRet y | GLenLtConstRet x, GLenLtConstRet y => Nat.eqb x y
  | _, _ => false
  end.

(* All guards recorded for the occurrences of expression [e] in function [f]. *)
Definition guards_of (tbl : list site) (f e : string) : list guard :=
  map s_guard (filter (fun s => String.eqb (s_func s) f && String.eqb (s_expr s) e) tbl).

(* The guard of a site: the common guard of all its occurrences; GNone if it does not occur (a model that talks
   about a site the code no longer has is then unprovable) or if occurrences disagree. *)
Definition site_guard (tbl : list site) (f e : string) : guard :=
  match guards_of tbl f e with
  | [] => GNone
  | g :: gs => if forallb (guard_eqb g) gs then g else GNone
  end.

(* Does a length guard leave the function early?  [len_x] is the length of the guarded slice, [rhs] the value of
   the right-hand side it is compared with. *)
Definition guard_leaves (g : guard) (len_x rhs : nat) : bool :=
  match g with
  | GLenNeRet _ => negb (Nat.eqb len_x rhs)
  | GLenNeConstRet n => negb (Nat.eqb len_x n)
  | GLenEq0Ret => Nat.eqb len_x 0
  | GLenLtRet _ => Nat.ltb len_x rhs
  | GLenLeRet _ => Nat.leb len_x rhs
  | GLenLtConstRet n => Nat.ltb len_x n
  | _ => false
  end.

(* The text of the right-hand side of a relational length guard (what [rhs] above must denote). *)
Definition guard_rhs (g : guard) : option string :=
  match g with
  | GLenNeRet r | GLenLtRet r | GLenLeRet r => Some r
  | _ => None
  end.
