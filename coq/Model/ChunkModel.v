(* ChunkModel.v — byte-level model of the chunk path of gopcua/opcua (hand-written transcription):
     uasc/message.go            EncodeChunks                      -> encode_chunks
     uasc/secure_channel.go     writeMessageChunks (send loop)    -> send_message / send_loop
     uasc/secure_channel_instance.go signAndEncrypt               -> sign_encrypt
                                     verifyAndDecrypt             -> verify_decrypt
     uasc/secure_channel.go     readChunk (MSG) / Receive / mergeChunks -> read_chunk / receive_step / merge_chunks
   Integer formulas come from Gen.ArithFromGo (go_nrChunks, go_nextSequenceNumber), regenerated on every run.
   Crypto is a record of functions (algo); theorems put hypotheses on it, ChunkToy.v instantiates it.
   Every Go operation that can panic (slice out of range, index out of range, division by zero) is an
   explicit Panic outcome.  Tied to the code by the C07/C08 correspondence (chunkharness c07 / c08). *)
From Coq Require Import ZArith List Bool.
From Coq.Strings Require Import Byte.
From Opcua Require Import Model.Layout Model.ChunkBytes Gen.ArithFromGo Gen.ChunkPreds.
Import ListNotations.
Open Scope Z_scope.

Record algo := mkAlgo {
  a_block : Z;                      (* EncryptionAlgorithm.BlockSize() *)
  a_plain : Z;                      (* PlaintextBlockSize() *)
  a_sig : Z;                        (* SignatureLength() *)
  a_rsig : Z;                       (* RemoteSignatureLength() *)
  a_enc : bytes -> option bytes;    (* Encrypt; None = error *)
  a_dec : bytes -> option bytes;    (* Decrypt *)
  a_sign : bytes -> option bytes;   (* Signature *)
  a_verify : bytes -> bytes -> bool (* VerifySignature msg sig = nil *)
}.

(* PaddingSize byte + Padding bytes (all holding the low byte of the padding length n), then ExtraPaddingSize *)
Definition pad_string (extra : bool) (n : Z) : bytes :=
  repeat (b8 n) (Z.to_nat (n + 1)) ++ (if extra then [b8 (Z.shiftr n 8)] else []).

Definition encrypts (m : sec_mode) (asym : bool) : bool :=
  match m with ModeSignEnc => true | _ => asym end.

(* ---------------------------------------------------------------------------------------------- *)
(* signAndEncrypt(m, b): hl = headerLength = 12 + security header length *)
Definition sign_encrypt (m : sec_mode) (asym : bool) (A : algo) (hl : Z) (b : bytes) : res bytes :=
  match m with
  | ModeNone => Ok b
  | _ =>
    if (hl <? 0) || (zlen b <? hl) then Panic                       (* b[headerLength:] *)
    else
      let padded :=
        if encrypts m asym then
          if a_plain A =? 0 then None                               (* integer divide by zero *)
          else
            let extra := go_sendExtraPadding (a_sig A) (a_rsig A) in   (* Gen.ChunkPreds: which length the sender tests *)
            let pb := if extra then 2 else 1 in
            let rem := Z.rem (zlen b - hl + a_sig A + pb) (a_plain A) in
            let pl := if rem =? 0 then 0 else a_plain A - rem in
            let b1 := b ++ pad_string extra pl in
            Some (b1, Z.quot (zlen b1 - hl + a_sig A) (a_plain A) * a_block A)
        else Some (b, zlen b - hl + a_sig A) in
      match padded with
      | None => Panic
      | Some (b1, enclen) =>
        match put32 4 b1 (hl + enclen) with                         (* PutUint32(b[4:], …) *)
        | None => Panic
        | Some b2 =>
          match a_sign A b2 with
          | None => Err ESecurityChecks
          | Some s =>
            let b3 := b2 ++ s in
            let p := zdrop hl b3 in
            if encrypts m asym then
              match a_enc A p with
              | None => Err ESecurityChecks
              | Some c => Ok (ztake hl b3 ++ c)
              end
            else Ok (ztake hl b3 ++ p)
          end
        end
      end
  end.

(* verifyAndDecrypt(m, r): pnone = (SecurityPolicyURI == None); returns the bytes after the security header
   with padding and signature removed *)
Definition verify_decrypt (m : sec_mode) (pnone asym : bool) (A : algo) (hl : Z) (r : bytes) : res bytes :=
  if (match m with ModeNone => true | _ => false end) && (pnone || negb asym) then Ok (zdrop hl r)   (* m.Data *)
  else
    let dec :=
      if encrypts m asym then
        if (hl <? 0) || (zlen r <? hl) then Panic                   (* b[headerLength:] *)
        else match a_dec A (zdrop hl r) with
             | None => Err ESecurityChecks
             | Some p => Ok (ztake hl r ++ p)
             end
      else Ok r in
    match dec with
    | Err e => Err e
    | Panic => Panic
    | Ok b =>
      if zlen b <? hl + a_rsig A then Err ESecurityChecks            (* length guard before slicing *)
      else
      let n := zlen b - a_rsig A in
      if (n <? 0) || (a_rsig A <? 0) then Panic                     (* b[len(b)-signatureLength:] (negative length only) *)
      else
        let sg := zdrop n b in
        let msg := ztake n b in
        if negb (a_verify A msg sg) then Err ESecurityChecks
        else
          let padlen :=
            if encrypts m asym then
              let psb := if go_recvExtraPadding (a_sig A) (a_rsig A) then 2 else 1 in
              if zlen msg <? hl + psb then Err ESecurityChecks
              else if zlen msg <? psb then Panic                    (* messageToVerify[len-1], [len-2] (hl < 0 only) *)
              else
                let last := zb (znth (zlen msg - 1) msg) in
                if go_recvExtraPadding (a_sig A) (a_rsig A) then Ok (last * 256 + zb (znth (zlen msg - 2) msg) + 1 + 1)
                else Ok (last + 1)
            else Ok 0 in
          match padlen with
          | Err e => Err e
          | Panic => Panic
          | Ok pl =>
            let hi := zlen msg - pl in
            if hi <? hl then Err ESecurityChecks
            else if hl <? 0 then Panic                               (* messageToVerify[headerLength : …] *)
            else Ok (zdrop hl (ztake hi msg))
          end
    end.

(* ---------------------------------------------------------------------------------------------- *)
(* Message.EncodeChunks for MSG / CLO *)
Definition hdr12 (mt : bytes) (ct : byte) (size chan : Z) : bytes := mt ++ [ct] ++ le32 size ++ le32 chan.
Definition raw_chunk (mt : bytes) (ct : byte) (size chan tok seq req : Z) (data : bytes) : bytes :=
  hdr12 mt ct size chan ++ le32 tok ++ le32 seq ++ le32 req ++ data.

Definition MSG : bytes := ["M"; "S"; "G"]%byte.
Definition CLO : bytes := ["C"; "L"; "O"]%byte.
Definition OPN : bytes := ["O"; "P"; "N"]%byte.

(* ua.Buffer used as a reader: remaining bytes and the sticky error flag *)
Definition rbuf := (bytes * bool)%type.
Definition readn (n : Z) (st : rbuf) : bytes * rbuf :=
  let '(rest, failed) := st in
  if failed then ([], st)
  else if zlen rest <? n then ([], (rest, true))
  else (ztake n rest, (zdrop n rest, false)).

Fixpoint enc_loop (k : nat) (mt : bytes) (chan tok seq req maxb : Z) (st : rbuf) : list bytes * rbuf :=
  match k with
  | O => ([], st)
  | S k' =>
    let '(d, st') := readn maxb st in
    let c := raw_chunk mt "C" ((maxb + 24) mod 4294967296) chan tok seq req d in
    let '(cs, st'') := enc_loop k' mt chan tok seq req maxb st' in
    (c :: cs, st'')
  end.

Definition encode_chunks (mt : bytes) (chan tok seq req maxBody : Z) (body : bytes) : res (list bytes) :=
  let '(nr, maxb) := go_nrChunks (zlen body) maxBody in
  if nr =? 0 then Panic          (* make([][]byte, 0) then chunks[i] / chunks[nrChunks-1]: index out of range *)
  else
    let '(cs, st) := enc_loop (Z.to_nat (nr - 1)) mt chan tok seq req maxb (body, false) in
    let '(rest, failed) := st in
    Ok (cs ++ [raw_chunk mt "F" ((24 + zlen rest) mod 4294967296) chan tok seq req (if failed then [] else rest)]).

(* writeMessageChunks: chunk 0 keeps the number newMessage drew; every later chunk draws the next one and
   patches bytes 16..19 before being secured.  Result: chunks written and the instance's counter. *)
Fixpoint send_loop (m : sec_mode) (A : algo) (first : bool) (s : Z) (cs : list bytes) : res (list bytes * Z) :=
  match cs with
  | [] => Ok ([], s)
  | c :: rest =>
    let s' := if first then s else go_nextSequenceNumber s in
    match (if first then Some c else put32 16 c s') with
    | None => Panic
    | Some c' =>
      match sign_encrypt m false A 16 c' with
      | Ok w =>
        match send_loop m A false s' rest with
        | Ok (ws, sn) => Ok (w :: ws, sn)
        | Err e => Err e
        | Panic => Panic
        end
      | Err e => Err e
      | Panic => Panic
      end
    end
  end.

(* checkPeerLimits (MSG/CLO): the limits the peer announced in HEL/ACK; 0 = no limit *)
Definition check_peer_limits (pmc pmm : Z) (cs : list bytes) : option err :=
  if (pmc >? 0) && ((zlen cs) mod 4294967296 >? pmc) then Some ETooManyChunks
  else if (pmm >? 0) && (fold_left (fun acc c => acc + (zlen c - 24)) cs 0 >? pmm) then Some EMessageTooLarge
  else None.

(* SendMsgWithContext: newMessage draws a sequence number, EncodeChunks(instance.maxBodySize),
   checkPeerLimits, send loop.  pmc/pmm: Conn.PeerMaxChunkCount / PeerMaxMessageSize *)
Definition send_message (m : sec_mode) (A : algo) (mt : bytes) (chan tok req maxBody s0 pmc pmm : Z) (body : bytes)
  : res (list bytes * Z) :=
  let s1 := go_nextSequenceNumber s0 in
  match encode_chunks mt chan tok s1 req maxBody body with
  | Ok cs =>
    match check_peer_limits pmc pmm cs with
    | Some e => Err e
    | None => send_loop m A true s1 cs
    end
  | Err e => Err e
  | Panic => Panic
  end.

(* ---------------------------------------------------------------------------------------------- *)
(* receive side *)
Record chunk := mkChunk { c_type : byte; c_chan : Z; c_seq : Z; c_req : Z; c_data : bytes }.

(* readChunk for one frame delivered by uacp (frames shorter than the 16 header bytes are a decode error;
   what uacp/readChunk do with such frames belongs to C13).  One channel instance (chan, A). *)
Definition read_chunk (m : sec_mode) (pnone : bool) (A : algo) (chan : Z) (r : bytes) : res chunk :=
  if zlen r <? 16 then Err EDecode
  else
    let mt := ztake 3 r in
    if bytes_eqb mt CLO then Err EEOF
    else if negb (bytes_eqb mt MSG) then Err EUnsupported         (* OPN: handshake, not part of this model *)
    else
      let ct := znth 3 r in
      let ch := de32 (zdrop 8 r) in
      if negb (ch =? chan) then Err EUnknownChannel               (* no instance for this SecureChannelID *)
      else
        match verify_decrypt m pnone false A 16 r with
        | Err e => Err e
        | Panic => Panic
        | Ok d =>
          if zlen d <? 8 then Err EDecode                           (* SequenceHeader.Decode *)
          else Ok (mkChunk ct ch (de32 d) (de32 (zdrop 4 d)) (zdrop 8 d))
        end.

(* mergeChunks: chunk i is skipped when Gen.ChunkPreds.go_mergeDuplicate (the condition of the loop's `continue`,
   read off the Go AST on every run) holds of its number and the number of the chunk merged before it *)
Fixpoint merge_loop (i : Z) (seqnr : Z) (cs : list chunk) : bytes :=
  match cs with
  | [] => []
  | c :: rest =>
    if go_mergeDuplicate i (c_seq c) seqnr then merge_loop (i + 1) seqnr rest       (* "duplicate chunk" *)
    else c_data c ++ merge_loop (i + 1) (c_seq c) rest
  end.
Definition merge_chunks (cs : list chunk) : bytes :=
  match cs with
  | [] => []
  | [c] => c_data c
  | _ => merge_loop 0 0 cs
  end.

Inductive out :=
| Deliver (req chan : Z) (body : bytes)       (* merged bytes handed to ua.DecodeService *)
| Failed (req : Z) (e : err)
| Aborted (req : Z)
| Crashed.                                    (* the Go process would have panicked *)

Definition chunk_table := list (Z * list chunk).
Fixpoint tbl_get (t : chunk_table) (k : Z) : list chunk :=
  match t with [] => [] | (k', v) :: t' => if k' =? k then v else tbl_get t' k end.
Fixpoint tbl_del (t : chunk_table) (k : Z) : chunk_table :=
  match t with [] => [] | (k', v) :: t' => if k' =? k then tbl_del t' k else (k', v) :: tbl_del t' k end.
Definition tbl_set (t : chunk_table) (k : Z) (v : list chunk) : chunk_table := (k, v) :: tbl_del t k.

Record rcfg := mkRcfg { r_mode : sec_mode; r_pnone : bool; r_algo : algo; r_chan : Z; r_maxchunks : Z; r_maxmsg : Z }.

(* checkSequenceNumber (end of readChunk, after the chunk is verified): the number must be greater than the one
   accepted last on the channel, or be a roll-over (last >= MaxUint32-1024 and n < 1024); the first chunk may
   carry any number *)
Definition seq_accept (last : option Z) (n : Z) : bool :=
  match last with
  | None => true
  | Some l => negb (go_seqReject l n)      (* Gen.ChunkPreds: read off checkSequenceNumber on every run *)
  end.

Definition rstate := (chunk_table * option Z)%type.

(* one frame through readChunk + the body of the Receive loop; [] = Receive keeps looping *)
Definition receive_step (c : rcfg) (st : rstate) (r : bytes) : rstate * list out :=
  let '(t, last) := st in
  match read_chunk (r_mode c) (r_pnone c) (r_algo c) (r_chan c) r with
  | Err e => (st, [Failed 0 e])
  | Panic => (st, [Crashed])
  | Ok ch =>
    if negb (seq_accept last (c_seq ch)) then (st, [Failed 0 ESequenceNumber])
    else
    let last' := Some (c_seq ch) in
    let req := c_req ch in
    if Byte.eqb (c_type ch) "A" then ((tbl_del t req, last'), [Aborted req])
    else if Byte.eqb (c_type ch) "C" then
      let l := tbl_get t req ++ [ch] in
      if (r_maxchunks c >? 0) && ((zlen l) mod 4294967296 >? r_maxchunks c) then ((tbl_del t req, last'), [Failed req ETooManyChunks])
      else ((tbl_set t req l, last'), [])
    else
      let all := tbl_get t req ++ [ch] in
      let b := merge_chunks all in
      if (r_maxmsg c >? 0) && ((zlen b) mod 4294967296 >? r_maxmsg c) then ((tbl_del t req, last'), [Failed req EMessageTooLarge])
      else ((tbl_del t req, last'), [Deliver req (c_chan ch) b])
  end.

Fixpoint receive_run (c : rcfg) (st : rstate) (frames : list bytes) : rstate * list out :=
  match frames with
  | [] => (st, [])
  | r :: rest =>
    let '(st', o) := receive_step c st r in
    let '(st'', os) := receive_run c st' rest in (st'', o ++ os)
  end.

Definition receive_all (c : rcfg) (st : rstate) (frames : list bytes) : list out := snd (receive_run c st frames).
