(* UacpHandshake.v — model of the Hello/Acknowledge negotiation (uacp/conn.go Handshake, srvhandshake) and of the
   limits each side then applies when sending and receiving (uacp Receive/Send buffer sizes;
   uasc/secure_channel.go checkPeerLimits on the send path, chunk-count / message-size checks in Receive;
   uasc/message.go EncodeChunks with the body size of uasc.SetMaximumBodySize).

   The negotiation functions below are hand-written in readable form; Props/C06.v proves them EQUAL, for all
   inputs, to Gen.UacpFromGo.go_Handshake_* / go_srvhandshake_* / go_send_refused / go_recv_rejected, which the
   translator reads off the Go AST on every run.  Wire behaviour (chunk sizes, refusal, acceptance) is tied by the
   C06 correspondence run (real client and server over a frame-recording proxy).  Definitions only. *)
From Coq Require Import ZArith Bool List.
Import ListNotations.
Open Scope Z_scope.

(* the four limit fields of a Hello / Acknowledge / Conn.ack *)
Record limits := mkLim { l_recv : Z; l_send : Z; l_maxmsg : Z; l_maxchunks : Z }.

(* a connection end after the handshake: the limits it works with (c.ack) and what the peer announced for the
   messages it accepts (c.peerMaxMessageSize, c.peerMaxChunkCount; 0 = no limit) *)
Record side := mkSide { s_lim : limits; s_peer_maxmsg : Z; s_peer_maxchunks : Z }.

Definition min_buf : Z := 8192.
Definition default_maxmsg : Z := 2097152.
Definition default_maxchunks : Z := 512.

(* Handshake: the Hello carries the client's configuration *)
Definition client_hello (cl : limits) : limits := cl.

(* srvhandshake, case "HELF": refuse buffers below the protocol minimum; revise the buffer sizes for this connection;
   announce them; remember what the client accepts.  Returns (server side, Acknowledge sent). *)
Definition server_after_hello (sv hel : limits) : option (side * limits) :=
  if (l_recv hel <? min_buf) || (l_send hel <? min_buf) then None
  else
    let ack := mkLim (Z.min (l_recv sv) (l_send hel)) (Z.min (l_send sv) (l_recv hel)) (l_maxmsg sv) (l_maxchunks sv) in
    Some (mkSide ack (l_maxmsg hel) (l_maxchunks hel), ack).

(* Handshake, case "ACKF": refuse a wrong version and buffers below the minimum; keep the announced receive buffer;
   send no more than the server receives; own message limits if announced, else the server's (0 -> defaults) *)
Definition client_after_ack (cl : limits) (version : Z) (ack : limits) : option side :=
  if negb (version =? 0) then None
  else if (l_recv ack <? min_buf) || (l_send ack <? min_buf) then None
  else
    Some (mkSide
            (mkLim (l_recv cl)
                   (Z.min (l_send cl) (l_recv ack))
                   (if l_maxmsg cl =? 0 then (if l_maxmsg ack =? 0 then default_maxmsg else l_maxmsg ack) else l_maxmsg cl)
                   (if l_maxchunks cl =? 0 then (if l_maxchunks ack =? 0 then default_maxchunks else l_maxchunks ack) else l_maxchunks cl))
            (l_maxmsg ack) (l_maxchunks ack)).

(* both ends of one connection: (Hello, Acknowledge, client side, server side) *)
Definition negotiate (cl sv : limits) : option (limits * limits * side * side) :=
  let hel := client_hello cl in
  match server_after_hello sv hel with
  | None => None
  | Some (srv, ack) =>
      match client_after_ack cl 0 ack with
      | None => None
      | Some cli => Some (hel, ack, cli, srv)
      end
  end.

(* ------------------------------------------------------------------------------------------------ *)
(* sending a message of L body bytes with chunk body size mb (EncodeChunks)                          *)

Definition nr_chunks (L mb : Z) : Z := L / mb + 1.

(* body sizes of the chunks: nr_chunks-1 full ones and the rest (possibly 0) *)
Definition chunk_bodies (L mb : Z) : list Z :=
  repeat mb (Z.to_nat (nr_chunks L mb - 1)) ++ [L - (nr_chunks L mb - 1) * mb].

(* checkPeerLimits *)
Definition send_refused (sd : side) (nchunks L : Z) : bool :=
  ((s_peer_maxchunks sd >? 0) && (nchunks >? s_peer_maxchunks sd)) ||
  ((s_peer_maxmsg sd >? 0) && (L >? s_peer_maxmsg sd)).

(* what goes on the wire: None = refused with Bad_RequestTooLarge / Bad_ResponseTooLarge, nothing written *)
Definition send (sd : side) (mb L : Z) : option (list Z) :=
  if send_refused sd (nr_chunks L mb) L then None else Some (chunk_bodies L mb).

(* ------------------------------------------------------------------------------------------------ *)
(* receiving                                                                                         *)

(* uacp Receive: a frame of `wire` bytes is accepted iff it fits the receive buffer (C05) *)
Definition frame_accepted (rv : side) (wire : Z) : bool := wire <=? l_recv (s_lim rv).

(* uasc Receive: own limits, 0 = no limit; the chunk count is checked on intermediate chunks *)
Definition recv_rejected (rv : side) (nintermediate L : Z) : bool :=
  ((l_maxchunks (s_lim rv) >? 0) && (nintermediate >? l_maxchunks (s_lim rv))) ||
  ((l_maxmsg (s_lim rv) >? 0) && (L >? l_maxmsg (s_lim rv))).

(* a message sent as chunks with the given wire sizes and L body bytes in total is delivered *)
Definition delivered (rv : side) (wires : list Z) (L : Z) : bool :=
  forallb (frame_accepted rv) wires && negb (recv_rejected rv (Z.of_nat (length wires) - 1) L).

(* ------------------------------------------------------------------------------------------------ *)
(* the configurations the property quantifies over                                                  *)

Definition valid_cfg (l : limits) : Prop :=
  8192 <= l_recv l <= 1048576 /\ 8192 <= l_send l <= 1048576 /\
  0 <= l_maxmsg l < 4294967296 /\ 0 <= l_maxchunks l < 4294967296.

Definition valid_cfgb (l : limits) : bool :=
  (8192 <=? l_recv l) && (l_recv l <=? 1048576) && (8192 <=? l_send l) && (l_send l <=? 1048576) &&
  (0 <=? l_maxmsg l) && (l_maxmsg l <? 4294967296) && (0 <=? l_maxchunks l) && (l_maxchunks l <? 4294967296).

(* helpers for the correspondence run *)
Definition lim_eqb (a b : limits) : bool :=
  (l_recv a =? l_recv b) && (l_send a =? l_send b) && (l_maxmsg a =? l_maxmsg b) && (l_maxchunks a =? l_maxchunks b).

Fixpoint zlist_eqb (a b : list Z) : bool :=
  match a, b with
  | [], [] => true
  | x :: a', y :: b' => (x =? y) && zlist_eqb a' b'
  | _, _ => false
  end.
