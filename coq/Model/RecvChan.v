(* RecvChan.v -- the instance (security token) table of a SecureChannel and its use on the receive path:
     handleOpenSecureChannelResponse  appends the new instance under its channel id,
     scheduleExpiration               removes an instance when created + 5/4 lifetime has passed,
     SecureChannel.verifyAndDecrypt   tries every instance stored under the chunk's channel id, newest first.
   Cryptography is abstracted to key identities: a chunk secured with key k verifies under an instance iff the instance
   holds k (this is what C09 reduces to).  Object identity of instances is explicit ([i_id]) because the expiry routine
   compares pointers.  [fixed = false] is scheduleExpiration as it was (table indexed by token id, comparison on token id).
   Tied to the code by the C17 / C10 correspondence (recvharness c17, c10: real channel, real table, toy keys). *)
From Coq Require Import NArith ZArith List Bool.
From Opcua Require Import Model.RecvBase Model.RecvMerge.
Import ListNotations.
Open Scope Z_scope.

Record inst := { i_id : N;          (* object identity (pointer) *)
                 i_chan : N; i_token : N;
                 i_key : N;         (* identity of the symmetric key set *)
                 i_created : Z;     (* createdAt, ns *)
                 i_life : Z }.      (* revisedLifetime, ns *)

Definition itable := tbl (list inst).
Definition iget (t : itable) (k : N) : list inst := match tfind t k with Some l => l | None => [] end.

Record cstate := { insts : itable; now : Z; next_id : N }.

(* expirationDelay: lifetime / 4 * 5 on the duration (Go integer division truncates toward zero) *)
Definition due (i : inst) : Z := i_created i + Z.quot (i_life i) 4 * 5.

(* the table update at the end of scheduleExpiration *)
Definition expire_one (fixed : bool) (t : itable) (i : inst) : itable :=
  if fixed then
    tset t (i_chan i) (filter (fun j => negb (i_id j =? i_id i)%N) (iget t (i_chan i)))
  else
    tset t (i_token i) (filter (fun j => negb (i_token j =? i_token i)%N) (iget t (i_token i))).

Definition all_insts (t : itable) : list inst := concat (map snd t).

(* every timer whose instant has passed fires *)
Definition sweep (fixed : bool) (s : cstate) : cstate :=
  let duel := filter (fun i => due i <=? now s) (all_insts (insts s)) in
  {| insts := fold_left (expire_one fixed) duel (insts s); now := now s; next_id := next_id s |}.

Inductive cop :=
| Install (chan token key : N) (created life : Z)   (* OpenSecureChannelResponse handled: new instance appended, timer armed *)
| OpenFailed (chan token key : N)                   (* an OpenSecureChannel exchange that fails (e.g. key derivation: null nonce): nothing is published *)
| Tick (dt : Z).                                    (* the clock advances *)

Definition cstep (fixed : bool) (s : cstate) (o : cop) : cstate :=
  match o with
  | Install chan token key created life =>
      let i := Build_inst (next_id s) chan token key created life in
      sweep fixed {| insts := tset (insts s) chan (iget (insts s) chan ++ [i]); now := now s; next_id := (next_id s + 1)%N |}
  | OpenFailed _ _ _ => sweep fixed s
  | Tick dt => sweep fixed {| insts := insts s; now := now s + Z.max 0 dt; next_id := next_id s |}
  end.

Definition crun (fixed : bool) (s : cstate) (ops : list cop) : cstate := fold_left (cstep fixed) ops s.
Definition cinit (t0 : Z) : cstate := {| insts := []; now := t0; next_id := 0 |}.

(* SecureChannel.verifyAndDecrypt: some instance stored under the chunk's channel id verifies it *)
Definition accepts (s : cstate) (chan key : N) : bool := existsb (fun i => (i_key i =? key)%N) (iget (insts s) chan).

(* every instance the history installed (with the identity it got) *)
Fixpoint installed (n : N) (ops : list cop) : list inst :=
  match ops with
  | [] => []
  | Install chan token key created life :: r => Build_inst n chan token key created life :: installed (n + 1)%N r
  | OpenFailed _ _ _ :: r => installed n r
  | Tick _ :: r => installed n r
  end.

(* ---- replay (C10): the receive path as a function of a history of secured chunks ---- *)
Record schunk := { sc_chan : N; sc_key : N; sc_chunk : chunk }.

Open Scope N_scope.
(* checkSequenceNumber: the first chunk may carry any number; afterwards greater than the last accepted one, or the
   roll-over of Part 6, 6.7.2.4 (last >= UInt32.MaxValue - 1024 and the new number below 1024) *)
Definition seq_ok (last : option N) (n : N) : bool :=
  match last with
  | None => true
  | Some l => (l <? n) || ((4294966271 <=? l) && (n <? 1024))
  end.

(* readChunk over a history: a chunk is handed on iff it verifies (first component) and its number passes the check;
   only then the remembered number advances.  The verification result is per occurrence, so renewals and expiries between
   the chunks are covered. *)
Fixpoint accept_seq (last : option N) (h : list (bool * chunk)) : list chunk :=
  match h with
  | [] => []
  | (v, c) :: r => if v && seq_ok last (ck_seq c) then c :: accept_seq (Some (ck_seq c)) r else accept_seq last r
  end.

Definition accepted (s : cstate) (h : list schunk) : list chunk :=
  accept_seq None (map (fun c => (accepts s (sc_chan c) (sc_key c), sc_chunk c)) h).

(* the same on a stream in which every chunk verifies (mode None, or a conforming peer) *)
Definition seq_filter (cs : list chunk) : list chunk := accept_seq None (map (fun c => (true, c)) cs).

(* s' may be accepted after s: larger, or the roll-over *)
Definition seq_after (s s' : N) : Prop := s < s' \/ (4294966271 <= s /\ s' < 1024).
Fixpoint increasing (l : list N) : Prop :=
  match l with a :: ((b :: _) as r) => seq_after a b /\ increasing r | _ => True end.

(* readChunk before the sequence check existed: exactly the chunks some instance verifies *)
Definition accepted_prefix (s : cstate) (h : list schunk) : list chunk :=
  map sc_chunk (filter (fun c => accepts s (sc_chan c) (sc_key c)) h).
