(* ChunkBytes.v — byte-string utilities shared by the chunk (E4) and crypto (E5) models.
   Bytes are Byte.byte, sizes are Z (lengths via zlen), slicing by ztake/zdrop. *)
From Coq Require Import ZArith List Bool String Ascii.
From Coq.Strings Require Import Byte.
Import ListNotations.
Open Scope Z_scope.

Definition bytes := list byte.

Definition zlen {A} (l : list A) : Z := Z.of_nat (List.length l).
Definition ztake {A} (n : Z) (l : list A) : list A := firstn (Z.to_nat n) l.
Definition zdrop {A} (n : Z) (l : list A) : list A := skipn (Z.to_nat n) l.
Definition znth (n : Z) (l : bytes) : byte := nth (Z.to_nat n) l x00.

(* byte <-> Z *)
Definition zb (b : byte) : Z := Z.of_N (Byte.to_N b).
Definition b8 (z : Z) : byte :=
  match Byte.of_N (Z.to_N (Z.land z 255)) with Some b => b | None => x00 end.   (* = z mod 256, see b8_mod *)

(* little-endian uint32, as encoding/binary.LittleEndian.PutUint32(uint32(z)) *)
Definition le32 (z : Z) : bytes :=
  [b8 z; b8 (z / 256); b8 (z / 65536); b8 (z / 16777216)].
Definition de32 (l : bytes) : Z :=
  match l with
  | a :: b :: c :: d :: _ => zb a + 256 * zb b + 65536 * zb c + 16777216 * zb d
  | _ => 0
  end.

(* binary.LittleEndian.PutUint32(b[off:], v); None = the Go code panics (slice too short) *)
Definition put32 (off : Z) (b : bytes) (v : Z) : option bytes :=
  if (off <? 0) || (zlen b <? off + 4) then None
  else Some (ztake off b ++ le32 v ++ zdrop (off + 4) b).

(* outcomes: Ok / error (small enum) / Go run-time panic *)
Inductive err := ESecurityChecks | EDecode | EUnknownChannel | ETooManyChunks | EMessageTooLarge | EEOF | EUnsupported | EOutOfFuel | ESequenceNumber.
Inductive res (A : Type) := Ok (a : A) | Err (e : err) | Panic.
Arguments Ok {A} a.
Arguments Err {A} e.
Arguments Panic {A}.

(* hex strings (case data is shipped as hex) *)
Definition hexval (c : ascii) : Z :=
  let n := Z.of_N (N_of_ascii c) in
  if (48 <=? n) && (n <=? 57) then n - 48
  else if (97 <=? n) && (n <=? 102) then n - 87
  else if (65 <=? n) && (n <=? 70) then n - 55 else 0.
Fixpoint unhex (s : string) : bytes :=
  match s with
  | String a (String b r) => b8 (16 * hexval a + hexval b) :: unhex r
  | _ => []
  end.

(* position-sensitive checksum (no modulus: sums stay far below 2^63 for strings up to 2^21 bytes);
   used to compare long byte strings between implementation and model, and inside the toy MAC *)
Definition cksum (l : bytes) : Z * Z :=
  fold_left (fun ab x => let s := fst ab + zb x in (s, snd ab + s)) l (1, 0).

(* deterministic body generator shared with the Go harness: byte i = (a + b*i + (i >> 8)) mod 256 *)
Fixpoint gen_body_from (n : nat) (i a b : Z) : bytes :=
  match n with
  | O => []
  | S n' => b8 (a + b * i + Z.shiftr i 8) :: gen_body_from n' (i + 1) a b
  end.
Definition gen_body (len a b : Z) : bytes := gen_body_from (Z.to_nat len) 0 a b.

Definition bytes_eqb (x y : bytes) : bool :=
  (fix go (x y : bytes) : bool :=
     match x, y with
     | [], [] => true
     | a :: x', b :: y' => Byte.eqb a b && go x' y'
     | _, _ => false
     end) x y.
