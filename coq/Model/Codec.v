(* E1 codec: executable model of ua/buffer.go, ua/encode.go, ua/decode.go and the eight hand-written codecs
   (variant.go, datatypes.go, diagnostic_info.go, node_id.go, expanded_node_id.go, extension_object.go).
   Transcribed from the Go code in the same order of checks.  Conventions:
   - every Go operation that can panic is an explicit Panic / EPanic outcome;
   - Go's sticky Buffer error is modelled by stopping at the first error (Go goes on with no-op reads and returns
     that first error; the places where Go's later behaviour differs are noted);
   - `al` accounts the bytes Go allocates (reflect.MakeSlice / reflect.New / make / string conversion), at the point
     where Go allocates them, i.e. before the elements are read;
   - fuel = nesting depth of the recursive codecs (Variant, DataValue, DiagnosticInfo, ExtensionObject body): Go's
     recursion depth.  It only decreases at those boundaries. *)
From Coq Require Import NArith ZArith List Bool Lia.
From Coq.Strings Require Import Byte.
From Opcua Require Import Model.CodecTypes.
Import ListNotations.
Open Scope Z_scope.

(* ------------------------------------------------------------------ little endian *)
Definition byte_of_Z (z : Z) : byte :=
  match Byte.of_N (Z.to_N (z mod 256)) with Some b => b | None => x00 end.
Definition Z_of_byte (b : byte) : Z := Z.of_N (Byte.to_N b).

Fixpoint le (w : nat) (z : Z) : bytes :=
  match w with O => [] | S w' => byte_of_Z z :: le w' (z / 256) end.
Fixpoint unle (bs : bytes) : Z :=
  match bs with [] => 0 | b :: r => Z_of_byte b + 256 * unle r end.

Definition pow8 (w : nat) : Z := 2 ^ (8 * Z.of_nat w).
Definition to_signed (w : nat) (n : Z) : Z := if n <? pow8 w / 2 then n else n - pow8 w.

Definition null32 : Z := 4294967295.
Definition max_int32 : Z := 2147483647.
Definition f32qnan : Z := 4290772992.             (* 0xffc00000 *)
Definition f64qnan : Z := 18444492273895866368.   (* 0xfff8000000000000 *)
Definition max_variant_array_length : Z := 65535.
Definition max_variant_array_dimensions : Z := 32.
(* ua.MaxNestingLevel: how many Variant / DataValue / DiagnosticInfo / ExtensionObject values may be nested *)
Definition max_nesting_level : nat := 100.
Definition time_offset : Z := 116444736000000000.

Definition is_nan (w : nat) (bits : Z) : bool :=
  match w with
  | 4%nat => 2139095040 <? bits mod 2147483648              (* 0x7f800000, 2^31 *)
  | _ => 9218868437227405312 <? bits mod 9223372036854775808   (* 0x7ff0000000000000, 2^63 *)
  end.
Definition qnan (w : nat) : Z := match w with 4%nat => f32qnan | _ => f64qnan end.
Definition canon_float (w : nat) (bits : Z) : Z := if is_nan w bits then qnan w else bits.

Definition blen (bs : bytes) : Z := Z.of_nat (length bs).
Definition zlen {A} (l : list A) : Z := Z.of_nat (length l).

(* ------------------------------------------------------------------ sizes (allocation accounting) *)
Definition csize (c : custom) : N :=
  match c with
  | CVariant => 56 | CDataValue => 80 | CDiagInfo => 48 | CLocText => 40
  | CNodeID => 48 | CExpNodeID => 32 | CExtObj => 32 | CGUID => 32
  end%N.

(* size of a Go value of the described type (upper bound: every field rounded up to 8 bytes) *)
Fixpoint tsize (t : ty) : N :=
  match t with
  | TBool => 1 | TInt w _ => N.of_nat w | TFloat w => N.of_nat w
  | TString => 16 | TTime => 24 | TBytes => 24 | TSlice _ => 24 | TPtr _ => 8 | TCustom _ => 8
  | TStruct fs => fold_right (fun f a => (8 * ((tsize f + 7) / 8) + a)%N) 0%N fs
  end%N.

(* ------------------------------------------------------------------ decoder monad *)
Definition dec (A : Type) := bytes -> res A.

Definition ret {A} (a : A) : dec A := fun bs => Ok a bs 0.
Definition fail {A} (e : err) : dec A := fun _ => Err e 0.
Definition panic {A} : dec A := fun _ => Panic 0.
Definition add_al {A} (n : N) (r : res A) : res A :=
  match r with
  | Ok a rest al => Ok a rest (n + al)
  | Err e al => Err e (n + al)
  | Panic al => Panic (n + al)
  | OutOfFuel => OutOfFuel
  end.
Definition bind {A B} (m : dec A) (f : A -> dec B) : dec B := fun bs =>
  match m bs with
  | Ok a rest al => add_al al (f a rest)
  | Err e al => Err e al
  | Panic al => Panic al
  | OutOfFuel => OutOfFuel
  end.
Notation "x <- m ;; f" := (bind m (fun x => f)) (at level 61, m at next level, right associativity).
Notation "m ;;; f" := (bind m (fun _ => f)) (at level 61, right associativity).

(* the Go code allocates n bytes here *)
Definition tick (n : N) : dec unit := fun bs => Ok tt bs n.
Definition remaining : dec Z := fun bs => Ok (blen bs) bs 0.

(* Buffer.ReadN *)
Definition read_n (n : Z) : dec bytes := fun bs =>
  if n <? 0 then Panic 0
  else if blen bs <? n then Err EEOF 0
  else Ok (firstn (Z.to_nat n) bs) (skipn (Z.to_nat n) bs) 0.

Definition read_u (w : nat) : dec Z := d <- read_n (Z.of_nat w) ;; ret (unle d).
Definition read_i (w : nat) : dec Z := d <- read_n (Z.of_nat w) ;; ret (to_signed w (unle d)).
Definition read_byte : dec Z := read_u 1.

(* Buffer.ReadBytes: 0 and null both give nil; the result aliases the input (no allocation) *)
Definition read_bytes : dec (option bytes) :=
  n <- read_u 4 ;;
  if (n =? 0) || (n =? null32) then ret None
  else d <- read_n n ;; ret (Some d).

(* Buffer.ReadString = string(ReadBytes()): copies *)
Definition read_string : dec bytes :=
  o <- read_bytes ;;
  match o with None => ret [] | Some d => tick (N.of_nat (length d)) ;;; ret d end.

(* time.Time{} (IsZero) in nanoseconds since 1970 *)
Definition zero_time_ns : Z := -62135596800000000000.

(* Buffer.ReadTime: int64 ticks of 100 ns since 1601, converted through seconds and nanoseconds (exact: a time.Time holds
   every int64 tick count); times are modelled as unbounded nanoseconds since 1970, IsZero as None *)
Definition read_time : dec (option Z) :=
  d <- read_n 8 ;;
  let ts := unle d in
  if ts =? 0 then ret None
  else let ns := (to_signed 8 ts - time_offset) * 100 in
       if ns =? zero_time_ns then ret None else ret (Some ns).

Fixpoint dec_n {A} (d : dec A) (n : nat) : dec (list A) :=
  match n with
  | O => ret []
  | S n' => x <- d ;; r <- dec_n d n' ;; ret (x :: r)
  end.

Fixpoint dec_fields (ds : list (dec val)) : dec (list val) :=
  match ds with
  | [] => ret []
  | d :: r => x <- d ;; xs <- dec_fields r ;; ret (x :: xs)
  end.

(* run a decoder on a sub-buffer (ExtensionObject body); what it leaves unread is dropped *)
Definition run_sub {A} (d : dec A) (body : bytes) : dec A := fun bs =>
  match d body with
  | Ok a _ al => Ok a bs al
  | Err e al => Err e al
  | Panic al => Panic al
  | OutOfFuel => OutOfFuel
  end.

(* decodeSlice (after the fast path test) *)
Definition dec_slice (elsize : N) (d : dec val) : dec val :=
  n <- read_u 4 ;;
  if n =? null32 then ret (VSlice None)
  else if max_int32 <? n then fail EOther
  else r <- remaining ;;
       if r <? n then fail EEOF
       else tick (Z.to_N n * elsize) ;;; l <- dec_n d (Z.to_nat n) ;; ret (VSlice (Some l)).

(* decodeSlice, []byte fast path: SetBytes(ReadN(n)) aliases the input *)
Definition dec_bytes : dec val :=
  n <- read_u 4 ;;
  if n =? null32 then ret (VBytes None)
  else if max_int32 <? n then fail EOther
  else r <- remaining ;;
       if r <? n then fail EEOF
       else d <- read_n n ;; ret (VBytes (Some d)).

(* ------------------------------------------------------------------ hand-written decoders without recursion *)
Definition bit (m : Z) (i : Z) : bool := Z.testbit m i.

Definition dec_guid : dec val :=
  tick (csize CGUID) ;;;
  d1 <- read_u 4 ;; d2 <- read_u 2 ;; d3 <- read_u 2 ;; d4 <- read_n 8 ;;
  ret (VGuid d1 d2 d3 d4).

Definition dec_nodeid : dec val :=
  tick (csize CNodeID) ;;;
  mask <- read_byte ;;
  let typ := mask mod 16 in
  if typ =? 0 then nid <- read_byte ;; ret (VNodeID mask 0 nid None None)
  else if typ =? 1 then ns <- read_byte ;; nid <- read_u 2 ;; ret (VNodeID mask ns nid None None)
  else if typ =? 2 then ns <- read_u 2 ;; nid <- read_u 4 ;; ret (VNodeID mask ns nid None None)
  else if typ =? 4 then ns <- read_u 2 ;; g <- dec_guid ;; ret (VNodeID mask ns 0 None (Some g))
  else if (typ =? 3) || (typ =? 5) then ns <- read_u 2 ;; b <- read_bytes ;; ret (VNodeID mask ns 0 b None)
  else fail EOther.

Definition nodeid_mask (v : val) : Z := match v with VNodeID m _ _ _ _ => m | _ => 0 end.

Definition dec_expnodeid : dec val :=
  tick (csize CExpNodeID) ;;;
  n <- dec_nodeid ;;
  let m := nodeid_mask n in
  uri <- (if bit m 7 then read_string else ret []) ;;
  srv <- (if bit m 6 then read_u 4 else ret 0) ;;
  ret (VExpNodeID (Some n) uri srv).

Definition dec_loctext : dec val :=
  tick (csize CLocText) ;;;
  mask <- read_byte ;;
  locale <- (if bit mask 0 then read_string else ret []) ;;
  text <- (if bit mask 1 then read_string else ret []) ;;
  ret (VLocText mask locale text).

(* ------------------------------------------------------------------ Variant *)
(* variantTypeIDToType, checked against Gen.UaTypes.variant_types in Props/C01.v *)
Definition qualified_name_ty : ty := TStruct [TInt 2 false; TString].
Definition variant_ty (tid : Z) : ty :=
  match tid with
  | 1 => TBool | 2 => TInt 1 true | 3 => TInt 1 false | 4 => TInt 2 true | 5 => TInt 2 false
  | 6 => TInt 4 true | 7 => TInt 4 false | 8 => TInt 8 true | 9 => TInt 8 false
  | 10 => TFloat 4 | 11 => TFloat 8 | 12 => TString | 13 => TTime | 14 => TCustom CGUID
  | 15 => TBytes | 16 => TString | 17 => TCustom CNodeID | 18 => TCustom CExpNodeID | 19 => TInt 4 false
  | 20 => TPtr qualified_name_ty | 21 => TCustom CLocText | 22 => TCustom CExtObj | 23 => TCustom CDataValue
  | 24 => TCustom CVariant | _ => TCustom CDiagInfo
  end.

(* size of one element of the slice Variant.Decode makes, plus what decodeValue allocates per element even when
   the buffer is already exhausted (new(T) for the pointer types) *)
Definition variant_elsize (tid : Z) : N :=
  match variant_ty tid with
  | TCustom c => 8 + csize c
  | TPtr t => 8 + tsize t
  | t => tsize t
  end%N.

Fixpoint chunks (k : nat) (step : nat) (l : list val) : list (list val) :=
  match k with O => [] | S k' => firstn step l :: chunks k' step (skipn step l) end.

(* split(): only called with product dims = length vals >= 1 (checked just before in Decode) *)
Fixpoint split (dims : list nat) (vals : list val) : val :=
  match dims with
  | [] => VSlice (Some vals)
  | d :: ds =>
    match ds with
    | [] => VSlice (Some vals)
    | _ => VSlice (Some (map (split ds) (chunks d (length vals / d) vals)))
    end
  end.

Definition zero_variant : val := VVariant 0 0 0 [] None.

(* Go's int64 multiplication *)
Definition mul64 (a b : Z) : Z := to_signed 8 ((a * b) mod pow8 8).

Section Rec.
  (* the registry of extension object bodies: (namespace, numeric id) -> struct descriptor *)
  Variable reg : list (Z * Z * ty).
  (* the decoder one nesting level further down *)
  Variable rec : ty -> dec val.

  Definition lookup (ns id : Z) : option ty :=
    match find (fun r => (fst (fst r) =? ns) && (snd (fst r) =? id)) reg with
    | Some r => Some (snd r) | None => None end.

  (* TypeRegistry.New(id): key is id.String(); only numeric ids can match "i=.." / "ns=..;i=.." *)
  Definition lookup_nodeid (n : val) : option ty :=
    match n with
    | VNodeID m ns nid _ _ =>
      let typ := m mod 16 in
      if typ =? 0 then lookup 0 nid
      else if (typ =? 1) || (typ =? 2) then lookup ns nid
      else None
    | _ => None
    end.
  Definition lookup_expnodeid (e : val) : option ty :=
    match e with VExpNodeID (Some n) _ _ => lookup_nodeid n | _ => None end.

  (* Variant.decodeValue *)
  Definition dec_builtin (tid : Z) : dec val :=
    if tid =? 15 then b <- read_bytes ;; ret (VBytes b)
    else rec (variant_ty tid).

  Definition dec_dim : dec Z :=
    d <- read_i 4 ;; if d <? 1 then fail EOther else ret d.

  (* the product of the dimensions as Variant.Decode computes it: int64 multiplications, which wrap modulo 2^64, with a
     guard after every step; the guard is what keeps the wrap unreachable (Proofs/CodecSplit.v: dims_product_exact) *)
  Fixpoint dims_product (ds : list Z) (count : Z) : option Z :=
    match ds with
    | [] => Some count
    | d :: r => let c := mul64 count d in if max_int32 <? c then None else dims_product r c
    end.

  Definition dec_variant : dec val :=
    tick (csize CVariant) ;;;
    mask <- read_byte ;;
    let tid := mask mod 64 in
    if tid =? 0 then ret (VVariant mask 0 0 [] None)
    else if 25 <? tid then fail EOther
    else if negb (bit mask 7) then v <- dec_builtin tid ;; ret (VVariant mask 0 0 [] (Some v))
    else
      alen <- read_i 4 ;;
      if max_variant_array_length <? alen then fail EOther
      else if alen <? -1 then fail EOther
      else
        rem <- remaining ;;
        if rem <? alen then fail EEOF      (* every element takes at least one byte *)
        else
        vals <- (if alen =? -1 then ret None
                 else tick (Z.to_N alen * variant_elsize tid) ;;;
                      l <- dec_n (dec_builtin tid) (Z.to_nat alen) ;; ret (Some l)) ;;
        dd <- (if bit mask 6 then
                 dl <- read_i 4 ;;
                 if (dl <? 0) || (max_variant_array_dimensions <? dl) then fail EOther
                 else r <- remaining ;;
                      if r / 4 <? dl then fail EEOF
                      else tick (Z.to_N (4 * dl)) ;;;
                           ds <- dec_n dec_dim (Z.to_nat dl) ;; ret (dl, ds)
               else ret (0, [])) ;;
        let '(dl, ds) := dd in
        if (0 <? dl) && negb (match dims_product ds 1 with Some c => c =? alen | None => false end)
        then fail EOther
        else if dl <? 2 then ret (VVariant mask alen dl ds (Some (VSlice vals)))
        else match vals with
             | Some l => (* split: one slice header per element and level; reflect.SliceOf builds one new slice type
                            per level whose name grows with the level (measured: about 2.6 * dl^2 bytes) *)
                         tick (24 * Z.to_N alen * Z.to_N dl + 3 * Z.to_N dl * Z.to_N dl) ;;;
                         ret (VVariant mask alen dl ds (Some (split (map Z.to_nat ds) l)))
             | None =>
               (* unreachable: every dimension is >= 1, so the product is >= 1 and cannot equal alen = -1.
                  (Go's split on an empty slice does not panic either: it builds dims[0] x ... empty slices.) *)
               ret (VVariant mask alen dl ds (Some (split (map Z.to_nat ds) [])))
             end.

  Definition dec_datavalue : dec val :=
    tick (csize CDataValue) ;;;
    mask <- read_byte ;;
    v <- (if bit mask 0 then rec (TCustom CVariant) else tick (csize CVariant) ;;; ret zero_variant) ;;
    status <- (if bit mask 1 then read_u 4 else ret 0) ;;
    st <- (if bit mask 2 then read_time else ret None) ;;
    sp <- (if bit mask 4 then read_u 2 else ret 0) ;;
    svt <- (if bit mask 3 then read_time else ret None) ;;
    svp <- (if bit mask 5 then read_u 2 else ret 0) ;;
    ret (VDataValue mask (Some v) status st sp svt svp).

  Definition dec_diag : dec val :=
    tick (csize CDiagInfo) ;;;
    mask <- read_byte ;;
    sym <- (if bit mask 0 then read_i 4 else ret 0) ;;
    ns <- (if bit mask 1 then read_i 4 else ret 0) ;;
    locale <- (if bit mask 3 then read_i 4 else ret 0) ;;
    loctext <- (if bit mask 2 then read_i 4 else ret 0) ;;
    info <- (if bit mask 4 then read_string else ret []) ;;
    status <- (if bit mask 5 then read_u 4 else ret 0) ;;
    inner <- (if bit mask 6 then i <- rec (TCustom CDiagInfo) ;; ret (Some i) else ret None) ;;
    ret (VDiag mask sym ns locale loctext info status inner).

  Definition xml_body_ty : ty := TPtr TString.

  Definition dec_extobj : dec val :=
    tick (csize CExtObj) ;;;
    tid <- dec_expnodeid ;;
    mask <- read_byte ;;
    if mask =? 0 then ret (VExtObj mask (Some tid) None)
    else
      len <- read_u 4 ;;
      if (len =? 0) || (len =? null32) then ret (VExtObj mask (Some tid) None)
      else
        body <- read_n len ;;
        if mask =? 2 then v <- run_sub (rec xml_body_ty) body ;; ret (VExtObj mask (Some tid) (Some v))
        else match lookup_expnodeid tid with
             | None => ret (VExtObj mask (Some tid) None)
             | Some t => v <- run_sub (rec (TPtr t)) body ;; ret (VExtObj mask (Some tid) (Some v))
             end.

  Definition dec_custom (c : custom) : dec val :=
    match c with
    | CGUID => dec_guid | CNodeID => dec_nodeid | CExpNodeID => dec_expnodeid | CLocText => dec_loctext
    | CVariant => dec_variant | CDataValue => dec_datavalue | CDiagInfo => dec_diag | CExtObj => dec_extobj
    end.
End Rec.

(* ------------------------------------------------------------------ ua.decode *)
Section Decode.
  Variable reg : list (Z * Z * ty).

  Definition dec_ptr (e : ty) (d : dec val) : dec val :=
    match e with
    | TPtr _ | TCustom _ => panic      (* decode(b, val.Elem()) on a nil inner pointer *)
    | _ => tick (tsize e) ;;; v <- d ;; ret (VPtr (Some v))
    end.

  (* the four decoders that can contain a value of their own kind: they count against ua.MaxNestingLevel *)
  Definition nested (c : custom) : bool :=
    match c with CVariant | CDataValue | CDiagInfo | CExtObj => true | _ => false end.

  (* ua.decode at one nesting level: rec decodes what is nested one level further down; allow = false: the nesting limit is
     reached, a nested decoder fails with StatusBadEncodingLimitsExceeded (its target was allocated by the caller) *)
  Definition dec_level (rec : ty -> dec val) (allow : bool) : ty -> dec val :=
    fix dec_ty (t : ty) : dec val :=
      match t with
      | TBool => b <- read_byte ;; ret (VBool (0 <? b))
      | TInt w s => z <- (if s then read_i w else read_u w) ;; ret (VInt z)
      | TFloat w => z <- read_u w ;; ret (VInt (canon_float w z))
      | TString => s <- read_string ;; ret (VStr s)
      | TTime => t <- read_time ;; ret (VTime t)
      | TBytes => dec_bytes
      | TSlice e => dec_slice (match e with TPtr x => 8 + tsize x | TCustom _ => 8 | _ => tsize e end)%N (dec_ty e)
      | TPtr e => dec_ptr e (dec_ty e)
      | TStruct fs => vs <- dec_fields (map dec_ty fs) ;; ret (VStruct vs)
      | TCustom c => if nested c && negb allow then tick (csize c) ;;; fail EOther else dec_custom reg rec c
      end.

  (* fuel = the nesting levels still allowed (ua.MaxNestingLevel at the top); with 0 levels left everything that is not
     nested is still decoded *)
  Fixpoint decode (fuel : nat) : ty -> dec val :=
    match fuel with
    | O => dec_level (fun _ => fail EOther) false
    | S f => dec_level (decode f) true
    end.

  (* the nesting levels every top-level decode starts with (ua.MaxNestingLevel); the argument is kept for the engines'
     evaluation scripts, which were written when the model used a budget derived from the input *)
  Definition fuel_for (bs : bytes) : nat := max_nesting_level.
End Decode.

(* ------------------------------------------------------------------ encoders *)
Definition eapp (a b : eres) : eres :=
  match a with
  | EOk x => match b with EOk y => EOk (x ++ y) | e => e end
  | e => e
  end.
Definition ebytes (b : bytes) : eres := EOk b.

(* Buffer.WriteString *)
Definition enc_string (s : bytes) : eres :=
  match s with
  | [] => EOk (le 4 null32)
  | _ => if max_int32 <? blen s then EErr else EOk (le 4 (blen s) ++ s)
  end.
(* Buffer.WriteByteString *)
Definition enc_bytestring (b : option bytes) : eres :=
  match b with
  | None => EOk (le 4 null32)
  | Some d => if max_int32 <? blen d then EErr else EOk (le 4 (blen d) ++ d)
  end.
(* Buffer.WriteTime *)
Definition enc_time (t : option Z) : eres :=
  match t with
  | None => EOk (le 8 0)
  | Some ns => EOk (le 8 (ns / 100 + time_offset))     (* Unix()*1e7 + Nanosecond()/100 + offset, wrapping in int64 *)
  end.

Definition enc_guid (v : val) : eres :=
  match v with
  | VGuid d1 d2 d3 d4 => EOk (le 4 d1 ++ le 2 d2 ++ le 2 d3 ++ d4)
  | VPtr None => EPanic
  | _ => EIllTyped
  end.

Definition enc_nodeid (v : val) : eres :=
  match v with
  | VNodeID mask ns nid bid gid =>
    let typ := mask mod 16 in
    eapp (EOk [byte_of_Z mask])
      (if typ =? 0 then EOk [byte_of_Z nid]
       else if typ =? 1 then EOk (byte_of_Z ns :: le 2 nid)
       else if typ =? 2 then EOk (le 2 ns ++ le 4 nid)
       else if typ =? 4 then eapp (EOk (le 2 ns)) (match gid with None => EPanic | Some g => enc_guid g end)
       else if (typ =? 3) || (typ =? 5) then eapp (EOk (le 2 ns)) (enc_bytestring bid)
       else EErr)
  | VPtr None => EPanic
  | _ => EIllTyped
  end.

Definition enc_expnodeid (v : val) : eres :=
  match v with
  | VExpNodeID None _ _ => EOk [x00; x00]
  | VExpNodeID (Some n) uri srv =>
    let m := nodeid_mask n in
    eapp (enc_nodeid n)
      (eapp (if bit m 7 then enc_string uri else EOk [])
            (if bit m 6 then EOk (le 4 srv) else EOk []))
  | VPtr None => EErr
  | _ => EIllTyped
  end.

Definition enc_loctext (v : val) : eres :=
  match v with
  | VLocText mask locale text =>
    eapp (EOk [byte_of_Z mask])
      (eapp (if bit mask 0 then enc_string locale else EOk [])
            (if bit mask 1 then enc_string text else EOk []))
  | VPtr None => EPanic
  | _ => EIllTyped
  end.

Definition eopt (b : bool) (e : eres) : eres := if b then e else EOk [].

Section Encode.
  Variable reg : list (Z * Z * ty).

  Fixpoint encode (t : ty) (v : val) {struct v} : eres :=
    match t with
    | TBool => match v with VBool b => EOk [if b then x01 else x00] | _ => EIllTyped end
    | TInt w _ => match v with VInt z => EOk (le w z) | _ => EIllTyped end
    | TFloat w => match v with VInt z => EOk (le w (canon_float w z)) | _ => EIllTyped end
    | TString => match v with VStr s => enc_string s | _ => EIllTyped end
    | TTime => match v with VTime t => enc_time t | _ => EIllTyped end
    | TBytes => match v with VBytes b => enc_bytestring b | _ => EIllTyped end
    | TSlice e =>
      match v with
      | VSlice None => EOk (le 4 null32)
      | VSlice (Some l) =>
        if max_int32 <? zlen l then EErr
        else eapp (EOk (le 4 (zlen l)))
               ((fix go (l : list val) : eres :=
                   match l with [] => EOk [] | x :: r => eapp (encode e x) (go r) end) l)
      | _ => EIllTyped
      end
    | TPtr e =>
      match v with
      | VPtr None => EOk []
      | VPtr (Some x) => encode e x
      | _ => EIllTyped
      end
    | TStruct fs =>
      match v with
      | VStruct vs =>
        (fix go (fs : list ty) (vs : list val) {struct vs} : eres :=
           match fs, vs with
           | [], [] => EOk []
           | f :: fs', x :: vs' => eapp (encode f x) (go fs' vs')
           | _, _ => EIllTyped
           end) fs vs
      | _ => EIllTyped
      end
    | TCustom CGUID => enc_guid v
    | TCustom CNodeID => enc_nodeid v
    | TCustom CExpNodeID => enc_expnodeid v
    | TCustom CLocText => enc_loctext v
    | TCustom CDiagInfo =>
      match v with
      | VDiag mask sym ns locale loctext info status inner =>
        eapp (EOk [byte_of_Z mask])
       (eapp (eopt (bit mask 0) (EOk (le 4 sym)))
       (eapp (eopt (bit mask 1) (EOk (le 4 ns)))
       (eapp (eopt (bit mask 3) (EOk (le 4 locale)))
       (eapp (eopt (bit mask 2) (EOk (le 4 loctext)))
       (eapp (eopt (bit mask 4) (enc_string info))
       (eapp (eopt (bit mask 5) (EOk (le 4 status)))
             (if bit mask 6 then match inner with None => EPanic | Some i => encode (TCustom CDiagInfo) i end
              else EOk [])))))))
      | VPtr None => EPanic
      | _ => EIllTyped
      end
    | TCustom CDataValue =>
      match v with
      | VDataValue mask value status st sp svt svp =>
        eapp (EOk [byte_of_Z mask])
       (eapp (if bit mask 0 then match value with None => EPanic | Some x => encode (TCustom CVariant) x end
              else EOk [])
       (eapp (eopt (bit mask 1) (EOk (le 4 status)))
       (eapp (eopt (bit mask 2) (enc_time st))
       (eapp (eopt (bit mask 4) (EOk (le 2 sp)))
       (eapp (eopt (bit mask 3) (enc_time svt))
             (eopt (bit mask 5) (EOk (le 2 svp))))))))
      | VPtr None => EPanic
      | _ => EIllTyped
      end
    | TCustom CVariant =>
      match v with
      | VVariant mask alen dimslen dims value =>
        let tid := mask mod 64 in
        if tid =? 0 then EOk [byte_of_Z mask]
        else
          let payload :=
            match value with
            | None => EPanic            (* reflect.ValueOf(nil).Interface() *)
            | Some p =>
              (fix enc_pl (pv : val) : eres :=
                 match pv with
                 | VSlice None => EOk []
                 | VSlice (Some l) =>
                   (fix go (l : list val) : eres :=
                      match l with [] => EOk [] | x :: r => eapp (enc_pl x) (go r) end) l
                 | _ => encode (variant_ty tid) pv
                 end) p
            end in
          let dimsb :=
            if bit mask 7 && bit mask 6 then
              if zlen dims <? dimslen then EPanic    (* m.arrayDimensions[i] out of range *)
              else EOk (le 4 dimslen ++ concat (map (le 4) (firstn (Z.to_nat dimslen) dims)))
            else EOk [] in
          eapp (EOk [byte_of_Z mask])
         (eapp (eopt (bit mask 7) (EOk (le 4 alen)))
               (match dimsb, payload with
                | EPanic, EOk _ => EPanic | EPanic, EErr => EPanic
                | _, _ => eapp payload dimsb
                end))
      | VPtr None => EPanic
      | _ => EIllTyped
      end
    | TCustom CExtObj =>
      match v with
      | VPtr None => EOk [x00; x00; x00]
      | VExtObj mask tid body =>
        match tid with
        | None => EErr      (* ExpandedNodeID.Encode: "e was nil", sticky *)
        | Some tv =>
          eapp (enc_expnodeid tv)
         (eapp (EOk [byte_of_Z mask])
               (if mask =? 0 then EOk []
                else
                  let b := match body with
                           | None => EOk []
                           | Some bv =>
                             match (if mask =? 2 then Some xml_body_ty
                                    else option_map TPtr (lookup_expnodeid reg tv)) with
                             | Some bt => encode bt bv
                             | None => EIllTyped
                             end
                           end in
                  match b with
                  | EOk bb => EOk (le 4 (blen bb) ++ bb)
                  | e => e
                  end))
        end
      | _ => EIllTyped
      end
    end.
End Encode.
