(* ServerBrowse.v — Browse of a node namespace.  Hand transcription of
     server/view_service.go    Browse (per-element loop), suitableRef, suitableDirection, suitableRefType, getSubRefs
     server/namespace_node.go  NodeNameSpace.Browse
     server/node.go            Node.DataType
     server/server.go          Server.Node
   tied to the code by the C33 correspondence (browse results of the real server for generated descriptions over
   the real standard nodeset plus generated nodes, recomputed here with vm_compute). *)
From Coq Require Import NArith ZArith Bool List.
From Opcua Require Import Model.ServerSpace.
Import ListNotations.
Open Scope N_scope.

Definition HasSubtype := 45.
Definition HasTypeDefinition := 40.
Definition StGood := 0.

Record bdesc := BD {
  bd_node : nid;
  bd_dir : N;          (* 0 Forward, 1 Inverse, 2 Both, anything else invalid *)
  bd_reftype : nid;    (* key 0 = "i=0" = not specified *)
  bd_subtypes : bool;
  bd_mask : N
}.

(* Go panics / stack exhaustion made explicit *)
Inductive res (A : Type) := Ok (a : A) | Panic (why : N) | OutOfFuel.
Arguments Ok {A} a. Arguments Panic {A} why. Arguments OutOfFuel {A}.

Definition PanicNilRefType := 1.   (* rf.ReferenceTypeID.IntID() on a nil id *)

(* Server.Node / srv.Namespace + ns.Node *)
Definition lookup_nid (sp : space) (n : nid) : option node :=
  if fst n <? sp_ns sp then get_node sp (snd n) else None.

Definition okey_eqb (a : option key) (k : key) : bool := match a with Some x => x =? k | None => false end.

(* suitableDirection *)
Definition suitable_direction (dir : N) (fwd : bool) : bool :=
  if dir =? 2 then true
  else if (dir =? 0) && fwd then true
  else if (dir =? 1) && negb fwd then true
  else false.

(* condition of the loop body of getSubRefs *)
Definition subtype_edge (r : ref) : option nid :=
  if okey_eqb (r_type r) HasSubtype && r_fwd r then r_target r else None.

(* loop of getSubRefs over node.refs; rec = the recursive call *)
Fixpoint sub_loop (rec : nid -> option (list key)) (rs : list ref) : option (list key) :=
  match rs with
  | [] => Some []
  | r :: t =>
    match subtype_edge r with
    | Some tg => match rec tg, sub_loop rec t with
                 | Some a, Some b => Some (snd tg :: a ++ b)
                 | _, _ => None
                 end
    | None => sub_loop rec t
    end
  end.

(* getSubRefs: unbounded recursion in Go; fuel = recursion depth, None = stack exhausted *)
Fixpoint sub_refs (fuel : nat) (sp : space) (n : nid) : option (list key) :=
  match fuel with
  | O => None
  | S f => match lookup_nid sp n with
           | None => Some []
           | Some nd => sub_loop (sub_refs f sp) (n_refs nd)
           end
  end.

(* suitableRefType (after the fix: without subtypes only the type itself) *)
Definition suitable_ref_type (fuel : nat) (sp : space) (ref1 : nid) (ref2 : option key) (subtypes : bool) : option bool :=
  if snd ref1 =? 0 then Some true
  else if okey_eqb ref2 (snd ref1) then Some true
  else if negb subtypes then Some false
  else match sub_refs fuel sp ref1 with
       | None => None
       | Some l => Some (existsb (okey_eqb ref2) l)
       end.

Definition class_ok (mask cls : N) : bool := negb ((0 <? mask) && (N.land mask cls =? 0)).

(* suitableRef *)
Definition suitable_ref (fuel : nat) (sp : space) (bd : bdesc) (r : ref) : option bool :=
  if negb (suitable_direction (bd_dir bd) (r_fwd r)) then Some false
  else match suitable_ref_type fuel sp (bd_reftype bd) (r_type r) (bd_subtypes bd) with
       | None => None
       | Some false => Some false
       | Some true => Some (class_ok (bd_mask bd) (r_class r))
       end.

(* Node.DataType; the receiver may be nil. None = a nil *ExpandedNodeID is returned *)
Fixpoint first_typedef (rs : list ref) : option (option key) :=
  match rs with
  | [] => None
  | r :: t => match r_type r with
              | None => first_typedef t
              | Some _ => if (r_tint r =? HasTypeDefinition) && r_fwd r
                          then match r_target r with
                               | Some tg => Some (Some (snd tg))
                               | None => first_typedef t      (* a reference without node id is skipped (since the fix) *)
                               end
                          else first_typedef t
              end
  end.

Definition data_type (td : option node) : option key :=
  match td with
  | None => Some 0
  | Some n =>
    match match alist_get AttrDataType (n_attrs n) with
          | Some d => match dv_v d with VExpId k => Some k | _ => None end
          | None => None
          end with
    | Some k => Some k
    | None => match first_typedef (n_refs n) with Some r => r | None => Some 0 end
    end
  end.

(* one returned reference description *)
Record rdesc := RD { rd_type : key; rd_fwd : bool; rd_target : key; rd_class : N; rd_typedef : option key }.

(* what Browse is able to return at all: "we can't have nils in these or the encoder will fail" *)
Definition returnable (r : ref) : bool :=
  match r_target r with Some _ => r_named r | None => false end.

Definition hoisted (r : ref) : bool := (r_tint r =? HasTypeDefinition) && r_fwd r.

Definition rdesc_of (sp : space) (r : ref) : rdesc :=
  RD (match r_type r with Some k => k | None => 0 end) (r_fwd r)
     (match r_target r with Some t => snd t | None => 0 end) (r_class r)
     (data_type (match r_target r with Some t => lookup_nid sp t | None => None end)).

(* the loop of NodeNameSpace.Browse; acc = refs so far *)
Fixpoint browse_loop (fuel : nat) (sp : space) (bd : bdesc) (rs : list ref) (acc : list (ref * rdesc))
  : res (list (ref * rdesc)) :=
  match rs with
  | [] => Ok acc
  | r :: t =>
    if negb (returnable r) then browse_loop fuel sp bd t acc
    else match suitable_ref fuel sp bd r with
         | None => OutOfFuel
         | Some false => browse_loop fuel sp bd t acc
         | Some true =>
           match r_type r with
           | None => Panic PanicNilRefType
           | Some _ => if hoisted r then browse_loop fuel sp bd t ((r, rdesc_of sp r) :: acc)
                       else browse_loop fuel sp bd t (acc ++ [(r, rdesc_of sp r)])
           end
         end
  end.

(* ViewService.Browse, one element: status and references *)
Definition browse_one (fuel : nat) (sp : space) (bd : bdesc) : res (N * list rdesc) :=
  if negb (fst (bd_node bd) <? sp_ns sp) then Ok (StBad, [])
  else match get_node sp (snd (bd_node bd)) with
       | None => Ok (StBadNodeIDUnknown, [])
       | Some n => match browse_loop fuel sp bd (n_refs n) [] with
                   | Ok l => Ok (StGood, map snd l)
                   | Panic w => Panic w
                   | OutOfFuel => OutOfFuel
                   end
       end.

Fixpoint browse_all (fuel : nat) (sp : space) (l : list bdesc) : res (list (N * list rdesc)) :=
  match l with
  | [] => Ok []
  | bd :: t => match browse_one fuel sp bd with
               | Ok x => match browse_all fuel sp t with
                         | Ok xs => Ok (x :: xs)
                         | Panic w => Panic w
                         | OutOfFuel => OutOfFuel
                         end
               | Panic w => Panic w
               | OutOfFuel => OutOfFuel
               end
  end.

(* ---------------- the specification (Part 4, 5.8.2) ---------------- *)

(* a is a direct supertype of b: a has a forward HasSubtype reference to b *)
Definition sub_edge (sp : space) (a b : nid) : Prop :=
  exists nd r, lookup_nid sp a = Some nd /\ In r (n_refs nd) /\ subtype_edge r = Some b.

(* transitive closure *)
Inductive sub_plus (sp : space) : nid -> nid -> Prop :=
| sub_one : forall a b, sub_edge sp a b -> sub_plus sp a b
| sub_more : forall a c b, sub_edge sp a c -> sub_plus sp c b -> sub_plus sp a b.

Definition spec_type_ok (sp : space) (bd : bdesc) (r : ref) : Prop :=
  snd (bd_reftype bd) = 0 \/
  r_type r = Some (snd (bd_reftype bd)) \/
  (bd_subtypes bd = true /\ exists b, sub_plus sp (bd_reftype bd) b /\ r_type r = Some (snd b)).

Definition spec_match (sp : space) (bd : bdesc) (r : ref) : Prop :=
  suitable_direction (bd_dir bd) (r_fwd r) = true /\
  spec_type_ok sp bd r /\
  class_ok (bd_mask bd) (r_class r) = true.

(* well-formedness used by the theorems *)
Definition refs_typed (sp : space) : Prop :=
  forall k n r, get_node sp k = Some n -> In r (n_refs n) -> r_type r <> None.
Definition refs_typedb (sp : space) : bool :=
  forallb (fun kn => forallb (fun r => match r_type r with Some _ => true | None => false end) (n_refs (snd kn))) (sp_nodes sp).

(* ---------------- MapNamespace.Browse (server/namespace_map.go) ----------------
   A map namespace has no stored nodes: the references of its Root (i=84) and Objects (i=85) nodes are made up on the fly
   - Root Organizes Objects; Objects HasComponent one Variable per key of the map - and then filtered by suitableRef like
   the references of a node namespace (since the fix; before, the browse description was ignored). Every other node id
   answers Good without references. `node_int` = NodeID.IntID() of the browsed node, `objects` = key of ns;i=85. *)
Definition Organizes := 35.
Definition HasComponent := 47.
Definition RootFolderInt := 84.
Definition ObjectsFolderInt := 85.

Definition map_refs (ns : N) (objects : key) (keys : list key) (node_int : N) : list ref :=
  if node_int =? RootFolderInt then [Ref (Some Organizes) Organizes true (Some (ns, objects)) 1 true]
  else if node_int =? ObjectsFolderInt then map (fun k => Ref (Some HasComponent) HasComponent true (Some (ns, k)) 2 true) keys
  else [].

Fixpoint map_loop (fuel : nat) (sp : space) (bd : bdesc) (rs : list ref) : res (list ref) :=
  match rs with
  | [] => Ok []
  | r :: t => match suitable_ref fuel sp bd r with
              | None => OutOfFuel
              | Some b => match map_loop fuel sp bd t with
                          | Ok l => Ok (if b then r :: l else l)
                          | Panic w => Panic w
                          | OutOfFuel => OutOfFuel
                          end
              end
  end.

(* the type definition reported is the target itself *)
Definition map_rdesc (r : ref) : rdesc :=
  let tg := match r_target r with Some t => snd t | None => 0 end in
  RD (match r_type r with Some k => k | None => 0 end) (r_fwd r) tg (r_class r) (Some tg).

Definition map_browse (fuel : nat) (sp : space) (ns : N) (objects : key) (keys : list key) (node_int : N) (bd : bdesc)
  : res (N * list rdesc) :=
  match map_loop fuel sp bd (map_refs ns objects keys node_int) with
  | Ok l => Ok (StGood, map map_rdesc l)
  | Panic w => Panic w
  | OutOfFuel => OutOfFuel
  end.
