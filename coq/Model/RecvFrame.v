(* RecvFrame.v -- model of SecureChannel.readChunk (uasc/secure_channel.go) on one UACP frame, in any channel state:
   header decoding, the OPN branch driven by the untrusted security header, CLO, the dispatch of MSG chunks over the
   instances stored for the channel id, verifyAndDecrypt (Model.RecvCrypto), sequence header decoding.
   Certificate parsing + uapolicy.Asymmetric is an oracle parameter.  A nil algorithm is an explicit Panic.
   Followed by the Receive loop's buffering (Model.RecvMerge).  Tied by recvharness c13 (VerifChannel.ReadChunk on real
   client/server channels, every state, fuzzed frames; model evaluated in Coq on the same bytes). *)
From Coq Require Import NArith ZArith List Bool.
From Opcua Require Import Model.RecvBase Model.RecvCrypto Model.RecvMerge Model.RecvChan.
Import ListNotations.
Open Scope Z_scope.

Record algo := { a_dec : bytes -> option bytes; a_verify : bytes -> bytes -> bool; a_rsl : Z; a_lsl : Z }.

Record fstate := { f_mode : smode;
                   f_pnone : bool;                      (* cfg.SecurityPolicyURI == #None *)
                   f_opening : option (option algo);    (* None: openingInstance == nil; Some None: instance whose algo is nil *)
                   f_insts : list (N * list (option algo));   (* instances per channel id, oldest first *)
                   f_cap : Z;                           (* capacity of the frame buffer = ReceiveBufSize *)
                   f_last : option N }.                 (* sequence number of the chunk accepted last on this channel *)

Definition E_STATE : N := 3.    (* "invalid state. openingInstance is nil" *)
Definition E_CERT : N := 4.     (* certificate does not parse / not RSA / Asymmetric() refuses *)
Definition E_EOF : N := 5.      (* CLO *)
Definition E_NOINST : N := 6.   (* "unable to find instance for SecureChannelID" *)
Definition E_SEQ : N := 7.      (* "decode sequence header failed" *)
Definition E_CERTKEY : N := 9.  (* the sender certificate parses but its key is not an RSA key: StatusBadCertificateInvalid *)
Definition E_BADSEQ : N := 8.   (* ua.StatusBadSequenceNumberInvalid: number not greater than the last accepted one *)

Definition with_last (st : fstate) (n : N) : fstate :=
  {| f_mode := f_mode st; f_pnone := f_pnone st; f_opening := f_opening st; f_insts := f_insts st; f_cap := f_cap st; f_last := Some n |}.

(* SecurityPolicyURI and SenderCertificate of an OPN chunk that decodes *)
Definition take_bytes (b : bytes) : option (bytes * bytes) :=
  match read_u32 b with
  | None => None
  | Some (n, r) =>
      if (n =? 0)%N || (n =? 4294967295)%N then Some ([], r)
      else if (Z.of_N n <=? zlen r) then Some (firstn (N.to_nat n) r, skipn (N.to_nat n) r) else None
  end.
Definition asym_fields (b : bytes) : option (bytes * bytes) :=
  match take_bytes (skipn 12 b) with
  | None => None
  | Some (uri, r) => match take_bytes r with None => None | Some (cert, _) => Some (uri, cert) end
  end.

Section Frame.
  Variable uri_none : bytes -> bool.                       (* uri == ua.SecurityPolicyURINone *)
  Variable cert_class : bytes -> N.                        (* uapolicy.ParseCertificate + key type: 0 does not parse, 1 parses with a non-RSA key, else RSA *)
  Variable asym_for : bytes -> bytes -> option algo.       (* uapolicy.Asymmetric(uri, local key, the certificate's RSA key); None = error *)
  Variable guards : bool.

  Definition vd_with (st : fstate) (a : option algo) (h : chunk_hdr) (b : bytes) : res bytes :=
    if (match f_mode st with SNone => true | _ => false end) && (f_pnone st || negb (h_asym h)) then Ok (h_data h)
    else match a with
         | None => if guards then Err E_SEC else Panic P_NIL  (* nil algorithm: rejected (before the fix: nil dereference) *)
         | Some al => verify_decrypt (a_dec al) (a_verify al) (a_rsl al) (a_lsl al) (f_mode st) (f_pnone st) guards
                        (h_asym h) (h_len h) (h_data h) b
         end.

  (* for i := len(instances)-1; i >= 0; i-- : first success wins, otherwise the last error (a panic propagates) *)
  Fixpoint try_insts (st : fstate) (l : list (option algo)) (h : chunk_hdr) (b : bytes) (last : res bytes) : res bytes :=
    match l with
    | [] => last
    | a :: l' => match vd_with st a h b with
                 | Ok d => Ok d
                 | Panic p => Panic p
                 | Err e => try_insts st l' h b (Err e)
                 end
    end.

  Definition find_insts (st : fstate) (c : N) : list (option algo) :=
    match find (fun kv => (fst kv =? c)%N) (f_insts st) with Some kv => snd kv | None => [] end.

  Definition seq_decode (d : bytes) : res (N * N * bytes) :=
    match read_u32 d with
    | None => Err E_SEQ
    | Some (s, r) => match read_u32 r with None => Err E_SEQ | Some (q, r') => Ok (s, q, r') end
    end.

  (* the tail of readChunk: sequence header, then checkSequenceNumber on the verified chunk *)
  Definition finish (h : chunk_hdr) (st' : fstate) (r : res bytes) : fstate * res chunk :=
    match bind r seq_decode with
    | Ok (s, q, rest) =>
        if seq_ok (f_last st') s then (with_last st' s, Ok (Build_chunk (h_ctype h) s q rest))
        else (st', Err E_BADSEQ)
    | Err e => (st', Err e)
    | Panic p => (st', Panic p)
    end.

  Definition read_frame (st : fstate) (b : bytes) : fstate * res chunk :=
    if f_cap st <? 12 then (st, Panic P_SLICE)              (* b[:hdrlen] beyond the capacity *)
    else match chunk_decode b with
    | None => (st, Err E_DECODE)
    | Some h =>
        if bytes_eqb (h_type h) MT_OPN then
          match f_opening st with
          | None => (st, Err E_STATE)
          | Some oa =>
              match asym_fields b with
              | None => (st, Err E_DECODE)
              | Some (uri, cert) =>
                  let st1 := {| f_mode := f_mode st; f_pnone := uri_none uri; f_opening := f_opening st;
                                f_insts := f_insts st; f_cap := f_cap st; f_last := f_last st |} in
                  if uri_none uri then finish h st1 (vd_with st1 oa h b)
                  else if (cert_class cert =? 0)%N then (st1, Err E_CERT)
                  else if (cert_class cert =? 1)%N then (st1, Err E_CERTKEY)
                  else match asym_for uri cert with
                       | None => (st1, Err E_CERT)
                       | Some al =>
                           let st2 := {| f_mode := f_mode st; f_pnone := false; f_opening := Some (Some al);
                                         f_insts := f_insts st; f_cap := f_cap st; f_last := f_last st |} in
                           finish h st2 (vd_with st2 (Some al) h b)
                       end
              end
          end
        else if bytes_eqb (h_type h) MT_CLO then (st, Err E_EOF)
        else
          match rev (find_insts st (h_chan h)) with
          | [] => (st, Err E_NOINST)
          | l => finish h st (try_insts st l h b (Err E_NOINST))
          end
    end.

  (* the algorithms a state can reach for *)
  Definition algo_ok (a : option algo) : Prop := match a with Some al => 0 <= a_rsl al | None => True end.
  Definition state_ok (st : fstate) : Prop :=
    12 <= f_cap st /\
    (forall c l a, In (c, l) (f_insts st) -> In a l -> algo_ok a) /\
    (forall oa, f_opening st = Some oa -> algo_ok oa) /\
    (forall uri cert al, asym_for uri cert = Some al -> 0 <= a_rsl al).
End Frame.

(* ---- the dispatcher's hand-off (client): the HACK around OpenSecureChannelResponse ----
   open() publishes the id of the request it waits for (openingReqID, 0 = none) and clears it when it returns; whenever it
   returns it unlocks rcvLocker.  The dispatcher, after popping the handler of a delivered message, locks rcvLocker for an
   OpenSecureChannelResponse and then waits until it is unlocked.  [fixed = true]: it locks only if the message's request
   id is the published one (lockIf); [fixed = false]: it locked for every OpenSecureChannelResponse that had a handler. *)
Record dstate := { d_handlers : list N; d_opening : option N }.    (* None: no open() in flight *)
Inductive dmsg := DMsg (req : N) (is_osc_response : bool).
(* one dispatcher iteration on a received message; None = the dispatcher waits in waitIfLock for ever *)
Definition disp_step (fixed : bool) (s : dstate) (m : dmsg) : option dstate :=
  let '(DMsg req osc) := m in
  if existsb (N.eqb req) (d_handlers s) then
    let hs := filter (fun x => negb (x =? req)%N) (d_handlers s) in
    let locks := if fixed then osc && negb (req =? 0)%N && (match d_opening s with Some r => (r =? req)%N | None => false end)
                 else osc in
    if locks then
      match d_opening s with
      | Some _ => Some {| d_handlers := hs; d_opening := None |}      (* open() handles the response, returns, unlocks *)
      | None => None                                                  (* nobody will ever unlock *)
      end
    else Some {| d_handlers := hs; d_opening := d_opening s |}
  else Some s.
