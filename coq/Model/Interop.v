(* Interop.v — small models of the steps a stock gopcua client and a stock gopcua server go through when the
   client connects to an advertised endpoint (C37).  Every step is an executable boolean / function:

     init_endpoints          server/server.go  initEndpoints            (hand transcription; tied by comparing the
                                                                          real GetEndpoints answer, C37 harness)
     select_endpoint         the harness' choice: first endpoint with the requested policy and mode
     security_from_endpoint  config.go SecurityFromEndpoint              (hand transcription)
     asym_accept             uapolicy.Asymmetric constructors            (table Gen.PolicyParams.asym_rows, by calling them)
     nonce_ok                channel nonce lengths of both ends           (Gen.PolicyParams + Part 7 table below)
     sym_ok                  uapolicy.Symmetric, both directions          (Gen.InteropTables.sym_dir, by calling it)
     session_sig_ok          NewSessionSignature / VerifySessionSignature (Gen.InteropTables.asym_rt + session nonce constants)
     user_token_ok           EncryptUserPassword with the token policy    (asym_accept at the token policy's URI)

   The tables are parameters of the definitions so that the theorems of Props/C37.v are statements about
   Gen.* as regenerated from /repo on every run. *)
From Coq Require Import ZArith Bool List String.
Import ListNotations.
Open Scope string_scope.
Open Scope Z_scope.

Inductive tok := TAnon | TUser.
Definition tok_eqb (a b : tok) : bool := match a, b with TAnon, TAnon | TUser, TUser => true | _, _ => false end.

(* message security modes as in ua.MessageSecurityMode: 1 None, 2 Sign, 3 SignAndEncrypt *)
Record secpair := { sc_pol : string; sc_mode : Z }.
(* a user token policy; its PolicyID string is lower(type) ++ "_" ++ lower(uri), i.e. a function of the pair *)
Record tokpol := { tp_type : tok; tp_uri : string }.
Record endpoint := { ep_pol : string; ep_mode : Z; ep_level : Z; ep_toks : list tokpol }.

Definition tokpol_eqb (a b : tokpol) : bool := tok_eqb (tp_type a) (tp_type b) && String.eqb (tp_uri a) (tp_uri b).
Definition tokpols_eqb (a b : list tokpol) : bool :=
  Nat.eqb (List.length a) (List.length b) && forallb (fun p => tokpol_eqb (fst p) (snd p)) (combine a b).
Definition endpoint_eqb (a b : endpoint) : bool :=
  String.eqb (ep_pol a) (ep_pol b) && (ep_mode a =? ep_mode b) && (ep_level a =? ep_level b) && tokpols_eqb (ep_toks a) (ep_toks b).
Definition endpoints_eqb (a b : list endpoint) : bool :=
  Nat.eqb (List.length a) (List.length b) && forallb (fun p => endpoint_eqb (fst p) (snd p)) (combine a b).

(* ---- lookups in the generated tables ---- *)
Fixpoint assoc {A} (k : string) (l : list (string * A)) : option A :=
  match l with [] => None | (k', v) :: r => if String.eqb k k' then Some v else assoc k r end.

Definition level_of (levels : list (string * list Z)) (pol : string) (mode : Z) : Z :=
  match assoc pol levels with Some ls => nth (Z.to_nat mode) ls 0 | None => 0 end.

(* ---- server: initEndpoints (one endpoint URL) ---- *)
Definition token_step (auth : tok) (acc : list tokpol) (authSec : secpair) : list tokpol :=
  let uri := match auth with TAnon => "None" | TUser => sc_pol authSec end in
  if (negb (tok_eqb auth TAnon)) && String.eqb uri "None" then acc
  else let t := {| tp_type := auth; tp_uri := uri |} in
       if existsb (tokpol_eqb t) acc then acc else acc ++ [t].

Definition tokens_of (enabledSec : list secpair) (enabledAuth : list tok) : list tokpol :=
  fold_left (fun acc auth => fold_left (token_step auth) enabledSec acc) enabledAuth [].

Definition init_endpoints (levels : list (string * list Z)) (enabledSec : list secpair) (enabledAuth : list tok) : list endpoint :=
  map (fun sec => {| ep_pol := sc_pol sec; ep_mode := sc_mode sec; ep_level := level_of levels (sc_pol sec) (sc_mode sec);
                     ep_toks := tokens_of enabledSec enabledAuth |}) enabledSec.

(* ---- client: endpoint choice and SecurityFromEndpoint ---- *)
Definition select_endpoint (eps : list endpoint) (pol : string) (mode : Z) : option endpoint :=
  find (fun e => String.eqb (ep_pol e) pol && (ep_mode e =? mode)) eps.

(* the first token policy of the requested type; its URI (or the endpoint's when empty) becomes AuthPolicyURI *)
Definition security_from_endpoint (ep : endpoint) (t : tok) : option string :=
  match find (fun p => tok_eqb (tp_type p) t) (ep_toks ep) with
  | Some p => Some (if String.eqb (tp_uri p) "" then ep_pol ep else tp_uri p)
  | None => None
  end.

(* ---- asymmetric constructor: accept/reject and sizes, for a key of kb bytes on both ends ---- *)
Record asym_info := { ai_ok : bool; ai_plain : Z; ai_nonce : Z }.

Section WithRows.
  (* rows abstracted from Gen.InteropTables.asym_mixed: (policy, local key bytes, remote key bytes, info) *)
  Variable rows : list (string * Z * Z * asym_info).

  Fixpoint find_row (pol : string) (lk rk : Z) (l : list (string * Z * Z * asym_info)) : option asym_info :=
    match l with
    | [] => None
    | (p, a, b, i) :: r => if String.eqb p pol && (a =? lk) && (b =? rk) then Some i else find_row pol lk rk r
    end.

  (* the end holding a key of lk bytes builds uapolicy.Asymmetric(policy, own key, peer key of rk bytes) *)
  Definition asym_accept (pol : string) (lk rk : Z) : bool :=
    match find_row pol lk rk rows with Some i => ai_ok i | None => false end.
  Definition asym_plain (pol : string) (lk rk : Z) : Z :=
    match find_row pol lk rk rows with Some i => ai_plain i | None => 0 end.
  Definition asym_nonce (pol : string) (lk rk : Z) : Z :=
    match find_row pol lk rk rows with Some i => ai_nonce i | None => 0 end.
End WithRows.

(* ---- Part 7 (v1.04) profile limits: SecureChannelNonceLength, Min/MaxAsymmetricKeyLength (bytes) ---- *)
Definition spec_nonce (pol : string) : option Z :=
  if String.eqb pol "None" then Some 0
  else if String.eqb pol "Basic128Rsa15" then Some 16
  else if String.eqb pol "Basic256" then Some 32
  else if String.eqb pol "Basic256Sha256" then Some 32
  else if String.eqb pol "Aes128_Sha256_RsaOaep" then Some 32
  else if String.eqb pol "Aes256_Sha256_RsaPss" then Some 32
  else None.

Definition spec_key_range (pol : string) : option (Z * Z) :=
  if String.eqb pol "Basic128Rsa15" then Some (128, 256)
  else if String.eqb pol "Basic256" then Some (128, 256)
  else if String.eqb pol "Basic256Sha256" then Some (256, 512)
  else if String.eqb pol "Aes128_Sha256_RsaOaep" then Some (256, 512)
  else if String.eqb pol "Aes256_Sha256_RsaPss" then Some (256, 512)
  else None.

Definition spec_key_ok (pol : string) (kb : Z) : bool :=
  match spec_key_range pol with Some (lo, hi) => (lo <=? kb) && (kb <=? hi) | None => String.eqb pol "None" end.

(* ---- the composition ---- *)
Record tables := {
  t_levels : list (string * list Z);
  t_rows : list (string * Z * Z * asym_info);
  t_chunk_rt : list (Z * Z * bool);          (* OPN chunk from a sender key size to a receiver key size *)
  t_sym_nonce : list (string * Z);            (* nonce length used for key derivation per policy *)
  t_sym_dir : list (string * (bool * bool));
  t_asym_rt : list (string * bool);
  t_supported : list string;
  t_sess_cert : bool;                        (* CreateSessionResponse carries the server certificate unconditionally *)
  t_sess_nonce_server : Z;
  t_sess_nonce_client : Z }.

(* c_pol/c_mode: the endpoint the client selects; c_kb: the client's key size in bytes (0 = no certificate),
   c_skb: the server's; c_extra: further pairs the server enables (listed before the selected one) *)
Record config := { c_pol : string; c_mode : Z; c_kb : Z; c_skb : Z; c_tok : tok; c_extra : list secpair }.

(* the server of a run: None/None plus exactly the pair under test; anonymous and username enabled *)
Definition server_pairs (c : config) : list secpair :=
  {| sc_pol := "None"; sc_mode := 1 |} :: c_extra c ++
  (if String.eqb (c_pol c) "None" then [] else [{| sc_pol := c_pol c; sc_mode := c_mode c |}]).
Definition server_auth : list tok := [TAnon; TUser].

Definition endpoints_on (T : tables) (pairs : list secpair) : list endpoint :=
  init_endpoints (t_levels T) pairs server_auth.
Definition run_endpoints (T : tables) (c : config) : list endpoint := endpoints_on T (server_pairs c).

Definition secured (c : config) : bool := negb (c_mode c =? 1).

Definition chunk_rt (T : tables) (sender receiver : Z) : bool :=
  existsb (fun r => (fst (fst r) =? sender) && (snd (fst r) =? receiver) && snd r) (t_chunk_rt T).

(* both ends accept the key pair (each builds uapolicy.Asymmetric(policy, own key, peer key)) *)
Definition both_accept (T : tables) (pol : string) (c : config) : bool :=
  asym_accept (t_rows T) pol (c_kb c) (c_skb c) && asym_accept (t_rows T) pol (c_skb c) (c_kb c).

(* OpenSecureChannel: constructors accept, and the asymmetric chunk of the request (client -> server) and of the
   response (server -> client) survives signAndEncrypt / verifyAndDecrypt across the two key sizes; unsecured
   channels use nil keys, which only the None policy is run with in this matrix *)
Definition opn_ok (T : tables) (c : config) : bool :=
  existsb (String.eqb (c_pol c)) (t_supported T) &&
  (if secured c then both_accept T (c_pol c) c &&
                     (0 <? asym_plain (t_rows T) (c_pol c) (c_kb c) (c_skb c)) &&
                     (0 <? asym_plain (t_rows T) (c_pol c) (c_skb c) (c_kb c)) &&
                     chunk_rt T (c_kb c) (c_skb c) && chunk_rt T (c_skb c) (c_kb c)
   else String.eqb (c_pol c) "None").

(* channel nonces: what the client sends and what the server answers have the profile's length, and key
   derivation gets non-empty secrets *)
Definition nonce_ok (T : tables) (c : config) : bool :=
  if secured c then
    match spec_nonce (c_pol c), assoc (c_pol c) (t_sym_nonce T) with
    | Some n, Some sn => (0 <? n) && (asym_nonce (t_rows T) (c_pol c) (c_kb c) (c_skb c) =? n) &&
                         (asym_nonce (t_rows T) (c_pol c) (c_skb c) (c_kb c) =? n) && (sn =? n)
    | _, _ => false
    end
  else true.

Definition sym_ok (T : tables) (c : config) : bool :=
  match assoc (c_pol c) (t_sym_dir T) with Some (consistent, spec) => consistent && spec | None => false end.

(* CreateSession / ActivateSession signatures: server signs, client verifies, then the other way round *)
Definition session_sig_ok (T : tables) (c : config) : bool :=
  if secured c then
    both_accept T (c_pol c) c &&
    match assoc (c_pol c) (t_asym_rt T) with Some b => b | None => false end &&
    (32 <=? t_sess_nonce_server T) && (32 <=? t_sess_nonce_client T)
  else true.

(* AuthPolicyURI: from the endpoint's first token policy of the requested type; when none is listed the client keeps
   an empty URI and EncryptUserPassword falls back to the channel's policy *)
Definition auth_uri (ep : endpoint) (c : config) : string :=
  match security_from_endpoint ep (c_tok c) with Some u => u | None => c_pol c end.

Definition user_token_ok (T : tables) (ep : endpoint) (c : config) : bool :=
  match c_tok c with
  | TAnon => true
  | TUser =>
      let u := auth_uri ep c in
      if String.eqb u "None" then true      (* password sent as is *)
      else t_sess_cert T &&                  (* the password is encrypted for the certificate of the CreateSessionResponse *)
           existsb (String.eqb u) (t_supported T) && asym_accept (t_rows T) u (c_kb c) (c_skb c) &&
           (0 <? asym_plain (t_rows T) u (c_kb c) (c_skb c)) &&
           match assoc u (t_asym_rt T) with Some b => b | None => false end
  end.

Definition token_advertised_on (T : tables) (pairs : list secpair) (c : config) : bool :=
  match select_endpoint (endpoints_on T pairs) (c_pol c) (c_mode c) with
  | Some ep => match security_from_endpoint ep (c_tok c) with Some _ => true | None => false end
  | None => false
  end.

Definition token_advertised (T : tables) (c : config) : bool := token_advertised_on T (server_pairs c) c.

(* connection against a server enabling an arbitrary list of pairs (the matrix uses server_pairs c) *)
Definition connect_ok_on (T : tables) (pairs : list secpair) (c : config) : bool :=
  match select_endpoint (endpoints_on T pairs) (c_pol c) (c_mode c) with
  | None => false                                             (* endpoint not advertised *)
  | Some ep =>
      (0 <? ep_level ep) && opn_ok T c && nonce_ok T c && sym_ok T c && session_sig_ok T c && user_token_ok T ep c
  end.

Definition connect_ok (T : tables) (c : config) : bool := connect_ok_on T (server_pairs c) c.

(* ---- the finite set of configurations, computed from the tables ---- *)
Definition key_sizes : list Z := [128; 256; 384; 512].   (* RSA-1024/2048/3072/4096 *)
Definition modes : list Z := [1; 2; 3].

(* key size pairs (client, server): both within the policy's limits as each end's constructor sees them *)
Definition key_pairs (T : tables) (pol : string) (m : Z) : list (Z * Z) :=
  if m =? 1 then [(0, 0)]
  else filter (fun p => asym_accept (t_rows T) pol (fst p) (snd p) && asym_accept (t_rows T) pol (snd p) (fst p))
              (list_prod key_sizes key_sizes).

Definition configs_of_policy (T : tables) (pol : string) : list config :=
  flat_map (fun m =>
    if 0 <? level_of (t_levels T) pol m then
      flat_map (fun kp =>
        flat_map (fun t => let c := {| c_pol := pol; c_mode := m; c_kb := fst kp; c_skb := snd kp; c_tok := t; c_extra := [] |} in
                           if token_advertised T c then [c] else [])
                 [TAnon; TUser])
        (key_pairs T pol m)
    else []) modes.

(* the None/None endpoint of a server that ALSO enables a secured pair (xpol, xm) and holds a key of skb bytes: it
   advertises the user-name token policy of that pair there too; the client needs no certificate of its own *)
Definition none_cells_of (T : tables) (xpol : string) : list config :=
  if String.eqb xpol "None" then [] else
  flat_map (fun xm =>
    if 0 <? level_of (t_levels T) xpol xm then
      flat_map (fun skb =>
        flat_map (fun t => let c := {| c_pol := "None"; c_mode := 1; c_kb := 0; c_skb := skb; c_tok := t;
                                       c_extra := [{| sc_pol := xpol; sc_mode := xm |}] |} in
                           if token_advertised T c then [c] else [])
                 [TAnon; TUser])
        (filter (fun skb => asym_accept (t_rows T) xpol 0 skb) key_sizes)
    else []) modes.

Definition all_configs (T : tables) : list config :=
  flat_map (configs_of_policy T) (t_supported T) ++ flat_map (none_cells_of T) (t_supported T).
