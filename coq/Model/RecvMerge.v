(* RecvMerge.v -- model of the chunk buffering in SecureChannel.Receive and of mergeChunks
   (uasc/secure_channel.go), as they are after readChunk has produced a verified chunk.
   Transcribed in the order of the Go code; tied to the code by the C12 correspondence
   (go/cmd/recvharness c12: a real channel fed over TCP, outputs and chunk table compared). *)
From Coq Require Import NArith List Bool.
From Opcua Require Import Model.RecvBase.
Import ListNotations.
Open Scope N_scope.

Record chunk := { ck_type : N;      (* Header.ChunkType, a byte: 65 'A', 67 'C', 70 'F', anything else is treated as final *)
                  ck_seq : N;       (* SequenceHeader.SequenceNumber *)
                  ck_req : N;       (* SequenceHeader.RequestID *)
                  ck_data : bytes }.

Definition CT_A : N := 65.
Definition CT_C : N := 67.
Definition CT_F : N := 70.

(* mergeChunks, loop part:
     var seqnr uint32
     for i, c := range chunks { if i > 0 && c.seq == seqnr { continue }; seqnr = c.seq; b = append(b, c.Data...) }  *)
Fixpoint merge_loop (first : bool) (seqnr : N) (acc : bytes) (cs : list chunk) : bytes :=
  match cs with
  | [] => acc
  | c :: cs' =>
      if negb first && (ck_seq c =? seqnr) then merge_loop false seqnr acc cs'
      else merge_loop false (ck_seq c) (acc ++ ck_data c) cs'
  end.

Definition merge (cs : list chunk) : bytes :=
  match cs with
  | [] => []
  | [c] => ck_data c
  | _ => merge_loop true 0 [] cs
  end.

(* mergeChunks as it was before the fix (duplicate filter armed with 0 from the start); kept to document the defect *)
Definition merge_prefix (cs : list chunk) : bytes :=
  match cs with
  | [] => []
  | [c] => ck_data c
  | _ => merge_loop false 0 [] cs
  end.

(* MessageAbort.Decode: ErrorCode uint32, Reason string.  None = decode error *)
Definition abort_decode (d : bytes) : option N :=
  match read_u32 d with
  | None => None
  | Some (code, r) =>
      match read_u32 r with
      | None => None
      | Some (n, s) =>
          if (n =? 0) || (n =? 4294967295) then Some code
          else if n <=? blen s then Some code else None
      end
  end.

(* what one iteration of the Receive loop hands on *)
Inductive rout :=
| RDeliver (req : N) (body : bytes)      (* merged body, passed to ua.DecodeService *)
| RAbort (req : N) (code : N)            (* MessageBody{RequestID, Err: StatusCode(code)} *)
| RAbortBad (req : N)                    (* MSGA that does not decode: StatusBadDecodingError *)
| RTooMany (req : N) (n : N)             (* "too many chunks: n > MaxChunkCount" *)
| RTooLarge (req : N) (len : N).         (* "message too large" *)

(* a negotiated limit of zero means no limit:  max > 0 && n > max *)
Definition over (max n : N) : bool := (0 <? max) && (max <? n).

Definition ctable := tbl (list chunk).

Definition cget (t : ctable) (k : N) : list chunk := match tfind t k with Some l => l | None => [] end.

Definition recv_step (max_cc max_ms : N) (t : ctable) (c : chunk) : ctable * option rout :=
  let req := ck_req c in
  if ck_type c =? CT_A then
    (tdel t req, Some (match abort_decode (ck_data c) with Some code => RAbort req code | None => RAbortBad req end))
  else if ck_type c =? CT_C then
    let l := cget t req ++ [c] in
    let n := nlen l in
    if over max_cc (n mod 4294967296) then (tdel t req, Some (RTooMany req n))
    else (tset t req l, None)
  else
    let all := cget t req ++ [c] in
    let b := merge all in
    let n := blen b mod 4294967296 in
    if over max_ms n then (tdel t req, Some (RTooLarge req n))
    else (tdel t req, Some (RDeliver req b)).

Fixpoint recv_all (max_cc max_ms : N) (t : ctable) (cs : list chunk) : ctable * list rout :=
  match cs with
  | [] => (t, [])
  | c :: cs' =>
      let '(t1, o) := recv_step max_cc max_ms t c in
      let '(t2, os) := recv_all max_cc max_ms t1 cs' in
      (t2, match o with Some x => x :: os | None => os end)
  end.

(* ------------------------------------------------------------------------------------------------
   Specification side: what a chunk stream encodes.  Per request id the data of all chunks since the
   last final / abort chunk, in order; an abort discards the partial message of that id only.   *)

Definition atable := tbl (N * bytes).      (* request id -> (number of intermediate chunks, data so far) *)
Definition aget (a : atable) (k : N) : N * bytes := match tfind a k with Some x => x | None => (0, []) end.

Definition spec_step (max_cc max_ms : N) (a : atable) (c : chunk) : atable * option rout :=
  let req := ck_req c in
  if ck_type c =? CT_A then
    (tdel a req, Some (match abort_decode (ck_data c) with Some code => RAbort req code | None => RAbortBad req end))
  else if ck_type c =? CT_C then
    let '(n, b) := aget a req in
    if over max_cc ((n + 1) mod 4294967296) then (tdel a req, Some (RTooMany req (n + 1)))
    else (tset a req (n + 1, b ++ ck_data c), None)
  else
    let '(n, b) := aget a req in
    let b' := b ++ ck_data c in
    let l := blen b' mod 4294967296 in
    if over max_ms l then (tdel a req, Some (RTooLarge req l))
    else (tdel a req, Some (RDeliver req b')).

Fixpoint spec_all (max_cc max_ms : N) (a : atable) (cs : list chunk) : atable * list rout :=
  match cs with
  | [] => (a, [])
  | c :: cs' =>
      let '(a1, o) := spec_step max_cc max_ms a c in
      let '(a2, os) := spec_all max_cc max_ms a1 cs' in
      (a2, match o with Some x => x :: os | None => os end)
  end.

(* Sequence numbers are not reused inside a pending message: a chunk's number differs from the number of the
   previous chunk of the same request id that is still pending.  (Implied by the numbering rule of Part 6,
   see RecvMergeProofs.seq_next_fresh_adjacent for a sender that does not interleave.) *)
Definition ltable := tbl N.
Definition fresh_step (l : ltable) (c : chunk) : option ltable :=
  let req := ck_req c in
  if ck_type c =? CT_A then Some (tdel l req)
  else match tfind l req with
       | Some s => if s =? ck_seq c then None
                   else Some (if ck_type c =? CT_C then tset l req (ck_seq c) else tdel l req)
       | None => Some (if ck_type c =? CT_C then tset l req (ck_seq c) else tdel l req)
       end.

Fixpoint fresh_from (l : ltable) (cs : list chunk) : bool :=
  match cs with
  | [] => true
  | c :: cs' => match fresh_step l c with Some l' => fresh_from l' cs' | None => false end
  end.

Definition fresh (cs : list chunk) : bool := fresh_from [] cs.

(* ------------------------------------------------------------------------------------------------
   Reference sender that does not interleave: each message is cut into pieces of arbitrary sizes,
   numbered consecutively on the wire by an arbitrary conforming numbering.                       *)

(* Part 6, 6.7.2.4: numbers increase by one; they roll over before 2^32 - 1024 ... 2^32 - 1 to a value below 1024
   (0 allowed).  [seq_next s s'] = s' may follow s on the wire. *)
Definition seq_next (s s' : N) : Prop :=
  (s' = s + 1 /\ s' < 4294967296) \/ (4294966271 <= s /\ s' < 1024).

Inductive smsg :=
| SMsg (req : N) (pieces : list (N * bytes)) (slast : N) (last : bytes)   (* numbered intermediate pieces, then the final piece *)
| SAborted (req : N) (pieces : list (N * bytes)) (sabort : N) (code : N) (reason : bytes). (* pieces sent, then an abort chunk *)

Definition enc_u32 (n : N) : bytes := [n mod 256; (n / 256) mod 256; (n / 65536) mod 256; (n / 16777216) mod 256].
Definition abort_body (code : N) (reason : bytes) : bytes := enc_u32 code ++ enc_u32 (blen reason) ++ reason.

Definition piece_chunk (req : N) (p : N * bytes) : chunk := Build_chunk CT_C (fst p) req (snd p).

Definition smsg_chunks (m : smsg) : list chunk :=
  match m with
  | SMsg req ps sl last => map (piece_chunk req) ps ++ [Build_chunk CT_F sl req last]
  | SAborted req ps sa code reason => map (piece_chunk req) ps ++ [Build_chunk CT_A sa req (abort_body code reason)]
  end.

(* the wire: messages one after the other *)
Definition ref_stream (ms : list smsg) : list chunk := concat (map smsg_chunks ms).

(* the numbers on the wire follow the numbering rule *)
Fixpoint chain (seqs : list N) : Prop :=
  match seqs with
  | s :: ((s' :: _) as r) => seq_next s s' /\ chain r
  | _ => True
  end.

Definition smsg_out (m : smsg) : rout :=
  match m with
  | SMsg req ps _ last => RDeliver req (concat (map snd ps) ++ last)
  | SAborted req _ _ code _ => RAbort req code
  end.

(* within a limit (zero = unlimited); sizes are uint32 in the code *)
Definition within (max n : N) : Prop := n < 4294967296 /\ (max = 0 \/ n <= max).

Definition smsg_ok (max_cc max_ms : N) (m : smsg) : Prop :=
  match m with
  | SMsg _ ps _ last => within max_cc (nlen ps) /\ within max_ms (blen (concat (map snd ps) ++ last))
  | SAborted _ ps _ code reason => within max_cc (nlen ps) /\ code < 4294967296 /\ blen reason < 4294967295
  end.
