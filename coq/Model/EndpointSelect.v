(* C24 — opcua.SelectEndpoint (client.go) and ua.FormatSecurityPolicyURI (ua/enums.go), transcribed.

   func SelectEndpoint(endpoints []*ua.EndpointDescription, policy string, mode ua.MessageSecurityMode)
     if len(endpoints) == 0 { return nil, "no endpoints available" }
     sort.Sort(sort.Reverse(bySecurityLevel(endpoints)))        -- in place, UNSTABLE (pdqsort)
     policy = ua.FormatSecurityPolicyURI(policy)
     if policy == "" && mode == Invalid { return endpoints[0], nil }
     for _, p := range endpoints { three tests in this order }
     return nil, "no matching endpoint found ..."

   The sort is not modelled as a function: the model takes the slice *as it is after the sort* (any permutation
   of the input that is sorted by descending level) and the theorems quantify over all of them.  The slice
   elements are pointers: a nil element makes Less (and the loop) dereference nil, modelled as SelPanic. *)
From Coq Require Import List Bool NArith.
From Coq.Strings Require Import Byte.
From Opcua Require Import Model.PureBytes.
Import ListNotations.
Open Scope N_scope.

Record endpoint := { ep_uri : bytes; ep_mode : N; ep_level : N }.

Inductive sel_err := ErrNoEndpoints | ErrNoMatch.
Inductive sel_res :=
| SelOk (i : nat) (e : option endpoint)   (* index in the sorted slice, and the pointer returned (None = nil) *)
| SelErr (e : sel_err)
| SelPanic.

Section WithTables.
  Variable tbl : list (bytes * bytes).   (* ua.SecurityPolicyURIs *)
  Variable prefix : bytes.               (* ua.SecurityPolicyURIPrefix *)
  Variable minv : N.                     (* ua.MessageSecurityModeInvalid *)

  (* ua.FormatSecurityPolicyURI *)
  Definition format_policy (policy : bytes) : bytes :=
    match policy with
    | [] => []
    | _ =>
      match bassoc policy tbl with
      | Some p => p
      | None => if negb (has_prefix policy prefix) then prefix ++ policy else policy
      end
    end.

  Definition is_empty (b : bytes) : bool := match b with [] => true | _ => false end.

  (* the loop; i = index of the head of s in the slice *)
  Fixpoint first_match (policy : bytes) (mode : N) (s : list (option endpoint)) (i : nat) : sel_res :=
    match s with
    | [] => SelErr ErrNoMatch
    | None :: _ => SelPanic                                  (* p.SecurityMode on a nil p *)
    | Some p :: s' =>
      if is_empty policy && (ep_mode p =? mode) then SelOk i (Some p)
      else if beqb (ep_uri p) policy && (mode =? minv) then SelOk i (Some p)
      else if beqb (ep_uri p) policy && (ep_mode p =? mode) then SelOk i (Some p)
      else first_match policy mode s' (S i)
    end.

  Definition is_none {A} (o : option A) : bool := match o with None => true | Some _ => false end.

  (* Less is evaluated on every element as soon as there are two of them *)
  Definition sort_panics (eps : list (option endpoint)) : bool :=
    Nat.leb 2 (length eps) && existsb is_none eps.

  (* everything after the sort; s = the slice after sort.Sort returned *)
  Definition select_sorted (s : list (option endpoint)) (policy : bytes) (mode : N) : sel_res :=
    match s with
    | [] => SelErr ErrNoEndpoints
    | e0 :: _ =>
      if sort_panics s then SelPanic
      else
        let policy' := format_policy policy in
        if is_empty policy' && (mode =? minv) then SelOk 0 e0
        else first_match policy' mode s 0
    end.

  (* the property's own notion of "matches the requested criteria" *)
  Definition matches (policy : bytes) (mode : N) (e : endpoint) : bool :=
    (is_empty policy || beqb (ep_uri e) (format_policy policy)) && ((mode =? minv) || (ep_mode e =? mode)).
End WithTables.

Definition lvl (o : option endpoint) : N := match o with Some e => ep_level e | None => 0 end.

(* descending by security level: what sort.Sort(sort.Reverse(bySecurityLevel)) establishes *)
Fixpoint sorted_desc (s : list (option endpoint)) : bool :=
  match s with
  | [] => true
  | a :: s' => match s' with [] => true | b :: _ => (lvl b <=? lvl a) && sorted_desc s' end
  end.

(* a reference sort (insertion sort) — only used to show that a sorted permutation always exists *)
Fixpoint insert_desc (a : option endpoint) (s : list (option endpoint)) : list (option endpoint) :=
  match s with
  | [] => [a]
  | b :: s' => if lvl b <? lvl a then a :: s else b :: insert_desc a s'
  end.
Definition sort_desc (s : list (option endpoint)) : list (option endpoint) := fold_right insert_desc [] s.

(* correspondence helper: the harness reports the sorted slice as indices into the input slice *)
Fixpoint pick {A} (l : list A) (idx : list nat) : option (list A) :=
  match idx with
  | [] => Some []
  | i :: idx' => match nth_error l i, pick l idx' with Some a, Some r => Some (a :: r) | _, _ => None end
  end.
Fixpoint remove_one (n : nat) (l : list nat) : option (list nat) :=
  match l with
  | [] => None
  | m :: l' => if Nat.eqb n m then Some l' else option_map (cons m) (remove_one n l')
  end.
(* idx is a permutation of 0 .. n-1 *)
Fixpoint is_perm_of (idx : list nat) (pool : list nat) : bool :=
  match idx with
  | [] => match pool with [] => true | _ => false end
  | i :: idx' => match remove_one i pool with Some pool' => is_perm_of idx' pool' | None => false end
  end.
