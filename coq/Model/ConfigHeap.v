(* C23 — opcua.NewClient / ApplyConfig / every Option of config.go, transcribed over an explicit heap.

   Heap = package-level cells (gstate: the cell behind uacp.DefaultClientACK) + one region per client
   (cstate: the *uacp.Acknowledge cells this construction allocated, and the cells that cannot be aliased
   because they are allocated inside the constructor and never handed out, kept by value).
   A *uacp.Acknowledge pointer is either the package-level pointer (AGlobal) or a cell of the client's own
   region (ALocal n).  An option writes through whatever pointer the configuration holds at that moment,
   so a write through AGlobal changes what every other client (and every later DefaultDialer()) reads.

   Go operations that can panic (nil *uacp.Dialer, nil *net.Dialer, nil *Acknowledge, nil endpoint, nil token
   description) are explicit Panicked outcomes.  An option that returns a non-nil error does not stop
   ApplyConfig: the remaining options still run; NewClient then returns (nil, err).

   External functions (x509 parsing, thumbprints, file loading, math/rand) are not modelled: their results are
   part of the option's argument, supplied by the harness from the real functions. *)
From Coq Require Import List Bool NArith ZArith.
From Coq.Strings Require Import Byte.
From Opcua Require Import Model.PureBytes Model.EndpointSelect.
Import ListNotations.

Record ack := { a_version : N; a_rbuf : N; a_sbuf : N; a_maxmsg : N; a_maxchunk : N }.
Inductive aptr := AGlobal | ALocal (n : nat).

(* uacp.Dialer{Dialer *net.Dialer; ClientACK *Acknowledge}; the net.Dialer is kept by value (its Timeout) *)
Record dialer := { d_net : option Z; d_ack : option aptr }.

(* what the caller of opcua.Dialer(d) built: nil, or a fresh uacp.Dialer whose ClientACK is nil, the package default
   pointer itself, or a fresh Acknowledge *)
Inductive uack := UNil | UGlobal | UFresh (a : ack).
Record udialer := { u_net : option Z; u_ack : uack }.

(* cfg.session.UserIdentityToken: kind 0 Anonymous, 1 UserName, 2 X509, 3 Issued *)
Record token := { t_kind : N; t_policy : bytes; t_user : bytes; t_data : option bytes }.

Record sechan := {
  sc_policy : bytes; sc_cert : option bytes; sc_localkey : N; sc_userkey : N; sc_thumb : option bytes;
  sc_remote : option bytes; sc_seed : N; sc_mode : N; sc_autorec : bool; sc_recint : Z; sc_lifetime : N; sc_reqto : Z }.

Record session := {
  ss_timeout : Z; ss_appuri : bytes; ss_producturi : bytes; ss_appname : bytes; ss_locales : option (list bytes);
  ss_name : bytes; ss_token : option nat (* pointer to a cell of c_toks: cfg.session.UserIdentityToken *); ss_authpolicy : bytes; ss_authpass : bytes }.

Record cstate := { c_acks : list ack; c_toks : list token (* identity-token cells this construction allocated *); c_dialer : option dialer; c_sechan : sechan; c_session : session; c_statech : N; c_statefn : N }.
Record gstate := { g_client_ack : ack }.

(* results of the external functions, as observed by the harness *)
Inductive cert_info := CertBad | CertNoURI | CertURI (u : bytes).      (* uapolicy.ParseCertificate(cert).URIs[0].String() *)
Inductive cert_file := CFNone | CFErr | CFData (b : option bytes) (i : cert_info).   (* "" / load error / loaded bytes *)
Inductive key_file := KFNone | KFErr | KFKey (k : N).

Record ep_token := { et_type : N; et_policyid : bytes; et_secpolicy : bytes }.
Record ep_desc := { e_policy : bytes; e_mode : N; e_cert : option bytes; e_tokens : list (option ep_token) }.

Inductive opt :=
| OApplicationName (s : bytes) | OApplicationURI (s : bytes) | OAutoReconnect (b : bool) | OReconnectInterval (d : Z)
| OLifetime (d : Z) | OLocales (l : option (list bytes)) | OProductURI (s : bytes) | ORandomRequestID (v : N)
| ORemoteCertificate (c : option bytes) | ORemoteCertificateFile (f : cert_file) | OSecurityMode (m : N)
| OSecurityModeString (s : bytes) | OSecurityPolicy (s : bytes) | OSessionName (s : bytes) | OSessionTimeout (d : Z)
| OPrivateKey (k : N) | OPrivateKeyFile (f : key_file) | OCertificate (c : option bytes) (i : cert_info)
| OCertificateFile (f : cert_file) | OSecurityFromEndpoint (e : option ep_desc) (auth : N) (thumb : option bytes)
| OAuthPolicyID (s : bytes) | OAuthAnonymous | OAuthUsername (u p : bytes) | OAuthCertificate (c : option bytes)
| OAuthPrivateKey (k : N) | OAuthIssuedToken (d : option bytes) | ORequestTimeout (d : Z) | ODialer (d : option udialer)
| ODialTimeout (d : Z) | OMaxMessageSize (n : N) | OMaxChunkCount (n : N) | OReceiveBufferSize (n : N)
| OSendBufferSize (n : N) | OStateChangedCh (id : N) | OStateChangedFunc (id : N).

(* one option applied: new package state, new client state, did it return an error / or it panicked *)
Inductive ores := Done (g : gstate) (c : cstate) (err : bool) | Panicked (g : gstate).

Definition set_sechan (c : cstate) (s : sechan) : cstate :=
  {| c_acks := c_acks c; c_toks := c_toks c; c_dialer := c_dialer c; c_sechan := s; c_session := c_session c; c_statech := c_statech c; c_statefn := c_statefn c |}.
Definition set_session (c : cstate) (s : session) : cstate :=
  {| c_acks := c_acks c; c_toks := c_toks c; c_dialer := c_dialer c; c_sechan := c_sechan c; c_session := s; c_statech := c_statech c; c_statefn := c_statefn c |}.
Definition set_dialer (c : cstate) (d : option dialer) : cstate :=
  {| c_acks := c_acks c; c_toks := c_toks c; c_dialer := d; c_sechan := c_sechan c; c_session := c_session c; c_statech := c_statech c; c_statefn := c_statefn c |}.
Definition set_acks (c : cstate) (l : list ack) : cstate :=
  {| c_acks := l; c_toks := c_toks c; c_dialer := c_dialer c; c_sechan := c_sechan c; c_session := c_session c; c_statech := c_statech c; c_statefn := c_statefn c |}.

Definition upd_sc (s : sechan) (policy : bytes) (cert : option bytes) (lk uk : N) (thumb remote : option bytes) (seed mode : N)
  (ar : bool) (ri : Z) (lt : N) (rt : Z) : sechan :=
  {| sc_policy := policy; sc_cert := cert; sc_localkey := lk; sc_userkey := uk; sc_thumb := thumb; sc_remote := remote;
     sc_seed := seed; sc_mode := mode; sc_autorec := ar; sc_recint := ri; sc_lifetime := lt; sc_reqto := rt |}.

Definition sc_set_policy s v := upd_sc s v (sc_cert s) (sc_localkey s) (sc_userkey s) (sc_thumb s) (sc_remote s) (sc_seed s) (sc_mode s) (sc_autorec s) (sc_recint s) (sc_lifetime s) (sc_reqto s).
Definition sc_set_cert s v := upd_sc s (sc_policy s) v (sc_localkey s) (sc_userkey s) (sc_thumb s) (sc_remote s) (sc_seed s) (sc_mode s) (sc_autorec s) (sc_recint s) (sc_lifetime s) (sc_reqto s).
Definition sc_set_localkey s v := upd_sc s (sc_policy s) (sc_cert s) v (sc_userkey s) (sc_thumb s) (sc_remote s) (sc_seed s) (sc_mode s) (sc_autorec s) (sc_recint s) (sc_lifetime s) (sc_reqto s).
Definition sc_set_userkey s v := upd_sc s (sc_policy s) (sc_cert s) (sc_localkey s) v (sc_thumb s) (sc_remote s) (sc_seed s) (sc_mode s) (sc_autorec s) (sc_recint s) (sc_lifetime s) (sc_reqto s).
Definition sc_set_thumb s v := upd_sc s (sc_policy s) (sc_cert s) (sc_localkey s) (sc_userkey s) v (sc_remote s) (sc_seed s) (sc_mode s) (sc_autorec s) (sc_recint s) (sc_lifetime s) (sc_reqto s).
Definition sc_set_remote s v := upd_sc s (sc_policy s) (sc_cert s) (sc_localkey s) (sc_userkey s) (sc_thumb s) v (sc_seed s) (sc_mode s) (sc_autorec s) (sc_recint s) (sc_lifetime s) (sc_reqto s).
Definition sc_set_seed s v := upd_sc s (sc_policy s) (sc_cert s) (sc_localkey s) (sc_userkey s) (sc_thumb s) (sc_remote s) v (sc_mode s) (sc_autorec s) (sc_recint s) (sc_lifetime s) (sc_reqto s).
Definition sc_set_mode s v := upd_sc s (sc_policy s) (sc_cert s) (sc_localkey s) (sc_userkey s) (sc_thumb s) (sc_remote s) (sc_seed s) v (sc_autorec s) (sc_recint s) (sc_lifetime s) (sc_reqto s).
Definition sc_set_autorec s v := upd_sc s (sc_policy s) (sc_cert s) (sc_localkey s) (sc_userkey s) (sc_thumb s) (sc_remote s) (sc_seed s) (sc_mode s) v (sc_recint s) (sc_lifetime s) (sc_reqto s).
Definition sc_set_recint s v := upd_sc s (sc_policy s) (sc_cert s) (sc_localkey s) (sc_userkey s) (sc_thumb s) (sc_remote s) (sc_seed s) (sc_mode s) (sc_autorec s) v (sc_lifetime s) (sc_reqto s).
Definition sc_set_lifetime s v := upd_sc s (sc_policy s) (sc_cert s) (sc_localkey s) (sc_userkey s) (sc_thumb s) (sc_remote s) (sc_seed s) (sc_mode s) (sc_autorec s) (sc_recint s) v (sc_reqto s).
Definition sc_set_reqto s v := upd_sc s (sc_policy s) (sc_cert s) (sc_localkey s) (sc_userkey s) (sc_thumb s) (sc_remote s) (sc_seed s) (sc_mode s) (sc_autorec s) (sc_recint s) (sc_lifetime s) v.

Definition upd_ss (timeout : Z) (appuri producturi appname : bytes) (locales : option (list bytes)) (name : bytes)
  (tok : option nat) (authpolicy authpass : bytes) : session :=
  {| ss_timeout := timeout; ss_appuri := appuri; ss_producturi := producturi; ss_appname := appname; ss_locales := locales;
     ss_name := name; ss_token := tok; ss_authpolicy := authpolicy; ss_authpass := authpass |}.
Definition ss_set_timeout s v := upd_ss v (ss_appuri s) (ss_producturi s) (ss_appname s) (ss_locales s) (ss_name s) (ss_token s) (ss_authpolicy s) (ss_authpass s).
Definition ss_set_appuri s v := upd_ss (ss_timeout s) v (ss_producturi s) (ss_appname s) (ss_locales s) (ss_name s) (ss_token s) (ss_authpolicy s) (ss_authpass s).
Definition ss_set_producturi s v := upd_ss (ss_timeout s) (ss_appuri s) v (ss_appname s) (ss_locales s) (ss_name s) (ss_token s) (ss_authpolicy s) (ss_authpass s).
Definition ss_set_appname s v := upd_ss (ss_timeout s) (ss_appuri s) (ss_producturi s) v (ss_locales s) (ss_name s) (ss_token s) (ss_authpolicy s) (ss_authpass s).
Definition ss_set_locales s v := upd_ss (ss_timeout s) (ss_appuri s) (ss_producturi s) (ss_appname s) v (ss_name s) (ss_token s) (ss_authpolicy s) (ss_authpass s).
Definition ss_set_name s v := upd_ss (ss_timeout s) (ss_appuri s) (ss_producturi s) (ss_appname s) (ss_locales s) v (ss_token s) (ss_authpolicy s) (ss_authpass s).
Definition ss_set_token s v := upd_ss (ss_timeout s) (ss_appuri s) (ss_producturi s) (ss_appname s) (ss_locales s) (ss_name s) v (ss_authpolicy s) (ss_authpass s).
Definition ss_set_authpolicy s v := upd_ss (ss_timeout s) (ss_appuri s) (ss_producturi s) (ss_appname s) (ss_locales s) (ss_name s) (ss_token s) v (ss_authpass s).
Definition ss_set_authpass s v := upd_ss (ss_timeout s) (ss_appuri s) (ss_producturi s) (ss_appname s) (ss_locales s) (ss_name s) (ss_token s) (ss_authpolicy s) v.

Fixpoint set_nth {A} (l : list A) (n : nat) (v : A) : list A :=
  match l, n with
  | [], _ => []
  | _ :: l', O => v :: l'
  | x :: l', S n' => x :: set_nth l' n' v
  end.

(* write one field of the Acknowledge cell a pointer designates *)
Definition ack_store (g : gstate) (c : cstate) (p : aptr) (f : ack -> ack) : gstate * cstate :=
  match p with
  | AGlobal => ({| g_client_ack := f (g_client_ack g) |}, c)
  | ALocal n => match nth_error (c_acks c) n with
                | Some a => (g, set_acks c (set_nth (c_acks c) n (f a)))
                | None => (g, c)            (* dangling local pointer: excluded by the invariant cstate_wf *)
                end
  end.

Definition ack_set_maxmsg v a := {| a_version := a_version a; a_rbuf := a_rbuf a; a_sbuf := a_sbuf a; a_maxmsg := v; a_maxchunk := a_maxchunk a |}.
Definition ack_set_maxchunk v a := {| a_version := a_version a; a_rbuf := a_rbuf a; a_sbuf := a_sbuf a; a_maxmsg := a_maxmsg a; a_maxchunk := v |}.
Definition ack_set_rbuf v a := {| a_version := a_version a; a_rbuf := v; a_sbuf := a_sbuf a; a_maxmsg := a_maxmsg a; a_maxchunk := a_maxchunk a |}.
Definition ack_set_sbuf v a := {| a_version := a_version a; a_rbuf := a_rbuf a; a_sbuf := v; a_maxmsg := a_maxmsg a; a_maxchunk := a_maxchunk a |}.

(* cfg.dialer.ClientACK.<field> = n *)
Definition write_ack (g : gstate) (c : cstate) (f : ack -> ack) : ores :=
  match c_dialer c with
  | None => Panicked g                                   (* cfg.dialer == nil *)
  | Some d => match d_ack d with
              | None => Panicked g                       (* cfg.dialer.ClientACK == nil *)
              | Some p => let '(g', c') := ack_store g c p f in Done g' c' false
              end
  end.

Definition tok0 (kind : N) : token := {| t_kind := kind; t_policy := []; t_user := []; t_data := None |}.
Definition tok_set_policy (t : token) (p : bytes) : token := {| t_kind := t_kind t; t_policy := p; t_user := t_user t; t_data := t_data t |}.
Definition tok_set_user (t : token) (u : bytes) : token := {| t_kind := t_kind t; t_policy := t_policy t; t_user := u; t_data := t_data t |}.
Definition tok_set_data (t : token) (d : option bytes) : token := {| t_kind := t_kind t; t_policy := t_policy t; t_user := t_user t; t_data := d |}.

Definition set_toks (c : cstate) (l : list token) : cstate :=
  {| c_acks := c_acks c; c_toks := l; c_dialer := c_dialer c; c_sechan := c_sechan c; c_session := c_session c; c_statech := c_statech c; c_statefn := c_statefn c |}.

(* the token cfg.session.UserIdentityToken points to *)
Definition tok_get (c : cstate) : option token :=
  match ss_token (c_session c) with Some i => nth_error (c_toks c) i | None => None end.
(* cfg.session.UserIdentityToken = &ua.XxxIdentityToken{...}: a fresh cell in this client's region *)
Definition tok_alloc (c : cstate) (t : token) : cstate :=
  set_session (set_toks c (c_toks c ++ [t])) (ss_set_token (c_session c) (Some (length (c_toks c)))).
(* a write through the pointer *)
Definition tok_update (c : cstate) (f : token -> token) : cstate :=
  match ss_token (c_session c) with
  | Some i => match nth_error (c_toks c) i with Some t => set_toks c (set_nth (c_toks c) i (f t)) | None => c end
  | None => c
  end.

(* setPolicyID(cfg.session.UserIdentityToken, policy): nothing happens on a nil interface *)
Definition set_policy_id (c : cstate) (p : bytes) : cstate := tok_update c (fun t => tok_set_policy t p).

(* setCertificate *)
Definition set_certificate (g : gstate) (c : cstate) (cert : option bytes) (i : cert_info) : ores :=
  let c1 := set_sechan c (sc_set_cert (c_sechan c) cert) in
  match i with
  | CertBad => Done g c1 true
  | CertNoURI => Done g c1 false
  | CertURI u => match u with [] => Done g c1 false | _ => Done g (set_session c1 (ss_set_appuri (c_session c1) u)) false end
  end.

(* ua.MessageSecurityModeFromString *)
Definition s_Invalid := [x49;x6e;x76;x61;x6c;x69;x64].
Definition s_None := [x4e;x6f;x6e;x65].
Definition s_Sign := [x53;x69;x67;x6e].
Definition s_SignAndEncrypt := [x53;x69;x67;x6e;x41;x6e;x64;x45;x6e;x63;x72;x79;x70;x74].
Definition mode_from_string (s : bytes) : N :=
  if beqb s s_Invalid then 0 else if beqb s s_None then 1 else if beqb s s_Sign then 2 else if beqb s s_SignAndEncrypt then 3 else 0.

Definition s_Anonymous := [x41;x6e;x6f;x6e;x79;x6d;x6f;x75;x73].   (* defaultAnonymousPolicyID *)

Definition is_emptyb (b : bytes) : bool := match b with [] => true | _ => false end.

Section WithTables.
  Variable policy_tbl : list (bytes * bytes).   (* ua.SecurityPolicyURIs *)
  Variable policy_prefix : bytes.
  Variable uri_none : bytes.                    (* ua.SecurityPolicyURINone *)
  Variable shares_default_ack : bool.           (* does DefaultDialer() hand out the package pointer itself? (translated) *)

  (* the loop of SecurityFromEndpoint over ep.UserIdentityTokens *)
  Fixpoint sfe_tokens (g : gstate) (c : cstate) (e : ep_desc) (auth : N) (ts : list (option ep_token)) : ores :=
    match ts with
    | [] =>
      match ss_token (c_session c) with
      | None => (* fallback: a FRESH anonymous token with the default policy id *)
        let c1 := tok_alloc c (tok_set_policy (tok0 0) s_Anonymous) in
        Done g (set_session c1 (ss_set_authpolicy (c_session c1) uri_none)) false
      | Some _ => Done g c false
      end
    | None :: _ => Panicked g                                           (* t.TokenType on a nil t *)
    | Some t :: ts' =>
      if negb (N.eqb (et_type t) auth) then sfe_tokens g c e auth ts'
      else
        let c1 := match ss_token (c_session c) with
                  | None => if N.leb auth 3 then tok_alloc c (tok0 auth) else c
                  | Some _ => c
                  end in
        let c2 := set_policy_id c1 (et_policyid t) in
        Done g (set_session c2 (ss_set_authpolicy (c_session c2) (if negb (is_emptyb (et_secpolicy t)) then et_secpolicy t else e_policy e))) false
    end.

  (* AuthAnonymous / AuthUsername / AuthCertificate / AuthIssuedToken: allocate when nil, then write if the kind matches *)
  Definition auth_token (g : gstate) (c : cstate) (kind : N) (ft : token -> token) (fs : session -> session) : ores :=
    let c1 := match ss_token (c_session c) with None => tok_alloc c (tok0 kind) | Some _ => c end in
    match tok_get c1 with
    | Some t => if N.eqb (t_kind t) kind then let c2 := tok_update c1 ft in Done g (set_session c2 (fs (c_session c2))) false
                else Done g c1 false
    | None => Done g c1 false
    end.

  Definition apply_opt (g : gstate) (c : cstate) (o : opt) : ores :=
    let sc := c_sechan c in
    let ss := c_session c in
    match o with
    | OApplicationName s => Done g (set_session c (ss_set_appname ss s)) false
    | OApplicationURI s => Done g (set_session c (ss_set_appuri ss s)) false
    | OAutoReconnect b => Done g (set_sechan c (sc_set_autorec sc b)) false
    | OReconnectInterval d => Done g (set_sechan c (sc_set_recint sc d)) false
    | OLifetime d => Done g (set_sechan c (sc_set_lifetime sc (Z.to_N (Z.modulo (Z.quot d 1000000) 4294967296)))) false
    | OLocales l => Done g (set_session c (ss_set_locales ss l)) false
    | OProductURI s => Done g (set_session c (ss_set_producturi ss s)) false
    | ORandomRequestID v => Done g (set_sechan c (sc_set_seed sc v)) false
    | ORemoteCertificate cert => Done g (set_sechan c (sc_set_remote sc cert)) false
    | ORemoteCertificateFile f =>
      match f with
      | CFNone => Done g c false
      | CFErr => Done g c true
      | CFData b _ => Done g (set_sechan c (sc_set_remote sc b)) false
      end
    | OSecurityMode m => Done g (set_sechan c (sc_set_mode sc m)) false
    | OSecurityModeString s => Done g (set_sechan c (sc_set_mode sc (mode_from_string s))) false
    | OSecurityPolicy s => Done g (set_sechan c (sc_set_policy sc (format_policy policy_tbl policy_prefix s))) false
    | OSessionName s => Done g (set_session c (ss_set_name ss s)) false
    | OSessionTimeout d => Done g (set_session c (ss_set_timeout ss d)) false
    | OPrivateKey k => Done g (set_sechan c (sc_set_localkey sc k)) false
    | OPrivateKeyFile f =>
      match f with
      | KFNone => Done g c false
      | KFErr => Done g c true
      | KFKey k => Done g (set_sechan c (sc_set_localkey sc k)) false
      end
    | OCertificate cert i => set_certificate g c cert i
    | OCertificateFile f =>
      match f with
      | CFNone => Done g c false
      | CFErr => Done g c true
      | CFData b i => set_certificate g c b i
      end
    | OSecurityFromEndpoint None _ _ => Panicked g                       (* ep.SecurityPolicyURI on a nil ep *)
    | OSecurityFromEndpoint (Some e) auth thumb =>
      let sc1 := sc_set_thumb (sc_set_remote (sc_set_mode (sc_set_policy sc (e_policy e)) (e_mode e)) (e_cert e)) thumb in
      sfe_tokens g (set_sechan c sc1) e auth (e_tokens e)
    | OAuthPolicyID p =>
      match ss_token ss with
      | None => Done g c false
      | Some _ => Done g (set_policy_id c p) false
      end
    | OAuthAnonymous => auth_token g c 0 (fun t => t) (fun s => s)
    | OAuthUsername u p => auth_token g c 1 (fun t => tok_set_user t u) (fun s => ss_set_authpass s p)
    | OAuthCertificate cert => auth_token g c 2 (fun t => tok_set_data t cert) (fun s => s)
    | OAuthPrivateKey k => Done g (set_sechan c (sc_set_userkey sc k)) false
    | OAuthIssuedToken d => auth_token g c 3 (fun t => tok_set_data t d) (fun s => s)
    | ORequestTimeout d => Done g (set_sechan c (sc_set_reqto sc d)) false
    | ODialer None => Done g (set_dialer c None) false
    | ODialer (Some u) =>
      (* the caller's dialer; a fresh Acknowledge of the caller becomes a cell of this client's region *)
      match u_ack u with
      | UNil => Done g (set_dialer c (Some {| d_net := u_net u; d_ack := None |})) false
      | UGlobal => Done g (set_dialer c (Some {| d_net := u_net u; d_ack := Some AGlobal |})) false
      | UFresh a => Done g (set_dialer (set_acks c (c_acks c ++ [a])) (Some {| d_net := u_net u; d_ack := Some (ALocal (length (c_acks c))) |})) false
      end
    | ODialTimeout d =>
      match c_dialer c with
      | None => Panicked g                                              (* cfg.dialer == nil *)
      | Some dl => match d_net dl with
                   | None => Panicked g                                 (* cfg.dialer.Dialer == nil *)
                   | Some _ => Done g (set_dialer c (Some {| d_net := Some d; d_ack := d_ack dl |})) false
                   end
      end
    | OMaxMessageSize n => write_ack g c (ack_set_maxmsg n)
    | OMaxChunkCount n => write_ack g c (ack_set_maxchunk n)
    | OReceiveBufferSize n => write_ack g c (ack_set_rbuf n)
    | OSendBufferSize n => write_ack g c (ack_set_sbuf n)
    | OStateChangedCh id =>
      Done g {| c_acks := c_acks c; c_toks := c_toks c; c_dialer := c_dialer c; c_sechan := sc; c_session := ss; c_statech := id; c_statefn := c_statefn c |} false
    | OStateChangedFunc id =>
      Done g {| c_acks := c_acks c; c_toks := c_toks c; c_dialer := c_dialer c; c_sechan := sc; c_session := ss; c_statech := c_statech c; c_statefn := id |} false
    end.

  Variable default_sechan : sechan.     (* DefaultClientConfig() *)
  Variable default_session : session.   (* DefaultSessionConfig() *)
  Variable default_dial_timeout : Z.

  (* newConfig(): DefaultDialer() either links the package-level Acknowledge or copies it into a fresh cell *)
  Definition new_config (g : gstate) : cstate :=
    if shares_default_ack
    then {| c_acks := []; c_toks := []; c_dialer := Some {| d_net := Some default_dial_timeout; d_ack := Some AGlobal |};
            c_sechan := default_sechan; c_session := default_session; c_statech := 0; c_statefn := 0 |}
    else {| c_acks := [g_client_ack g]; c_toks := []; c_dialer := Some {| d_net := Some default_dial_timeout; d_ack := Some (ALocal 0) |};
            c_sechan := default_sechan; c_session := default_session; c_statech := 0; c_statefn := 0 |}.

  Inductive outcome := Created (c : cstate) | Failed | Panic.

  (* ApplyConfig's loop: (package state, config, any error so far) *)
  Fixpoint apply_opts (g : gstate) (c : cstate) (err : bool) (os : list opt) : gstate * outcome :=
    match os with
    | [] => (g, if err then Failed else Created c)
    | o :: os' =>
      match apply_opt g c o with
      | Done g' c' e => apply_opts g' c' (err || e) os'
      | Panicked g' => (g', Panic)
      end
    end.

  Definition new_client (g : gstate) (os : list opt) : gstate * outcome := apply_opts g (new_config g) false os.

  (* a program: a sequence of NewClient calls *)
  Fixpoint run (g : gstate) (progs : list (list opt)) : gstate * list outcome :=
    match progs with
    | [] => (g, [])
    | p :: ps => let '(g', out) := new_client g p in let '(gf, outs) := run g' ps in (gf, out :: outs)
    end.
End WithTables.

(* the configuration a client effectively has, read through its pointers in a given package state *)
Record econfig := { e_net : option (option Z);              (* None: no dialer; Some None: dialer without net.Dialer *)
                    e_ack : option (option ack);
                    e_ack_is_default_ptr : bool;
                    e_sechan : sechan; e_session : session; e_token : option token (* the identity token, read through the pointer *);
                    e_statech : N; e_statefn : N }.

Definition ack0 : ack := {| a_version := 0; a_rbuf := 0; a_sbuf := 0; a_maxmsg := 0; a_maxchunk := 0 |}.

Definition deref (g : gstate) (c : cstate) (p : aptr) : ack :=
  match p with AGlobal => g_client_ack g | ALocal n => nth n (c_acks c) ack0 end.

Definition effective (g : gstate) (c : cstate) : econfig :=
  {| e_net := option_map d_net (c_dialer c);
     e_ack := option_map (fun d => option_map (deref g c) (d_ack d)) (c_dialer c);
     e_ack_is_default_ptr := match c_dialer c with Some {| d_ack := Some AGlobal |} => true | _ => false end;
     e_sechan := c_sechan c; e_session := c_session c; e_token := tok_get c; e_statech := c_statech c; e_statefn := c_statefn c |}.

Definition outcome_eff (g : gstate) (o : outcome) : option (option econfig) :=
  match o with Created c => Some (Some (effective g c)) | Failed => Some None | Panic => None end.

(* the hypothesis of C23: the caller does not hand the package-level pointer itself to opcua.Dialer *)
Definition opt_ok (o : opt) : bool :=
  match o with ODialer (Some {| u_ack := UGlobal |}) => false | _ => true end.

(* ---- boolean equality on effective configurations (used by the correspondence check only) ---- *)
Definition opt_eqb {A} (f : A -> A -> bool) (a b : option A) : bool :=
  match a, b with Some x, Some y => f x y | None, None => true | _, _ => false end.
Fixpoint list_eqb {A} (f : A -> A -> bool) (a b : list A) : bool :=
  match a, b with [] , [] => true | x :: a', y :: b' => f x y && list_eqb f a' b' | _, _ => false end.
Definition ack_eqb (a b : ack) : bool :=
  N.eqb (a_version a) (a_version b) && N.eqb (a_rbuf a) (a_rbuf b) && N.eqb (a_sbuf a) (a_sbuf b) &&
  N.eqb (a_maxmsg a) (a_maxmsg b) && N.eqb (a_maxchunk a) (a_maxchunk b).
Definition token_eqb (a b : token) : bool :=
  N.eqb (t_kind a) (t_kind b) && beqb (t_policy a) (t_policy b) && beqb (t_user a) (t_user b) && opt_eqb beqb (t_data a) (t_data b).
Definition sechan_eqb (a b : sechan) : bool :=
  beqb (sc_policy a) (sc_policy b) && opt_eqb beqb (sc_cert a) (sc_cert b) && N.eqb (sc_localkey a) (sc_localkey b) &&
  N.eqb (sc_userkey a) (sc_userkey b) && opt_eqb beqb (sc_thumb a) (sc_thumb b) && opt_eqb beqb (sc_remote a) (sc_remote b) &&
  N.eqb (sc_seed a) (sc_seed b) && N.eqb (sc_mode a) (sc_mode b) && Bool.eqb (sc_autorec a) (sc_autorec b) &&
  Z.eqb (sc_recint a) (sc_recint b) && N.eqb (sc_lifetime a) (sc_lifetime b) && Z.eqb (sc_reqto a) (sc_reqto b).
Definition session_eqb (a b : session) : bool :=
  Z.eqb (ss_timeout a) (ss_timeout b) && beqb (ss_appuri a) (ss_appuri b) && beqb (ss_producturi a) (ss_producturi b) &&
  beqb (ss_appname a) (ss_appname b) && opt_eqb (list_eqb beqb) (ss_locales a) (ss_locales b) && beqb (ss_name a) (ss_name b) &&
  opt_eqb Nat.eqb (ss_token a) (ss_token b) && beqb (ss_authpolicy a) (ss_authpolicy b) && beqb (ss_authpass a) (ss_authpass b).
Definition econfig_eqb (a b : econfig) : bool :=
  opt_eqb (opt_eqb Z.eqb) (e_net a) (e_net b) && opt_eqb (opt_eqb ack_eqb) (e_ack a) (e_ack b) &&
  Bool.eqb (e_ack_is_default_ptr a) (e_ack_is_default_ptr b) && sechan_eqb (e_sechan a) (e_sechan b) &&
  session_eqb (e_session a) (e_session b) && opt_eqb token_eqb (e_token a) (e_token b) && N.eqb (e_statech a) (e_statech b) && N.eqb (e_statefn a) (e_statefn b).
