(* Layout.v — length/padding arithmetic of uasc.signAndEncrypt (hand-written model).
   Tied to the code by the C38/C07 correspondence sweeps: the real signAndEncrypt is run through the
   verif hook and its output length, padding bytes and MessageSize field are compared with these
   definitions. *)
From Coq Require Import ZArith Bool List.
Import ListNotations.
Open Scope Z_scope.

Inductive sec_mode := ModeNone | ModeSign | ModeSignEnc.

(* number of PaddingSize bytes: two (ExtraPaddingSize) when the remote signature is longer than 256 bytes *)
Definition pad_bytes (rsig : Z) : Z := if rsig >? 256 then 2 else 1.

(* n = length of what follows the security header in the unsecured chunk = 8 (sequence header) + body *)
Definition padding_len (plain sig rsig n : Z) : Z :=
  let r := Z.rem (n + sig + pad_bytes rsig) plain in
  if r =? 0 then 0 else plain - r.

(* plaintext that is fed to Encrypt: sequence header + body + padding + padding size byte(s) + signature *)
Definition plaintext_len (plain sig rsig n : Z) : Z :=
  n + padding_len plain sig rsig n + pad_bytes rsig + sig.

(* total length of the secured chunk; hdr = 12 + security header length (16 for symmetric chunks) *)
Definition secured_len (m : sec_mode) (block plain sig rsig hdr n : Z) : Z :=
  match m with
  | ModeNone => hdr + n
  | ModeSign => hdr + n + sig
  | ModeSignEnc => hdr + Z.quot (plaintext_len plain sig rsig n) plain * block
  end.

(* value written into the MessageSize field *)
Definition message_size := secured_len.

Definition sym_hdr : Z := 16.
Definition seq_hdr : Z := 8.
