(* ServerSpace.v — the server's address space and the attribute read / write path.
   Hand transcription of
     server/node.go            Node.Attribute, Node.SetAttribute, Node.Access
     server/namespace_node.go  NodeNameSpace.Attribute, NodeNameSpace.SetAttribute, NodeNameSpace.Node
     server/attribute_service.go  Read, Write (the per-element loops)
   tied to the code by the C31 correspondence (engines/C31.py: real client against a real server whose nodes
   carry generated attribute combinations; every read / write result is recomputed here with vm_compute).

   Node keys: a node is stored under NodeID.String(); the harness numbers the distinct strings, ns-0 numeric
   ids keep their number.  A request names a node by (namespace index, key). *)
From Coq Require Import NArith ZArith Bool List.
Import ListNotations.
Open Scope N_scope.

Definition key := N.

(* what the code can observe of a *ua.Variant stored in / written to an attribute *)
Inductive vnt :=
| VNil                  (* nil *ua.Variant (DataValue without the value bit) *)
| VNull                 (* variant whose Value() is nil *)
| VU8 (n : N)           (* uint8  — the only type the access check accepts *)
| VU32 (n : N)
| VI32 (z : Z)
| VNodeId (k : key)
| VExpId (k : key)
| VOther (tag : N) (payload : N).

Record dval := DV { dv_v : vnt; dv_status : N }.

(* constants (checked against the generated Gen.ServerGen in Props) *)
Definition AttrNodeID := 1.
Definition AttrNodeClass := 2.
Definition AttrEventNotifier := 12.
Definition AttrValue := 13.
Definition AttrDataType := 14.
Definition AttrAccessLevel := 17.
Definition AttrUserAccessLevel := 18.
Definition FlagCurrentRead := 1.
Definition FlagCurrentWrite := 2.
Definition StOK := 0.
Definition StBad := 2147483648.                    (* 0x80000000 *)
Definition StBadNodeIDUnknown := 2150891520.       (* 0x80340000 *)
Definition StBadAttributeIDInvalid := 2150957056.  (* 0x80350000 *)
Definition StBadUserAccessDenied := 2149515264.    (* 0x801F0000 *)

Definition nid := (N * key)%type.   (* namespace index, key *)

(* a reference as stored in Node.refs *)
Record ref := Ref {
  r_type : option key;      (* ReferenceTypeID; None = nil pointer *)
  r_tint : N;               (* ReferenceTypeID.IntID() (the numeric identifier alone, whatever the namespace) *)
  r_fwd : bool;
  r_target : option nid;    (* NodeID (expanded): namespace and key; None = nil pointer *)
  r_class : N;              (* NodeClass *)
  r_named : bool            (* BrowseName, DisplayName and TypeDefinition are all non-nil *)
}.

(* n_val: None = no value function; Some None = the function returns nil; Some (Some d) = returns d *)
Record node := Node { n_attrs : list (N * dval); n_refs : list ref; n_val : option (option dval) }.

Record space := Space { sp_ns : N;                    (* number of namespaces *)
                        sp_nodes : list (key * node)  (* all node namespaces' maps, keyed by NodeID.String() *) }.

Fixpoint alist_get {A} (k : N) (l : list (N * A)) : option A :=
  match l with
  | [] => None
  | (k', v) :: t => if k' =? k then Some v else alist_get k t
  end.

(* Go map assignment m[k] = v on an association list without duplicate keys: replace in place, else append *)
Fixpoint alist_set {A} (k : N) (v : A) (l : list (N * A)) : list (N * A) :=
  match l with
  | [] => [(k, v)]
  | (k', v') :: t => if k' =? k then (k, v) :: t else (k', v') :: alist_set k v t
  end.

Fixpoint alist_del {A} (k : N) (l : list (N * A)) : list (N * A) :=
  match l with
  | [] => []
  | (k', v') :: t => if k' =? k then alist_del k t else (k', v') :: alist_del k t
  end.

Definition get_node (sp : space) (k : key) : option node := alist_get k (sp_nodes sp).
Definition set_node (sp : space) (k : key) (n : node) : space := Space (sp_ns sp) (alist_set k n (sp_nodes sp)).

(* Node.Attribute: None = the error BadAttributeIDInvalid *)
Definition node_attr (n : node) (id : N) : option dval :=
  if id =? AttrValue then
    match n_val n with Some (Some d) => Some d | _ => None end
  else alist_get id (n_attrs n).

(* one level of Node.Access: attribute present -> must be a uint8 with the flag set *)
Definition level_ok (d : dval) (flag : N) : bool :=
  match dv_v d with
  | VU8 b => negb (N.land b flag =? 0)
  | _ => false               (* nil variant (since the fix), nil value, any other type: no access *)
  end.

(* Node.Access *)
Definition access (n : node) (flag : N) : bool :=
  (match node_attr n AttrUserAccessLevel with Some d => level_ok d flag | None => true end) &&
  (match node_attr n AttrAccessLevel with Some d => level_ok d flag | None => true end).

Definition status_dv (st : N) : dval := DV VNil st.

Definition to_i32 (x : N) : Z := if x <? 2147483648 then Z.of_N x else (Z.of_N x - 4294967296)%Z.

(* NodeNameSpace.Attribute. Reading NodeClass rewrites a stored uint32 into an int32 in place, hence the new space. *)
Definition ns_attribute (sp : space) (k : key) (attr : N) : space * dval :=
  match get_node sp k with
  | None => (sp, status_dv StBadNodeIDUnknown)
  | Some n =>
    if negb (access n FlagCurrentRead) then (sp, status_dv StBadUserAccessDenied)
    else if attr =? AttrNodeID then (sp, DV (VNodeId k) StOK)
    else if attr =? AttrEventNotifier then (sp, DV (VU8 0) StOK)
    else if attr =? AttrNodeClass then
      match node_attr n attr with
      | None => (sp, status_dv StBadAttributeIDInvalid)
      | Some d =>
        match dv_v d with
        | VU32 x => let d' := DV (VI32 (to_i32 x)) (dv_status d) in
                    (set_node sp k (Node (alist_set attr d' (n_attrs n)) (n_refs n) (n_val n)), d')
        | _ => (sp, d)
        end
      end
    else match node_attr n attr with
         | None => (sp, status_dv StBadAttributeIDInvalid)
         | Some d => (sp, d)
         end
  end.

(* Node.SetAttribute *)
Definition node_set_attr (n : node) (attr : N) (v : dval) : node :=
  if attr =? AttrValue then Node (n_attrs n) (n_refs n) (Some (Some v))
  else Node (alist_set attr v (n_attrs n)) (n_refs n) (n_val n).

(* NodeNameSpace.SetAttribute (the change notification is modelled in Server.v) *)
Definition ns_set_attribute (sp : space) (k : key) (attr : N) (v : dval) : space * N :=
  match get_node sp k with
  | None => (sp, StBadNodeIDUnknown)
  | Some n =>
    if negb (access n FlagCurrentWrite) then (sp, StBadUserAccessDenied)
    else (set_node sp k (node_set_attr n attr v), StOK)
  end.

(* AttributeService.Read: one element *)
Definition read_one (sp : space) (rv : nid * N) : space * dval :=
  let '((ns, k), attr) := rv in
  if ns <? sp_ns sp then ns_attribute sp k attr else (sp, status_dv StBad).

Fixpoint read_all (sp : space) (l : list (nid * N)) : space * list dval :=
  match l with
  | [] => (sp, [])
  | rv :: t => let '(sp1, d) := read_one sp rv in
               let '(sp2, ds) := read_all sp1 t in (sp2, d :: ds)
  end.

(* AttributeService.Write: one element *)
Definition write_one (sp : space) (wv : nid * N * dval) : space * N :=
  let '((ns, k), attr, v) := wv in
  if ns <? sp_ns sp then ns_set_attribute sp k attr v else (sp, StBadNodeIDUnknown).

Fixpoint write_all (sp : space) (l : list (nid * N * dval)) : space * list N :=
  match l with
  | [] => (sp, [])
  | wv :: t => let '(sp1, st) := write_one sp wv in
               let '(sp2, sts) := write_all sp1 t in (sp2, st :: sts)
  end.

(* ---- the statement's vocabulary ---- *)

(* the node's level attribute `a` is present and does not grant `flag` *)
Definition level_denies (n : node) (a flag : N) : bool :=
  match node_attr n a with Some d => negb (level_ok d flag) | None => false end.

(* "lacks the flag in either level" *)
Definition lacks (n : node) (flag : N) : bool :=
  level_denies n AttrUserAccessLevel flag || level_denies n AttrAccessLevel flag.

(* the value a client would be given for the node: what the value function returns *)
Definition node_value (n : node) : option dval :=
  match n_val n with Some (Some d) => Some d | _ => None end.
