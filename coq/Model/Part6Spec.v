(* Part6Spec.v — the secured MessageChunk layout of OPC UA Part 6 (6.7.2 MessageChunk structure, Table "Message
   Footer", 6.7.2.5 padding rules), written from the specification text and INDEPENDENT of Model/ChunkModel.v:

     MessageHeader   MessageType(3) IsFinal(1) MessageSize(4) SecureChannelId(4)          plain
     SecurityHeader  symmetric: TokenId(4) | asymmetric: PolicyUri, SenderCertificate, ReceiverThumbprint   plain
     SequenceHeader  SequenceNumber(4) RequestId(4)                                     \
     Body                                                                                | encrypted (if encryption is used)
     PaddingSize(1) Padding(PaddingSize bytes, each = PaddingSize) [ExtraPaddingSize(1)] |   (present only if encrypted)
     Signature(SignatureSize)                                                           /

   - MessageSize is the length of the whole chunk, after securing.
   - The signature covers everything before it (headers included); it is computed before encryption.
   - Everything after the SecurityHeader is encrypted.
   - PaddingSize/ExtraPaddingSize: low / high byte of the number of Padding bytes; ExtraPaddingSize is present
     iff the key used to encrypt is longer than 2048 bits (asymmetric only). Every Padding byte holds PaddingSize.
   - Any padding length that makes (SequenceHeader .. Signature) a multiple of the plaintext block size is allowed.  *)
From Coq Require Import ZArith Bool.
From Coq Require Import List.
From Coq.Strings Require Import Byte.
From Opcua Require Import Model.ChunkBytes.
Import ListNotations.
Open Scope Z_scope.

Record spec_keys := mkSpecKeys {
  k_signed : bool;                        (* SecurityMode Sign or SignAndEncrypt, or an asymmetric (OPN) chunk *)
  k_encrypted : bool;                     (* SecurityMode SignAndEncrypt, or an asymmetric chunk *)
  k_extra : bool;                         (* encrypting key longer than 2048 bits *)
  k_plain_block : Z; k_cipher_block : Z;  (* PlainTextBlockSize / CipherTextBlockSize *)
  k_sig_len : Z;                          (* SignatureSize *)
  k_enc : bytes -> option bytes; k_dec : bytes -> option bytes;
  k_sign : bytes -> option bytes; k_verify : bytes -> bytes -> bool
}.

(* the content of a chunk, without MessageSize: type+IsFinal, SecureChannelId ++ SecurityHeader, and the rest *)
Record content := mkContent { x_t4 : bytes; x_h8 : bytes; x_seq : Z; x_req : Z; x_body : bytes }.

Definition footer_padding (k : spec_keys) (n : Z) : bytes :=
  if k_encrypted k then
    [b8 n] ++ repeat (b8 n) (Z.to_nat n) ++ (if k_extra k then [b8 (n / 256)] else [])
  else [].

Definition admissible (k : spec_keys) (n : Z) (x : content) : Prop :=
  k_encrypted k = true ->
  0 <= n < (if k_extra k then 65536 else 256) /\
  (8 + zlen (x_body x) + 1 + n + (if k_extra k then 1 else 0) + k_sig_len k) mod k_plain_block k = 0.

(* a conforming sender, for a padding length n of its choice *)
Definition spec_send (k : spec_keys) (n : Z) (x : content) : option bytes :=
  let inner := le32 (x_seq x) ++ le32 (x_req x) ++ x_body x ++ footer_padding k n in
  let siglen := if k_signed k then k_sig_len k else 0 in
  let after_header :=
    if k_encrypted k then (zlen inner + siglen) / k_plain_block k * k_cipher_block k else zlen inner + siglen in
  let hdr := x_t4 x ++ le32 (4 + 4 + zlen (x_h8 x) + after_header) ++ x_h8 x in
  match (if k_signed k then k_sign k (hdr ++ inner) else Some []) with
  | None => None
  | Some sg =>
    if k_encrypted k then match k_enc k (inner ++ sg) with Some c => Some (hdr ++ c) | None => None end
    else Some (hdr ++ inner ++ sg)
  end.

(* a conforming receiver; hl = length of MessageHeader + SecurityHeader *)
Definition spec_receive (k : spec_keys) (hl : Z) (chunk : bytes) : option content :=
  if (zlen chunk <? hl) || (hl <? 8) then None
  else
    let hdr := ztake hl chunk in
    if negb (de32 (zdrop 4 hdr) =? zlen chunk) then None                    (* MessageSize = chunk length *)
    else
      match (if k_encrypted k then k_dec k (zdrop hl chunk) else Some (zdrop hl chunk)) with
      | None => None
      | Some plain =>
        let siglen := if k_signed k then k_sig_len k else 0 in
        if zlen plain <? siglen then None
        else
          let signed_part := ztake (zlen plain - siglen) plain in
          let sg := zdrop (zlen plain - siglen) plain in
          if k_signed k && negb (k_verify k (hdr ++ signed_part) sg) then None
          else
            let L := zlen signed_part in
            let stripped :=
              if k_encrypted k then
                if k_extra k then
                  if L <? 2 then None
                  else
                    let low := zb (znth (L - 2) signed_part) in
                    let n := zb (znth (L - 1) signed_part) * 256 + low in
                    if L - (n + 2) <? 0 then None
                    else if forallb (fun b => zb b =? low) (zdrop (L - (n + 2)) (ztake (L - 1) signed_part))
                         then Some (ztake (L - (n + 2)) signed_part) else None
                else
                  if L <? 1 then None
                  else
                    let n := zb (znth (L - 1) signed_part) in
                    if L - (n + 1) <? 0 then None
                    else if forallb (fun b => zb b =? n) (zdrop (L - (n + 1)) signed_part)
                         then Some (ztake (L - (n + 1)) signed_part) else None
              else Some signed_part in
            match stripped with
            | None => None
            | Some inner =>
              if zlen inner <? 8 then None
              else Some (mkContent (ztake 4 hdr) (zdrop 8 hdr) (de32 inner) (de32 (zdrop 4 inner)) (zdrop 8 inner))
            end
      end.
