(* E1 codec: well-formedness (rwf) and the documented normalisation (rnorm) of value trees for the WHOLE universe:
   the reflection-driven constructors and all eight hand-written codecs.  On bool / integers / floats / string /
   DateTime / []byte / GUID / LocalizedText they are gwf / norm of Model.CodecWf.
   Conventions:
   - NodeID, ExpandedNodeID, Variant: fields not used by the encoding selected by the mask are zero / nil (what
     the constructors of package ua and Variant.set produce);
   - DataValue, DiagnosticInfo, ExtensionObject with mask 0: fields whose mask bit is off are IGNORED: any content is
     well-formed, rnorm replaces it by the zero value the decoder produces (a DataValue always carries an allocated
     Variant);
   - byte strings inside NodeIDs and Variants: empty and nil both decode to nil (Buffer.ReadBytes);
   - Variant: type id 1..25; at most MaxVariantArrayDimensions dimensions; array length -1 (nil) .. MaxVariantArrayLength; with the dimensions bit every dimension is
     >= 1, their product (no int32 overflow) equals the array length and the value is the rectangular nesting of that
     shape (what sliceDim accepts); zero dimensions are outside (C01_zero_dim_rejected);
   - ExtensionObject: nil pointer (encoded as the two-byte null id, mask 0); mask 0; body nil; XML body; or a body
     whose type is the registered struct of the type id, whose encoding is non-empty (known finding
     extobj-empty-struct) and shorter than 2^32-1 bytes (the length prefix is a uint32).  Unknown type id: body nil. *)
From Coq Require Import NArith ZArith List Bool Lia.
From Coq.Strings Require Import Byte.
From Opcua Require Import Model.CodecTypes Model.Codec Model.CodecWf.
Import ListNotations.
Open Scope Z_scope.

Definition imp (a b : bool) : bool := if a then b else true.
Definition is_none {A} (o : option A) : bool := match o with None => true | Some _ => false end.
Definition is_nil {A} (l : list A) : bool := match l with [] => true | _ => false end.
Definition not_slice (v : val) : bool := match v with VSlice _ => false | _ => true end.
Definition u_ok (w : nat) (z : Z) : bool := int_ok w false z.
Definition i_ok (w : nat) (z : Z) : bool := int_ok w true z.
Definition obytes_ok (b : option bytes) : bool := match b with None => true | Some d => str_ok d end.

Definition zero_nodeid : val := VNodeID 0 0 0 None None.
Definition zero_expnodeid : val := VExpNodeID (Some zero_nodeid) [] 0.
Definition zero_extobj : val := VExtObj 0 (Some zero_expnodeid) None.

(* ------------------------------------------------------------------ NodeID / ExpandedNodeID *)
Definition nodeid_ok (v : val) : bool :=
  match v with
  | VNodeID m ns nid bid gid =>
    byte_ok m &&
    (let typ := m mod 16 in
     if typ =? 0 then (ns =? 0) && byte_ok nid && is_none bid && is_none gid
     else if typ =? 1 then byte_ok ns && u_ok 2 nid && is_none bid && is_none gid
     else if typ =? 2 then u_ok 2 ns && u_ok 4 nid && is_none bid && is_none gid
     else if typ =? 4 then u_ok 2 ns && (nid =? 0) && is_none bid &&
                           match gid with Some g => gwf (TCustom CGUID) g | None => false end
     else if (typ =? 3) || (typ =? 5) then u_ok 2 ns && (nid =? 0) && obytes_ok bid && is_none gid
     else false)
  | _ => false
  end.

Definition norm_obytes (b : option bytes) : option bytes := match b with Some [] => None | _ => b end.
Definition norm_nodeid (v : val) : val :=
  match v with VNodeID m ns nid bid gid => VNodeID m ns nid (norm_obytes bid) gid | _ => v end.

Definition expnodeid_ok (v : val) : bool :=
  match v with
  | VExpNodeID None _ _ => true       (* nil NodeID: encoded as the two-byte null id *)
  | VExpNodeID (Some n) uri srv =>
    nodeid_ok n &&
    (if bit (nodeid_mask n) 7 then str_ok uri else is_nil uri) &&
    (if bit (nodeid_mask n) 6 then u_ok 4 srv else srv =? 0)
  | _ => false
  end.
Definition norm_expnodeid (v : val) : val :=
  match v with
  | VExpNodeID None _ _ => zero_expnodeid
  | VExpNodeID (Some n) uri srv => VExpNodeID (Some (norm_nodeid n)) uri srv
  | _ => v
  end.

(* ------------------------------------------------------------------ Variant shape *)
(* the value is the rectangular nesting of slices described by dims; the innermost elements are not slices *)
Fixpoint shape_ok (dims : list nat) (pv : val) : bool :=
  match dims with
  | [] => false
  | d :: ds =>
    match pv with
    | VSlice (Some l) =>
      Nat.eqb (length l) d && match ds with [] => forallb not_slice l | _ => forallb (shape_ok ds) l end
    | _ => false
    end
  end.

(* the elements in encoding order (Variant.encode walks the nesting depth first) *)
Fixpoint leaves (pv : val) : list val :=
  match pv with
  | VSlice None => []
  | VSlice (Some l) => (fix go (l : list val) : list val := match l with [] => [] | x :: r => leaves x ++ go r end) l
  | _ => [pv]
  end.

(* a dimension: an int32 that Variant.Decode accepts *)
Definition dim_ok (d : Z) : bool := (1 <=? d) && (d <=? max_int32).

(* everything of a non-null Variant except the well-formedness of the elements *)
Definition variant_hdr_ok (m alen dl : Z) (dims : list Z) (p : val) : bool :=
  (m mod 64 <=? 25) &&
  (if negb (bit m 7) then (alen =? 0) && (dl =? 0) && is_nil dims && not_slice p
   else
     (-1 <=? alen) && (alen <=? max_variant_array_length) &&
     (if bit m 6
      then (dl =? zlen dims) && (dl <=? max_variant_array_dimensions) && forallb dim_ok dims &&
           (if 0 <? dl then match dims_product dims 1 with Some c => c =? alen | None => false end else true)
      else (dl =? 0) && is_nil dims) &&
     (if dl <? 2
      then (if alen =? -1 then match p with VSlice None => true | _ => false end else shape_ok [Z.to_nat alen] p)
      else shape_ok (map Z.to_nat dims) p)).

Definition norm_vbytes (v : val) : val := match v with VBytes (Some []) => VBytes None | _ => v end.

(* nesting depth: how many Variant / DataValue / DiagnosticInfo / ExtensionObject values are nested in each other along the
   deepest path (what ua.MaxNestingLevel limits); a nil pointer only occurs as the nil ExtensionObject, which is encoded
   and decoded as an (empty) extension object *)
Fixpoint vdepth (v : val) : nat :=
  let ld := fix go (l : list val) : nat := match l with [] => 0%nat | x :: r => Nat.max (vdepth x) (go r) end in
  let od := fun (o : option val) => match o with None => 0%nat | Some x => vdepth x end in
  match v with
  | VSlice (Some l) => ld l
  | VPtr (Some x) => vdepth x
  | VPtr None => 1%nat
  | VStruct l => ld l
  | VDiag m _ _ _ _ _ _ i => S (if bit m 6 then od i else 0%nat)
  | VDataValue m x _ _ _ _ _ => S (if bit m 0 then od x else 0%nat)
  | VVariant _ _ _ _ p => S (od p)
  | VExtObj m _ b => S (if m =? 0 then 0%nat else od b)
  | _ => 0%nat
  end.

(* no extension object in the value carries a body that is an empty struct (known finding extobj-empty-struct) *)
Definition is_empty_body (b : val) : bool := match b with VPtr (Some (VStruct [])) => true | _ => false end.
Fixpoint noempty (v : val) : bool :=
  let lne := fix go (l : list val) : bool := match l with [] => true | x :: r => noempty x && go r end in
  let one := fun (o : option val) => match o with None => true | Some x => noempty x end in
  match v with
  | VSlice (Some l) => lne l
  | VPtr o => one o
  | VStruct l => lne l
  | VDiag _ _ _ _ _ _ _ i => one i
  | VDataValue _ x _ _ _ _ _ => one x
  | VVariant _ _ _ _ p => one p
  | VExtObj _ _ b => match b with None => true | Some x => negb (is_empty_body x) && noempty x end
  | _ => true
  end.

(* descriptors whose decoded values can be well-formed at all: integer and float widths of Go, slice elements of at
   least one byte (checked for every generated descriptor in Props) *)
Fixpoint desc_ok (t : ty) : bool :=
  match t with
  | TInt w _ => width_ok w
  | TFloat w => Nat.eqb w 4 || Nat.eqb w 8
  | TSlice e => Nat.leb 1 (minsize e) && desc_ok e
  | TPtr e => desc_ok e
  | TStruct fs => forallb desc_ok fs
  | _ => true
  end.

Section All.
  Variable reg : list (Z * Z * ty).

  (* the type of the body of an extension object with this mask and type id (as ExtensionObject.Decode finds it) *)
  Definition extobj_body_ty (m : Z) (tv : val) : option ty :=
    if m =? 2 then Some xml_body_ty else option_map TPtr (lookup_expnodeid reg tv).

  (* sz = true: the full predicate; sz = false: without the condition on the size of the encoded extension object body
     (rwf0: what every successfully decoded value satisfies, Proofs/CodecDecWf.v) *)
  Fixpoint rwfg (sz : bool) (t : ty) (v : val) {struct v} : bool :=
    match t with
    | TSlice e =>
      match v with
      | VSlice None => true
      | VSlice (Some l) =>
        Nat.leb 1 (minsize e) && (zlen l <=? max_int32) &&
        (fix go (l : list val) : bool := match l with [] => true | x :: r => rwfg sz e x && go r end) l
      | _ => false
      end
    | TPtr e => match v with VPtr (Some x) => ptr_elem_ok e && rwfg sz e x | _ => false end
    | TStruct fs =>
      match v with
      | VStruct vs =>
        (fix go (fs : list ty) (vs : list val) {struct vs} : bool :=
           match fs, vs with
           | [], [] => true
           | f :: fs', x :: vs' => rwfg sz f x && go fs' vs'
           | _, _ => false
           end) fs vs
      | _ => false
      end
    | TCustom CNodeID => nodeid_ok v
    | TCustom CExpNodeID => expnodeid_ok v
    | TCustom CDiagInfo =>
      match v with
      | VDiag m sym ns locale loctext info status inner =>
        byte_ok m && imp (bit m 0) (i_ok 4 sym) && imp (bit m 1) (i_ok 4 ns) && imp (bit m 3) (i_ok 4 locale) &&
        imp (bit m 2) (i_ok 4 loctext) && imp (bit m 4) (str_ok info) && imp (bit m 5) (u_ok 4 status) &&
        imp (bit m 6) (match inner with Some i => rwfg sz (TCustom CDiagInfo) i | None => false end)
      | _ => false
      end
    | TCustom CDataValue =>
      match v with
      | VDataValue m value status st sp svt svp =>
        byte_ok m &&
        imp (bit m 0) (match value with Some x => rwfg sz (TCustom CVariant) x | None => false end) &&
        imp (bit m 1) (u_ok 4 status) && imp (bit m 2) (time_ok st) && imp (bit m 4) (u_ok 2 sp) &&
        imp (bit m 3) (time_ok svt) && imp (bit m 5) (u_ok 2 svp)
      | _ => false
      end
    | TCustom CVariant =>
      match v with
      | VVariant m alen dl dims value =>
        byte_ok m &&
        (if m mod 64 =? 0 then (alen =? 0) && (dl =? 0) && is_nil dims && is_none value
         else match value with
              | None => false
              | Some p =>
                variant_hdr_ok m alen dl dims p &&
                (fix lv (pv : val) : bool :=
                   match pv with
                   | VSlice None => true
                   | VSlice (Some l) =>
                     (fix go (l : list val) : bool := match l with [] => true | x :: r => lv x && go r end) l
                   | _ => rwfg sz (variant_ty (m mod 64)) pv
                   end) p
              end)
      | _ => false
      end
    | TCustom CExtObj =>
      match v with
      | VPtr None => true
      | VExtObj m (Some tv) body =>
        byte_ok m && expnodeid_ok tv &&
        (if m =? 0 then true
         else match body with
              | None => true
              | Some bv =>
                match extobj_body_ty m tv with
                | Some bt =>
                  rwfg sz bt bv &&
                  (if sz then match encode reg bt bv with EOk bb => (0 <? blen bb) && (blen bb <? null32) | _ => false end
                   else true)
                | None => false
                end
              end)
      | _ => false
      end
    | _ => gwf t v
    end.

  Definition rwf : ty -> val -> bool := rwfg true.
  Definition rwf0 : ty -> val -> bool := rwfg false.

  Fixpoint rnorm (t : ty) (v : val) {struct v} : val :=
    match t with
    | TSlice e =>
      match v with
      | VSlice (Some l) =>
        VSlice (Some ((fix go (l : list val) : list val := match l with [] => [] | x :: r => rnorm e x :: go r end) l))
      | _ => v
      end
    | TPtr e => match v with VPtr (Some x) => VPtr (Some (rnorm e x)) | _ => v end
    | TStruct fs =>
      match v with
      | VStruct vs =>
        VStruct ((fix go (fs : list ty) (vs : list val) {struct vs} : list val :=
                    match fs, vs with
                    | f :: fs', x :: vs' => rnorm f x :: go fs' vs'
                    | _, _ => []
                    end) fs vs)
      | _ => v
      end
    | TCustom CNodeID => norm_nodeid v
    | TCustom CExpNodeID => norm_expnodeid v
    | TCustom CDiagInfo =>
      match v with
      | VDiag m sym ns locale loctext info status inner =>
        VDiag m (if bit m 0 then sym else 0) (if bit m 1 then ns else 0) (if bit m 3 then locale else 0)
              (if bit m 2 then loctext else 0) (if bit m 4 then info else []) (if bit m 5 then status else 0)
              (if bit m 6 then match inner with Some i => Some (rnorm (TCustom CDiagInfo) i) | None => None end else None)
      | _ => v
      end
    | TCustom CDataValue =>
      match v with
      | VDataValue m value status st sp svt svp =>
        VDataValue m
          (if bit m 0 then match value with Some x => Some (rnorm (TCustom CVariant) x) | None => None end
           else Some zero_variant)
          (if bit m 1 then status else 0) (if bit m 2 then norm_time st else None) (if bit m 4 then sp else 0)
          (if bit m 3 then norm_time svt else None) (if bit m 5 then svp else 0)
      | _ => v
      end
    | TCustom CVariant =>
      match v with
      | VVariant m alen dl dims (Some p) =>
        if m mod 64 =? 0 then v
        else VVariant m alen dl dims
               (Some ((fix nl (pv : val) : val :=
                         match pv with
                         | VSlice None => pv
                         | VSlice (Some l) =>
                           VSlice (Some ((fix go (l : list val) : list val :=
                                            match l with [] => [] | x :: r => nl x :: go r end) l))
                         | _ => let y := rnorm (variant_ty (m mod 64)) pv in
                                if m mod 64 =? 15 then norm_vbytes y else y
                         end) p))
      | _ => v
      end
    | TCustom CExtObj =>
      match v with
      | VPtr None => zero_extobj
      | VExtObj m (Some tv) body =>
        VExtObj m (Some (norm_expnodeid tv))
          (if m =? 0 then None
           else match body with
                | None => None
                | Some bv => match extobj_body_ty m tv with Some bt => Some (rnorm bt bv) | None => body end
                end)
      | _ => v
      end
    | _ => norm t v
    end.
End All.
