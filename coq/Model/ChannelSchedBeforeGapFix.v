(* ChannelSchedBeforeGapFix.v — Model/ChannelSched.v AS IT WAS before fix bf63793 (a request of which nothing was
   written hands its sequence number back): a send failing before its first chunk left a GAP entry.  Kept only for
   C11_refuted_before_fix_early_failure_gap; nothing else refers to it.

   The send side of a secure channel as an interleaving semantics (C11, C16).

   Threads: any number of senders (spawned at any time; a request sender on the client, or -- on a channel
   that never renews, like the server's -- a response sender) and one renewer that may renew again and again.
   One atomic step per synchronisation boundary of uasc/secure_channel.go:

     sender   SendRequestWithTimeout:  reqLocker.waitIfLockThen(pendingReq.Add)
                                                                       EGate     (enabled iff the gate is open; the gate
                                                                                  check and the Add are ONE step: both
                                                                                  happen under the gate's mutex)
                                       getActiveChannelInstance()      EActive
                                       nextRequestID                   EId
              sendAsyncWithTimeout:    instance.Lock()                 ELockI    (enabled iff the instance is unlocked)
                                       per chunk: number it, Write     EChunk    (numbering happens under the instance
                                                                                  lock; one Write per chunk on the one
                                                                                  TCP connection)
                                       (the send fails: ctx done, encode,
                                        sign or write error)           EFail     (before the first chunk: the number
                                                                                  taken by newRequestMessage is used up
                                                                                  and never written -- recorded as a
                                                                                  GAP entry; later: nothing happens)
                                       instance.Unlock()               EUnlockI
                                       pendingReq.Done()               EDone
     renewer  Renew / scheduleRenewal: (read the instance to renew)    ERenStart
              renew:                   reqLocker.lock()                ERenGate
                                       pendingReq.Wait()               ERenDrain (enabled iff the counter is 0)
                                       instance.Lock()  (old)          ERenLock
              open:                    new instance, copy the counter,
                                       nextRequestID                   ERenCopy
                                       send the OPN on the new one     ERenOpn
              handleOpenSecureChannelResponse: activeInstance = new    ERenInstall
              (the request fails / times out instead: the counter
               of the new instance is handed back to the old one)      ERenFail
              deferred Unlock (old), reqLocker.unlock()                ERenUnlock

   The wire is the list of chunks in the order of the Write calls (kept newest first in `wire_rev`).
   The sequence counter step is Gen.ArithFromGo.go_nextSequenceNumber, the request id step go_nextRequestID
   (both translated from the Go AST on every run). *)
From Coq Require Import ZArith List Bool Lia PeanoNat.
From Opcua Require Import Gen.ArithFromGo.
Import ListNotations.
Open Scope Z_scope.

Definition tid := nat.
Definition iid := nat.

(* OwnGap t: not a chunk -- the sequence number that sender t took and never wrote (failed before its first chunk) *)
Inductive owner := OwnS (t : tid) | OwnR (n : nat) | OwnGap (t : tid).

Record chunk := Chunk {
  c_seq : Z; c_req : Z; c_final : bool; c_opn : bool;
  c_owner : owner;          (* ghost: who wrote it *)
  c_inst : iid;             (* ghost: the instance (token) that numbered and secured it *)
  c_act : iid }.            (* ghost: the active instance at the moment it was written *)

Inductive spc :=
| SStart (n : nat)                         (* message of n+1 chunks *)
| SPassed (n : nat)                        (* counted in pendingReq, no instance yet *)
| SHasInst (n : nat) (i : iid)
| SCounted (n : nat) (i : iid) (id : Z)
| SWriting (n : nat) (i : iid) (id : Z) (k : nat)   (* holds the lock of i; k chunks written, k <= n *)
| SWritten (i : iid)
| SUnlocked
| SDone.

Inductive rpc :=
| RIdle
| RHas (i : iid)
| RGate (i : iid)
| RDrained (i : iid)
| ROldLocked (i : iid)
| RCopied (i j : iid) (id : Z)
| ROpnSent (i j : iid)
| RInstalled (i j : iid)
| RFailed (i j : iid).

Record st := St {
  ss : list spc;
  r : rpc;
  gate : bool;                       (* reqLocker.bLock *)
  pending : nat;                     (* pendingReq *)
  active : iid;
  ninst : nat;                       (* instances created so far *)
  iseq : iid -> Z;                   (* channelInstance.sequenceNumber *)
  ilock : iid -> option owner;       (* channelInstance.Mutex *)
  next_req : Z;
  wire_rev : list chunk;             (* newest first; includes the GAP entries (see visible) *)
  renewals : nat;                    (* ghost: completed ERenInstall steps *)
  ropn : nat }.                      (* ghost: OPN requests written so far *)

Definition updI {A} (f : iid -> A) (k : iid) (v : A) : iid -> A := fun x => if Nat.eqb x k then v else f x.

Fixpoint upd_nth {A} (l : list A) (n : nat) (x : A) : list A :=
  match l, n with
  | [], _ => []
  | _ :: t, O => x :: t
  | h :: t, S n' => h :: upd_nth t n' x
  end.

Definition set_ss s v := St v (r s) (gate s) (pending s) (active s) (ninst s) (iseq s) (ilock s) (next_req s) (wire_rev s) (renewals s) (ropn s).
Definition set_r s v := St (ss s) v (gate s) (pending s) (active s) (ninst s) (iseq s) (ilock s) (next_req s) (wire_rev s) (renewals s) (ropn s).
Definition set_gate s v := St (ss s) (r s) v (pending s) (active s) (ninst s) (iseq s) (ilock s) (next_req s) (wire_rev s) (renewals s) (ropn s).
Definition set_pending s v := St (ss s) (r s) (gate s) v (active s) (ninst s) (iseq s) (ilock s) (next_req s) (wire_rev s) (renewals s) (ropn s).
Definition set_ninst s v := St (ss s) (r s) (gate s) (pending s) (active s) v (iseq s) (ilock s) (next_req s) (wire_rev s) (renewals s) (ropn s).
Definition set_iseq s v := St (ss s) (r s) (gate s) (pending s) (active s) (ninst s) v (ilock s) (next_req s) (wire_rev s) (renewals s) (ropn s).
Definition set_ilock s v := St (ss s) (r s) (gate s) (pending s) (active s) (ninst s) (iseq s) v (next_req s) (wire_rev s) (renewals s) (ropn s).
Definition set_next_req s v := St (ss s) (r s) (gate s) (pending s) (active s) (ninst s) (iseq s) (ilock s) v (wire_rev s) (renewals s) (ropn s).
Definition set_ropn s v := St (ss s) (r s) (gate s) (pending s) (active s) (ninst s) (iseq s) (ilock s) (next_req s) (wire_rev s) (renewals s) v.
Definition set_active s v := St (ss s) (r s) (gate s) (pending s) v (ninst s) (iseq s) (ilock s) (next_req s) (wire_rev s) (S (renewals s)) (ropn s).
Definition set_wire s v := St (ss s) (r s) (gate s) (pending s) (active s) (ninst s) (iseq s) (ilock s) (next_req s) v (renewals s) (ropn s).

(* a channel after Open: one instance whose counter is seq0 *)
Definition init (seq0 req0 : Z) : st :=
  St [] RIdle false 0%nat 0%nat 1%nat (fun _ => seq0) (fun _ => None) req0 [] 0%nat 0%nat.

Inductive ev :=
| ESpawn (n : nat)
| EGate (t : tid) | EActive (t : tid) | EId (t : tid) | ELockI (t : tid) | EChunk (t : tid)
| EFail (t : tid) | EUnlockI (t : tid) | EDone (t : tid)
| ERenStart | ERenGate | ERenDrain | ERenLock | ERenCopy | ERenOpn | ERenInstall | ERenFail | ERenUnlock.

(* number one chunk on instance i and write it *)
Definition emit (s : st) (i : iid) (id : Z) (final opn : bool) (o : owner) : st :=
  let q := go_nextSequenceNumber (iseq s i) in
  set_wire (set_iseq s (updI (iseq s) i q)) (Chunk q id final opn o i (active s) :: wire_rev s).

Definition sstep (s : st) (t : tid) (f : spc -> option (st * spc)) : option st :=
  match nth_error (ss s) t with
  | Some pc => match f pc with
               | Some (s', pc') => Some (set_ss s' (upd_nth (ss s') t pc'))
               | None => None
               end
  | None => None
  end.

Definition step (s : st) (e : ev) : option st :=
  match e with
  | ESpawn n => Some (set_ss s (ss s ++ [SStart n]))
  | EGate t => sstep s t (fun pc => match pc with
                                   | SStart n => if gate s then None else Some (set_pending s (S (pending s)), SPassed n)
                                   | _ => None end)
  | EActive t => sstep s t (fun pc => match pc with SPassed n => Some (s, SHasInst n (active s)) | _ => None end)
  | EId t => sstep s t (fun pc => match pc with
                                 | SHasInst n i => let id := go_nextRequestID (next_req s) in
                                                   Some (set_next_req s id, SCounted n i id)
                                 | _ => None end)
  | ELockI t => sstep s t (fun pc => match pc with
                                    | SCounted n i id => match ilock s i with
                                                         | None => Some (set_ilock s (updI (ilock s) i (Some (OwnS t))), SWriting n i id 0%nat)
                                                         | Some _ => None
                                                         end
                                    | _ => None end)
  | EChunk t => sstep s t (fun pc => match pc with
                                    | SWriting n i id k =>
                                        let final := Nat.eqb k n in
                                        Some (emit s i id final false (OwnS t), if final then SWritten i else SWriting n i id (S k))
                                    | _ => None end)
  | EFail t => sstep s t (fun pc => match pc with
                                   | SWriting n i id k =>
                                       Some (match k with
                                             | O => emit s i id true false (OwnGap t)   (* the number is gone *)
                                             | S _ => s
                                             end, SWritten i)
                                   | _ => None end)
  | EUnlockI t => sstep s t (fun pc => match pc with
                                      | SWritten i => Some (set_ilock s (updI (ilock s) i None), SUnlocked)
                                      | _ => None end)
  | EDone t => sstep s t (fun pc => match pc with
                                   | SUnlocked => Some (set_pending s (Nat.pred (pending s)), SDone)
                                   | _ => None end)
  | ERenStart => match r s with RIdle => Some (set_r s (RHas (active s))) | _ => None end
  | ERenGate => match r s with RHas i => Some (set_r (set_gate s true) (RGate i)) | _ => None end
  | ERenDrain => match r s with RGate i => if Nat.eqb (pending s) 0%nat then Some (set_r s (RDrained i)) else None | _ => None end
  | ERenLock => match r s with
                | RDrained i => match ilock s i with
                                | None => Some (set_r (set_ilock s (updI (ilock s) i (Some (OwnR 0)))) (ROldLocked i))
                                | Some _ => None
                                end
                | _ => None end
  | ERenCopy => match r s with
                | ROldLocked i =>
                    let j := ninst s in
                    let id := go_nextRequestID (next_req s) in
                    Some (set_r (set_next_req (set_iseq (set_ninst s (S j)) (updI (iseq s) j (iseq s i))) id) (RCopied i j id))
                | _ => None end
  | ERenOpn => match r s with
               | RCopied i j id => Some (set_ropn (set_r (emit s j id true true (OwnR (ropn s))) (ROpnSent i j)) (S (ropn s)))
               | _ => None end
  | ERenInstall => match r s with
                   | ROpnSent i j => Some (set_r (set_active s j) (RInstalled i j))
                   | _ => None end
  | ERenFail => match r s with
                | ROpnSent i j => Some (set_r (set_iseq s (updI (iseq s) i (iseq s j))) (RFailed i j))
                | _ => None end
  | ERenUnlock => match r s with
                  | RInstalled i j | RFailed i j => Some (set_r (set_gate (set_ilock s (updI (ilock s) i None)) false) RIdle)
                  | _ => None end
  end.

Fixpoint runP (P : st -> ev -> bool) (evs : list ev) (s : st) : option st :=
  match evs with
  | [] => Some s
  | e :: rest => if P s e then match step s e with Some s' => runP P rest s' | None => None end else None
  end.

Definition anyev (_ : st) (_ : ev) : bool := true.
Definition run := runP anyev.

Definition reachableP (P : st -> ev -> bool) (seq0 req0 : Z) (s : st) : Prop :=
  exists evs, runP P evs (init seq0 req0) = Some s.
Definition reachable := reachableP anyev.

(* what is really on the connection: everything but the GAP entries *)
Definition visible (c : chunk) : bool := match c_owner c with OwnGap _ => false | _ => true end.
Definition wire_rev_visible (s : st) : list chunk := filter visible (wire_rev s).
Definition wire (s : st) : list chunk := rev (wire_rev_visible s).

(* ---- the two halves of the property, as executable predicates on the wire (newest chunk first) ---- *)

Definition owner_eqb (a b : owner) : bool :=
  match a, b with OwnS x, OwnS y => Nat.eqb x y | OwnR x, OwnR y => Nat.eqb x y | OwnGap x, OwnGap y => Nat.eqb x y | _, _ => false end.

(* every chunk carries the successor of the number of the chunk written before it *)
Fixpoint consecutive_rev (w : list chunk) : bool :=
  match w with
  | c :: ((p :: _) as rest) => (c_seq c =? go_nextSequenceNumber (c_seq p)) && consecutive_rev rest
  | _ => true
  end.

(* every chunk either continues the message of the chunk written just before it or starts a message of which
   nothing has been written before: the chunks of one message are never interleaved with chunks of another (a message
   may be abandoned after some chunks when its send fails; it is then never resumed) *)
Fixpoint contiguous_rev (w : list chunk) : bool :=
  match w with
  | c :: ((p :: _) as rest) =>
      (owner_eqb (c_owner c) (c_owner p) || negb (existsb (fun q => owner_eqb (c_owner q) (c_owner c)) rest))
      && contiguous_rev rest
  | _ => true
  end.

(* the runs on which no send fails before its first chunk is written *)
Definition early_fail (pc : spc) : bool := match pc with SWriting _ _ _ O => true | _ => false end.
Definition no_early_fail (s : st) (e : ev) : bool :=
  match e with
  | EFail t => match nth_error (ss s) t with Some pc => negb (early_fail pc) | None => true end
  | _ => true
  end.

(* projection compared with the frames captured on the real connection *)
Definition wire_obs (s : st) : list (Z * Z * bool * bool) :=
  map (fun c => (c_seq c, c_req c, c_final c, c_opn c)) (wire s).

(* C16: the receiver side of a renewal.  The server re-keys its ONE instance in place when it handles the renewal
   request, so from then on it can only verify chunks secured by the newest token: a chunk is accepted iff no chunk of
   a newer instance was written before it, i.e. iff the instances along the wire never go back. *)
Fixpoint tokens_monotone_rev (w : list chunk) : bool :=
  match w with
  | c :: ((p :: _) as rest) => (c_inst p <=? c_inst c)%nat && tokens_monotone_rev rest
  | _ => true
  end.

(* what the client guarantees whatever happens to the renewal: no chunk is secured by an instance older than the one
   that was installed (active) when it was written *)
Definition not_superseded (c : chunk) : bool := (c_act c <=? c_inst c)%nat.
