(* C04 — ua.NodeID text form: NodeID.String / StringID / GUID.String (render), ua.ParseExpandedNodeID / ParseNodeID /
   NewGUID (parse), Equal, and the TypeRegistry keyed by the text form.  Transcribed from ua/node_id.go,
   ua/expanded_node_id.go, ua/datatypes.go (GUID), ua/typereg.go; strconv.Atoi / ParseUint, encoding/hex and
   encoding/base64 (StdEncoding, as used: '\r' and '\n' skipped, padding mandatory, trailing bits not checked) are modelled
   by their accepted syntax. Errors are a small enum; Go panics are explicit. *)
From Coq Require Import List Bool NArith ZArith.
From Coq.Strings Require Import Byte.
From Opcua Require Import Model.PureBytes.
Import ListNotations.
Open Scope N_scope.

Record guid := { g1 : N; g2 : N; g3 : N; g4 : bytes }.      (* Data1 uint32, Data2, Data3 uint16, Data4 []byte *)

(* a NodeID by its type nibble (mask & 0xf); ns and the identifier field that type uses *)
Inductive nodeid :=
| NTwoByte (ns id : N)            (* ns is stored but never printed *)
| NFourByte (ns id : N)
| NNumeric (ns id : N)
| NString (ns : N) (s : bytes)
| NGuid (ns : N) (g : option guid)   (* gid is a pointer: nil when NewGUID could not parse *)
| NOpaque (ns : N) (b : bytes)
| NInvalid (t : N).                  (* any other type nibble *)

Inductive perr := ENeedNamespaceArray | ENsuNotFound | ENsInvalid | ENsRange | EInvalidNodeID | EInvalidNumeric | ENumericRange
                | EInvalidGuid | EInvalidOpaque | ENsuNotSupported | EIndexNotSupported.
Inductive res (A : Type) := Ok (a : A) | Err (e : perr) | Panic.
Arguments Ok {A} a. Arguments Err {A} e. Arguments Panic {A}.

(* ---------- characters ---------- *)
Definition c_semi := x3b. Definition c_eq := x3d. Definition c_dash := x2d. Definition c_plus := x2b.
Definition c_nl := x0a. Definition c_cr := x0d.
Definition s_ns := [x6e;x73;x3d].        (* "ns=" *)
Definition s_nsu := [x6e;x73;x75;x3d].   (* "nsu=" *)
Definition s_i := [x69;x3d]. Definition s_s := [x73;x3d]. Definition s_g := [x67;x3d]. Definition s_b := [x62;x3d].
Definition s_ns0 := [x6e;x73;x3d;x30].   (* "ns=0" *)

(* ---------- decimal (fmt %d, strconv) ---------- *)
Definition digit_char (d : N) : byte := match Byte.of_N (48 + d) with Some b => b | None => x30 end.
Definition digit_val (c : byte) : option N := let v := Byte.to_N c in if (48 <=? v) && (v <=? 57) then Some (v - 48) else None.

Fixpoint dec_fuel (fuel : nat) (n : N) : bytes :=
  match fuel with
  | O => []
  | S f => if n <? 10 then [digit_char n] else dec_fuel f (n / 10) ++ [digit_char (n mod 10)]
  end.
Definition dec (n : N) : bytes := dec_fuel (S (N.to_nat (N.size n))) n.

(* all characters must be digits; value accumulated left to right *)
Fixpoint digits_from (acc : N) (s : bytes) : option N :=
  match s with
  | [] => Some acc
  | c :: r => match digit_val c with Some d => digits_from (acc * 10 + d) r | None => None end
  end.
Definition digits (s : bytes) : option N := match s with [] => None | _ => digits_from 0 s end.

(* strconv.ParseUint(s, 10, 64): None = any error *)
Definition parse_uint64 (s : bytes) : option N :=
  match digits s with Some v => if v <? 18446744073709551616 then Some v else None | None => None end.

(* strconv.Atoi on a 64-bit platform *)
Definition atoi (s : bytes) : option Z :=
  match s with
  | [] => None
  | c :: r =>
    if Byte.eqb c c_plus then match digits r with Some v => if v <? 9223372036854775808 then Some (Z.of_N v) else None | None => None end
    else if Byte.eqb c c_dash then match digits r with Some v => if v <=? 9223372036854775808 then Some (- Z.of_N v)%Z else None | None => None end
    else match digits s with Some v => if v <? 9223372036854775808 then Some (Z.of_N v) else None | None => None end
  end.

(* ---------- hex (fmt %X on integers and byte slices, encoding/hex.DecodeString) ---------- *)
Definition hex_char (v : N) : byte := match Byte.of_N (if v <? 10 then 48 + v else 55 + v) with Some b => b | None => x30 end.
Definition hex_val (c : byte) : option N :=
  let v := Byte.to_N c in
  if (48 <=? v) && (v <=? 57) then Some (v - 48)
  else if (65 <=? v) && (v <=? 70) then Some (v - 55)
  else if (97 <=? v) && (v <=? 102) then Some (v - 87)
  else None.
Definition hex_byte (b : byte) : bytes := [hex_char (Byte.to_N b / 16); hex_char (Byte.to_N b mod 16)].
Definition hex_bytes (l : bytes) : bytes := flat_map hex_byte l.
Fixpoint unhex (s : bytes) : option bytes :=
  match s with
  | [] => Some []
  | [_] => None
  | h :: l :: r => match hex_val h, hex_val l, unhex r with
                   | Some a, Some b, Some t => match Byte.of_N (16 * a + b) with Some x => Some (x :: t) | None => None end
                   | _, _, _ => None
                   end
  end.

(* big-endian bytes of an unsigned integer of k bytes *)
Fixpoint be_bytes (k : nat) (v : N) : bytes :=
  match k with
  | O => []
  | S k' => be_bytes k' (v / 256) ++ [match Byte.of_N (v mod 256) with Some b => b | None => x00 end]
  end.
Definition be_val (l : bytes) : N := fold_left (fun acc b => acc * 256 + Byte.to_N b) l 0.

Fixpoint zeros (n : nat) : bytes := match n with O => [] | S n' => x30 :: zeros n' end.
(* %0*X with a width on a byte slice: hex, left-padded with '0' *)
Definition hex_padded (w : nat) (l : bytes) : bytes := let h := hex_bytes l in zeros (w - length h) ++ h.

(* GUID.String() before the fix "GUID.String panicked on a GUID with fewer than 8 bytes in Data4":
   g.Data4[:2] panics when Data4 has fewer than 2 bytes (cap = len); other lengths print what is there *)
Definition guid_string_old (g : guid) : res bytes :=
  if (length (g4 g) <? 2)%nat then Panic
  else Ok (hex_bytes (be_bytes 4 (g1 g)) ++ [c_dash] ++ hex_bytes (be_bytes 2 (g2 g)) ++ [c_dash] ++ hex_bytes (be_bytes 2 (g3 g)) ++ [c_dash]
           ++ hex_padded 4 (firstn 2 (g4 g)) ++ [c_dash] ++ hex_padded 12 (skipn 2 (g4 g))).

(* GUID.data4(): Data4 as exactly 8 bytes, zero padded / cut *)
Definition pad8 (l : bytes) : bytes := firstn 8 (l ++ repeat x00 8).

(* GUID.String(): total *)
Definition guid_text (g : guid) : bytes :=
  hex_bytes (be_bytes 4 (g1 g)) ++ [c_dash] ++ hex_bytes (be_bytes 2 (g2 g)) ++ [c_dash] ++ hex_bytes (be_bytes 2 (g3 g)) ++ [c_dash]
  ++ hex_bytes (firstn 2 (pad8 (g4 g))) ++ [c_dash] ++ hex_bytes (skipn 2 (pad8 (g4 g))).
Definition guid_string (g : guid) : res bytes := Ok (guid_text g).

Definition remove_dashes (s : bytes) : bytes := filter (fun c => negb (Byte.eqb c c_dash)) s.

(* ua.NewGUID *)
Definition new_guid (s : bytes) : option guid :=
  match unhex (remove_dashes s) with
  | Some b => if Nat.eqb (length b) 16
              then Some {| g1 := be_val (firstn 4 b); g2 := be_val (firstn 2 (skipn 4 b)); g3 := be_val (firstn 2 (skipn 6 b)); g4 := skipn 8 b |}
              else None
  | None => None
  end.

Definition zero_guid : guid := {| g1 := 0; g2 := 0; g3 := 0; g4 := repeat x00 8 |}.

(* ---------- base64.StdEncoding ---------- *)
Definition b64_char (v : N) : byte :=
  match Byte.of_N (if v <? 26 then 65 + v else if v <? 52 then 71 + v else if v <? 62 then v - 4 else if v =? 62 then 43 else 47) with
  | Some b => b | None => x41 end.
Definition b64_val (c : byte) : option N :=
  let v := Byte.to_N c in
  if (65 <=? v) && (v <=? 90) then Some (v - 65)
  else if (97 <=? v) && (v <=? 122) then Some (v - 71)
  else if (48 <=? v) && (v <=? 57) then Some (v + 4)
  else if v =? 43 then Some 62 else if v =? 47 then Some 63 else None.

Definition byte_of (v : N) : byte := match Byte.of_N (v mod 256) with Some b => b | None => x00 end.

Fixpoint b64_encode (l : bytes) : bytes :=
  match l with
  | [] => []
  | [a] => let v := Byte.to_N a * 65536 in
           [b64_char (v / 262144); b64_char ((v / 4096) mod 64); c_eq; c_eq]
  | [a; b] => let v := Byte.to_N a * 65536 + Byte.to_N b * 256 in
              [b64_char (v / 262144); b64_char ((v / 4096) mod 64); b64_char ((v / 64) mod 64); c_eq]
  | a :: b :: c :: r => let v := Byte.to_N a * 65536 + Byte.to_N b * 256 + Byte.to_N c in
                        b64_char (v / 262144) :: b64_char ((v / 4096) mod 64) :: b64_char ((v / 64) mod 64) :: b64_char (v mod 64) :: b64_encode r
  end.

Definition is_nl (c : byte) : bool := Byte.eqb c c_nl || Byte.eqb c c_cr.
Fixpoint skip_nl (s : bytes) : bytes := match s with c :: r => if is_nl c then skip_nl r else s | [] => [] end.

(* decodeQuantum, repeated; None = CorruptInputError *)
Fixpoint b64_decode_fuel (fuel : nat) (s : bytes) : option bytes :=
  match fuel with
  | O => None
  | S f =>
    match skip_nl s with
    | [] => Some []
    | c1 :: s1 =>
      match b64_val c1 with
      | None => None                                             (* padding or garbage at j = 0 *)
      | Some v1 =>
        match skip_nl s1 with
        | [] => None                                             (* j = 1 *)
        | c2 :: s2 =>
          match b64_val c2 with
          | None => None
          | Some v2 =>
            match skip_nl s2 with
            | [] => None                                         (* j = 2, padding is mandatory *)
            | c3 :: s3 =>
              match b64_val c3 with
              | None =>
                if Byte.eqb c3 c_eq then
                  match skip_nl s3 with                          (* "==" expected *)
                  | c4 :: s4 => if Byte.eqb c4 c_eq then match skip_nl s4 with [] => Some [byte_of ((v1 * 64 + v2) / 16)] | _ => None end else None
                  | [] => None
                  end
                else None
              | Some v3 =>
                match skip_nl s3 with
                | [] => None
                | c4 :: s4 =>
                  match b64_val c4 with
                  | None =>
                    if Byte.eqb c4 c_eq then
                      match skip_nl s4 with
                      | [] => let v := (v1 * 64 + v2) * 64 + v3 in Some [byte_of (v / 1024); byte_of (v / 4)]
                      | _ => None
                      end
                    else None
                  | Some v4 =>
                    let v := ((v1 * 64 + v2) * 64 + v3) * 64 + v4 in
                    match b64_decode_fuel f s4 with
                    | Some t => Some (byte_of (v / 65536) :: byte_of (v / 256) :: byte_of v :: t)
                    | None => None
                    end
                  end
                end
              end
            end
          end
        end
      end
    end
  end.
Definition b64_decode (s : bytes) : option bytes := b64_decode_fuel (S (length s)) s.

(* ---------- render ---------- *)
Definition contains_semi (s : bytes) : bool := existsb (fun c => Byte.eqb c c_semi) s.

(* StringID() *)
Definition string_id (n : nodeid) : res bytes :=
  match n with
  | NGuid _ None => Ok []
  | NGuid _ (Some g) => guid_string g
  | NString _ s => Ok s
  | NOpaque _ b => Ok (b64_encode b)
  | _ => Ok []
  end.

Definition with_ns (ns : N) (tag : bytes) (id : bytes) : bytes :=
  if ns =? 0 then tag ++ id else s_ns ++ dec ns ++ [c_semi] ++ tag ++ id.

(* NodeID.String(), on a non-nil receiver.
   string ids in namespace 0: the short form "s=<id>" is only used when <id> has no ';' (fix for DESIGN section 7 row 6);
   `short_form_always = true` is the code before that fix. *)
Definition render_gen (short_form_always : bool) (n : nodeid) : res bytes :=
  match n with
  | NTwoByte _ id => Ok (s_i ++ dec id)
  | NFourByte ns id => Ok (with_ns ns s_i (dec id))
  | NNumeric ns id => Ok (with_ns ns s_i (dec id))
  | NString ns s =>
    if (ns =? 0) && (short_form_always || negb (contains_semi s)) then Ok (s_s ++ s)
    else Ok (s_ns ++ dec ns ++ [c_semi] ++ s_s ++ s)
  | NGuid ns _ => match string_id n with Ok id => Ok (with_ns ns s_g id) | Err e => Err e | Panic => Panic end
  | NOpaque ns b => Ok (with_ns ns s_b (b64_encode b))
  | NInvalid _ => Panic
  end.

(* ---------- parse ---------- *)
Record expnodeid := { en_id : nodeid; en_uriflag : bool; en_nsu : bytes; en_idx : N }.

(* NewExpandedNodeID(n, uri, 0) *)
Definition new_expanded (n : nodeid) (uri : bytes) : expnodeid :=
  match uri with
  | [] => {| en_id := n; en_uriflag := false; en_nsu := []; en_idx := 0 |}
  | _ => {| en_id := n; en_uriflag := true; en_nsu := uri; en_idx := 0 |}
  end.

(* strings.SplitN(s, ";", 2) *)
Fixpoint split_semi (s : bytes) : bytes * option bytes :=
  match s with
  | [] => ([], None)
  | c :: r => if Byte.eqb c c_semi then ([], Some r)
              else let '(a, b) := split_semi r in (c :: a, b)
  end.

Fixpoint find_uri (tbl : list bytes) (u : bytes) (i : nat) : option nat :=
  match tbl with
  | [] => None
  | x :: t => if beqb x u then Some i else find_uri t u (S i)
  end.

Definition drop (k : nat) (s : bytes) : bytes := skipn k s.

(* the namespace part: "nsu=<uri>" resolved against the server's NamespaceArray, or "ns=<n>" *)
Definition parse_ns (nsval : bytes) (tbl : option (list bytes)) : res (N * bytes) :=
  if has_prefix nsval s_nsu then
    match tbl with
    | None => Err ENeedNamespaceArray
    | Some t => match find_uri t (drop 4 nsval) 0 with
                | Some i => Ok (N.of_nat i mod 65536, drop 4 nsval)
                | None => Err ENsuNotFound
                end
    end
  else if has_prefix nsval s_ns then
    match atoi (drop 3 nsval) with
    | None => Err ENsInvalid
    | Some n => if (n <? 0)%Z || (65535 <? n)%Z then Err ENsRange else Ok (Z.to_N n, [])
    end
  else Err EInvalidNodeID.

(* the identifier part; prefix tests in the code's order *)
Definition parse_ident (nsid : N) (nsu : bytes) (idval : bytes) : res expnodeid :=
  if has_prefix idval s_i then
    match parse_uint64 (drop 2 idval) with
    | None => Err EInvalidNumeric
    | Some id =>
      if (nsid =? 0) && (id <? 256) then Ok (new_expanded (NTwoByte 0 id) [])
      else if (nsid <? 256) && (id <? 65535) then Ok (new_expanded (NFourByte nsid id) nsu)
      else if id <=? 4294967295 then Ok (new_expanded (NNumeric nsid id) nsu)
      else Err ENumericRange
    end
  else if has_prefix idval s_s then Ok (new_expanded (NString nsid (drop 2 idval)) nsu)
  else if has_prefix idval s_g then
    match new_guid (drop 2 idval) with
    | None => Err EInvalidGuid                       (* NewGUID(...) == nil *)
    | Some g => Ok (new_expanded (NGuid nsid (Some g)) nsu)
    end
  else if has_prefix idval s_b then
    match b64_decode (drop 2 idval) with
    | None => Err EInvalidOpaque
    | Some b => Ok (new_expanded (NOpaque nsid b) nsu)
    end
  else if has_prefix idval s_ns then Err EInvalidNodeID
  else Ok (new_expanded (NString nsid idval) nsu).

Definition parse_expanded (s : bytes) (tbl : option (list bytes)) : res expnodeid :=
  match s with
  | [] => Ok {| en_id := NTwoByte 0 0; en_uriflag := false; en_nsu := []; en_idx := 0 |}
  | _ =>
    let '(nsval, idval) := match split_semi s with (a, None) => (s_ns0, a) | (a, Some b) => (a, b) end in
    match parse_ns nsval tbl with
    | Err e => Err e
    | Panic => Panic
    | Ok (nsid, nsu) => parse_ident nsid nsu idval
    end
  end.

(* ua.ParseNodeID *)
Definition parse (s : bytes) : res nodeid :=
  match parse_expanded s None with
  | Ok e => if en_uriflag e then Err ENsuNotSupported else if negb (en_idx e =? 0) then Err EIndexNotSupported else Ok (en_id e)
  | Err e => Err e
  | Panic => Panic
  end.

(* NodeID.Equal *)
Definition equal_gen (sfa : bool) (a b : nodeid) : res bool :=
  match render_gen sfa a, render_gen sfa b with
  | Ok x, Ok y => Ok (beqb x y)
  | Panic, _ | _, Panic => Panic
  | Err e, _ => Err e
  | _, Err e => Err e
  end.

(* ---------- what the property talks about ---------- *)

(* ua.NewGUIDNodeID(ns, s): the zero GUID when s is not a GUID *)
Definition new_guid_nodeid (ns : N) (s : bytes) : nodeid :=
  NGuid ns (Some (match new_guid s with Some g => g | None => zero_guid end)).

(* well-formed: every value of the NodeID struct reachable through the public API (field ranges are those of the Go types;
   a GUID may have a Data4 of ANY length: the struct is exported and Decode of a truncated buffer used to leave it short) *)
Definition wf_guid (g : guid) : bool := (g1 g <? 4294967296) && (g2 g <? 65536) && (g3 g <? 65536).
Definition wf_id (n : nodeid) : bool :=
  match n with
  | NTwoByte ns id => (ns =? 0) && (id <? 256)
  | NFourByte ns id => (ns <? 256) && (id <? 65536)
  | NNumeric ns id => (ns <? 65536) && (id <? 4294967296)
  | NString ns _ => ns <? 65536
  | NGuid ns (Some g) => (ns <? 65536) && wf_guid g
  | NGuid _ None => false
  | NOpaque ns _ => ns <? 65536
  | NInvalid _ => false
  end.

(* the node an id denotes: namespace + identifier; the three numeric encodings denote by number *)
Inductive node := NodeNum (ns id : N) | NodeStr (ns : N) (s : bytes) | NodeGuid (ns : N) (a b c : N) (d : bytes) | NodeOpaque (ns : N) (b : bytes) | NodeNone.
Definition node_of (n : nodeid) : node :=
  match n with
  | NTwoByte _ id => NodeNum 0 id
  | NFourByte ns id | NNumeric ns id => NodeNum ns id
  | NString ns s => NodeStr ns s
  | NGuid ns (Some g) => NodeGuid ns (g1 g) (g2 g) (g3 g) (pad8 (g4 g))      (* a short Data4 denotes the zero-padded GUID *)
  | NOpaque ns b => NodeOpaque ns b
  | _ => NodeNone
  end.

(* the encoding the parser picks for a numeric node (incl. the `id < 65535` quirk: 65535 does not get the four-byte form) *)
Definition smallest (ns id : N) : nodeid :=
  if (ns =? 0) && (id <? 256) then NTwoByte 0 id
  else if (ns <? 256) && (id <? 65535) then NFourByte ns id
  else NNumeric ns id.
Definition canon (n : nodeid) : nodeid :=
  match n with
  | NTwoByte _ id => smallest 0 id
  | NFourByte ns id | NNumeric ns id => smallest ns id
  | NGuid ns (Some g) => NGuid ns (Some {| g1 := g1 g; g2 := g2 g; g3 := g3 g; g4 := pad8 (g4 g) |})
  | _ => n
  end.

(* ---------- TypeRegistry (ua/typereg.go), types as numbers ---------- *)
Record registry := { r_types : list (bytes * N); r_ids : list (N * bytes) }.
Definition reg_empty : registry := {| r_types := []; r_ids := [] |}.
Fixpoint nassoc (k : N) (t : list (N * bytes)) : option bytes :=
  match t with [] => None | (k', v) :: t' => if k =? k' then Some v else nassoc k t' end.
Inductive reg_res := RegOk (r : registry) | RegAlready | RegPanic.
Definition reg_register (sfa : bool) (r : registry) (id : nodeid) (typ : N) : reg_res :=
  match render_gen sfa id with
  | Ok ids =>
    match bassoc ids (r_types r) with
    | Some cur => if cur =? typ then RegOk {| r_types := (ids, typ) :: r_types r; r_ids := match nassoc typ (r_ids r) with Some _ => r_ids r | None => (typ, ids) :: r_ids r end |}
                  else RegAlready
    | None => RegOk {| r_types := (ids, typ) :: r_types r; r_ids := match nassoc typ (r_ids r) with Some _ => r_ids r | None => (typ, ids) :: r_ids r end |}
    end
  | _ => RegPanic
  end.
(* New: the type registered under id *)
Definition reg_new (sfa : bool) (r : registry) (id : nodeid) : res (option N) :=
  match render_gen sfa id with Ok ids => Ok (bassoc ids (r_types r)) | _ => Panic end.
(* Lookup: MustParseNodeID of the stored key — panics when the key does not parse *)
Definition reg_lookup (r : registry) (typ : N) : res (option nodeid) :=
  match nassoc typ (r_ids r) with
  | None => Ok None
  | Some ids => match parse ids with Ok n => Ok (Some n) | _ => Panic end
  end.

(* ---------- boolean equality and outcome codes (used by the correspondence check only) ---------- *)
Definition guid_eqb (a b : guid) : bool := (g1 a =? g1 b) && (g2 a =? g2 b) && (g3 a =? g3 b) && beqb (g4 a) (g4 b).
Definition nodeid_eqb (a b : nodeid) : bool :=
  match a, b with
  | NTwoByte n1 i1, NTwoByte n2 i2 | NFourByte n1 i1, NFourByte n2 i2 | NNumeric n1 i1, NNumeric n2 i2 => (n1 =? n2) && (i1 =? i2)
  | NString n1 s1, NString n2 s2 | NOpaque n1 s1, NOpaque n2 s2 => (n1 =? n2) && beqb s1 s2
  | NGuid n1 None, NGuid n2 None => n1 =? n2
  | NGuid n1 (Some x), NGuid n2 (Some y) => (n1 =? n2) && guid_eqb x y
  | NInvalid t1, NInvalid t2 => t1 =? t2
  | _, _ => false
  end.
Definition expnodeid_eqb (a b : expnodeid) : bool :=
  nodeid_eqb (en_id a) (en_id b) && Bool.eqb (en_uriflag a) (en_uriflag b) && beqb (en_nsu a) (en_nsu b) && (en_idx a =? en_idx b).
Definition perr_code (e : perr) : N :=
  match e with ENeedNamespaceArray => 1 | ENsuNotFound => 2 | ENsInvalid => 3 | ENsRange => 4 | EInvalidNodeID => 5 | EInvalidNumeric => 6
             | ENumericRange => 7 | EInvalidGuid => 8 | EInvalidOpaque => 9 | ENsuNotSupported => 10 | EIndexNotSupported => 11 end.
(* observed outcome: (0, Some v) ok, (code, None) error code, (99, None) panic *)
Definition res_agrees {A} (eqb : A -> A -> bool) (r : res A) (o : N * option A) : bool :=
  match r, o with
  | Ok a, (0, Some b) => eqb a b
  | Err e, (c, None) => perr_code e =? c
  | Panic, (99, None) => true
  | _, _ => false
  end.
Definition G := Build_guid. Definition X := Build_expnodeid.
Definition render := render_gen false.
Definition equal := equal_gen false.

(* ---------- the NodeID struct itself: the encoding mask carries the type nibble AND the ExpandedNodeID flags ---------- *)
(* mask & 0xf = type; 0x80 = NamespaceURI flag, 0x40 = ServerIndex flag (set on the embedded NodeID by NewExpandedNodeID,
   ExpandedNodeID.Decode and ParseExpandedNodeID("nsu=...")).  String(), StringID() and Equal() look at Type() only. *)
Record rawid := { r_mask : N; r_ns : N; r_nid : N; r_bid : bytes; r_gid : option guid }.
Definition view (r : rawid) : nodeid :=
  match N.land (r_mask r) 15 with
  | 0 => NTwoByte (r_ns r) (r_nid r)
  | 1 => NFourByte (r_ns r) (r_nid r)
  | 2 => NNumeric (r_ns r) (r_nid r)
  | 3 => NString (r_ns r) (r_bid r)
  | 4 => NGuid (r_ns r) (r_gid r)
  | 5 => NOpaque (r_ns r) (r_bid r)
  | t => NInvalid t
  end.
Definition raw_render (r : rawid) : res bytes := render (view r).
Definition raw_equal (a b : rawid) : res bool := equal (view a) (view b).
(* SetURIFlag = set_flags 128, SetIndexFlag = set_flags 64 *)
Definition set_flags (f : N) (r : rawid) : rawid :=
  {| r_mask := N.lor (r_mask r) f; r_ns := r_ns r; r_nid := r_nid r; r_bid := r_bid r; r_gid := r_gid r |}.
Definition R := Build_rawid.
