(* RecvBase.v — shared vocabulary of the receive-path models (C09, C10, C12, C13, C17, C20).
   Bytes are [list N]; Go panics are an explicit outcome. *)
From Coq Require Import NArith List Bool.
Import ListNotations.
Open Scope N_scope.

Definition bytes := list N.

(* outcome of a Go function that may return an error or panic *)
Inductive res (A : Type) :=
| Ok (a : A)
| Err (e : N)          (* error class, small enum, see the E_* constants of each model *)
| Panic (p : N).       (* Go run-time panic: 1 = slice bounds out of range, 2 = index out of range, 3 = nil dereference *)
Arguments Ok {A} a.
Arguments Err {A} e.
Arguments Panic {A} p.

Definition P_SLICE : N := 1.
Definition P_INDEX : N := 2.
Definition P_NIL : N := 3.

Definition is_panic {A} (r : res A) : bool := match r with Panic _ => true | _ => false end.

Definition bind {A B} (r : res A) (f : A -> res B) : res B :=
  match r with Ok a => f a | Err e => Err e | Panic p => Panic p end.

Definition nlen {A} (l : list A) : N := N.of_nat (length l).
Definition blen (b : bytes) : N := nlen b.

(* little-endian uint32 of four bytes *)
Definition u32 (b0 b1 b2 b3 : N) : N := b0 + 256 * b1 + 65536 * b2 + 16777216 * b3.

(* binary.LittleEndian.Uint32 after ua.Buffer.ReadN(4): None = io.ErrUnexpectedEOF *)
Definition read_u32 (b : bytes) : option (N * bytes) :=
  match b with
  | b0 :: b1 :: b2 :: b3 :: r => Some (u32 b0 b1 b2 b3, r)
  | _ => None
  end.

(* Go  b[lo:hi]  on a slice of length = capacity [length b]  (Z-valued indices so that negative ones are visible) *)
From Coq Require Import ZArith.
Definition slice (b : bytes) (lo hi : Z) : res bytes :=
  if (0 <=? lo)%Z && (lo <=? hi)%Z && (hi <=? Z.of_nat (length b))%Z
  then Ok (firstn (Z.to_nat hi - Z.to_nat lo) (skipn (Z.to_nat lo) b))
  else Panic P_SLICE.

(* Go  b[i] *)
Definition index (b : bytes) (i : Z) : res N :=
  if (0 <=? i)%Z && (i <? Z.of_nat (length b))%Z then Ok (nth (Z.to_nat i) b 0) else Panic P_INDEX.

(* Finite maps keyed by N (Go map[uint32]V), kept sorted by key so that equal maps are equal terms. *)
Section Tbl.
  Context {V : Type}.
  Definition tbl := list (N * V).

  Fixpoint tfind (t : tbl) (k : N) : option V :=
    match t with
    | [] => None
    | (k', v) :: t' => if k =? k' then Some v else tfind t' k
    end.

  Fixpoint tdel (t : tbl) (k : N) : tbl :=
    match t with
    | [] => []
    | (k', v) :: t' => if k =? k' then tdel t' k else (k', v) :: tdel t' k
    end.

  Fixpoint tset (t : tbl) (k : N) (v : V) : tbl :=
    match t with
    | [] => [(k, v)]
    | (k', v') :: t' =>
        if k =? k' then (k, v) :: t'
        else if k <? k' then (k, v) :: (k', v') :: t'
        else (k', v') :: tset t' k v
    end.
End Tbl.
Arguments tbl V : clear implicits.
