(* CryptoBlocks.v — block-wise asymmetric encryption/decryption of uapolicy (RSAOAEP.Encrypt/Decrypt and
   PKCS1v15.Encrypt/Decrypt have the same loop), over an abstract per-block primitive.
     for srcRemaining > 0 { end := min(start+size, len(src)); c, err := f(src[start:end]); out = append(out, c...);
                            start = end; srcRemaining = len(src) - start }
   size < 0 makes src[start:end] panic (end < start); size = 0 never advances (infinite loop): EOutOfFuel. *)
From Coq Require Import ZArith List Bool.
From Coq.Strings Require Import Byte.
From Opcua Require Import Model.ChunkBytes.
Import ListNotations.
Open Scope Z_scope.

Fixpoint blockwise_loop (fuel : nat) (f : bytes -> option bytes) (size : Z) (src : bytes) : res bytes :=
  match src with
  | [] => Ok []
  | _ :: _ =>
    match fuel with
    | O => Err EOutOfFuel
    | S fuel' =>
      if size <? 0 then Panic
      else match f (ztake size src) with
           | None => Err ESecurityChecks
           | Some c =>
             match blockwise_loop fuel' f size (zdrop size src) with
             | Ok cs => Ok (c ++ cs)
             | Err e => Err e
             | Panic => Panic
             end
           end
    end
  end.

Definition blockwise (f : bytes -> option bytes) (size : Z) (src : bytes) : res bytes :=
  blockwise_loop (S (length src)) f size src.

(* Encrypt: blocks of (key size - minimum padding) plaintext bytes; Decrypt: blocks of key-size bytes *)
Definition rsa_encrypt (keysize minpad : Z) (enc1 : bytes -> option bytes) (src : bytes) : res bytes :=
  blockwise enc1 (keysize - minpad) src.
Definition rsa_decrypt (keysize : Z) (dec1 : bytes -> option bytes) (src : bytes) : res bytes :=
  blockwise dec1 keysize src.

Definition res_opt {A} (r : res A) : option A := match r with Ok a => Some a | _ => None end.
