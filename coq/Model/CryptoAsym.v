(* CryptoAsym.v — asymmetric side of the security policies: the profile table written from OPC UA Part 7
   (key length limits) and Part 6 / RFC 8017 (padding overhead of the asymmetric encryption algorithm),
   and a transcription of the newXAsymmetric constructors. *)
From Coq Require Import ZArith Bool String.
From Coq Require Import List.
Import ListNotations.
Open Scope Z_scope.

Record p7_asym := { p7_name : string; p7_min_bits : Z; p7_max_bits : Z; p7_overhead : Z; p7_nonce : Z }.

(* MinAsymmetricKeyLength / MaxAsymmetricKeyLength / SecureChannelNonceLength per profile (Part 7);
   overhead: RSA-PKCS1-v1_5 encryption 11 bytes, RSA-OAEP 2*hLen+2 (SHA-1: 42, SHA-256: 66) (RFC 8017) *)
Definition part7_asymmetric : list p7_asym := [
  {| p7_name := "Basic128Rsa15";         p7_min_bits := 1024; p7_max_bits := 2048; p7_overhead := 11; p7_nonce := 16 |};
  {| p7_name := "Basic256";              p7_min_bits := 1024; p7_max_bits := 2048; p7_overhead := 42; p7_nonce := 32 |};
  {| p7_name := "Basic256Sha256";        p7_min_bits := 2048; p7_max_bits := 4096; p7_overhead := 42; p7_nonce := 32 |};
  {| p7_name := "Aes128_Sha256_RsaOaep"; p7_min_bits := 2048; p7_max_bits := 4096; p7_overhead := 42; p7_nonce := 32 |};
  {| p7_name := "Aes256_Sha256_RsaPss";  p7_min_bits := 2048; p7_max_bits := 4096; p7_overhead := 66; p7_nonce := 32 |} ].

Definition p7_lookup (name : string) : option p7_asym :=
  find (fun r => String.eqb (p7_name r) name) part7_asymmetric.

Definition in_range (r : p7_asym) (size_bytes : Z) : bool :=
  (p7_min_bits r <=? 8 * size_bytes) && (8 * size_bytes <=? p7_max_bits r).

(* newXAsymmetric(localKey, remoteKey): sizes in bytes, 0 = nil key.
   minlen/maxlen/minpad are the constants of the policy file. Result: (block, plain, sig, rsig) *)
Definition asym_ctor (minlen maxlen minpad : Z) (lsize rsize : Z) : option (Z * Z * Z * Z) :=
  if negb (lsize =? 0) && ((lsize <? minlen) || (lsize >? maxlen)) then None      (* "local key size should be ..." *)
  else if negb (rsize =? 0) && ((rsize <? minlen) || (rsize >? maxlen)) then None (* "remote key size should be ..." *)
  else Some (rsize, rsize - minpad, lsize, rsize).
