(* RecvHeap.v -- explicit heap of byte regions for the receive path (C20).
   uacp.Conn.Receive allocates a fresh buffer per frame (make([]byte, ReceiveBufSize)); in mode None the chunk's Data is a
   window into that buffer; on a secured channel verifyAndDecrypt copies the frame (make + copy), decrypts and writes the
   plaintext into its own copy (append(b[:headerLength], p...)) and Data is a window into the copy; mergeChunks returns the
   single chunk's Data itself, or appends all chunks into a fresh buffer; decoded values (ByteStrings) are windows into the
   merged buffer.  Cryptography and decoding do not matter here: their results are part of the operation (oracle fields).
   Tied by recvharness c20 (deep snapshots after later traffic, identity of successive receive buffers). *)
From Coq Require Import NArith List Bool Arith.
From Opcua Require Import Model.RecvBase Model.RecvMerge.
Import ListNotations.
Local Open Scope nat_scope.

Definition ref := (nat * nat * nat)%type.       (* region, offset, length *)
Record heap := { cells : list bytes }.

Definition alloc (h : heap) (b : bytes) : heap * nat := ({| cells := cells h ++ [b] |}, length (cells h)).

Fixpoint upd (l : list bytes) (r : nat) (v : bytes) : list bytes :=
  match l, r with
  | [], _ => []
  | _ :: t, O => v :: t
  | x :: t, S r' => x :: upd t r' v
  end.

(* copy(dst[off:], d) / append(dst[:off], d...) inside region r *)
Definition hwrite (h : heap) (r off : nat) (d : bytes) : heap :=
  let c := nth r (cells h) [] in
  {| cells := upd (cells h) r (firstn off c ++ d ++ skipn (off + length d) c) |}.

Definition deref (h : heap) (x : ref) : bytes :=
  let '(r, off, len) := x in firstn len (skipn off (nth r (cells h) [])).

(* one frame as the receive path sees it *)
Record frame := { fr_bytes : bytes;          (* the frame read from the socket *)
                  fr_cap : nat;              (* ReceiveBufSize *)
                  fr_secured : bool;         (* verifyAndDecrypt takes the copying path *)
                  fr_hl : nat;               (* header length *)
                  fr_plain : bytes;          (* what Decrypt returned (Sign mode: the bytes after the header, unchanged) *)
                  fr_strip : nat;            (* signature + padding cut off at the end *)
                  fr_type : N; fr_req : N }.

Record hstate := { hp : heap; pend : tbl (list ref) }.
Definition pget (t : tbl (list ref)) (k : N) : list ref := match tfind t k with Some l => l | None => [] end.

Definition hstep (s : hstate) (f : frame) : hstate * option ref :=
  let '(h1, R) := alloc (hp s) (fr_bytes f ++ repeat 0%N (fr_cap f - length (fr_bytes f))) in
  let '(h2, dref) :=
    if fr_secured f then
      let '(h', R2) := alloc h1 (fr_bytes f) in
      (hwrite h' R2 (fr_hl f) (fr_plain f), (R2, fr_hl f + 8, length (fr_plain f) - 8 - fr_strip f))
    else (h1, (R, 24, length (fr_bytes f) - 24)) in
  if (fr_type f =? CT_A)%N then ({| hp := h2; pend := tdel (pend s) (fr_req f) |}, None)
  else if (fr_type f =? CT_C)%N then ({| hp := h2; pend := tset (pend s) (fr_req f) (pget (pend s) (fr_req f) ++ [dref]) |}, None)
  else
    let all := pget (pend s) (fr_req f) ++ [dref] in
    match all with
    | [x] => ({| hp := h2; pend := tdel (pend s) (fr_req f) |}, Some x)
    | _ => let '(h3, R3) := alloc h2 (concat (map (deref h2) all)) in
           ({| hp := h3; pend := tdel (pend s) (fr_req f) |}, Some (R3, 0, length (concat (map (deref h2) all))))
    end.

(* run: every delivered message with the content of its region at the moment of delivery *)
Fixpoint hrun (s : hstate) (fs : list frame) : list (ref * bytes) * hstate :=
  match fs with
  | [] => ([], s)
  | f :: r =>
      let '(s1, o) := hstep s f in
      let '(ds, s2) := hrun s1 r in
      (match o with Some x => (x, nth (fst (fst x)) (cells (hp s1)) []) :: ds | None => ds end, s2)
  end.

(* reading a window (region, offset, length) out of a recorded region content *)
Definition window (c : bytes) (off len : nat) : bytes := firstn len (skipn off c).
