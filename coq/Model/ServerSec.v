(* ServerSec.v — which OpenSecureChannel requests the server accepts, and which endpoints it advertises.
   Hand transcription of
     server/channel_broker.go RegisterConn (every connection starts from defaultChannelConfig: policy None, mode None,
                              the server's certificate and key), server/server_config.go defaultChannelConfig
     uasc/secure_channel.go   readChunk ("OPN": s.cfg.SecurityPolicyURI = m.SecurityPolicyURI, algorithm built from the
                              local key and the sender certificate), handleOpenSecureChannelRequest (s.cfg.SecurityMode =
                              req.SecurityMode); newSecureChannel's consistency rule on the client side
     server/server.go         initEndpoints
   tied by the C30 matrix (engines/C30.py: server configurations x client policy/mode, real channels).
   Policies are numbered: 0 = None, 1.. = the other supported policies; modes 1 None, 2 Sign, 3 SignAndEncrypt. *)
From Coq Require Import NArith Bool List.
Import ListNotations.
Open Scope N_scope.

Definition secpair := (N * N)%type.

(* the pairs a client of this stack can ask for (newSecureChannel refuses the others before sending) *)
Definition consistent (p m : N) : bool := if p =? 0 then m =? 1 else (m =? 2) || (m =? 3).

(* the server side: policy and mode are adopted from the request; `enabled` is not consulted.  A policy other than None
   needs the server's private key to build the asymmetric algorithm. *)
Definition opn_accept (enabled : list secpair) (has_key : bool) (p m : N) : bool :=
  consistent p m && ((p =? 0) || has_key).

(* initEndpoints: one endpoint per enabled pair and url *)
Definition advertised (enabled : list secpair) (urls : list N) : list (N * secpair) :=
  flat_map (fun sec => map (fun u => (u, sec)) urls) enabled.
