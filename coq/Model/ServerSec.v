(* ServerSec.v — which OpenSecureChannel requests the server accepts, what it serves on the channel, which endpoints it
   advertises.  Hand transcription of
     server/server_config.go   securityEnabled, acceptSecurity, defaultChannelConfig
     server/channel_broker.go  RegisterConn (cfg.AcceptSecurity = accept; ERR + close on a security rejection)
     server/service_handlers.go handleService (checkChannel before checkSession), discoveryService
     uasc/secure_channel.go    readChunk ("OPN": the policy of the asymmetric header is adopted and the algorithm built from
                               the local key and the sender certificate), handleOpenSecureChannelRequest (the mode of the
                               request is adopted, then cfg.AcceptSecurity is consulted)
     server/server.go          initEndpoints
   tied by Gen.ServerGen.g_sec_table (the code's own securityEnabled / acceptSecurity evaluated for ten configurations x all
   policies x modes 0..4 on every run) and by the C30 matrix of real channels and raw OPN frames (engines/C30.py).
   Policies are numbered: 0 = None, 1.. = the other supported policies; modes 1 None, 2 Sign, 3 SignAndEncrypt. *)
From Coq Require Import NArith Bool List.
From Opcua Require Import Model.ServerSpace Model.ServerBrowse Model.Server.
Import ListNotations.
Open Scope N_scope.

Definition secpair := (N * N)%type.

Definition StBadSecurityModeRejected := 2152988672.    (* 0x80540000 *)
Definition StBadSecurityPolicyRejected := 2153054208.  (* 0x80550000 *)

Definition pair_in (enabled : list secpair) (p m : N) : bool := existsb (fun e => (fst e =? p) && (snd e =? m)) enabled.

(* serverConfig.securityEnabled: sessions may be used over a channel with this pair *)
Definition sec_enabled (enabled : list secpair) (p m : N) : bool :=
  match enabled with
  | [] => (p =? 0) && (m =? 1)          (* no EnableSecurity at all: None/None as ever, and only that *)
  | _ => pair_in enabled p m
  end.

(* serverConfig.acceptSecurity: None = the OpenSecureChannel request is accepted, Some status = refused *)
Definition accept_security (enabled : list secpair) (p m : N) : option N :=
  if sec_enabled enabled p m then None
  else if (p =? 0) && (m =? 1) then None     (* discovery-only channel *)
  else if existsb (fun e => fst e =? p) enabled then Some StBadSecurityModeRejected
  else Some StBadSecurityPolicyRejected.

(* what the uasc layer itself needs: a policy / mode pair it can run, and the private key for a secured policy *)
Definition consistent (p m : N) : bool := if p =? 0 then m =? 1 else (m =? 2) || (m =? 3).
Definition uasc_ok (has_key : bool) (p m : N) : bool := consistent p m && ((p =? 0) || has_key).

(* the server side of OpenSecureChannel, after the fix *)
Definition opn_accept (enabled : list secpair) (has_key : bool) (p m : N) : bool :=
  match accept_security enabled p m with None => uasc_ok has_key p m | Some _ => false end.

(* OpenSecureChannel comes in two request types: Issue opens the channel, Renew asks for a new token on an open channel.
   The policy of the chunk header and the mode of the request are adopted in both cases (readChunk,
   handleOpenSecureChannelRequest: s.cfg.SecurityMode = req.SecurityMode), so the configuration is consulted in both:
   a renewed token runs under the pair named by the Renew. *)
Inductive opn_kind := OpnIssue | OpnRenew.
Definition opn_accept_k (enabled : list secpair) (has_key : bool) (k : opn_kind) (p m : N) : bool :=
  match k with
  | OpnIssue => opn_accept enabled has_key p m
  | OpnRenew => opn_accept enabled has_key p m
  end.

(* ... and before it: the configuration was not consulted *)
Definition opn_accept_before_fix (enabled : list secpair) (has_key : bool) (p m : N) : bool := uasc_ok has_key p m.

(* discoveryService *)
Definition discovery_services : list N :=
  [SvcFindServers; SvcFindServersOnNetwork; SvcGetEndpoints; SvcRegisterServer; SvcRegisterServer2].
Definition discovery (svc : N) : bool := existsb (N.eqb svc) discovery_services.

(* handleService on a channel opened with pair (p, m): handler lookup, checkChannel, then the rest (Model.Server.handle) *)
Definition handle_on (enabled : list secpair) (chansec : N -> secpair) (fuel : nat) (s : srv) (e : event) : srv * outcome :=
  match e with
  | EReq chan tok r =>
      if has_handler r && negb (discovery (svc_of r)) && negb (sec_enabled enabled (fst (chansec chan)) (snd (chansec chan)))
      then (s, OFault StBadSecurityPolicyRejected)
      else handle fuel s e
  | _ => handle fuel s e
  end.

(* initEndpoints: one endpoint per enabled pair and url *)
Definition advertised (enabled : list secpair) (urls : list N) : list (N * secpair) :=
  flat_map (fun sec => map (fun u => (u, sec)) urls) enabled.
