(* Engine E7 (client), C25: the reconnect action machine of client.go monitor(), against an environment that decides the
   outcome of every Dial / ActivateSession / CreateSession / UpdateNamespaces call.  States and their order of
   reporting are transcribed from monitor(), Connect() and Close(); the subscription actions never fail the machine
   (their errors are logged, see C26). *)
From Coq Require Import List Bool Arith Lia String.
From Opcua Require Import Model.ClientSession.   (* conn_state *)
Import ListNotations.
Open Scope list_scope.
Open Scope nat_scope.

Inductive raction := RNone | RCreateSecureChannel | RRestoreSession | RRecreateSession | RRestoreSubscriptions
                   | RTransferSubscriptions | RAbortReconnect.

(* what arrives on sechanErr, as monitor() classifies it *)
Inductive err_class :=
| EEOF | ERefused | EChannelInvalid | ESessionInvalid | ESubscriptionInvalid | ENoSubscription | ECertInvalid | EOther.

Definition first_action (e : err_class) : raction :=
  match e with
  | EEOF => RCreateSecureChannel
  | ERefused => RAbortReconnect
  | EChannelInvalid => RCreateSecureChannel
  | ESessionInvalid => RRecreateSession
  | ESubscriptionInvalid => RTransferSubscriptions
  | ECertInvalid | EOther => RCreateSecureChannel
  | ENoSubscription => RNone                 (* `continue`: the error is skipped *)
  end.

(* the environment: outcomes of the successive calls of each kind, in order; an exhausted list means success *)
Record env := { dials : list bool; activates : list bool; creates : list bool; namespaces : list bool }.

Definition pop (l : list bool) : bool * list bool := match l with [] => (true, []) | b :: t => (b, t) end.

Inductive call := CDial | CActivate | CCreate | CNamespaces.

Record mstate := {
  m_action : raction;
  m_session : bool;            (* c.Session() != nil *)
  m_env : env;
  m_states : list conn_state;  (* reported so far, most recent last *)
  m_calls : list call;         (* calls made so far, most recent last *)
  m_done : bool                (* monitor() has returned *)
}.

Definition emit (s : mstate) (st : conn_state) : mstate :=
  {| m_action := m_action s; m_session := m_session s; m_env := m_env s; m_states := m_states s ++ [st];
     m_calls := m_calls s; m_done := m_done s |}.
Definition set_action (s : mstate) (a : raction) : mstate :=
  {| m_action := a; m_session := m_session s; m_env := m_env s; m_states := m_states s; m_calls := m_calls s; m_done := m_done s |}.
Definition set_session (s : mstate) (b : bool) : mstate :=
  {| m_action := m_action s; m_session := b; m_env := m_env s; m_states := m_states s; m_calls := m_calls s; m_done := m_done s |}.
Definition finish (s : mstate) : mstate :=   (* return: deferred setState(Closed) *)
  {| m_action := RNone; m_session := m_session s; m_env := m_env s; m_states := m_states s ++ [StClosed]; m_calls := m_calls s; m_done := true |}.

Definition do_call (s : mstate) (c : call) : bool * mstate :=
  let e := m_env s in
  let '(ok, e') :=
    match c with
    | CDial => let '(b, t) := pop (dials e) in (b, {| dials := t; activates := activates e; creates := creates e; namespaces := namespaces e |})
    | CActivate => let '(b, t) := pop (activates e) in (b, {| dials := dials e; activates := t; creates := creates e; namespaces := namespaces e |})
    | CCreate => let '(b, t) := pop (creates e) in (b, {| dials := dials e; activates := activates e; creates := t; namespaces := namespaces e |})
    | CNamespaces => let '(b, t) := pop (namespaces e) in (b, {| dials := dials e; activates := activates e; creates := creates e; namespaces := t |})
    end in
  (ok, {| m_action := m_action s; m_session := m_session s; m_env := e'; m_states := m_states s; m_calls := m_calls s ++ [c]; m_done := m_done s |}).

(* `for { if err := c.Dial(ctx); err != nil { wait ReconnectInterval; continue }; break }` — fuel = number of attempts
   considered; the dial list is finite so the loop ends after at most length+1 attempts *)
Fixpoint dial_loop (fuel : nat) (s : mstate) : mstate :=
  match fuel with
  | 0 => s
  | S f => let '(ok, s') := do_call s CDial in if ok then s' else dial_loop f s'
  end.

(* one iteration of `for action != none { switch action ... }`.
   [tr]: does the transferSubscriptions action report Reconnecting?  (It did not before the fix: commit recorded in
   known_findings.txt; Gen/ClientMonitorStates.v has what the code does today.) *)
Definition step_action_gen (tr : bool) (s : mstate) : mstate :=
  match m_action s with
  | RNone => s
  | RCreateSecureChannel =>
      let s1 := emit s StReconnecting in
      set_action (dial_loop (S (List.length (dials (m_env s1)))) s1) RRestoreSession
  | RRestoreSession =>
      let s1 := emit s StReconnecting in
      if m_session s1 then
        let s2 := set_session s1 false in                 (* c.setSession(nil) *)
        let '(ok, s3) := do_call s2 CActivate in
        if ok then
          let s4 := set_session s3 true in
          let '(ok2, s5) := do_call s4 CNamespaces in
          if ok2 then set_action s5 RRestoreSubscriptions else set_action s5 RCreateSecureChannel
        else set_action s3 RRecreateSession
      else set_action s1 RRecreateSession
  | RRecreateSession =>
      let s1 := set_session (emit s StReconnecting) false in
      let '(ok, s2) := do_call s1 CCreate in
      if ok then
        let '(ok2, s3) := do_call s2 CActivate in
        if ok2 then
          let s4 := set_session s3 true in
          let '(ok3, s5) := do_call s4 CNamespaces in
          if ok3 then set_action s5 RTransferSubscriptions else set_action s5 RCreateSecureChannel
        else set_action s3 RCreateSecureChannel
      else set_action s2 RCreateSecureChannel
  | RTransferSubscriptions => set_action (if tr then emit s StReconnecting else s) RRestoreSubscriptions
  | RRestoreSubscriptions => set_action (emit s StConnected) RNone
  | RAbortReconnect => finish s
  end.

Fixpoint run_actions_gen (tr : bool) (fuel : nat) (s : mstate) : mstate :=
  match fuel with
  | 0 => s
  | S f => if m_done s then s else match m_action s with RNone => s | _ => run_actions_gen tr f (step_action_gen tr s) end
  end.

Definition step_action := step_action_gen true.
Definition run_actions := run_actions_gen true.

(* an error arrives while the client is Connected and the machine idle *)
Definition on_error (auto_reconnect : bool) (e : err_class) (s : mstate) : mstate :=
  match e with
  | ENoSubscription => s
  | _ =>
      let s1 := emit s StDisconnected in
      if auto_reconnect then set_action s1 (first_action e) else finish s1
  end.

Definition connected (e : env) : mstate :=
  {| m_action := RNone; m_session := true; m_env := e; m_states := [StConnecting; StConnected]; m_calls := []; m_done := false |}.

(* Close(): setState(Closed), mcancel: the monitor returns at its next `select` without starting another call *)
Definition on_close (s : mstate) : mstate :=
  if m_done s then emit s StClosed
  else {| m_action := RNone; m_session := false; m_env := m_env s; m_states := m_states s ++ [StClosed; StClosed]; m_calls := m_calls s; m_done := true |}.

(* reconnect after one error, everything included *)
Definition reconnect_gen (tr auto : bool) (e : err_class) (fuel : nat) (ev : env) : mstate :=
  run_actions_gen tr fuel (on_error auto e (connected ev)).
Definition reconnect := reconnect_gen true.

(* --- the documented lifecycle (connstate.go + the comments in monitor()) ---------------------------------------- *)
Definition documented (a b : conn_state) : bool :=
  match a, b with
  | _, StClosed => true                                   (* Close, abort, or auto-reconnect disabled *)
  | StClosed, StConnecting => true
  | StConnecting, StConnected => true
  | StConnected, StDisconnected => true
  | StDisconnected, StReconnecting => true
  | StReconnecting, StReconnecting => true
  | StReconnecting, StConnected => true
  | _, _ => false
  end.

Fixpoint path_ok (l : list conn_state) : bool :=
  match l with
  | a :: ((b :: _) as t) => documented a b && path_ok t
  | _ => true
  end.

Definition last_state (s : mstate) : conn_state := last (m_states s) StClosed.

(* the states each action reports, in order, as the model above has them (compared with the table the translator reads
   off the `switch action` in monitor()) *)
Definition expected_action_states (tr : bool) : list (String.string * list String.string) :=
  [("createSecureChannel", ["Reconnecting"]); ("restoreSession", ["Reconnecting"]); ("recreateSession", ["Reconnecting"]);
   ("transferSubscriptions", if tr then ["Reconnecting"] else []); ("restoreSubscriptions", ["Connected"]);
   ("abortReconnect", [])]%string.
