(* Go strings as byte lists: equality, prefix test, search.  Shared by the C04 / C23 / C24 models. *)
From Coq Require Import List Bool NArith.
From Coq.Strings Require Import Byte.
Import ListNotations.

Definition bytes := list byte.

Fixpoint beqb (a b : bytes) : bool :=
  match a, b with
  | [], [] => true
  | x :: a', y :: b' => Byte.eqb x y && beqb a' b'
  | _, _ => false
  end.

(* strings.HasPrefix s p *)
Fixpoint has_prefix (s p : bytes) {struct p} : bool :=
  match p, s with
  | [], _ => true
  | y :: p', x :: s' => Byte.eqb x y && has_prefix s' p'
  | _ :: _, [] => false
  end.

(* Go map lookup with []byte-like keys, table as association list *)
Fixpoint bassoc {A} (k : bytes) (t : list (bytes * A)) : option A :=
  match t with
  | [] => None
  | (k', v) :: t' => if beqb k k' then Some v else bassoc k t'
  end.
