(* E1 codec: the universe of type descriptors that reflection drives in ua/encode.go and ua/decode.go,
   the value trees, and the outcome types.  Gen/UaTypes.v (regenerated from /repo on every run) instantiates `ty`. *)
From Coq Require Import NArith ZArith List Bool.
From Coq.Strings Require Import Byte.
Import ListNotations.

Definition bytes := list byte.

(* the eight hand-written codecs (types implementing BinaryEncoder/BinaryDecoder); the descriptor stands for the
   POINTER type ( *Variant, *NodeID ... ), which is what implements the interfaces *)
Inductive custom := CVariant | CDataValue | CDiagInfo | CLocText | CNodeID | CExpNodeID | CExtObj | CGUID.

Inductive ty :=
| TBool
| TInt (w : nat) (signed : bool)      (* w bytes, little endian *)
| TFloat (w : nat)                    (* bit pattern; NaN canonicalised *)
| TString
| TTime
| TBytes                              (* []byte fast path of writeSlice/decodeSlice *)
| TSlice (e : ty)
| TPtr (e : ty)
| TStruct (fs : list ty)
| TCustom (c : custom).

(* Go values as trees. Integers of every kind are Z; floats are their IEEE bit pattern; strings are byte lists;
   time.Time is None (IsZero) or Some UnixNano; nil slices / nil pointers / nil interfaces are None. *)
Inductive val :=
| VBool (b : bool)
| VInt (z : Z)
| VStr (s : bytes)
| VTime (t : option Z)
| VBytes (b : option bytes)
| VSlice (l : option (list val))
| VPtr (p : option val)
| VStruct (fs : list val)
| VGuid (d1 d2 d3 : Z) (d4 : bytes)
| VNodeID (mask ns nid : Z) (bid : option bytes) (gid : option val)
| VExpNodeID (nid : option val) (uri : bytes) (srv : Z)
| VLocText (mask : Z) (locale text : bytes)
| VDiag (mask sym nsuri locale loctext : Z) (info : bytes) (status : Z) (inner : option val)
| VDataValue (mask : Z) (value : option val) (status : Z) (st : option Z) (sp : Z) (svt : option Z) (svp : Z)
| VVariant (mask alen dimslen : Z) (dims : list Z) (value : option val)
| VExtObj (mask : Z) (tid : option val) (body : option val).

Inductive err := EEOF | EOther.

(* decoder outcome; `al` = bytes the Go code has allocated on this path *)
Inductive res (A : Type) :=
| Ok (a : A) (rest : bytes) (al : N)
| Err (e : err) (al : N)
| Panic (al : N)
| OutOfFuel.
Arguments Ok {A}. Arguments Err {A}. Arguments Panic {A}. Arguments OutOfFuel {A}.

(* encoder outcome; EIllTyped: the value tree does not have the shape of the descriptor (no Go value corresponds) *)
Inductive eres := EOk (bs : bytes) | EErr | EPanic | EIllTyped.

(* a strong induction principle for ty (Forall on struct fields) *)
Section ty_ind'.
  Variable P : ty -> Prop.
  Hypothesis HBool : P TBool.
  Hypothesis HInt : forall w s, P (TInt w s).
  Hypothesis HFloat : forall w, P (TFloat w).
  Hypothesis HString : P TString.
  Hypothesis HTime : P TTime.
  Hypothesis HBytes : P TBytes.
  Hypothesis HSlice : forall e, P e -> P (TSlice e).
  Hypothesis HPtr : forall e, P e -> P (TPtr e).
  Hypothesis HStruct : forall fs, Forall P fs -> P (TStruct fs).
  Hypothesis HCustom : forall c, P (TCustom c).
  Fixpoint ty_ind' (t : ty) : P t :=
    match t with
    | TBool => HBool | TInt w s => HInt w s | TFloat w => HFloat w | TString => HString | TTime => HTime
    | TBytes => HBytes
    | TSlice e => HSlice e (ty_ind' e)
    | TPtr e => HPtr e (ty_ind' e)
    | TStruct fs => HStruct fs ((fix go (l : list ty) : Forall P l :=
                                   match l with [] => Forall_nil _ | x :: r => Forall_cons x (ty_ind' x) (go r) end) fs)
    | TCustom c => HCustom c
    end.
End ty_ind'.

Definition Forall_opt {A} (P : A -> Prop) (o : option A) : Prop := match o with None => True | Some a => P a end.

(* strong induction principle for val *)
Section val_ind'.
  Variable P : val -> Prop.
  Hypothesis HBool : forall b, P (VBool b).
  Hypothesis HInt : forall z, P (VInt z).
  Hypothesis HStr : forall s, P (VStr s).
  Hypothesis HTime : forall t, P (VTime t).
  Hypothesis HBytes : forall b, P (VBytes b).
  Hypothesis HSliceN : P (VSlice None).
  Hypothesis HSlice : forall l, Forall P l -> P (VSlice (Some l)).
  Hypothesis HPtr : forall p, Forall_opt P p -> P (VPtr p).
  Hypothesis HStruct : forall fs, Forall P fs -> P (VStruct fs).
  Hypothesis HGuid : forall a b c d, P (VGuid a b c d).
  Hypothesis HNodeID : forall m ns nid bid gid, Forall_opt P gid -> P (VNodeID m ns nid bid gid).
  Hypothesis HExp : forall n u s, Forall_opt P n -> P (VExpNodeID n u s).
  Hypothesis HLoc : forall m l t, P (VLocText m l t).
  Hypothesis HDiag : forall m a b c d i s inner, Forall_opt P inner -> P (VDiag m a b c d i s inner).
  Hypothesis HDV : forall m v s a b c d, Forall_opt P v -> P (VDataValue m v s a b c d).
  Hypothesis HVar : forall m a dl ds v, Forall_opt P v -> P (VVariant m a dl ds v).
  Hypothesis HExt : forall m t b, Forall_opt P t -> Forall_opt P b -> P (VExtObj m t b).
  Fixpoint val_ind' (v : val) : P v :=
    let go := fix go (l : list val) : Forall P l :=
                match l with [] => Forall_nil _ | x :: r => Forall_cons x (val_ind' x) (go r) end in
    let goo := fun (o : option val) => match o return Forall_opt P o with None => I | Some x => val_ind' x end in
    match v with
    | VBool b => HBool b | VInt z => HInt z | VStr s => HStr s | VTime t => HTime t | VBytes b => HBytes b
    | VSlice None => HSliceN
    | VSlice (Some l) => HSlice l (go l)
    | VPtr p => HPtr p (goo p)
    | VStruct fs => HStruct fs (go fs)
    | VGuid a b c d => HGuid a b c d
    | VNodeID m ns nid bid gid => HNodeID m ns nid bid gid (goo gid)
    | VExpNodeID n u s => HExp n u s (goo n)
    | VLocText m l t => HLoc m l t
    | VDiag m a b c d i s inner => HDiag m a b c d i s inner (goo inner)
    | VDataValue m v s a b c d => HDV m v s a b c d (goo v)
    | VVariant m a dl ds v => HVar m a dl ds v (goo v)
    | VExtObj m t b => HExt m t b (goo t) (goo b)
    end.
End val_ind'.
