(* CryptoKdf.v — symmetric key derivation of uapolicy (hand-written transcription of crypto_key.go generateKeys
   and of the shape of newXSymmetric), and the specification it is compared with: P_hash of RFC 5246 section 5
   and the PRF / key table of OPC UA Part 6, 6.7.5.  Parametric in the HMAC function. *)
From Coq Require Import ZArith Bool String.
From Coq Require Import List.
From Coq.Strings Require Import Byte.
From Opcua Require Import Model.ChunkBytes.
Import ListNotations.
Open Scope Z_scope.

Inductive nonce_ref := LocalNonce | RemoteNonce.
Inductive keyset_ref := LocalKeys | RemoteKeys.
Inductive field_ref := FSigning | FEncryption | FIV.
Inductive hash_id := HSha1 | HSha256.

(* localKeys := generateKeys(&HMAC{Hash: ks_hash, Secret: ks_secret}, ks_seed, sig, enc, block) *)
Record keyset_src := { ks_hash : hash_id; ks_secret : nonce_ref; ks_seed : nonce_ref }.

(* one newXSymmetric function, as read off its AST by go/cmd/translate/symkeys.go *)
Record symkeys_row := {
  sk_name : string; sk_file : string;
  sk_siglen : Z; sk_enclen : Z; sk_blocklen : Z;
  sk_local : keyset_src; sk_remote : keyset_src;
  sk_enc_iv : keyset_ref * field_ref; sk_enc_key : keyset_ref * field_ref; sk_enc_bits : Z;
  sk_dec_iv : keyset_ref * field_ref; sk_dec_key : keyset_ref * field_ref; sk_dec_bits : Z;
  sk_sign_hash : hash_id; sk_sign_key : keyset_ref * field_ref;
  sk_verify_hash : hash_id; sk_verify_key : keyset_ref * field_ref
}.

Record derived := mkDerived { d_signing : bytes; d_encryption : bytes; d_iv : bytes }.

(* ---- generateKeys: h = HMAC keyed with the secret ----
     a := h(seed); for len(p) < total { p = append(p, h(a ++ seed)...); a = h(a) } *)
Fixpoint gen_loop (fuel : nat) (h : bytes -> bytes) (seed : bytes) (total : Z) (p a : bytes) : option bytes :=
  if total <=? zlen p then Some p
  else match fuel with
       | O => None
       | S f => gen_loop f h seed total (p ++ h (a ++ seed)) (h a)
       end.

Definition generate_keys (h : bytes -> bytes) (seed : bytes) (sl el bl : Z) : res derived :=
  if (sl <? 0) || (el <? 0) || (bl <? 0) then Panic          (* slice bounds out of range *)
  else match gen_loop (S (Z.to_nat (sl + el + bl))) h seed (sl + el + bl) [] (h seed) with
       | None => Err EOutOfFuel
       | Some p => Ok (mkDerived (ztake sl p) (ztake el (zdrop sl p)) (ztake bl (zdrop (sl + el) p)))
       end.

(* ---- specification: RFC 5246 P_hash and the Part 6 PRF(secret, seed, length, offset) ---- *)
Fixpoint A_iter (h : bytes -> bytes) (seed : bytes) (i : nat) : bytes :=
  match i with O => seed | S j => h (A_iter h seed j) end.
Definition p_block (h : bytes -> bytes) (seed : bytes) (i : nat) : bytes := h (A_iter h seed i ++ seed).
(* the first n blocks of P_hash(secret, seed) = HMAC(secret, A(1)+seed) + HMAC(secret, A(2)+seed) + ... *)
Definition p_hash (h : bytes -> bytes) (seed : bytes) (n : nat) : bytes := flat_map (p_block h seed) (seq 1 n).
(* length bytes starting offset bytes into the sequence (off+len blocks are always enough: a block is >= 1 byte) *)
Definition prf (h : bytes -> bytes) (seed : bytes) (len off : Z) : bytes :=
  ztake len (zdrop off (p_hash h seed (Z.to_nat (off + len)))).

(* ---- newXSymmetric: which derived key goes where ---- *)
Record sym_keys := mkSymKeys {
  k_enc_key : bytes; k_enc_iv : bytes; k_dec_key : bytes; k_dec_iv : bytes; k_sign_key : bytes; k_verify_key : bytes }.

Definition nonce_of (r : nonce_ref) (ln rn : bytes) : bytes := match r with LocalNonce => ln | RemoteNonce => rn end.
Definition field_of (f : field_ref) (d : derived) : bytes :=
  match f with FSigning => d_signing d | FEncryption => d_encryption d | FIV => d_iv d end.
Definition pick (x : keyset_ref * field_ref) (lk rk : derived) : bytes :=
  field_of (snd x) (match fst x with LocalKeys => lk | RemoteKeys => rk end).

Section Hm.
Variable hm : hash_id -> bytes -> bytes -> bytes.      (* HMAC hash key message *)

Definition derive (row : symkeys_row) (src : keyset_src) (ln rn : bytes) : res derived :=
  generate_keys (hm (ks_hash src) (nonce_of (ks_secret src) ln rn)) (nonce_of (ks_seed src) ln rn)
                (sk_siglen row) (sk_enclen row) (sk_blocklen row).

Definition sym_keys_of (row : symkeys_row) (ln rn : bytes) : res sym_keys :=
  match derive row (sk_local row) ln rn, derive row (sk_remote row) ln rn with
  | Ok lk, Ok rk =>
    Ok (mkSymKeys (pick (sk_enc_key row) lk rk) (pick (sk_enc_iv row) lk rk)
                  (pick (sk_dec_key row) lk rk) (pick (sk_dec_iv row) lk rk)
                  (pick (sk_sign_key row) lk rk) (pick (sk_verify_key row) lk rk))
  | Panic, _ | _, Panic => Panic
  | Err e, _ | _, Err e => Err e
  end.
End Hm.

(* ---- Part 7 (security policy profiles) / Part 6 6.7.5: what a policy's symmetric side must be ---- *)
Definition spec_row (name file : string) (H : hash_id) (sl el bits : Z) : symkeys_row := {|
  sk_name := name; sk_file := file; sk_siglen := sl; sk_enclen := el; sk_blocklen := 16;
  sk_local := {| ks_hash := H; ks_secret := LocalNonce; ks_seed := RemoteNonce |};
  sk_remote := {| ks_hash := H; ks_secret := RemoteNonce; ks_seed := LocalNonce |};
  sk_enc_iv := (RemoteKeys, FIV); sk_enc_key := (RemoteKeys, FEncryption); sk_enc_bits := bits;
  sk_dec_iv := (LocalKeys, FIV); sk_dec_key := (LocalKeys, FEncryption); sk_dec_bits := bits;
  sk_sign_hash := H; sk_sign_key := (RemoteKeys, FSigning);
  sk_verify_hash := H; sk_verify_key := (LocalKeys, FSigning) |}.

(* KeyDerivationAlgorithm, DerivedSignatureKeyLength, SymmetricEncryptionAlgorithm key length per profile:
   Basic128Rsa15: P_SHA1, 128-bit signing key, AES128; Basic256: P_SHA1, 192, AES256; Basic256Sha256: P_SHA256,
   256, AES256; Aes128_Sha256_RsaOaep: P_SHA256, 256, AES128; Aes256_Sha256_RsaPss: P_SHA256, 256, AES256;
   each side signs/encrypts with the keys derived with the peer's nonce as secret and its own nonce as seed. *)
Definition part7_symmetric : list symkeys_row := [
  spec_row "Aes128Sha256RsaOaep" "policyAes128Sha256RsaOaep.go" HSha256 32 16 128;
  spec_row "Aes256Sha256RsaPss" "policyAes256Sha256RsaPss.go" HSha256 32 32 256;
  spec_row "Basic128Rsa15" "policyBasic128Rsa15.go" HSha1 16 16 128;
  spec_row "Basic256" "policyBasic256.go" HSha1 24 32 256;
  spec_row "Basic256Rsa256" "policyBasic256Sha256.go" HSha256 32 32 256 ].
