(* ChunkToy.v — the toy cipher / MAC used (a) as the Example instantiation of the crypto hypotheses and
   (b) by go/cmd/chunkharness, plugged into a real channelInstance through uapolicy.VerifNewAlgorithm, so that
   the byte-level model can be compared byte for byte with the implementation.  Same functions on both sides. *)
From Coq Require Import ZArith List Bool.
From Coq.Strings Require Import Byte.
From Opcua Require Import Model.Layout Model.ChunkBytes Model.ChunkModel Model.CryptoBlocks.
Import ListNotations.
Open Scope Z_scope.

(* symmetric toy cipher (AES-CBC stand-in): block size bs, byte-wise shift by k; errors like crypto_aes.go *)
Definition toy_sym_enc (bs k : Z) (p : bytes) : option bytes :=
  if negb (Z.rem (zlen p) bs =? 0) then None else Some (map (fun b => b8 (zb b + k)) p).
Definition toy_sym_dec (bs k : Z) (c : bytes) : option bytes :=
  if (zlen c <? bs) || negb (Z.rem (zlen c) bs =? 0) then None else Some (map (fun b => b8 (zb b - k)) c).

(* asymmetric toy primitive (one RSA block): plaintext of at most ks-2 bytes ->
   shifted bytes ++ filler 0xEE ++ 2-byte big-endian plaintext length; always ks bytes *)
Definition toy_rsa_enc1 (ks k : Z) (blk : bytes) : option bytes :=
  if zlen blk >? ks - 2 then None
  else Some (map (fun b => b8 (zb b + k)) blk ++ repeat (b8 238) (Z.to_nat (ks - 2 - zlen blk))
             ++ [b8 (zlen blk / 256); b8 (zlen blk)]).
Definition toy_rsa_dec1 (ks k : Z) (c : bytes) : option bytes :=
  if negb (zlen c =? ks) || (ks <? 2) then None
  else
    let n := 256 * zb (znth (ks - 2) c) + zb (znth (ks - 1) c) in
    if n >? ks - 2 then None
    else Some (map (fun b => b8 (zb b - k)) (ztake n c)).

Definition toy_asym_enc (ks minpad k : Z) (p : bytes) : option bytes := res_opt (rsa_encrypt ks minpad (toy_rsa_enc1 ks k) p).
Definition toy_asym_dec (ks k : Z) (c : bytes) : option bytes := res_opt (rsa_decrypt ks (toy_rsa_dec1 ks k) c).

(* toy MAC with tag length n: every tag byte mixes the key, the message length and the position-sensitive
   checksum (a, b) of the message *)
Definition toy_mac (n key : Z) (m : bytes) : bytes :=
  let ab := cksum m in
  map (fun j => b8 (key + zlen m + (Z.of_nat j + 1) * fst ab + (Z.of_nat j + 3) * snd ab)) (seq 0 (Z.to_nat n)).
Definition toy_verify (n key : Z) (m s : bytes) : bool := bytes_eqb (toy_mac n key m) s.

(* symmetric toy algorithm as seen by one side: encrypt/sign with the "remote" keys, decrypt/verify with "local" *)
Definition toy_sym_algo (block sig : Z) (send_k recv_k : Z) : algo :=
  mkAlgo block block sig sig
         (toy_sym_enc block send_k) (toy_sym_dec block recv_k)
         (fun m => Some (toy_mac sig (send_k + 1) m)) (toy_verify sig (recv_k + 1)).

(* asymmetric toy algorithm: local key size lks, remote key size rks *)
Definition toy_asym_algo (lks rks minpad : Z) (send_k recv_k : Z) : algo :=
  mkAlgo rks (rks - minpad) lks rks
         (toy_asym_enc rks minpad send_k) (toy_asym_dec lks recv_k)
         (fun m => Some (toy_mac lks (send_k + 1) m)) (toy_verify rks (recv_k + 1)).
