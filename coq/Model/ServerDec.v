(* ServerDec.v — decidable equalities and projections used by the correspondence checks (engines/server_common.py):
   the implementation's observations are written as terms and compared with what the model computes. *)
From Coq Require Import NArith ZArith Bool List.
From Opcua Require Import Model.ServerSpace Model.ServerBrowse Model.Server.
Import ListNotations.
Open Scope N_scope.

Definition vnt_eq_dec : forall a b : vnt, {a = b} + {a <> b}.
Proof. decide equality; (apply N.eq_dec || apply Z.eq_dec). Defined.
Definition dval_eq_dec : forall a b : dval, {a = b} + {a <> b}.
Proof. decide equality; (apply N.eq_dec || apply vnt_eq_dec). Defined.
Definition okey_eq_dec : forall a b : option key, {a = b} + {a <> b}.
Proof. decide equality; apply N.eq_dec. Defined.
Definition rdesc_eq_dec : forall a b : rdesc, {a = b} + {a <> b}.
Proof. decide equality; (apply N.eq_dec || apply okey_eq_dec || apply Bool.bool_dec). Defined.
Definition bres_eq_dec : forall a b : N * list rdesc, {a = b} + {a <> b}.
Proof. decide equality; (apply N.eq_dec || apply (list_eq_dec rdesc_eq_dec)). Defined.
Definition outcome_eq_dec : forall a b : outcome, {a = b} + {a <> b}.
Proof.
  decide equality; try apply N.eq_dec; try apply Z.eq_dec;
    try apply (list_eq_dec N.eq_dec); try apply (list_eq_dec dval_eq_dec); try apply (list_eq_dec bres_eq_dec).
Defined.

Definition dval_eqb (a b : dval) : bool := if dval_eq_dec a b then true else false.
Definition outcome_eqb (a b : outcome) : bool := if outcome_eq_dec a b then true else false.

Fixpoint all2 {A B} (f : A -> B -> bool) (l : list A) (m : list B) : bool :=
  match l, m with
  | [], [] => true
  | a :: l', b :: m' => f a b && all2 f l' m'
  | _, _ => false
  end.

(* first index at which the model's outcomes differ from the observed ones (None = all agree) *)
Fixpoint first_diff (l m : list outcome) (i : nat) : option nat :=
  match l, m with
  | [], [] => None
  | a :: l', b :: m' => if outcome_eqb a b then first_diff l' m' (S i) else Some i
  | _, _ => Some i
  end.

(* dumped node (attributes sorted by id by the harness) against the model's node *)
Definition attrs_agree (model dumped : list (N * dval)) : bool :=
  (length model =? length dumped)%nat &&
  forallb (fun ad => match alist_get (fst ad) model with Some d => dval_eqb d (snd ad) | None => false end) dumped.

Definition val_agree (a b : option (option dval)) : bool :=
  match a, b with
  | None, None => true
  | Some None, Some None => true
  | Some (Some x), Some (Some y) => dval_eqb x y
  | _, _ => false
  end.

Definition nodes_agree (sp : space) (dumped : list (key * node)) : bool :=
  forallb (fun kn => match get_node sp (fst kn) with
                     | Some n => attrs_agree (n_attrs n) (n_attrs (snd kn)) && val_agree (n_val n) (n_val (snd kn))
                     | None => false
                     end) dumped.

(* tables: sessions (token, activated); subscriptions (id, owner, interval); items (id, sub, owner, node key, attr, mode) *)
Definition sessions_agree (s : srv) (dumped : list (N * bool)) : bool :=
  (length (sv_sessions s) =? length dumped)%nat &&
  forallb (fun tb => match alist_get (fst tb) (sv_sessions s) with Some b => Bool.eqb b (snd tb) | None => false end) dumped.

Definition oN_eqb (a b : option N) : bool :=
  match a, b with Some x, Some y => x =? y | None, None => true | _, _ => false end.

Definition subs_agree (s : srv) (dumped : list (N * (option N * Z))) (last : N) : bool :=
  (length (sv_subs s) =? length dumped)%nat && (sv_last_sub s =? last) &&
  forallb (fun e => match alist_get (fst e) (sv_subs s) with
                    | Some sb => oN_eqb (sub_owner sb) (fst (snd e)) && (sub_interval sb =? snd (snd e))%Z
                    | None => false
                    end) dumped.

Definition items_agree (s : srv) (dumped : list (N * (N * option N * N * N * N))) (ctr : N) : bool :=
  (length (sv_items s) =? length dumped)%nat && (sv_item_ctr s =? ctr) &&
  forallb (fun e => match alist_get (fst e) (sv_items s) with
                    | Some it => let '(sub, owner, nk, attr, mode) := snd e in
                                 (it_sub it =? sub) && oN_eqb (it_owner it) owner && (snd (it_node it) =? nk) &&
                                 (it_attr it =? attr) && (it_mode it =? mode)
                    | None => false
                    end) dumped.

Definition FUEL : nat := 64.

(* outcomes and final state in one pass *)
Fixpoint run_out (fuel : nat) (s : srv) (h : list event) : srv * list outcome :=
  match h with
  | [] => (s, [])
  | e :: t => let '(s', o) := handle fuel s e in
              let '(s'', os) := run_out fuel s' t in (s'', o :: os)
  end.
