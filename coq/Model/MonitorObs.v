(* MonitorObs.v — what the C28 harness can observe of a run, and the consequences of Model/Monitor.v it checks on it
   (evaluated inside Coq by vm_compute).  Node i is written by one writer with the values ws_i in that order. *)
From Coq Require Import NArith ZArith Bool List.
Import ListNotations.
Open Scope Z_scope.

Record mobs := {
  ob_writes : list (list Z);       (* per node index: acknowledged writes, in order *)
  ob_deliv : list (nat * Z);       (* DataChangeMessages in delivery order: (node index named by the message, value) *)
  ob_monitored : list nat;         (* nodes on the monitor at the end *)
  ob_removed : list (nat * nat);   (* (node, number of deliveries seen when RemoveNodeIDs returned) *)
  ob_readded : list (nat * nat);   (* (node, number of deliveries seen when the node was added again) *)
  ob_final : list Z }.             (* Read of every node after quiescence *)

(* position of a value in the life of a node: 0 = initial value 0, i+1 = i-th write; None = never a value of the node *)
Fixpoint pos_from (i : nat) (ws : list Z) (v : Z) : option nat :=
  match ws with [] => None | w :: r => if w =? v then Some i else pos_from (S i) r v end.
Definition pos (ws : list Z) (v : Z) : option nat := if v =? 0 then Some 0%nat else pos_from 1 ws v.

(* (1) the message names a node of which the value is (or was) a value: right node *)
Definition right_node (o : mobs) : bool :=
  forallb (fun d => match pos (nth (fst d) (ob_writes o) []) (snd d) with Some _ => true | None => false end) (ob_deliv o).

(* (2) per node the delivered values follow the write order (FIFO pipeline, last value kept) *)
Fixpoint mono_from (ws : list (list Z)) (last : list (nat * nat)) (l : list (nat * Z)) : bool :=
  match l with
  | [] => true
  | (n, v) :: r =>
      match pos (nth n ws []) v with
      | None => false
      | Some p =>
          let prev := fold_left (fun acc e => if Nat.eqb (fst e) n then snd e else acc) last 0%nat in
          Nat.leb prev p && mono_from ws ((n, p) :: filter (fun e => negb (Nat.eqb (fst e) n)) last) r
      end
  end.
Definition monotone (o : mobs) : bool := mono_from (ob_writes o) [] (ob_deliv o).

(* (3) a removed node is silent from the moment RemoveNodeIDs returned until it is added again *)
Definition silent_after_remove (o : mobs) : bool :=
  forallb (fun rm =>
    let upto := fold_left (fun acc e => if Nat.eqb (fst e) (fst rm) && Nat.leb (snd rm) (snd e) then Nat.min acc (snd e) else acc)
                          (ob_readded o) (length (ob_deliv o)) in
    forallb (fun d => negb (Nat.eqb (fst d) (fst rm))) (firstn (upto - snd rm) (skipn (snd rm) (ob_deliv o))))
    (ob_removed o).

Definition last_for (n : nat) (l : list (nat * Z)) : option Z :=
  fold_left (fun acc d => if Nat.eqb (fst d) n then Some (snd d) else acc) l None.

(* (4) the read-back is the last acknowledged write, and the last message of every monitored node carries it *)
Definition final_is_last_write (o : mobs) : bool :=
  forallb (fun iv => Z.eqb (snd iv) (last (nth (fst iv) (ob_writes o) []) 0))
          (combine (seq 0 (length (ob_final o))) (ob_final o)).
Definition obs_converged (o : mobs) : bool :=
  forallb (fun n => match last_for n (ob_deliv o) with Some v => Z.eqb v (nth n (ob_final o) (-1)) | None => false end)
          (ob_monitored o).
