(* Monitor.v — the notification pipeline from a node write on the server to the DataChangeMessage the NodeMonitor
   hands to the application (C28).  Hand transcription of
     monitor/subscription.go   AddMonitorItems (fresh client handle := atomic.AddUint32(&nextClientHandle, 1),
                               handles[handle] = node), RemoveMonitorItems, pump (handle -> node lookup; a message is
                               DROPPED when the consumer's buffer is full: callback mode drops the whole notification,
                               channel mode drops the item)
     server/namespace_node.go  SetAttribute: value replaced, THEN srv.ChangeNotification(id)
     server/monitored_item_service.go ChangeNotification: under Mu, for every item on the node read the CURRENT value
                               and send (clientHandle, value) on the subscription's NotifyChannel (FIFO);
                               CreateMonitoredItems: `go ChangeNotification(node)` (initial value, in the background)
     server/subscription_service.go run: publishQueue[clientHandle] = notification (last one wins), sent as ONE
                               DataChangeNotification per publish; client_sub.go / subscription.go hand messages over in
                               order (blocking sends).
   The environment picks the interleaving: the event list is the schedule. *)
From Coq Require Import NArith ZArith Bool List.
Import ListNotations.
Open Scope N_scope.

Definition hv := (N * Z)%type.        (* client handle, value *)

Inductive mevent :=
| MWrite (n : N) (v : Z)      (* dispatcher: Node.SetAttribute(Value, v) *)
| MNotify (n : N)             (* dispatcher: ChangeNotification(n) that follows the write *)
| MAdd (n : N)                (* monitor: AddMonitorItems for node n (client handle allocated, item created) *)
| MInit (h : N)               (* server: the background ChangeNotification started by CreateMonitoredItems *)
| MRemove (h : N)             (* monitor: RemoveMonitorItems *)
| MCollect                    (* subscription run loop: NotifyChannel -> publishQueue *)
| MPublish                    (* subscription run loop: publishQueue -> one DataChangeNotification *)
| MDeliver                    (* monitor pump: next notification -> DataChangeMessages *)
| MDrop.                      (* monitor pump: next notification dropped (consumer buffer full) *)

Record mstate := {
  m_store : list (N * Z);          (* node -> current value (absent = 0) *)
  m_dirty : list N;                (* written, ChangeNotification not yet run *)
  m_next : N;                      (* nextClientHandle *)
  m_items : list (N * N);          (* handle -> node: NodeMonitor.handles and the server's monitored items *)
  m_reg : list (N * N);            (* every (handle, node) ever registered *)
  m_pinit : list N;                (* handles whose initial notification has not been produced yet *)
  m_nch : list hv;                 (* NotifyChannel, oldest first *)
  m_pq : list hv;                  (* publishQueue: at most one entry per handle *)
  m_msgs : list (list hv);         (* notifications on their way to the pump, oldest first *)
  m_deliv : list (N * N * Z);      (* delivered DataChangeMessages (handle, NodeID, value), oldest first *)
  m_errs : nat }.                  (* "handle not found" messages *)

Definition minit : mstate :=
  {| m_store := []; m_dirty := []; m_next := 100; m_items := []; m_reg := []; m_pinit := []; m_nch := []; m_pq := [];
     m_msgs := []; m_deliv := []; m_errs := 0 |}.

Fixpoint sget (st : list (N * Z)) (n : N) : Z :=
  match st with [] => 0%Z | (m, v) :: r => if N.eqb m n then v else sget r n end.
Definition sset (st : list (N * Z)) (n : N) (v : Z) : list (N * Z) := (n, v) :: st.

Fixpoint lookup (l : list (N * N)) (h : N) : option N :=
  match l with [] => None | (k, n) :: r => if N.eqb k h then Some n else lookup r h end.

(* one (handle, current value) per item monitoring node n *)
Definition notifs_for (items : list (N * N)) (st : list (N * Z)) (n : N) : list hv :=
  map (fun hn => (fst hn, sget st n)) (filter (fun hn => N.eqb (snd hn) n) items).

(* publishQueue[h] = v  (a Go map: the entry for h is replaced; order inside one notification is irrelevant) *)
Definition pq_set (pq : list hv) (h : N) (v : Z) : list hv :=
  filter (fun e => negb (N.eqb (fst e) h)) pq ++ [(h, v)].

Definition deliver_one (items : list (N * N)) (acc : list (N * N * Z) * nat) (e : hv) : list (N * N * Z) * nat :=
  match lookup items (fst e) with
  | Some n => (fst acc ++ [(fst e, n, snd e)], snd acc)
  | None => (fst acc, S (snd acc))
  end.

Definition mstep (s : mstate) (e : mevent) : mstate :=
  match e with
  | MWrite n v =>
      {| m_store := sset (m_store s) n v; m_dirty := n :: m_dirty s; m_next := m_next s; m_items := m_items s;
         m_reg := m_reg s; m_pinit := m_pinit s; m_nch := m_nch s; m_pq := m_pq s; m_msgs := m_msgs s;
         m_deliv := m_deliv s; m_errs := m_errs s |}
  | MNotify n =>
      if existsb (N.eqb n) (m_dirty s) then
        {| m_store := m_store s; m_dirty := filter (fun m => negb (N.eqb m n)) (m_dirty s); m_next := m_next s;
           m_items := m_items s; m_reg := m_reg s; m_pinit := m_pinit s;
           m_nch := m_nch s ++ notifs_for (m_items s) (m_store s) n; m_pq := m_pq s; m_msgs := m_msgs s;
           m_deliv := m_deliv s; m_errs := m_errs s |}
      else s
  | MAdd n =>
      let h := m_next s + 1 in
      {| m_store := m_store s; m_dirty := m_dirty s; m_next := h; m_items := (h, n) :: m_items s;
         m_reg := (h, n) :: m_reg s; m_pinit := h :: m_pinit s; m_nch := m_nch s; m_pq := m_pq s; m_msgs := m_msgs s;
         m_deliv := m_deliv s; m_errs := m_errs s |}
  | MInit h =>
      if existsb (N.eqb h) (m_pinit s) then
        {| m_store := m_store s; m_dirty := m_dirty s; m_next := m_next s; m_items := m_items s; m_reg := m_reg s;
           m_pinit := filter (fun k => negb (N.eqb k h)) (m_pinit s);
           m_nch := m_nch s ++ match lookup (m_items s) h with
                               | Some n => notifs_for (m_items s) (m_store s) n
                               | None => []
                               end;
           m_pq := m_pq s; m_msgs := m_msgs s; m_deliv := m_deliv s; m_errs := m_errs s |}
      else s
  | MRemove h =>
      {| m_store := m_store s; m_dirty := m_dirty s; m_next := m_next s;
         m_items := filter (fun hn => negb (N.eqb (fst hn) h)) (m_items s); m_reg := m_reg s; m_pinit := m_pinit s;
         m_nch := m_nch s; m_pq := m_pq s; m_msgs := m_msgs s; m_deliv := m_deliv s; m_errs := m_errs s |}
  | MCollect =>
      match m_nch s with
      | [] => s
      | (h, v) :: r =>
          {| m_store := m_store s; m_dirty := m_dirty s; m_next := m_next s; m_items := m_items s; m_reg := m_reg s;
             m_pinit := m_pinit s; m_nch := r; m_pq := pq_set (m_pq s) h v; m_msgs := m_msgs s; m_deliv := m_deliv s;
             m_errs := m_errs s |}
      end
  | MPublish =>
      match m_pq s with
      | [] => s
      | _ :: _ =>
          {| m_store := m_store s; m_dirty := m_dirty s; m_next := m_next s; m_items := m_items s; m_reg := m_reg s;
             m_pinit := m_pinit s; m_nch := m_nch s; m_pq := []; m_msgs := m_msgs s ++ [m_pq s]; m_deliv := m_deliv s;
             m_errs := m_errs s |}
      end
  | MDeliver =>
      match m_msgs s with
      | [] => s
      | m :: r =>
          let '(d, er) := fold_left (deliver_one (m_items s)) m (m_deliv s, m_errs s) in
          {| m_store := m_store s; m_dirty := m_dirty s; m_next := m_next s; m_items := m_items s; m_reg := m_reg s;
             m_pinit := m_pinit s; m_nch := m_nch s; m_pq := m_pq s; m_msgs := r; m_deliv := d; m_errs := er |}
      end
  | MDrop =>
      match m_msgs s with
      | [] => s
      | m :: r =>
          {| m_store := m_store s; m_dirty := m_dirty s; m_next := m_next s; m_items := m_items s; m_reg := m_reg s;
             m_pinit := m_pinit s; m_nch := m_nch s; m_pq := m_pq s; m_msgs := r; m_deliv := m_deliv s;
             m_errs := m_errs s |}
      end
  end.

Definition mrun (evs : list mevent) : mstate := fold_left mstep evs minit.

Definition is_drop (e : mevent) : bool := match e with MDrop => true | _ => false end.

(* nothing in flight and the dispatcher is idle *)
Definition quiescent (s : mstate) : bool :=
  match m_dirty s, m_pinit s, m_nch s, m_pq s, m_msgs s with [], [], [], [], [] => true | _, _, _, _, _ => false end.

(* the last DataChangeMessage delivered for handle h: (NodeID, value) *)
Fixpoint lastd (h : N) (l : list (N * N * Z)) : option (N * Z) :=
  match l with
  | [] => None
  | d :: r => match lastd h r with
              | Some x => Some x
              | None => if N.eqb (fst (fst d)) h then Some (snd (fst d), snd d) else None
              end
  end.
Definition last_delivered (s : mstate) (h : N) : option (N * Z) := lastd h (m_deliv s).

(* executable statement of convergence, used for the correspondence check too *)
Definition converged (s : mstate) : bool :=
  forallb (fun hn => match last_delivered s (fst hn) with
                     | Some (n, v) => N.eqb n (snd hn) && Z.eqb v (sget (m_store s) (snd hn))
                     | None => false
                     end) (m_items s).
