#!/bin/bash
# seedbatch.sh <seed> <ID>[,<ID>..] ...   run seedcheck for several seeds sequentially, logs under /verif/work/seedlogs
mkdir -p /verif/work/seedlogs
while [ $# -ge 2 ]; do
  s=$1; ids=${2//,/ }; shift 2
  python3 /verif/tools/seedcheck.py /verif/seeded/$s $ids > /verif/work/seedlogs/$s.log 2>&1
  /verif/tools/scratch.sh rm sc-$s >/dev/null 2>&1
  echo "$s: $(grep -E '^\{"applied"' /verif/work/seedlogs/$s.log | cut -c1-400)"
done
