#!/bin/bash
# tools/scratch.sh new <name>   : create /tmp/vs-<name>/{repo,verif}: a git worktree of /repo HEAD and a copy of /verif
#                                 whose checks run against that worktree (so /repo itself is never touched).
#                                 Then: (cd /tmp/vs-<name>/repo && git apply patch.diff); /tmp/vs-<name>/verif/check C38
# tools/scratch.sh rm <name>    : remove both (always do this when done).
set -e
cmd=$1; name=$2
[ -n "$name" ] || { echo "usage: $0 new|rm <name>"; exit 2; }
d=/tmp/vs-$name
case "$cmd" in
 new)
  rm -rf "$d"; mkdir -p "$d"
  git -C /repo worktree prune
  git -C /repo worktree add --detach "$d/repo" HEAD >/dev/null
  rsync -a --exclude .git --exclude 'work/*/' --exclude 'work/.*' /verif/ "$d/verif/" || [ $? -eq 24 ]   # 24 = files vanished while copying (parallel coq builds)
  mkdir -p "$d/verif/work"
  [ -d /verif/work/bin ] && cp -r /verif/work/bin "$d/verif/work/" || true
  echo "$d/repo" > "$d/verif/.repo_path"
  sed -i "s|=> /repo|=> $d/repo|" "$d/verif/go/go.mod"
  echo "scratch repo:  $d/repo"
  echo "scratch verif: $d/verif   (run $d/verif/check <ID>)"
  ;;
 rm)
  git -C /repo worktree remove --force "$d/repo" 2>/dev/null || true
  rm -rf "$d"
  git -C /repo worktree prune
  ;;
 *) echo "usage: $0 new|rm <name>"; exit 2;;
esac
