#!/usr/bin/env python3
"""seedcheck.py <seed_worktree_or_dir> <ID> [more IDs]  — confirm a seeded breaking change and run our checks on it.

<dir>/_seed (or <dir> itself) must hold patch.diff and meta.json. Steps:
  1. scratch copy (tools/scratch.sh), apply patch, go build ./..., full test suite (only the known offline
     failure TestResolveEndpoint is tolerated);
  2. run ./check <ID> in the scratch verif for each ID given; report VIOLATION lines.
The demonstration (fails with / passes without the patch) is run separately (its command differs per seed)."""
import json, os, subprocess, sys, time
d = os.path.abspath(sys.argv[1].rstrip("/"))
ids = sys.argv[2:]
sd = os.path.join(d, "_seed") if os.path.isdir(os.path.join(d, "_seed")) else d
patch = os.path.join(sd, "patch.diff")
name = "sc-" + os.path.basename(d).replace("seed-", "")
env = dict(os.environ, GOFLAGS="-mod=mod", GOPROXY="off", GOSUMDB="off", GOTOOLCHAIN="local")
def sh(c, cwd=None, t=1800):
    p = subprocess.run(c, shell=True, executable="/bin/bash", cwd=cwd, env=env, stdout=subprocess.PIPE, stderr=subprocess.STDOUT, text=True, timeout=t)
    return p.returncode, p.stdout
print(sh("/verif/tools/scratch.sh new " + name)[1])
repo, verif = "/tmp/vs-%s/repo" % name, "/tmp/vs-%s/verif" % name
rc, out = sh("git apply --whitespace=nowarn " + patch, cwd=repo)
print("apply rc=%d %s" % (rc, out))
if rc != 0:
    rc, out = sh("git apply --3way --whitespace=nowarn " + patch, cwd=repo); print("apply --3way rc=%d %s" % (rc, out))
rep = {"applied": rc == 0}
# effective patch against this HEAD (after a possible 3-way merge), used for revert/re-apply below
sh("git add -N . ", cwd=repo)
eff = "/tmp/vs-%s/eff.diff" % name
open(eff, "w").write(sh("git diff HEAD", cwd=repo)[1]); sh("git reset -q", cwd=repo)
patch = eff
rc, out = sh("go build ./... && go build -tags verif ./...", cwd=repo); print("build rc=%d %s" % (rc, out[-1500:])); rep["build_ok"] = rc == 0
rc, out = sh("go test -vet=off -count=1 -timeout 25m ./... 2>&1 | grep -E '^(--- FAIL|FAIL|ok|panic)' ", cwd=repo)
fails = [l for l in out.splitlines() if l.startswith("--- FAIL") and "TestResolveEndpoint" not in l]
pk = [l for l in out.splitlines() if l.startswith("FAIL") and "opcua/uacp" not in l and l.strip() != "FAIL"]
if fails or pk:   # the machine is shared and loaded: re-run failing packages once, alone
    pkgs = sorted({l.split()[1].replace("github.com/gopcua/opcua", ".") for l in pk})
    rc, out2 = sh("go test -vet=off -count=1 -p 1 -timeout 25m %s 2>&1 | grep -E '^(--- FAIL|FAIL|ok|panic)' " % " ".join(pkgs or ["./..."]), cwd=repo)
    fails = [l for l in out2.splitlines() if l.startswith("--- FAIL") and "TestResolveEndpoint" not in l]
    pk = [l for l in out2.splitlines() if l.startswith("FAIL") and "opcua/uacp" not in l and l.strip() != "FAIL"]
print("suite: unexpected failing tests:", fails, pk); rep["suite_ok"] = not fails and not pk
# demonstration: must FAIL with the patch and PASS without it
try:
    meta = json.load(open(os.path.join(sd, "meta.json")))
except Exception:
    meta = {}
dm = meta.get("demo")
if dm:
    import shutil
    dst = os.path.join(repo, dm["copy_to"])
    if dm["copy_to"].endswith("/"):
        os.makedirs(dst, exist_ok=True); dst = os.path.join(dst, os.path.basename(dm["file"]))
    shutil.copy(os.path.join(sd, dm["file"]), dst)
    cmd = "go test %s -vet=off -count=1 -run '%s' %s 2>&1 | tail -15" % (("-tags " + dm["tags"]) if dm.get("tags") else "", dm["run"], dm["pkg"])
    rc1, o1 = sh(cmd + "; exit ${PIPESTATUS[0]}", cwd=repo)
    sh("git apply -R --whitespace=nowarn " + patch, cwd=repo)
    rc2, o2 = sh(cmd + "; exit ${PIPESTATUS[0]}", cwd=repo)
    sh("git apply --whitespace=nowarn " + patch, cwd=repo)
    os.remove(dst)
    print("demo with patch rc=%d (want !=0); without patch rc=%d (want 0)" % (rc1, rc2))
    if rc1 == 0 or rc2 != 0:
        print(o1[-1200:]); print(o2[-1200:])
    rep["demo_fails_with_patch"] = rc1 != 0
    rep["demo_passes_without_patch"] = rc2 == 0
rep["checks"] = {}
for i in ids:
    t0 = time.time()
    rc, out = sh("%s/check %s" % (verif, i), t=3000)
    v = [l for l in out.splitlines() if l.startswith("VIOLATION") or l.startswith("KNOWN-FINDING")]
    print("check %s rc=%d (%.0fs)\n  %s" % (i, rc, time.time() - t0, "\n  ".join(v) if v else out[-800:]))
    rep["checks"][i] = {"rc": rc, "lines": v}
    for l in v:
        if "replay=" in l:
            rp = l.split("replay=")[1].split()[0]
            try:
                print("  replay:", open(rp).read()[:1200])
            except Exception as e:
                print("  (no replay file)", e)
            break
print(json.dumps(rep))
if meta:
    meta["confirmed"] = {"by": "tools/seedcheck.py in a scratch worktree of /repo HEAD", "repo_head": sh("git rev-parse --short HEAD", cwd=repo)[1].strip(), "result": rep, "when": time.strftime("%Y-%m-%d %H:%M")}
    json.dump(meta, open(os.path.join(sd, "meta.json"), "w"), indent=1)
print("scratch left at /tmp/vs-%s  (remove: /verif/tools/scratch.sh rm %s)" % (name, name))
