#!/bin/bash
# run the thorough tier of every check once, sequentially (hours); prints one line per property
cd /verif
for i in $(seq -w 1 38); do
  out=$(timeout 5400 ./check C$i --tier thorough 2>&1)
  echo "C$i: $(echo "$out" | grep -E 'VIOLATION|evidence written' | cut -c1-200 | tr '\n' ' ')"
done
