#!/bin/bash
# loadtest.sh [N]: run every quick check once on the unchanged tree while N busy loops (default 24) load the machine;
# prints any VIOLATION line. Checks must not raise false alarms under load.
N=${1:-24}
pids=()
for i in $(seq $N); do ( while :; do :; done ) & pids+=($!); done
trap 'kill ${pids[@]} 2>/dev/null' EXIT
cd /verif
for i in $(seq -w 1 38); do
  out=$(timeout 3000 ./check C$i 2>&1)
  echo "C$i: $(echo "$out" | grep -E 'VIOLATION|evidence written' | tr '\n' ' ')"
done
