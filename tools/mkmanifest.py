#!/usr/bin/env python3
"""Assemble MANIFEST.json from engines/meta/*.json (one fragment per claimed property)."""
import json, os, glob, subprocess
HERE = os.path.dirname(os.path.dirname(os.path.abspath(__file__)))
props = [json.loads(l)["id"] for l in open(os.path.join(HERE, "properties.jsonl"))]
checks, claimed = [], set()
for f in sorted(glob.glob(os.path.join(HERE, "engines/meta/C*.json"))):
    m = json.load(open(f))
    pid = m["property_id"]
    claimed.add(pid)
    checks.append({
        "property_id": pid,
        "quick_cmd": "./check %s --tier quick" % pid,
        "thorough_cmd": "./check %s --tier thorough" % pid,
        "evidence_file": "/verif/evidence/%s.json" % pid,
        "replay_cmd_template": "./check %s --replay {path}" % pid,
        "engine": m.get("engine", ""),
        "level_claimed": m["level_claimed"],
        "level_note": m["level_note"],
        "technique": m.get("technique", "machine-checked proof in Coq + model/implementation correspondence"),
    })
na_file = os.path.join(HERE, "engines/meta/not_applicable.json")
na_reasons = json.load(open(na_file)) if os.path.exists(na_file) else {}
na = [{"property_id": p, "reason": na_reasons.get(p, "check not built yet in this round (design in DESIGN.md section 6); not claimed until its theorem and correspondence run")} for p in props if p not in claimed]
hooks = []
try:
    out = subprocess.run(["git", "-C", "/repo", "log", "--format=%H %s"], capture_output=True, text=True).stdout
    hooks = [l.split()[0] for l in out.splitlines() if " verif hook" in l]
except Exception:
    pass
man = {
    "version": 1,
    "setup_cmd": "./check setup",
    "hooks": {
        "guard": "verif",
        "enable": "go build -tags verif. Hook commits add files that start with //go:build verif (*/export_verif*.go, internal/verifhook/verifhook_verif.go) plus package internal/verifhook whose Point(name) is an empty, inlined function without the tag, and one-line `verifhook.Point(\"...\")` calls (added lines only, nothing rewritten) at synchronisation boundaries in uasc/secure_channel.go; with the tag off the calls compile to nothing and the suite passes",
        "baseline_off_cmd": "cd /repo && go build ./... && go test -vet=off -count=1 -timeout 25m ./...",
        "source_commits": hooks,
        "add_only": True,
    },
    "engines": [],
    "checks": checks,
    "not_applicable": na,
    "notes": "All checks: ./check <ID> --tier quick|thorough. Technique: machine-checked proof in Coq 8.16.1 over (a) Gallina regenerated from /repo by go/cmd/translate and (b) hand-written models tied to the code by differential correspondence evaluated with vm_compute. See DESIGN.md.",
}
json.dump(man, open(os.path.join(HERE, "MANIFEST.json"), "w"), indent=1)
open(os.path.join(HERE, "MANIFEST.hooks"), "w").write(
    "guard: Go build tag `verif`\nfiles (add-only, each starts with //go:build verif):\n" +
    subprocess.run("cd /repo && git grep -l '^//go:build verif' | sort", shell=True, capture_output=True, text=True).stdout +
    "commits:\n" + "\n".join(hooks) + "\n")
print("claimed", len(checks), "not_applicable", len(na))
