#!/usr/bin/env python3
"""Print the prompt for an independent 'seeded breakage' agent for property <ID> (only the property text + a worktree)."""
import json, sys, subprocess, os
pid = sys.argv[1]; tag = sys.argv[2] if len(sys.argv) > 2 else "a"
p = [json.loads(l) for l in open("/verif/properties.jsonl") if json.loads(l)["id"] == pid][0]
wt = "/tmp/seed-%s-%s" % (pid, tag)
if not os.path.exists(wt):
    subprocess.run(["git", "-C", "/repo", "worktree", "add", "--detach", wt, "HEAD"], check=True, capture_output=True)
print(f"""You are helping test a verification effort by playing the adversary. The Go library gopcua/opcua (an OPC-UA protocol stack: binary codec, UACP transport, secure channel, client, server) is checked out as a scratch git worktree at {wt} (work ONLY there; never touch /repo or /verif, do not read /verif).

A semantic property that should hold of this library:

  Title: {p['title']}
  Statement: {p['statement']}
  Quantified over: {p['quantifier']['text']}

YOUR TASK: produce a realistic change to the library's source (non-test .go files, not files ending in _verif.go / guarded by the build tag `verif`) that BREAKS this property while the project still compiles (`go build ./...`) and the existing test suite still passes. The change should look like something a developer could plausibly commit (a refactoring slip, an off-by-one, a dropped guard, a wrong constant, an optimisation that forgets a case, two sites that each look fine alone) — not a blatant sabotage — and it should need something SPECIFIC to manifest (a particular input or size, a particular interleaving or timing, a multi-step sequence of operations, a fault at a particular point, an unusual configuration), not something ordinary use would expose at once.

Deliver, inside {wt}/_seed/ (create it):
  1. patch.diff  — `git diff` of your change to the library source (only the library change, not the demo).
  2. a demonstration: a Go test file or small program (put it under {wt}/_seed/demo/, with a README line saying how to run it) that FAILS with the change applied and PASSES without it, showing the property violated on the real code.
  3. meta.json — {{"property": "{pid}", "summary": "...", "needs": "what specific input/schedule/sequence it needs to manifest", "files": [...], "demo_cmd": "..."}}

Check yourself before finishing: (a) with the patch: `go build ./...` OK and the existing tests of the packages you touched pass (`go test -vet=off -count=1 ./<pkg>/...`; run the whole suite `go test -vet=off -count=1 ./...` once if it takes < 10 min); (b) the demo fails with the patch and passes with `git stash`/without it. NEVER use `git stash` (the stash list is shared with other worktrees): to test without your change use `git diff > /tmp/p.diff; git apply -R /tmp/p.diff; …; git apply /tmp/p.diff`. The only pre-existing offline failure of the suite is TestResolveEndpoint in ./uacp (needs DNS). Environment: offline; in every shell `export GOFLAGS=-mod=mod GOPROXY=off GOSUMDB=off GOTOOLCHAIN=local`. A demo that needs an external module cannot be fetched; use only the standard library and the repo itself (a demo test may live inside the package directory while you run it, but deliver it under _seed/demo and say where to copy it).

Leave the worktree with the patch APPLIED and the _seed directory filled in. In your final message give: the summary, what it needs to manifest, the exact commands you ran and their results.""")
