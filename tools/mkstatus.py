#!/usr/bin/env python3
"""Rewrite DESIGN.md sections 0.1 (status per property) and 0.2 (seeded changes) from engines/meta, coq/Props,
known_findings.txt, evidence/ and seeded/*/meta.json + seeded/RESULTS.json."""
import json, glob, os, re
V = "/verif"
props = {json.loads(l)["id"]: json.loads(l) for l in open(V + "/properties.jsonl")}
known, fixed = {}, {}
for ln in open(V + "/known_findings.txt"):
    m = re.match(r"known:\s+property=(\S+)\s+key=(\S+)", ln)
    if m: known.setdefault(m.group(1), []).append(m.group(2))
    m = re.match(r"fixed:\s+property=(\S+)\s+(\S+)", ln)
    if m: fixed.setdefault(m.group(1), []).append(m.group(2))
rows = ["| Id | Level (first words of the claim) | Theorems in Props | Translated (Gen) inputs | fix: commits | known findings | quick wall (s) |", "|---|---|---|---|---|---|---|"]
for pid in sorted(props):
    mf = V + "/engines/meta/%s.json" % pid
    if not os.path.exists(mf):
        rows.append("| %s | not claimed | | | | | |" % pid); continue
    m = json.load(open(mf))
    txt = m["level_claimed"]["text"]
    lvl = re.split(r"[:.(]", txt)[0][:60]
    pf = V + "/coq/Props/%s.v" % pid
    src = open(pf).read() if os.path.exists(pf) else ""
    thms = re.findall(r"^\s*(?:Theorem|Corollary)\s+(\w+)", src, re.M)
    gens = sorted(set(re.findall(r"Gen\.(\w+)", src)))
    # also Gen imports reached through Model/Proofs are not listed; say so in the text
    ev = V + "/evidence/%s.json" % pid
    wall = ""
    if os.path.exists(ev):
        try: wall = "%.0f" % json.load(open(ev))["wall_s"]
        except Exception: pass
    nref = len([t for t in thms if "refuted" in t])
    npar = len([t for t in thms if "partial" in t])
    rows.append("| %s | %s | %d (%d refuted, %d partial) | %s | %s | %s | %s |" % (
        pid, lvl, len(thms), nref, npar, ", ".join(gens) or "—", ", ".join(fixed.get(pid, [])) or "—", ", ".join(known.get(pid, [])) or "—", wall))
s01 = "\n".join(rows)
res = {}
if os.path.exists(V + "/seeded/RESULTS.json"):
    res = json.load(open(V + "/seeded/RESULTS.json"))
rows = ["| Seed | Property | What the change is / what it needs | Confirmed (builds, suite passes, demo fails with / passes without) | Verdict of our checks |", "|---|---|---|---|---|"]
for d in sorted(glob.glob(V + "/seeded/*/")):
    name = os.path.basename(d.rstrip("/"))
    try: m = json.load(open(d + "meta.json"))
    except Exception: continue
    r = res.get(name) or (m.get("confirmed") or {}).get("result") or {}
    conf = "not run yet"
    if r:
        conf = "yes" if (r.get("applied") and r.get("build_ok") and r.get("suite_ok") and r.get("demo_fails_with_patch") and r.get("demo_passes_without_patch")) else \
            "applied=%s build=%s suite=%s demo_fail=%s demo_pass=%s" % (r.get("applied"), r.get("build_ok"), r.get("suite_ok"), r.get("demo_fails_with_patch"), r.get("demo_passes_without_patch"))
    verd = []
    for cid, c in (r.get("checks") or {}).items():
        lines = c.get("lines", [])
        viol = [l for l in lines if l.startswith("VIOLATION")]
        if any("no-failing-input-found" not in l for l in viol): v = "caught, concrete replay"
        elif viol: v = "caught (broken proof/tie), no-failing-input-found"
        else: v = "MISSED"
        verd.append("%s: %s" % (cid, v))
    summ = (m.get("summary", "")[:230] + " NEEDS: " + str(m.get("needs", ""))[:200]).replace("|", "/").replace("\n", " ")
    rows.append("| %s | %s | %s | %s | %s |" % (name, m.get("property", name.split("-")[0]), summ, conf, "; ".join(verd) or "not run yet"))
s02 = "\n".join(rows)
# 0.3 findings
fx, kn = [], []
for ln in open(V + "/known_findings.txt"):
    ln = ln.strip()
    m = re.match(r"fixed:\s+property=(\S+)\s+(\S+)\s+(.*)$", ln)
    if m: fx.append("| %s | `%s` | %s |" % (m.group(1), m.group(2), m.group(3).replace("|", "/")[:400]))
    m = re.match(r"known:\s+property=(\S+)\s+key=(\S+)\s+(.*)$", ln)
    if m: kn.append("| %s | `%s` | %s |" % (m.group(1), m.group(2), m.group(3).replace("|", "/")[:600]))
s03 = ("**Genuine defects repaired in /repo** (one `fix:` commit each; the model follows the fixed code, the pre-fix behaviour is kept as a `_refuted_before_fix`/regression theorem and as a corpus/regression case; a `fixed:` entry suppresses nothing):\n\n| Property | Commit | What failed |\n|---|---|---|\n" + "\n".join(sorted(fx)) +
       "\n\n**Genuine defects recorded, not repaired** (`known:` entries of known_findings.txt; each is refuted on the faithful model by a `…_refuted_…` theorem with a `vm_compute` witness, replayed on the implementation on every run, printed as `KNOWN-FINDING`, and keyed so that any other failure of the same property is still a VIOLATION):\n\n| Property | Key | What fails, and why it was not repaired |\n|---|---|---|\n" + "\n".join(sorted(kn)) + "\n")
p = V + "/DESIGN.md"
s = open(p).read()
a = s.index("### 0.1 Status per property")
b = s.index("### 0.2 Seeded breaking changes")
c = s.index("### 0.4 False alarms", b)
s = s[:a] + "### 0.1 Status per property\n\n(generated by tools/mkstatus.py from engines/meta, coq/Props, known_findings.txt, evidence/; the full claim text and trusted base per property are in MANIFEST.json)\n\n" + s01 + "\n\n" + \
    "### 0.2 Seeded breaking changes and which check catches them\n\n(generated by tools/mkstatus.py from seeded/*/meta.json and seeded/RESULTS.json; each change was written by an independent sub-agent given only the property text and a scratch worktree, then confirmed by tools/seedcheck.py in a scratch worktree of /repo HEAD)\n\nThree rounds (suffix -a, -b, -c; later rounds were told which spots were already used). How the checks fared WHEN A CHANGE FIRST ARRIVED: roughly a third to a half were reported with a concrete replay at once; the others were either reported only as a broken proof/tie (`no-failing-input-found`) or missed, and each of those led to an extension of a generator, an oracle, a model or a translator pin (see the engines' commit messages `… caught seeded/…`). Round c came in three batches; the last two (18 changes, C02 C04 C06 C08 C10 C11 C14 C15 C17 C20 C23 C24 C28 C30 C34 C36 C37 C38) arrived after the checks were otherwise finished: FIRST-RUN verdicts of those are recorded in seeded/FIRSTRUN-c2.json, and the misses led to the last extensions (C11: forced schedule with the counter preset at the sequence roll-over plus a failed renewal; C17: the real Open path with the caller's context cancelled after Open; C38: real client/server channels on asymmetric HEL/ACK buffer sizes). The table shows the verdicts of the final campaign on the final tree (all checks as committed). Seeds marked superseded no longer break their property after a later `fix:` commit. A seed whose mechanism lies in another property's code (e.g. C07-c in the OPN layout, C12-c in the UACP handshake, C19-c in the receive loop) is judged by the checks listed in its row.\n\n" + s02 + "\n\n### 0.3 Findings\n\n(generated from known_findings.txt)\n\n" + s03 + "\n" + s[c:]
open(p, "w").write(s)
print("DESIGN.md sections 0.1/0.2 rewritten")
