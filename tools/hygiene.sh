#!/bin/bash
# no Admitted/admit/Axiom/Parameter/Conjecture/guard switches anywhere in the development (Gen included); comments ignored
python3 - <<'PY'
import re,glob,sys
bad=0
forb=re.compile(r'\b(Admitted|admit|Axiom|Axioms|Parameter|Parameters|Conjecture|Conjectures|Admit Obligations|Unset Guard Checking|Unset Positivity Checking|Unset Universe Checking|bypass_check|native_compute)\b')
def strip(t):
    out=[];d=0;i=0
    while i<len(t):
        if t.startswith('(*',i): d+=1;i+=2;continue
        if t.startswith('*)',i) and d>0: d-=1;i+=2;continue
        if d==0: out.append(t[i])
        elif t[i]=='\n': out.append('\n')
        i+=1
    return ''.join(out)
for f in sorted(glob.glob('/verif/coq/**/*.v',recursive=True)):
    depth=0
    txt=strip(open(f).read())
    txt=re.sub(r'"[^"]*"','""',txt)
    for i,l in enumerate(txt.splitlines(),1):
        if forb.search(l): print("HYGIENE: %s:%d: %s"%(f,i,l.strip()[:120])); bad=1
        if re.match(r'\s*Section\s+\w+',l): depth+=1
        elif re.match(r'\s*End\s+\w+\s*\.',l) and depth>0: depth-=1
        elif depth==0 and re.match(r'\s*(Variable|Variables|Hypothesis|Hypotheses|Context)\b',l):
            print("HYGIENE: %s:%d: %s outside a Section"%(f,i,l.strip())); bad=1
print("HYGIENE: clean" if not bad else "HYGIENE: FAILED")
sys.exit(bad)
PY
