#!/usr/bin/env python3
"""Run seedcheck for every seed (or the ones given) against its property's check; write seeded/RESULTS.json and a table.
usage: seedcampaign.py [-j N] [seed ...]"""
import json, os, subprocess, sys, concurrent.futures, re
EXTRA = {"C06-a": ["C07"], "C20-a": ["C34"], "C34-a": ["C20"], "C09-a": ["C13", "C30"], "C13-a": ["C09"], "C38-a": ["C07"], "C08-a": ["C07"], "C14-a": ["C08"], "C37-a": ["C08", "C07"], "C16-a": [], "C05-b": ["C06", "C13"], "C07-c": ["C08"], "C12-c": ["C06", "C05"], "C19-c": ["C13"], "C38-c": ["C06", "C07"], "C10-c": ["C16"], "C11-c": ["C16"], "C02-c": ["C13"], "C37-c": ["C30", "C23"], "C08-c": ["C15", "C09"], "C15-c": ["C09"], "C36-c": ["C11"]}
args = sys.argv[1:]
j = 2
if args and args[0] == "-j":
    j = int(args[1]); args = args[2:]
seeds = args or sorted(os.listdir("/verif/seeded"))
seeds = [s for s in seeds if os.path.isdir("/verif/seeded/" + s)]
os.makedirs("/verif/work/seedlogs", exist_ok=True)
def run(s):
    ids = [s.split("-")[0]] + EXTRA.get(s, [])
    log = "/verif/work/seedlogs/%s.log" % s
    with open(log, "w") as f:
        subprocess.run(["python3", "/verif/tools/seedcheck.py", "/verif/seeded/" + s] + ids, stdout=f, stderr=subprocess.STDOUT, timeout=7200)
    subprocess.run(["/verif/tools/scratch.sh", "rm", "sc-" + s], capture_output=True)
    rep = None
    for l in open(log):
        if l.startswith('{"applied"'):
            rep = json.loads(l)
    print(s, json.dumps(rep)[:300], flush=True)
    return s, rep
res = {}
rp = "/verif/seeded/RESULTS.json"
if os.path.exists(rp):
    res = json.load(open(rp))
with concurrent.futures.ThreadPoolExecutor(max_workers=j) as ex:
    for s, rep in ex.map(run, seeds):
        res[s] = rep
        json.dump(res, open(rp, "w"), indent=1, sort_keys=True)
