#!/bin/bash
# seedstore.sh <seed worktree> <ID> <tag>: copy _seed/{patch.diff,meta.json,demo} to /verif/seeded/<ID>-<tag>/ and remove the worktree
set -e
wt=$1; id=$2; tag=$3; dst=/verif/seeded/$id-$tag
mkdir -p $dst; cp -r $wt/_seed/patch.diff $wt/_seed/meta.json $wt/_seed/demo $dst/ 2>/dev/null || true
[ -f $wt/_seed/patch.diff ] || (cd $wt && git diff > $dst/patch.diff)
git -C /repo worktree remove --force $wt; git -C /repo worktree prune; ls $dst
